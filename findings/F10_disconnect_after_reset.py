import asyncio, socket, struct
from aioswitcher.api import SwitcherType1Api
async def main():
    async def handle(r, w):
        await r.read(100)
        s = w.get_extra_info("socket"); s.setsockopt(socket.SOL_SOCKET, socket.SO_LINGER, struct.pack("ii", 1, 0)); w.close()   # device aborts the connection (reboot)
    srv = await asyncio.start_server(handle, "127.77.1.9", 9957)
    api = SwitcherType1Api("127.77.1.9", "ab1c2d", "18")
    await api.connect()
    try: await api.get_state()
    except Exception as e: print("operation:", type(e).__name__)
    await asyncio.sleep(0.1)
    try: await api.disconnect(); print("disconnect returned")
    except Exception as e: print("disconnect raised", type(e).__name__)
    print("connected after disconnect:", api.connected)
    srv.close()
asyncio.run(main())
