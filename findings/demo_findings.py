"""Demonstrations of the genuine defects F1..F9 found in TomerFi/aioswitcher at the pinned commit.

Usage:  PYTHONPATH=<repo>/src TZ=UTC /venv/bin/python demo_findings.py [F1 ... F9]
Each demonstration prints PASS when the property holds on the witness and FAIL (exit status 1)
when the defect is present.  On the pinned commit (before the "fix:" commits) all nine print
FAIL; on the repaired tree all nine print PASS.  The witnesses are the ones of the
`Legacy/*_refuted` theorems of the Coq development and of /verif/corpus.
"""
import asyncio, datetime, os, socket, struct, sys, time, warnings
from binascii import unhexlify

import time_machine


def F1():
    """C01/C16: set_message_length must write the little-endian 16-bit total length."""
    from aioswitcher.device.tools import set_message_length
    bad = []
    for body in (2, 5, 100, 251, 252, 300, 2000):   # total length = 4 + body + 4 bytes
        msg = "fef00000" + "ab" * body
        out = set_message_length(msg)
        total = len(unhexlify(out)) + 4
        declared = struct.unpack("<H", unhexlify(out[4:8]))[0]
        if declared != total: bad.append((total, out[4:8]))
    return bad


def F2():
    """C01/C15: the IR command length field must be the little-endian 16-bit payload length."""
    from aioswitcher.api.remotes import SwitcherBreezeCommand
    bad = []
    for n in (5, 12, 15, 16, 255, 256, 300, 2004):
        c = SwitcherBreezeCommand("ab" * n)
        if c.length != struct.pack("<H", n).hex(): bad.append((n, c.length))
    return bad


def F3():
    """C01/C02: a device name must be UTF-8 zero-padded to exactly 32 bytes."""
    from aioswitcher.device.tools import string_to_hexadecimale_device_name
    bad = []
    for name in ("שלום עולם", "café au lait", "😀😀", "ab"):
        out = string_to_hexadecimale_device_name(name)
        if unhexlify(out) != name.encode().ljust(32, b"\0"): bad.append((name, len(out) // 2))
    try:
        out = string_to_hexadecimale_device_name("ש" * 32)        # 64 bytes: must be refused
        bad.append(("32 Hebrew letters accepted", len(out) // 2))
    except ValueError:
        pass
    return bad


def _capture(rel):
    root = os.environ.get("AS_REPO", os.path.dirname(os.path.dirname(sys.modules["aioswitcher"].__file__.rstrip("/"))).rsplit("/src", 1)[0])
    return unhexlify(open(os.path.join(root, "tests/testresources", rel)).read().strip())


def F4():
    """C05: the MAC of a type-2 broadcast sits at bytes 81..86 (after the 4-byte IP at 77..80)."""
    import aioswitcher
    from aioswitcher.bridge import _parse_device_from_datagram
    bad = []
    for rel, want in (("test_device_parsing/test_a_breeze_datagram_produces_device.txt", None),
                      ("test_device_parsing/test_a_runner_datagram_produces_device.txt", None)):
        d = _capture(rel); got = []
        _parse_device_from_datagram(got.append, d)
        mac = ":".join("%02X" % b for b in d[81:87])
        if got[0].mac_address != mac: bad.append((got[0].name, got[0].mac_address, "expected " + mac))
    return bad


def F5():
    """C06: an unknown model code must give no device and a warning, not an exception."""
    import aioswitcher
    from aioswitcher.bridge import _parse_device_from_datagram
    d = bytearray(_capture("test_device_parsing/test_a_power_plug_datagram_produces_device.txt")); d[74:76] = b"\x7f\x7f"
    got = []
    with warnings.catch_warnings(record=True) as w:
        warnings.simplefilter("always")
        try: _parse_device_from_datagram(got.append, bytes(d))
        except Exception as e: return [("raised", type(e).__name__)]
    return [] if (not got and len(w) == 1) else [("devices", len(got), "warnings", len(w))]


def _in_zone(zone, code):
    import subprocess
    env = dict(os.environ, TZ=zone)
    p = subprocess.run([sys.executable, "-c", code], env=env, capture_output=True, text=True)
    return p.stdout.strip() or p.stderr.strip()[-200:]


def F6():
    """C13: "now" must be the local time, like the schedule's start time."""
    code = ("import time_machine\nfrom aioswitcher.schedule import Days\nfrom aioswitcher.schedule.tools import pretty_next_run\n"
            "import datetime\n"
            # Thursday 2023-06-15 01:30 in Asia/Jerusalem (UTC+3) = Wednesday 22:30 UTC
            "with time_machine.travel(1686781800.0, tick=False):\n"
            "    print(pretty_next_run('02:00', {Days.THURSDAY}))\n")
    out = _in_zone("Asia/Jerusalem", code)
    return [] if out == "Due today at 02:00" else [out]


def F7():
    """C13: with today selected and its time passed, the nearest *other* selected day must be named."""
    from aioswitcher.schedule import Days
    from aioswitcher.schedule.tools import pretty_next_run
    bad = []
    # Wednesday 2023-06-14 15:00 UTC
    with time_machine.travel(1686754800.0, tick=False):
        for days, want in (({Days.WEDNESDAY, Days.FRIDAY}, "Due next Friday at 13:00"),
                           ({Days.WEDNESDAY, Days.THURSDAY}, "Due tomorrow at 13:00"),
                           ({Days.WEDNESDAY}, "Due next Wednesday at 13:00")):
            got = pretty_next_run("13:00", days)
            if got != want: bad.append((sorted(d.name for d in days), got, "expected " + want))
    # Sunday 2023-06-18 15:00 UTC
    with time_machine.travel(1687100400.0, tick=False):
        got = pretty_next_run("13:00", {Days.SUNDAY, Days.MONDAY})
        if got != "Due tomorrow at 13:00": bad.append((["MONDAY", "SUNDAY"], got, "expected Due tomorrow at 13:00"))
    return bad


def F8():
    """C17: when start fails on a later port nothing may be left listening."""
    from aioswitcher.bridge import SwitcherBridge
    from aioswitcher.device import SwitcherBase

    async def run():
        s = [socket.socket(socket.AF_INET, socket.SOCK_DGRAM) for _ in range(2)]
        for x in s: x.bind(("0.0.0.0", 0))
        p1, p2 = (x.getsockname()[1] for x in s)
        s[0].close()                       # p1 free, p2 occupied by a foreign socket
        got = []; b = SwitcherBridge(got.append, [p1, p2]); bad = []
        try:
            await b.start(); bad.append("start did not raise")
        except OSError:
            pass
        await asyncio.sleep(0.01)
        probe = socket.socket(socket.AF_INET, socket.SOCK_DGRAM)
        try: probe.bind(("0.0.0.0", p1))
        except OSError: bad.append(("port left bound after a failed start, is_running=%s" % b.is_running))
        finally: probe.close()
        for t in b._transports.values():
            if t and not t.is_closing(): t.close()
        s[1].close(); await asyncio.sleep(0.01)
        return bad
    return asyncio.run(run())


def F9():
    """C11/C02: a string that is not a valid HH:MM must raise."""
    from aioswitcher.schedule.tools import time_to_hexadecimal_timestamp
    bad = []
    for s in ("21:00:30", "21:00:xx", " 21:00", "21:00:"):
        try: bad.append((s, "accepted as", time_to_hexadecimal_timestamp(s)))
        except (ValueError, IndexError): pass
    for s in ("21:00", "1:5", "00:00", "23:59"):
        try: time_to_hexadecimal_timestamp(s)
        except Exception as e: bad.append((s, "rejected", type(e).__name__))
    return bad


if __name__ == "__main__":
    import logging; logging.disable(logging.CRITICAL)
    names = sys.argv[1:] or ["F%d" % i for i in range(1, 10)]
    failed = 0
    for n in names:
        bad = globals()[n]()
        print(("FAIL " if bad else "PASS ") + n + ": " + globals()[n].__doc__.strip() + ("" if not bad else "\n      " + repr(bad)))
        failed += bool(bad)
    sys.exit(1 if failed else 0)
