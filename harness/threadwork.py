"""Runs in a fresh subprocess: several OS threads, released together, make pure calls of the real code - the first calls this process
makes - and then keep repeating them, each call twice in a row, with the interpreter switching threads as often as it can.  A value
that is a function of its arguments is one in every thread, and from the first call on.
stdin: {"module", "fn", "calls": [[args...]...], "expected": [...], "threads": T, "rounds": R}   stdout: JSON list of mismatches."""
import importlib, json, os, sys, threading
sys.path.insert(0, os.path.dirname(os.path.abspath(__file__)))
job = json.load(sys.stdin)
mod = importlib.import_module(job["module"]); f = getattr(mod, job["fn"]); f = getattr(f, "__wrapped__", f)
calls = job["calls"]; expected = job["expected"]; T = job["threads"]; R = job["rounds"]
bad = []; barrier = threading.Barrier(T); done = [0]


def body(t):
    n = len(calls); k0 = (t * max(1, n // T)) % n if job.get("spread", True) else 0
    order = list(range(k0, n)) + list(range(k0))
    barrier.wait()
    for r in range(1 + R):
        for i in order:
            for again in (0, 1):
                try: got = f(*calls[i])
                except BaseException as e: got = "harness saw " + type(e).__name__
                done[0] += 1
                if got != expected[i]:
                    if len(bad) < 5: bad.append({"call": calls[i], "index": i, "got": got, "expected": expected[i], "thread": t, "round": r, "repeat": again})
                    return
        if bad: return


import contextlib
frozen = contextlib.nullcontext()
if job.get("now") is not None:          # a clock that stands still for the whole run (never at a whole second), for values that depend on today
    import time_machine
    frozen = time_machine.travel(float(job["now"]) + 0.37, tick=False)
if job.get("yield_lines"):
    # every line of the library's code ends with this thread offering the interpreter to the others: an interleaving at every statement
    # boundary of the code under test (a fill loop, two stores that belong together) instead of wherever the switch interval falls
    import time as _time
    def tracer(frame, event, arg):
        if "aioswitcher" not in frame.f_code.co_filename: return None
        if event == "line": _time.sleep(0)
        return tracer
    threading.settrace(tracer)
with frozen:
    sys.setswitchinterval(1e-6)
    ts = [threading.Thread(target=body, args=(t,)) for t in range(T)]
    for t in ts: t.start()
    for t in ts: t.join()
    sys.setswitchinterval(0.005)
json.dump({"bad": bad, "done": done[0]}, sys.stdout)
