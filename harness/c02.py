import sys, os, random, subprocess, time, asyncio, collections, logging, datetime as D
sys.path.insert(0, "/repo/src")
import time_machine
logging.disable(logging.CRITICAL)
from unittest.mock import MagicMock
from aioswitcher.api import SwitcherType1Api, SwitcherType2Api, Command
from aioswitcher.schedule import Days
MODEL="/root/scratch/pipeline/build/model"
def run_model(lines):
    p=subprocess.run([MODEL], input="\n".join(lines)+"\n", capture_output=True, text=True, check=True)
    out=p.stdout.split("\n")[:-1]; assert len(out)==len(lines); return out
rnd=random.Random(int(os.environ.get("VERIF_SEED","1")))
H=lambda s: (s.encode().hex() or "-") if isinstance(s,str) else (s.hex() or "-")
DAYS=list(Days)
def rand_name():
    k=rnd.choice(["ascii","heb","acc","emoji","mixed"]); n=rnd.choice([0,1,2,3,10,16,17,31,32,33,40,rnd.randrange(41)])
    alph={"ascii":"abcXYZ 019_-","heb":"אבגדהוזחטי ","acc":"éàüñøß","emoji":"😀🚀𝄞","mixed":"aé😀א"}[k]
    return "".join(rnd.choice(alph) for _ in range(n))
def rand_clock():
    k=rnd.random()
    if k<0.7: return "%02d:%02d"%(rnd.randrange(24),rnd.randrange(60))
    return rnd.choice(["1:5","7:05","21:00:30"," 21:00","21:00 ","2100","24:00","23:60","","ab:cd","21:","::","21:0x","٢١:٠٠","-1:00","9:9","09:9 ","\t3:07","23:59","00:00"])
async def one(kind):
    now=rnd.randrange(1_600_000_000, 2_000_000_000)
    sess=bytes(rnd.randrange(256) for _ in range(4))
    login=bytes(rnd.randrange(256) for _ in range(8))+sess+bytes(rnd.randrange(256) for _ in range(rnd.randrange(0,30)))
    if rnd.random()<0.1: login=login[:rnd.randrange(0,12)]
    replies=[login, rnd.choice([b"\x01", b"", bytes(rnd.randrange(256) for _ in range(20))])]
    devid="%06x"%rnd.randrange(1<<24); key="%02x"%rnd.randrange(256)
    a=b=None; z1=z2=0; days=[]
    t1=kind<=6 or kind==10
    api=(SwitcherType1Api if t1 else SwitcherType2Api)("1.2.3.4",devid,key)
    frames=[]; w=MagicMock(); r=MagicMock(); w.write=lambda x: frames.append(x.hex())
    it=iter(replies)
    async def read(n): return next(it, b"")
    r.read=read; api._writer=w; api._reader=r
    midnight=int(D.datetime.fromtimestamp(now, D.timezone.utc).replace(hour=0,minute=0,second=0).timestamp())
    try:
        with time_machine.travel(float(now), tick=False):
            if kind==1:
                cmd=rnd.choice(list(Command)); z1=rnd.choice([0,1,15,90,-3,71582788,71582789,2**33//60,rnd.randrange(0,10**6)]); a=cmd.value
                await api.control_device(cmd, z1)
            elif kind==2:
                z1=rnd.choice([3599,3600,3601,3659,3660,86339,86340,86341,86399,86400,86401,0,-5,59,rnd.randrange(0,100000)])
                await api.set_auto_shutdown(D.timedelta(seconds=z1, microseconds=rnd.choice([0,0,1,999999])))
            elif kind==3:
                a=rand_name(); await api.set_device_name(a)
            elif kind==4: await api.get_schedules()
            elif kind==5:
                a=str(rnd.randrange(8)); await api.delete_schedule(a)
            elif kind==6:
                a=rand_clock(); b=rand_clock(); z2=midnight
                ds=set(rnd.sample(DAYS, rnd.randrange(0,8))); days=[DAYS.index(d) for d in ds]
                await api.create_schedule(a,b,ds)
            elif kind==7: await api.stop()
            elif kind==8:
                z1=rnd.choice([0,1,50,99,100,rnd.randrange(101)]); await api.set_position(z1)
            elif kind==9: 
                try: await (api.get_shutter_state() if rnd.random()<0.5 else api.get_breeze_state())
                except RuntimeError as e:
                    if len(frames)<2: raise
            else: 
                try: await api.get_state()
                except RuntimeError:
                    if len(frames)<2: raise
        res="ok"
    except Exception as e: res="raised"
    out="".join(f+"|" for f in frames)+res
    if kind==10 and not login: return None   # type-1 get_state checks login success; generic entry 10 does not
    line=" ".join(["op","1",str(kind),H(devid),H(key),str(now),H(a) if a is not None else "-",H(b) if b is not None else "-",str(z1),str(z2),",".join(map(str,days)) or "-",",".join(x.hex() for x in replies)])
    return (kind,a,b,z1,days), out, line
async def main(N):
    rows=[]
    for _ in range(N):
        r=await one(rnd.choice([1,2,3,4,5,6,6,7,8,9,10]))
        if r: rows.append(r)
    mo=[bytes.fromhex(l[3:]).decode() for l in run_model([r[2] for r in rows])]
    dis=[(r[0],r[1],m) for r,m in zip(rows,mo) if r[1]!=m]
    kinds=collections.Counter((r[0][0], r[1].count("|"), r[1].split("|")[-1]) for r in rows)
    print(f"cases={len(rows)} disagreements={len(dis)}"); print(dict(sorted(kinds.items())))
    for d in dis[:6]: print(d[0]); print("  impl ", d[1][-260:]); print("  model", d[2][-260:])
asyncio.run(main(int(sys.argv[1]) if len(sys.argv)>1 else 5000))
