import sys, os, random, subprocess, time, asyncio, collections, struct
sys.path.insert(0, "/repo/src")
import time_machine, logging
logging.disable(logging.CRITICAL)
from unittest.mock import MagicMock
from aioswitcher.api import SwitcherType2Api
from aioswitcher.api.remotes import SwitcherBreezeRemote
from aioswitcher.device import DeviceState, ThermostatMode, ThermostatFanLevel, ThermostatSwing
MODEL="/root/scratch/pipeline/build/model"
def run_model(lines):
    p=subprocess.run([MODEL], input="\n".join(lines)+"\n", capture_output=True, text=True, check=True)
    out=p.stdout.split("\n")[:-1]; assert len(out)==len(lines); return out
rnd=random.Random(int(os.environ.get("VERIF_SEED","1")))
MODES={"AUTO":"aa","DRY":"ad","FAN":"aw","COOL":"ar","HEAT":"ah"}
def gen_irset():
    toggle=rnd.random()<0.5
    rid=rnd.choice(["ELEC7022","ZM079055","ZM079049"]) if rnd.random()<0.4 else rnd.choice(["DLK65863","ELEC7001","X1"])
    keys=[]
    dens=rnd.choice([0.15,0.5,0.95])
    temps=sorted(rnd.sample(range(16,31), rnd.randrange(1,8)))
    for mname,mc in MODES.items():
        if rnd.random()<0.2: continue
        pres=[""]+(["on_"] if toggle else [])
        for pre in pres:
            if mname in ("AUTO","DRY","FAN"):
                cands=[mc]+[f"{mc}_f{f}" for f in range(4)]+[f"{mc}_f{f}_d1" for f in range(4)]
            else:
                cands=[mc]+[f"{mc}{t}" for t in temps]+[f"{mc}{t}_f{f}" for t in temps for f in range(4)]+[f"{mc}{t}_f{f}_d1" for t in temps for f in range(4)]
            for k in cands:
                if rnd.random()<dens: keys.append(pre+k)
    if not toggle and rnd.random()<0.9: keys.append("off")
    if rnd.random()<0.7: keys+= ["FUN_d0","FUN_d1"][:rnd.randrange(1,3)]
    if toggle and rnd.random()<0.3: keys.append("on_")
    rnd.shuffle(keys)
    if rnd.random()<0.3 and keys: keys.append(rnd.choice(keys))   # duplicate key, later wins
    waves=[]
    for i,k in enumerate(keys):
        n=rnd.choice([1,5,20,60,rnd.randrange(1,400)])
        hexcode=(k.upper().encode().hex()+"%04d"%i).upper()[:max(1,n)]
        waves.append({"Key":k,"Para":rnd.choice(["P","NECX|26|32|15,15|15,40|15|T00BE|30|01|ABAB[30]","R"*rnd.randrange(1,30)]),"HexCode":hexcode})
    return {"IRSetID":rid,"OnOffType":1 if toggle else rnd.choice([0,0,2]),"IRWaveList":waves}
def state_reply(on,mode,target,fan,swing,temp10=255,remote=b"ELEC7022"):
    b=bytearray(rnd.randrange(256) for _ in range(rnd.choice([96,109,120])))
    b[76:78]=struct.pack("<H",temp10); b[78]=1 if on else 0; b[79]=mode; b[80]=target; b[81]=(fan<<4)|swing; b[84:92]=remote.ljust(8,b"\0")
    return bytes(b)
LOGIN=bytes.fromhex("fef02c000400a600")+bytes([1,2,3,4])+bytes(20)
async def impl(irset, req, replies, now):
    api=SwitcherType2Api("1.2.3.4","3a20b7","00")
    frames=[]; w=MagicMock(); r=MagicMock(); w.write=lambda b: frames.append(b.hex())
    it=iter(replies)
    async def read(n): return next(it, b"")
    r.read=read; api._writer=w; api._reader=r
    try:
        remote=SwitcherBreezeRemote(irset)
    except Exception as e:
        return None
    try:
        with time_machine.travel(float(now), tick=False):
            resp=await api.control_breeze_device(remote, **req)
        res="ok-successful" if resp.successful else "ok-unsuccessful"
    except RuntimeError: res="RuntimeError"
    except Exception as e: res="other-exception"
    return "".join(f+"|" for f in frames)+res
def enc_waves(irset): return ",".join(":".join(x.encode().hex() or "" for x in (w["Key"],w["Para"],w["HexCode"])) for w in irset["IRWaveList"]) or "-"
def tri(v, on): return "-" if v is None else ("1" if v==on else "0")
async def main(N):
    cases=[]; lines=[]; outs=[]
    for _ in range(N):
        irset=gen_irset()
        req={}
        if rnd.random()<0.5: req["state"]=rnd.choice(list(DeviceState))
        if rnd.random()<0.5: req["mode"]=rnd.choice(list(ThermostatMode))
        if rnd.random()<0.5: req["target_temp"]=rnd.choice([rnd.randrange(0,61), rnd.randrange(16,31)])
        if rnd.random()<0.5: req["fan_level"]=rnd.choice(list(ThermostatFanLevel))
        if rnd.random()<0.5: req["swing"]=rnd.choice(list(ThermostatSwing))
        if rnd.random()<0.3: req["update_state"]=True
        cur=state_reply(rnd.random()<0.5, rnd.choice([1,2,3,4,5,5,4,9]), rnd.randrange(16,31), rnd.randrange(4), rnd.randrange(2))
        replies=[LOGIN, cur, b"\x01\x02", b"\x03"]
        k=rnd.random()
        if k<0.25: replies[rnd.randrange(4)]=b""       # empty reply injected at a step
        elif k<0.3: replies[1]=cur[:rnd.randrange(len(cur))]
        now=rnd.randrange(1,2**32)
        out=await impl(irset, req, replies, now)
        if out is None: continue
        outs.append(out)
        lines.append(" ".join(["breeze","1",b"3a20b7".hex(),b"00".hex(),str(now),irset["IRSetID"].encode().hex(),str(irset["OnOffType"]),enc_waves(irset),
            tri(req.get("state"),DeviceState.ON), req["mode"].name.encode().hex() if "mode" in req else "-", str(req.get("target_temp",0)),
            req["fan_level"].name.encode().hex() if "fan_level" in req else "-", tri(req.get("swing"),ThermostatSwing.ON), "1" if req.get("update_state") else "0",
            ",".join(r.hex() for r in replies) ]))
        cases.append((irset,req))
    t0=time.time(); mo=[bytes.fromhex(l[3:]).decode() for l in run_model(lines)]; t1=time.time()
    dis=[(c,i,m) for c,i,m in zip(cases,outs,mo) if i!=m]
    kinds=collections.Counter((o.count("|"), o.split("|")[-1]) for o in outs)
    print(f"cases={len(cases)} model={t1-t0:.2f}s disagreements={len(dis)}")
    print("frames x outcome:", dict(sorted(kinds.items())))
    for d in dis[:3]:
        print("REQ", d[0][1], "SET", d[0][0]["IRSetID"], d[0][0]["OnOffType"], [w["Key"] for w in d[0][0]["IRWaveList"]][:40]); print(" impl ", d[1][-300:]); print(" model", d[2][-300:])
asyncio.run(main(int(sys.argv[1]) if len(sys.argv)>1 else 3000))
