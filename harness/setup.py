"""Full clean build of the Coq development (full .vo build), the extracted model binary, and a golden self-test.  Offline."""
import os, shutil, subprocess, sys, time
sys.path.insert(0, os.path.dirname(os.path.abspath(__file__)))
import lib


def main():
    t0 = time.time()
    os.makedirs(lib.BUILD, exist_ok=True)
    for dp, _, fs in os.walk(os.path.join(lib.COQ, "theories")):
        for f in fs:
            if f.endswith((".vo", ".vos", ".vok", ".glob", ".aux")): os.remove(os.path.join(dp, f))
    for f in ("Makefile", "Makefile.conf", ".Makefile.d"):
        try: os.remove(os.path.join(lib.COQ, f))
        except OSError: pass
    shutil.rmtree(os.path.join(lib.BUILD, "extract"), ignore_errors=True)
    for f in ("model", ".model.sha"):
        try: os.remove(os.path.join(lib.BUILD, f))
        except OSError: pass
    lib.audit_sources()
    lib.regenerate_constants()
    lib.ensure_makefile()
    out = lib.make("", timeout=3000)
    n = len([l for l in out.split("\n") if l.startswith("COQC")])
    lib.build_model()
    got = lib.run_model([lib.req("sign", "fef0"), lib.req("duration", "23:59", "00:00"), lib.req("weekdays", 2, [0, 6])])
    want = ["ok fef0e1e84af5", "ok 0:01:00", "ok 82"]
    if got != want:
        print("setup: golden self-test of the extracted model failed:", got); sys.exit(1)
    print("setup: %d Coq files compiled, model binary built, self-test ok (%.0f s)" % (n, time.time() - t0))


try: main()
except lib.BuildError as e:
    print("setup failed:", e.what); print(e.log[-3000:]); sys.exit(1)
