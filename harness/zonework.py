"""Runs in a subprocess started with TZ=<zone>: the clock-dependent functions of the real code under a virtual clock.
stdin: {"job": ..., "cases": [...]}   stdout: JSON list, one result per case."""
import asyncio, datetime as D, json, os, struct, sys, time, warnings, zoneinfo
sys.path.insert(0, os.path.dirname(os.path.abspath(__file__)))
import time_machine
for _c in (DeprecationWarning, PendingDeprecationWarning, FutureWarning): warnings.filterwarnings("error", category=_c, module=r"aioswitcher(\..*)?$")     # as in world.py
import logging
class _Sink(logging.Handler):
    def emit(self, record):
        try: record.getMessage()          # render the message as a real handler would (lib.FormattingSink), then drop it
        except Exception: pass
logging.getLogger("aioswitcher").addHandler(_Sink()); logging.getLogger("aioswitcher").propagate = False; logging.getLogger("aioswitcher").setLevel(logging.DEBUG)   # as in check.py: code that only runs while someone is debugging runs here too
from aioswitcher.schedule import Days, tools
from aioswitcher.schedule.parser import get_schedules

DAYS = list(Days)
def at(now):
    """the virtual clock is never at a whole second: a deterministic fraction in (0, 1) is added (what reads the clock must not care)"""
    return float(now) + (int(now) % 997 + 1) / 1000.0
ZONE = os.environ["TZ"]; TZ = zoneinfo.ZoneInfo(ZONE)


def show_schedule(s, with_display):
    f = [s.schedule_id, "1" if s.recurring else "0", "".join(str(x) for x in sorted(DAYS.index(d) for d in s.days)), s.start_time, s.end_time, s.duration]
    if with_display: f.append(s.display)
    return ",".join(f)


def schedules(c, with_display=True, edit=True):
    with time_machine.travel(at(c["now"]), tick=False), warnings.catch_warnings():
        warnings.simplefilter("ignore")
        try:
            first = "|".join(show_schedule(s, with_display) for s in sorted(get_schedules(bytes.fromhex(c["msg"])), key=lambda s: int(s.schedule_id)))
        except Exception: return "raised"
        if int(c["now"]) % 2 or not edit: return first
        # what a listing returns belongs to the application: it edits the day sets it was given (the usual way to change a schedule), then lists again
        try:
            for sch in get_schedules(bytes.fromhex(c["msg"])):
                if isinstance(sch.days, set): sch.days.symmetric_difference_update({DAYS[2], DAYS[5]})
                for name in ("start_time", "end_time", "duration", "display", "schedule_id"):
                    try: setattr(sch, name, "scribbled")
                    except Exception: pass
            again = "|".join(show_schedule(s, with_display) for s in sorted(get_schedules(bytes.fromhex(c["msg"])), key=lambda s: int(s.schedule_id)))
        except Exception as e: again = "raised " + type(e).__name__
        return first if again == first else "%s (listed again after the application edited the day sets of the first listing; first: %s)" % (again, first)


def local_facts(t):
    """independent oracle (zoneinfo, not libc): local date ordinal, weekday, minute of day, second"""
    d = D.datetime.fromtimestamp(t, TZ)
    return [d.toordinal(), d.weekday(), d.hour * 60 + d.minute, d.second]


def clock(c):
    """encode a clock string now; decode it back; with oracle facts about the result"""
    with time_machine.travel(at(c["now"]), tick=False):
        try: hx = tools.time_to_hexadecimal_timestamp(c["s"])
        except Exception as e: return {"enc": "raised", "exc": type(e).__name__}
        try: back = tools.hexadecimale_timestamp_to_localtime(hx.encode())
        except Exception: back = "raised"
        # ... and as a device lists it: the value as the end of a slot that starts at the value encoded before it in this process, and as the
        # start of a slot that ends there (a one-off slot: no days) - a slot's two clock readings are those of its two stamps
        prev = getattr(clock, "prev", None) or hx; clock.prev = hx
        try:
            msg = bytes(45) + bytes([1, 1, 0, 1]) + bytes.fromhex(prev) + bytes.fromhex(hx) + bytes(4) + bytes([2, 1, 0, 1]) + bytes.fromhex(hx) + bytes.fromhex(prev) + bytes(4) + bytes(4)
            got = {x.schedule_id: x for x in get_schedules(msg)}
            listed = (got["1"].end_time, got["2"].start_time)
        except Exception as e: listed = ("raised " + type(e).__name__,) * 2
        if back != "raised" and listed != (back, back): back = "%s by the decoder, but %s as the end and %s as the start of a listed slot" % (back, listed[0], listed[1])
    t = struct.unpack("<I", bytes.fromhex(hx))[0]
    return {"enc": hx, "t": t, "back": back, "facts_t": local_facts(t), "facts_now": local_facts(c["now"])}


def decode(c):
    try: return tools.hexadecimale_timestamp_to_localtime(c["hex"].encode())
    except Exception: return "raised"


def duration(c):
    with time_machine.travel(at(c["now"]), tick=False):
        try: r_ = tools.calc_duration(c["start"], c["end"]); return "ok " + (r_ if isinstance(r_, str) else repr(r_))
        except Exception: return "raised"


class DaySet(set): pass
def failed_listing(now):
    """somewhere earlier in this process (two and a half days before `now`) a listing failed part-way: its second record carries a day mask the parser
    refuses.  What that leaves behind is nobody's business later"""
    rec = lambda i, mask: bytes([i, 1, mask, 1]) + struct.pack("<II", int(now) - 200000, int(now) - 190000) + bytes(4)
    with time_machine.travel(at(now - 216000), tick=False):
        try: get_schedules(bytes(45) + rec(1, 0x0a) + rec(2, 0x01) + rec(3, 0x04) + bytes(4))
        except Exception: pass


def next_run(c):
    if (int(c["now"]) // 60) % 3 == 0: failed_listing(c["now"])
    with time_machine.travel(at(c["now"]), tick=False):
        # the day set as a set, a frozenset, a set subclass; positionally or with the parameters named
        ds = {DAYS[i] for i in c["days"]}; v = (int(c["now"]) // 60 + len(c["days"])) % 5
        try:
            if v == 1: txt = tools.pretty_next_run(c["start"], frozenset(ds))
            elif v == 2: txt = tools.pretty_next_run(c["start"], DaySet(ds))
            elif v == 3: txt = tools.pretty_next_run(start_time=c["start"], days=ds)
            elif v == 4: txt = tools.pretty_next_run(days=ds, start_time=c["start"])
            else: txt = tools.pretty_next_run(c["start"], ds)
        except Exception: txt = "raised"
        # the text as applications get it: the `display` of a schedule object (a recurring schedule with these days and this start)
        if txt != "raised" and (int(c["now"]) // 60 + len(c["days"]) + sum(map(ord, c["start"]))) % 2 == 0:
            from aioswitcher.schedule.parser import SwitcherSchedule
            # (the `recurring` flag is a field of its own: the text follows the day set whatever the flag says - an edited schedule may carry either)
            flag = bool(c["days"]) if (int(c["now"]) // 60) % 4 else not c["days"]
            try: shown = SwitcherSchedule(str(int(c["now"]) % 8), flag, {DAYS[i] for i in c["days"]}, c["start"], "23:59").display
            except Exception as e:
                shown = "raised " + type(e).__name__
                try: tools.calc_duration(c["start"], "23:59")
                except Exception: shown = txt          # the object cannot be built because its DURATION cannot be computed: C14's subject, not this one
            if shown != txt: txt = "%s (SwitcherSchedule.display; pretty_next_run itself says: %s)" % (shown, txt)
            else:
                # ... and of a schedule object derived from another one (an edited schedule): dataclasses.replace / rebuilt from asdict()
                import dataclasses
                try:
                    other = SwitcherSchedule("0", True, {DAYS[(int(c["now"]) // 7) % 7]}, "00:00", "00:01")
                    derived = dataclasses.replace(other, recurring=bool(c["days"]), days={DAYS[i] for i in c["days"]}, start_time=c["start"])
                    shown = derived.display
                except Exception as e:
                    shown = "raised " + type(e).__name__
                    try: tools.calc_duration(c["start"], "00:01")
                    except Exception: shown = txt          # again the duration, not the text, is what cannot be computed
                if shown != txt: txt = "%s (display of a schedule derived with dataclasses.replace; pretty_next_run itself says: %s)" % (shown, txt)
    return {"text": txt, "facts_now": local_facts(c["now"])}


def next_run_reuse(c):
    """the caller keeps one set object (a schedule's days) and asks twice, at two instants"""
    days = {DAYS[i] for i in c["days"]}
    with time_machine.travel(at(c["first_now"]), tick=False):
        try: tools.pretty_next_run(c["first_start"], days)
        except Exception: pass
    with time_machine.travel(at(c["now"]), tick=False):
        try: txt = tools.pretty_next_run(c["start"], days)
        except Exception: txt = "raised"
    return {"text": txt, "facts_now": local_facts(c["now"])}


def next_run_ticking(c):
    """the clock keeps running during the call (it is started a few microseconds before a local midnight)"""
    with time_machine.travel(float(c["now"]), tick=True):
        try: txt = tools.pretty_next_run(c["start"], {DAYS[i] for i in c["days"]})
        except Exception: txt = "raised"
    return {"text": txt, "facts_before": local_facts(int(c["midnight"]) - 1), "facts_after": local_facts(int(c["midnight"]))}


def create_readback(c):
    """create_schedule against a scripted device, capture the record, list it back as a device would"""
    import world
    async def go():
        s = world.ScriptedApi(False, "ab1c2d", "18")
        txt = await s.run(6, [c["start"], c["end"], c["days"], "set"], [bytes(8) + b"\xa1\xb2\xc3\xd4" + bytes(12), b"\x01"], c["now"])
        return txt
    txt = asyncio.run(go())
    parts = txt.split("|")
    if len(parts) < 3: return {"created": "raised"}
    f = bytes.fromhex(parts[1])
    rec = f[84:95]                                          # 01 mask 01 start(4) end(4)
    listed = bytes([c.get("slot", 3), 1, rec[1], 1]) + rec[3:11] + b"\x00\x00\x00\x00"
    msg = bytes(45) + listed + bytes(4)
    return {"created": f.hex(), "listed": schedules({"now": c["now"], "msg": msg.hex()}, with_display=False),
            "facts_now": local_facts(c["now"])}


JOBS = {"duration": duration, "schedules": schedules, "clock": clock, "decode": decode, "next_run": next_run, "next_run_reuse": next_run_reuse, "next_run_ticking": next_run_ticking, "create_readback": create_readback,
        "facts": lambda c: local_facts(c["t"]),
        "schedules_nodisplay": lambda c: schedules(c, False, False)}          # C14 reads durations only: the edit-and-list-again step is C10's and C13's
def with_zone(f, c):
    """a case may name its own zone: the host zone is switched inside this one process (TZ + tzset) before the case runs"""
    global ZONE, TZ
    z = c.get("zone")
    if z and z != ZONE:
        os.environ["TZ"] = z; time.tzset(); ZONE = z; TZ = zoneinfo.ZoneInfo(z)
    return f(c)


job = json.load(sys.stdin)
f = JOBS[job["job"]]
json.dump([with_zone(f, c) for c in job["cases"]], sys.stdout)
