import sys, os, random, subprocess, struct, collections, logging, warnings
sys.path.insert(0, "/repo/src")
import time_machine
from aioswitcher.schedule.parser import get_schedules
from aioswitcher.schedule import Days
MODEL="/root/scratch/pipeline/build/model"
def run_model(lines):
    p=subprocess.run([MODEL], input="\n".join(lines)+"\n", capture_output=True, text=True, check=True)
    out=p.stdout.split("\n")[:-1]; assert len(out)==len(lines); return out
def tzif(zone):
    d=open("/usr/share/zoneinfo/"+zone,"rb").read()
    def hdr(o): 
        assert d[o:o+4]==b"TZif"; v=d[o+4]; c=struct.unpack(">6l", d[o+20:o+44]); return v,c
    v,(isut,isstd,leap,timecnt,typecnt,charcnt)=hdr(0)
    o=44+timecnt*4+timecnt+typecnt*6+charcnt+leap*8+isstd+isut
    v,(isut,isstd,leap,timecnt,typecnt,charcnt)=hdr(o); o+=44
    times=struct.unpack(">%dq"%timecnt, d[o:o+8*timecnt]); o+=8*timecnt
    idx=d[o:o+timecnt]; o+=timecnt
    types=[struct.unpack(">lBB", d[o+6*i:o+6*i+6]) for i in range(typecnt)]
    default=next((t[0] for t in types if not t[1]), types[0][0])   # first standard type
    return default, [(t, types[i][0]) for t,i in zip(times, idx)]
zone=os.environ["TZ"]; zdef, trans=tzif(zone)
last=max((t for t,_ in trans), default=0)
rnd=random.Random(int(os.environ.get("VERIF_SEED","1")))
DAYS=list(Days)
def show(s):
    return ",".join([s.schedule_id, "1" if s.recurring else "0", "".join(str(x) for x in sorted(DAYS.index(d) for d in s.days)), s.start_time, s.end_time, s.duration, s.display])
lines=[]; outs=[]
N=int(sys.argv[1]) if len(sys.argv)>1 else 2000
hi=min(last-86400*3, 2_100_000_000) if trans else 2_100_000_000
for _ in range(N):
    now=rnd.randrange(1_000_000_000, max(hi,1_000_000_001))
    if trans and rnd.random()<0.4:   # near a transition
        tt=rnd.choice([t for t,_ in trans if 1_000_000_000<t<hi] or [now]); now=tt+rnd.randrange(-90000,90000)
    recs=b""
    for i in range(rnd.randrange(0,9)):
        mask=rnd.choice([0, rnd.randrange(1,128)*2, rnd.randrange(1,128)*2, rnd.choice([1,255,3,253])])
        st=now+rnd.randrange(-100000,100000); en=st+rnd.randrange(0,90000)
        recs+=bytes([rnd.choice([i, rnd.randrange(256), rnd.randrange(3)]), rnd.randrange(2), mask, rnd.randrange(2)])+struct.pack("<II", st%2**32, en%2**32)+bytes(rnd.randrange(256) for _ in range(4))
    msg=bytes(rnd.randrange(256) for _ in range(45))+recs+bytes(rnd.randrange(256) for _ in range(4))
    k=rnd.random()
    if k<0.05: msg=msg[:rnd.randrange(len(msg)+1)]
    elif k<0.08: msg=b""
    with time_machine.travel(float(now), tick=False), warnings.catch_warnings():
        warnings.simplefilter("ignore")
        try: out="|".join(show(s) for s in sorted(get_schedules(msg), key=lambda s:int(s.schedule_id)))
        except Exception as e: out="raised"
    outs.append(out)
    lines.append(" ".join(["sched","1","1",str(zdef),",".join(f"{a}:{b}" for a,b in trans) or "-",str(now),"h:"+msg.hex()]))
mo=[]
for l in run_model(lines):
    t=bytes.fromhex(l[3:]).decode()
    mo.append(t if t=="raised" else "|".join(sorted([x for x in t.split("|") if x], key=lambda r:int(r.split(",")[0]))))
dis=[(i,m) for i,m in zip(outs,mo) if i!=m]
kinds=collections.Counter("raised" if o=="raised" else "n=%d"%(o.count("|")+1 if o else 0) for o in outs)
disp=collections.Counter(x.split(",")[6].split(" ")[1] for o in outs if o!="raised" for x in o.split("|") if x)
print(zone, f"cases={len(outs)} disagreements={len(dis)}", dict(sorted(kinds.items())), dict(disp))
for d in dis[:4]: print(" impl ", d[0]); print(" model", d[1])
