import sys, os, random, subprocess, asyncio, socket, itertools, logging, collections, time
sys.path.insert(0, "/repo/src")
logging.disable(logging.CRITICAL)
from aioswitcher.bridge import SwitcherBridge
MODEL="/root/scratch/pipeline/build/model"
def run_model(lines):
    p=subprocess.run([MODEL], input="\n".join(lines)+"\n", capture_output=True, text=True, check=True)
    out=p.stdout.split("\n")[:-1]; assert len(out)==len(lines); return out
V=bytes.fromhex(open("/repo/tests/testresources/test_device_parsing/test_a_power_plug_datagram_produces_device.txt").read().strip())
def free_ports(n):
    socks=[socket.socket(socket.AF_INET, socket.SOCK_DGRAM) for _ in range(n)]
    for s in socks: s.bind(("0.0.0.0",0))
    ps=[s.getsockname()[1] for s in socks]
    for s in socks: s.close()
    return ps
def can_bind(p):
    s=socket.socket(socket.AF_INET, socket.SOCK_DGRAM)
    try: s.bind(("0.0.0.0",p)); return True
    except OSError: return False
    finally: s.close()
async def settle():
    for _ in range(3): await asyncio.sleep(0)
async def run_seq(ports, acts):
    got=[]; b=SwitcherBridge(lambda d: got.append(d), list(ports)); foreign={}
    tx=socket.socket(socket.AF_INET, socket.SOCK_DGRAM); out=""
    try:
        for k,i in acts:
            o="."
            p=ports[i] if i<len(ports) else None
            if k==0:
                try: await b.start(); o="s"
                except OSError: o="!"
            elif k==1: await b.stop()
            elif k==2:
                if p not in foreign:
                    s=socket.socket(socket.AF_INET, socket.SOCK_DGRAM)
                    try: s.bind(("0.0.0.0",p)); foreign[p]=s
                    except OSError: s.close()
            elif k==3:
                if p in foreign: foreign.pop(p).close()
            else:
                n0=len(got); tx.sendto(V,("127.0.0.1",p))
                for _ in range(20):
                    await asyncio.sleep(0.001)
                    if len(got)>n0: break
                o="d" if len(got)>n0 else "x"
            await settle()
            held="".join("F" if q in foreign else ("-" if can_bind(q) else "B") for q in ports)
            out+=("R" if b.is_running else "r")+held+o+"|"
    finally:
        await b.stop(); await settle()
        for s in foreign.values(): s.close()
        tx.close()
        # release anything a failed start left behind (legacy)
        for t in list(b._transports.values()):
            if t and not t.is_closing(): t.close()
        await settle()
    return out
async def main():
    rnd=random.Random(int(os.environ.get("VERIF_SEED","1")))
    ports=free_ports(2)
    alphabet=[(0,0),(1,0),(2,0),(2,1),(3,0),(3,1),(4,0),(4,1)]
    seqs=[list(s) for L in (1,2,3) for s in itertools.product(alphabet, repeat=L)]
    seqs+=[[rnd.choice(alphabet) for _ in range(rnd.randrange(4,9))] for _ in range(int(sys.argv[1]) if len(sys.argv)>1 else 400)]
    t0=time.time(); outs=[]
    for s in seqs: outs.append(await run_seq(ports, s))
    t1=time.time()
    lines=[" ".join(["bridge","1","0,1",",".join(f"{k}:{i}" for k,i in s)]) for s in seqs]
    mo=[bytes.fromhex(l[3:]).decode() for l in run_model(lines)]
    dis=[(s,i,m) for s,i,m in zip(seqs,outs,mo) if i!=m]
    obs=collections.Counter(c for o in outs for c in o if c in "s!dx")
    print(f"sequences={len(seqs)} impl={t1-t0:.1f}s disagreements={len(dis)} observations={dict(obs)}")
    for d in dis[:5]: print(d[0]); print("  impl ", d[1]); print("  model", d[2])
asyncio.run(main())
