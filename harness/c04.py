import sys, os, random, subprocess, time, json
sys.path.insert(0, "/repo/src")
from aioswitcher.device.tools import sign_packet_with_crc_key
MODEL="/root/scratch/pipeline/build/model"
def run_model(lines):
    p=subprocess.run([MODEL], input="\n".join(lines)+"\n", capture_output=True, text=True, check=True)
    out=p.stdout.split("\n")[:-1]
    assert len(out)==len(lines), (len(out), len(lines))
    return out
def impl(p):
    try: return ("ok", sign_packet_with_crc_key(p))
    except Exception as e: return ("exc", type(e).__name__)
def view_impl(r): return r if r[0]=="ok" else ("exc",)
def view_model(line):
    k,_,v=line.partition(" ")
    return ("ok", bytes.fromhex(v).decode()) if k=="ok" else ("exc",)
tier=sys.argv[1] if len(sys.argv)>1 else "quick"
rnd=random.Random(int(os.environ.get("VERIF_SEED","1")))
cases=[]
# byte strings of length 0..2 -> hex spellings
if tier=="thorough":
    cases+=[""]+["%02x"%a for a in range(256)]+["%02x%02x"%(a,b) for a in range(256) for b in range(256)]
else:
    cases+=[""]+["%02x"%a for a in range(256)]+["%02x%02x"%(rnd.randrange(256),rnd.randrange(256)) for _ in range(4096)]
for _ in range(500 if tier=="quick" else 20000):
    n=rnd.choice([rnd.randrange(0,64), rnd.randrange(0,4096)])
    s=bytes(rnd.randrange(256) for _ in range(n)).hex()
    c=rnd.random()
    if c<0.2: s=s.upper()
    elif c<0.3: s="".join(ch.upper() if rnd.random()<0.5 else ch for ch in s)
    cases.append(s)
# malformed
cases+=["f","fef","zz","fe f0"," fef0","fef0 ","0x","fe\n","g0","שש","fe-0","+f", "f"*4097]
t0=time.time()
impl_out=[view_impl(impl(c)) for c in cases]; t1=time.time()
model_out=[view_model(l) for l in run_model(["sign h:"+c.encode().hex() for c in cases])]; t2=time.time()
dis=[(c,i,m) for c,i,m in zip(cases,impl_out,model_out) if i!=m]
print(f"cases={len(cases)} impl={t1-t0:.2f}s model={t2-t1:.2f}s disagreements={len(dis)}")
for d in dis[:5]: print(d)
