import sys, os, random, subprocess, asyncio, itertools, logging, collections, time, gc
sys.path.insert(0, "/repo/src")
logging.disable(logging.CRITICAL)
from aioswitcher.api import SwitcherType1Api, SwitcherType2Api, Command
MODEL="/root/scratch/pipeline/build/model"
def run_model(lines):
    p=subprocess.run([MODEL], input="\n".join(lines)+"\n", capture_output=True, text=True, check=True)
    out=p.stdout.split("\n")[:-1]; assert len(out)==len(lines); return out
IP="127.%d.%d.7"%((os.getpid()>>8)&255, os.getpid()&255)
class Dev:
    def __init__(self, port): self.port=port; self.open=0; self.eofs=0; self.srv=None; self.mode="ok"
    async def handle(self, r, w):
        self.open+=1
        try:
            while True:
                d=await r.read(4096)
                if not d: break
                w.write(b"" if False else (bytes(20) if self.mode=="ok" else b"\x01"))
                await w.drain()
        finally:
            self.open-=1; self.eofs+=1; w.close()
    async def listen(self, on):
        if on and not self.srv: self.srv=await asyncio.start_server(self.handle, IP, self.port)
        if not on and self.srv:
            self.srv.close(); self.srv=None; await asyncio.sleep(0)
async def settle():
    for _ in range(6): await asyncio.sleep(0)
    await asyncio.sleep(0.002)
async def run_seq(cls, port, dev, acts):
    api=cls(IP,"ab1c2d","18"); out=""; dev.open=0; dev.eofs=0
    for k,f in acts:
        o="."
        try:
            if k==0:
                await dev.listen(bool(f)); await api.connect()
            elif k==1: await api.disconnect()
            elif k==2:
                if api.connected and dev.srv:
                    # an operation that returns, or one that raises RuntimeError (garbage state reply)
                    if f:
                        dev.mode="bad"
                        try: await (api.get_state() if cls is SwitcherType1Api else api.get_shutter_state()); 
                        finally: dev.mode="ok"
                    else: await (api.control_device(Command.ON) if cls is SwitcherType1Api else api.stop())
                elif f: raise RuntimeError("simulated")
            else:
                await dev.listen(bool(f))
                async with api:
                    if k==4: raise KeyError("body")
        except (OSError, RuntimeError, KeyError): o="!"
        await settle(); gc.collect(); await settle()
        out+=("C" if api.connected else "c")+f"{dev.open},{dev.eofs}"+o+"|"
    await api.disconnect(); await settle()
    return out
async def main():
    rnd=random.Random(int(os.environ.get("VERIF_SEED","1")))
    alphabet=[(0,1),(0,0),(1,0),(2,0),(2,1),(3,1),(3,0),(4,1)]
    seqs=[list(s) for L in (1,2,3) for s in itertools.product(alphabet, repeat=L)]
    seqs+=[[rnd.choice(alphabet) for _ in range(rnd.randrange(4,8))] for _ in range(int(sys.argv[1]) if len(sys.argv)>1 else 300)]
    total=0; alld=[]
    for cls,port in ((SwitcherType1Api,9957),(SwitcherType2Api,10000)):
        dev=Dev(port); outs=[]
        t0=time.time()
        for s in seqs: outs.append(await run_seq(cls,port,dev,s))
        await dev.listen(False)
        mo=[bytes.fromhex(l[3:]).decode() for l in run_model(["client "+",".join(f"{k}:{f}" for k,f in s) for s in seqs])]
        dis=[(s,i,m) for s,i,m in zip(seqs,outs,mo) if i!=m]; alld+=dis; total+=len(seqs)
        print(cls.__name__, f"sequences={len(seqs)} impl={time.time()-t0:.1f}s disagreements={len(dis)}")
    for d in alld[:5]: print(d[0]); print("  impl ", d[1]); print("  model", d[2])
asyncio.run(main())
