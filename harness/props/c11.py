"""C11 — clock times survive encoding and decoding in every time zone and on every date."""
import os, datetime as D, re, zoneinfo
import lib, world
COQ_TARGET = "C11"
TRUSTED = ["zone tables (TZif) are trusted input; that libc's localtime / mktime follow the table of the configured zone is checked by "
           "this run only: the model's local time against zoneinfo and the implementation's result against both",
           "glibc's choice between the two pre-images of an ambiguous wall-clock time is not modelled: either is accepted"]
ASSUMPTIONS = ["clock strings are ASCII; wall-clock times that do not exist today (DST gap) are outside the property",
               "the virtual now and the encoded instant lie in [0, 2^32)"]
RULE = ("zones with whole-hour, half-hour, 45-minute and date-line offsets; dates at, before and after DST transitions, 31 Dec, 1 Jan, "
        "29 Feb and the days whose ISO-week year differs from the calendar year; every 15th minute of the day plus every minute of the transition hours (thorough: all 1440 minutes); the malformed "
        "strings of the regression list; non-trivial = distinct (zone, date, existing minute) triples")
REQUIREMENT = ("encode(HH:MM) = LE32 of an instant t whose local time (oracle: zoneinfo) is today's date at HH:MM:00, and "
               "decode(encode(HH:MM)) = HH:MM; a string outside the grammar 1-2 digits ':' 1-2 digits with h < 24, m < 60 raises")
VALID = re.compile(r"[0-9]{1,2}:[0-9]{1,2}\Z", re.ASCII)


def classify_string(s):
    if VALID.match(s):
        h, m = map(int, s.split(":"))
        if h < 24 and m < 60: return h * 60 + m
    return None


def preimages(tz, today, minute):
    h, mi = divmod(minute, 60); cand = set()
    for fold in (0, 1):
        dt = D.datetime(today.year, today.month, today.day, h, mi, tzinfo=tz, fold=fold)
        back = D.datetime.fromtimestamp(dt.timestamp(), tz)
        if (back.date(), back.hour, back.minute, back.second) == (today, h, mi, 0): cand.add(int(dt.timestamp()))
    return cand


def edge_days():
    """calendar edges: days whose ISO-week year differs from the calendar year, 31 Dec / 1 Jan, the end of February"""
    out = []
    for y in range(2002, 2038):
        for (m, d) in [(12, 29), (12, 30), (12, 31), (1, 1), (1, 2), (1, 3), (2, 28), (2, 29), (3, 1)]:
            try: day = D.date(y, m, d)
            except ValueError: continue
            if day.isocalendar()[0] != y or (m, d) in [(12, 31), (1, 1), (2, 29)]: out.append((y, m, d))
    return out


def gen(rnd, zone, tier):
    tz = zoneinfo.ZoneInfo(zone); cases = []
    tr = world.transitions_in(zone, 1_000_000_000, 2_100_000_000)
    nows = [rnd.choice(tr) + k * 86400 + rnd.randrange(86400) - 43200 for k in (-1, 0, 0, 1)] if tr else []
    nows += [int(D.datetime(y, m, d, 12, 0, tzinfo=tz).timestamp()) for (y, m, d) in [(2023, 12, 31), (2024, 2, 29), (2025, 1, 1)]]
    edges = edge_days()
    nows += [int(D.datetime(y, m, d, rnd.randrange(24), rnd.randrange(60), tzinfo=tz).timestamp())
             for (y, m, d) in rnd.sample(edges, 4 if tier == "quick" else 24)]
    nows += world.interesting_instants(rnd, zone, 3 if tier == "quick" else 14)
    if not world.has_rule_after_table(zone):          # 2038 .. 2106, where the zone's table (the model's input) still says everything
        nows += [rnd.randrange(2 ** 31, 2 ** 32 - 2 * 86400) for _ in range(2 if tier == "quick" else 8)] + [2 ** 31 + rnd.randrange(-40000, 40000)]
    for now in nows:
        minutes = set(range(0, 1440, 15)) if tier == "quick" else set(range(1440))
        for t in tr:
            if abs(t - now) < 2 * 86400:
                lt = D.datetime.fromtimestamp(t, tz); base = lt.hour * 60 + lt.minute
                for k in range(-125, 65): minutes.add((base + k) % 1440)
        for m in sorted(minutes):
            s = "%02d:%02d" % divmod(m, 60)
            if rnd.random() < .1: s = "%d:%d" % divmod(m, 60)
            cases.append({"zone": zone, "now": now, "s": s})
        for s in world.BAD_CLOCKS: cases.append({"zone": zone, "now": now, "s": s})
    return cases


def run_zone(out, stream, zone, cases, res=None):
    tz = zoneinfo.ZoneInfo(zone); zd, tr = world.zone_args(zone)
    if res is None: res = world.zone_job(zone, "clock", [{"now": c["now"], "s": c["s"]} for c in cases])
    mo_raw = lib.run_model([lib.req("clock_encode", zd, tr, c["now"], c["s"]) for c in cases])
    io = []; mo = []; ex = []; spec_impl = []; nontriv = set()
    for c, r, m in zip(cases, res, mo_raw):
        minute = classify_string(c["s"]); today = D.datetime.fromtimestamp(c["now"], tz).date()
        pre = preimages(tz, today, minute) if minute is not None else set()
        canon = "%02d:%02d" % divmod(minute, 60) if minute is not None else None
        if r["enc"] == "raised":
            io.append("raised"); spec_impl.append("raised")
        else:
            ok = r["t"] in pre
            spec_impl.append("encodes today %s: %s; decodes to %s" % (canon, "yes" if ok else "no (t=%d)" % r["t"], r["back"]))
            io.append("ok " + r["enc"] if len(pre) == 1 else ("ok (one of %d pre-images)" % len(pre) if ok else "ok " + r["enc"]))
        mo.append(m if len(pre) == 1 or m == "raised" else ("ok (one of %d pre-images)" % len(pre) if len(pre) > 1 else io[-1]))
        if minute is None: ex.append("raised")
        elif not pre: ex.append("-")
        else:
            ex.append("encodes today %s: yes; decodes to %s" % (canon, canon)); nontriv.add((c["now"] // 60, c["s"]))
    lib.differential(out, stream, cases, io, mo, ex, lambda c: "zone %s now %d time_to_hexadecimal_timestamp(%r)" % (c["zone"], c["now"], c["s"]),
                     nontrivial=lambda c: (c["now"] // 60, c["s"]) in nontriv, sample=lambda c: c,
                     classify=lambda c, i: zone + ("/raised" if i == "raised" else "/encoded"), impl_spec=spec_impl)
    # the zone model itself against the independent oracle: local minute, weekday and date of instants around transitions
    ts = sorted({c["now"] for c in cases} | {r["t"] for r in res if "t" in r})
    loc = lib.run_model([lib.req("local", zd, tr, t) for t in ts])
    want = []
    for t in ts:
        d = D.datetime.fromtimestamp(t, tz); want.append("%d:%d,%d,%d" % (d.hour, d.minute, d.weekday(), d.toordinal() - 719163))
    lib.differential(out, "zone-model-vs-zoneinfo", [{"zone": zone, "t": t} for t in ts], want, loc, None, lambda c: "local time of %d in %s" % (c["t"], c["zone"]))


def run_created(out, rnd, zone, n):
    """the encoder as create_schedule reaches it: the two stamps of the record it sends are the epoch seconds of the two clock strings on
    today's local date (also when the slot ends before it starts: it is tomorrow's business, not the record's), and a string that is not
    HH:MM sends nothing"""
    import struct
    tz = zoneinfo.ZoneInfo(zone); cases = []
    for now in world.interesting_instants(rnd, zone, max(2, n // 12)):
        for _ in range(12):
            a = world.rand_clock(rnd, .2); b = world.rand_clock(rnd, .2)
            if rnd.random() < .3 and classify_string(a) is not None: b = "%02d:%02d" % divmod((classify_string(a) - rnd.randrange(1, 600)) % 1440, 60)     # a slot over midnight
            cases.append({"zone": zone, "now": now, "start": a, "end": b, "days": sorted(rnd.sample(range(7), rnd.randrange(0, 4))), "slot": 1})
    res = world.zone_job(zone, "create_readback", cases); io = []; ex = []
    for c, r in zip(cases, res):
        ms = [classify_string(c["start"]), classify_string(c["end"])]; today = D.datetime.fromtimestamp(c["now"], tz).date()
        if r.get("created", "raised") == "raised": io.append("raised")
        else:
            f = bytes.fromhex(r["created"]); st = struct.unpack("<II", f[87:95]); pre = [preimages(tz, today, m) if m is not None else set() for m in ms]
            io.append("stamps of today's %s and %s" % tuple(("%02d:%02d" % divmod(m, 60)) if (m is not None and t in p_) else "? (%d)" % t for m, t, p_ in zip(ms, st, pre)))
        if None in ms: ex.append("raised")
        elif not all(preimages(tz, today, m) for m in ms): ex.append("-")
        else: ex.append("stamps of today's %02d:%02d and %02d:%02d" % (divmod(ms[0], 60) + divmod(ms[1], 60)))
    lib.differential(out, "the-stamps-create_schedule-sends", cases, io, None, ex, lambda c: "zone %s now %d create_schedule(%r, %r, days %s)" % (c["zone"], c["now"], c["start"], c["end"], c["days"]),
                     nontrivial=lambda c: classify_string(c["start"]) is not None, sample=lambda c: c, classify=lambda c, i: zone + "/created")


def run(tier, rnd, out):
    # Casablanca and Mexico City: the offset changes although January and July agree (what C's `daylight` flag looks at)
    zones = world.ZONES_QUICK + ["Africa/Casablanca", "America/Mexico_City"] if tier == "quick" else world.ZONES_QUICK + world.ZONES_MORE + ["America/Mexico_City"]
    for c in lib.load_corpus("C11"): run_zone(out, "corpus", c["zone"], [c])
    for zone in zones: run_zone(out, "encode-decode", zone, gen(rnd, zone, tier))
    for zone in zones[:4] if tier == "quick" else zones: run_created(out, rnd, zone, 60 if tier == "quick" else 600)
    # ONE process whose host zone is switched (TZ + tzset) between calls: the same clock strings at the same instants under zones that share
    # their standard offset but not their summer time (and unrelated ones), each zone visited twice
    groups = [["Europe/London", "UTC", "Africa/Abidjan"], ["America/New_York", "America/Lima", "America/Bogota"], ["Australia/Sydney", "Australia/Brisbane"],
              ["Europe/Berlin", "Africa/Algiers", "Africa/Lagos"], ["Asia/Jerusalem", "Africa/Cairo", "Europe/Athens", "Africa/Johannesburg"]]
    for g in groups:
        g = [z for z in g if os.path.exists("/usr/share/zoneinfo/" + z)]
        if len(g) < 2: continue
        nows = [1689768000, 1705320000, 1721044800 + 3600 * rnd.randrange(24)]          # a July, a January, another July instant
        strs = ["00:00", "01:30", "12:00", "23:59", "%02d:%02d" % (rnd.randrange(24), rnd.randrange(60))]
        order = g + g[::-1] + g
        allc = [{"zone": z, "now": now, "s": s_} for now in nows for z in order for s_ in strs]
        res = world.zone_job(g[0], "clock", [{"now": c["now"], "s": c["s"], "zone": c["zone"]} for c in allc])
        for z in g:
            idx = [k for k, c in enumerate(allc) if c["zone"] == z]
            run_zone(out, "host-zone-changed-within-one-process", z, [allc[k] for k in idx], [res[k] for k in idx])
        # and the decoder alone: the SAME timestamps decoded under each zone in turn
        ts = [n + 60 * k for n in nows for k in (0, 61, 725)]
        dc = [{"zone": z, "t": t} for t in ts for z in order]
        got = world.zone_job(g[0], "decode", [{"hex": t.to_bytes(4, "little").hex(), "zone": c["zone"]} for c in dc for t in [c["t"]]])
        want = [D.datetime.fromtimestamp(c["t"], zoneinfo.ZoneInfo(c["zone"])).strftime("%H:%M") for c in dc]
        mo = []
        for c in dc:
            zd, tr = world.zone_args(c["zone"]); mo.append(lib.run_model([lib.req("clock_decode", zd, tr, c["t"].to_bytes(4, "little").hex())])[0])
        lib.differential(out, "same-timestamps-decoded-under-zones-in-turn-in-one-process", dc, got, [m[3:] if m.startswith("ok ") else m for m in mo], want,
                         lambda c: "zone %s hexadecimale_timestamp_to_localtime(%d) after the same under other zones" % (c["zone"], c["t"]), sample=lambda c: c, classify=lambda c, i: "decode/" + c["zone"])


def replay(rp, out):
    c = rp["input"]
    if "slot" in c:
        import random
        return run_created(out, random.Random(int(rp.get("seed", 1))), c["zone"], 120)
    if "s" in c: run_zone(out, rp.get("stream", "replay"), c["zone"], [c])
    elif "t" in c:          # a timestamp decoded under this zone after the same under another zone of the same standard offset, in one process
        other = {"UTC": "Europe/London", "Europe/London": "UTC"}.get(c["zone"], "UTC"); hx = c["t"].to_bytes(4, "little").hex()
        got = world.zone_job(other, "decode", [{"hex": hx, "zone": other}, {"hex": hx, "zone": c["zone"]}])[1:]
        want = [D.datetime.fromtimestamp(c["t"], zoneinfo.ZoneInfo(c["zone"])).strftime("%H:%M")]
        lib.differential(out, rp.get("stream", "replay"), [c], got, None, want, lambda c: "zone %s hexadecimale_timestamp_to_localtime(%d) after the same under %s" % (c["zone"], c["t"], other))
