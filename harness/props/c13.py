"""C13 — the next-run text names the earliest upcoming run of the schedule."""
import datetime as D, zoneinfo
import lib, world
COQ_TARGET = "C13"
TRUSTED = ["zone tables as in C11; the local weekday and minute given to the Spec come from zoneinfo, not from the code under test"]
ASSUMPTIONS = ["start times are HH:MM strings; day sets are sets of Days"]
RULE = ("for each zone: a base week (7 consecutive local days, one of them within a day of a DST transition when the zone has one) x "
        "all 128 day sets (quick: 40 sampled + the 8 canonical ones) x local times {start-1 min, start, start+1 min, 00:00, 00:01, "
        "12:00, 23:59} x several start times (some spelled without leading zeros), plus the last day of several months and the day after, so that local and UTC weekday differ for part of the grid; the same grid with one "
        "set object consulted at two instants; calls made a few microseconds before a local midnight on a running clock; non-trivial = distinct cases "
        "with a non-empty day set")
REQUIREMENT = ("text = 'Due today' if today is selected and the start is still ahead, 'Due tomorrow' if the earliest future occurrence "
               "is the next calendar day, else 'Due next <weekday>' of the nearest selected weekday (a week ahead when only today is "
               "selected and its time has passed); no days: 'Due today' (Spec/NextRun.v next_run_spec)")


def gen(rnd, zone, tier):
    tz = zoneinfo.ZoneInfo(zone); cases = []
    tr = world.transitions_in(zone, 1_500_000_000, 2_000_000_000)
    base = D.datetime.fromtimestamp(rnd.choice(tr) if tr else rnd.randrange(1_600_000_000, 1_900_000_000), tz).date() - D.timedelta(days=3)
    sets = list(range(128)) if tier == "thorough" else sorted(set([0, 1, 64, 65, 127, 2, 3, 96] + [rnd.randrange(128) for _ in range(40)]))
    starts = [0, 1, 30, 13 * 60, 23 * 60 + 59, rnd.randrange(1440)] if tier == "thorough" else [0, 13 * 60, 23 * 60 + 59, rnd.randrange(1440)]
    if tr:      # start times inside the hour the zone skips or repeats on its transition days
        for t in tr[:1] + tr[-2:]:
            for dt_ in (D.datetime.fromtimestamp(t - 1, tz), D.datetime.fromtimestamp(t, tz)):
                for k in (-90, -30, 0, 30): starts.append((dt_.hour * 60 + dt_.minute + k) % 1440)
        starts = sorted(set(starts))
    days_ = [base + D.timedelta(days=dayk) for dayk in range(7)]
    # calendar edges: the last day of a month (28 / 29 / 30 / 31 days) and of a year, with the day after
    for (y, m) in rnd.sample([(y, m) for y in (2023, 2024, 2027, 2028) for m in range(1, 13)], 3 if tier == "quick" else 16) + [(2024, 2), (2027, 12)]:
        first_next = D.date(y + (m == 12), m % 12 + 1, 1)
        days_ += [first_next - D.timedelta(days=1), first_next]
    for day in days_:
        for s in starts:
            for cur, fold in sorted({((s + k) % 1440, f) for k in (-1, 0, 1, -20, 20, -40, 40, -70, 70) for f in (0, 1)} | {(0, 0), (1, 0), (720, 0), (1439, 0)}):
                dt = D.datetime(day.year, day.month, day.day, cur // 60, cur % 60, 20, tzinfo=tz, fold=fold)
                if fold and dt.utcoffset() == dt.replace(fold=0).utcoffset(): continue       # not an ambiguous wall-clock time
                now = int(dt.timestamp())
                for m in (sets if tier == "thorough" else rnd.sample(sets, 6)):
                    spell = rnd.choice(["%02d:%02d"] * 8 + ["%d:%02d", "%d:%d"])           # %H:%M also reads hours and minutes without a leading zero
                    cases.append({"zone": zone, "now": now, "start": spell % divmod(s, 60), "days": [d for d in range(7) if m >> d & 1]})
    cap = 12000 if tier == "quick" else 120000            # the full grid is a sample space, not a schedule: a run draws this many points per zone
    return cases if len(cases) <= cap else rnd.sample(cases, cap)


def gen_reuse(rnd, cases, n):
    """pairs of instants at which the same set object is consulted: the first call must leave the caller's set as it was"""
    out = []
    for _ in range(n):
        a = rnd.choice(cases); b = dict(rnd.choice(cases))
        b["days"] = a["days"]; b["first_now"] = a["now"]; b["first_start"] = a["start"]; out.append(b)
    for _ in range(n // 2):        # the same question with the same arguments, asked again one or several weeks later at another time of day
        a = rnd.choice(cases); b = dict(a)
        b["first_now"] = a["now"]; b["first_start"] = a["start"]
        b["now"] = a["now"] + 7 * 86400 * rnd.choice([1, 1, 2, 5]) + rnd.choice([-1, 1]) * rnd.randrange(0, 43200); out.append(b)
    return out


def describe(c):
    first = "same set object first consulted at %d for %r; " % (c["first_now"], c["first_start"]) if "first_now" in c else ""
    return "zone %s %snow %d pretty_next_run(%r, days %s)" % (c["zone"], first, c["now"], c["start"], c["days"])


def run_zone(out, stream, zone, cases):
    zd, tr = world.zone_args(zone)
    reuse = bool(cases) and "first_now" in cases[0]
    res = world.zone_job(zone, "next_run_reuse" if reuse else "next_run", [{k: c[k] for k in c if k != "zone"} for c in cases])
    io = [("ok " + r["text"]) if r["text"] != "raised" else "raised" for r in res]
    mo = lib.run_model([lib.req("next_run", zd, tr, c["now"], c["start"], c["days"]) for c in cases])
    ex = lib.run_model([lib.req("next_run_spec", r["facts_now"][1], r["facts_now"][2], int(c["start"].split(":")[0]) * 60 + int(c["start"].split(":")[1]), c["start"], c["days"])
                        for c, r in zip(cases, res)])
    lib.differential(out, stream, cases, io, mo, ex, describe, nontrivial=lambda c: len(c["days"]) > 0, sample=lambda c: c,
                     classify=lambda c, i: zone + "/" + " ".join(i.split(" ")[1:3]))


def run_listed(out, rnd, zone, n):
    """the text as a listing shows it: `display` of the schedules parsed from a device reply (recurring and one-time records), every other
    reply listed a second time after the application edited the day sets of the first listing (zonework.schedules)"""
    from props import c10
    tz = zoneinfo.ZoneInfo(zone); cases = []
    for now in world.interesting_instants(rnd, zone, n):
        c = c10.gen_case(rnd, zone, now)
        c["recs"] = [r for r in c["recs"] if r[2] == 0 or (r[2] % 2 == 0 and 2 <= r[2] <= 254)]          # masks the property speaks about
        cases.append(c)
    msgs = [bytes.fromhex(m) for m in lib.run_model([lib.req("schedules_encode", bytes.fromhex(c["hdr"]), c["recs"], bytes.fromhex(c["tail"])) for c in cases])]
    full = world.zone_job(zone, "schedules", [{"now": c["now"], "msg": m.hex()} for c, m in zip(cases, msgs)])
    io = []; ex = []; lines = []; owners = []
    for c, t in zip(cases, full):
        rows = [x.split(",") for x in t.split("|") if x] if "listed again" not in t and t != "raised" else None
        io.append(t if rows is None else "|".join("%s:%s" % (r[0], r[-1]) for r in rows))
        local = D.datetime.fromtimestamp(c["now"], tz); seen = set(); want = []
        for (i, en, mask, st, s_, e_, tail) in c["recs"]:
            if i in seen: continue
            seen.add(i); ls = D.datetime.fromtimestamp(s_, tz); start = ls.strftime("%H:%M"); days = [d for d in range(7) if mask >> (d + 1) & 1]
            lines.append(lib.req("next_run_spec", local.weekday(), local.hour * 60 + local.minute, ls.hour * 60 + ls.minute, start, days)); want.append(i)
        owners.append(want)
    spec = iter(lib.run_model(lines))
    for want in owners:
        ex.append("|".join("%s:%s" % (i, t[3:] if t.startswith("ok ") else t) for i, t in sorted((i, next(spec)) for i in want)))
    lib.differential(out, "display-of-listed-schedules", cases, io, None, ex, lambda c: "zone %s now %d listing of records %s" % (c["zone"], c["now"], [r[:3] + r[4:5] for r in c["recs"]]),
                     nontrivial=lambda c: len(c["recs"]) > 0, sample=lambda c: str(c["recs"])[:200], classify=lambda c, i: "listed/" + zone)


def run_ticking(out, rnd, zone, n):
    """a running clock that passes local midnight during the call: the answer is the one for the last instant of the old day or the one
    for the first instant of the new day - never a mixture (yesterday's weekday with today's time of day)"""
    tz = zoneinfo.ZoneInfo(zone); cases = []
    for _ in range(n):
        day = D.date(2026, rnd.randrange(1, 13), rnd.randrange(1, 28))
        mid = int(D.datetime(day.year, day.month, day.day, 0, 0, tzinfo=tz).timestamp())
        m = rnd.randrange(1, 128); s_ = rnd.choice([0, 1, 12 * 60, 23 * 60 + 59, rnd.randrange(1440)])
        cases.append({"zone": zone, "now": mid - rnd.choice([2, 5, 10, 20, 40, 80, 150]) * 1e-6, "midnight": mid, "start": "%02d:%02d" % divmod(s_, 60),
                      "days": [d for d in range(7) if m >> d & 1]})
    res = world.zone_job(zone, "next_run_ticking", [{k: c[k] for k in c if k != "zone"} for c in cases])
    sm = lambda c: int(c["start"][:2]) * 60 + int(c["start"][3:])
    a = lib.run_model([lib.req("next_run_spec", r["facts_before"][1], r["facts_before"][2], sm(c), c["start"], c["days"]) for c, r in zip(cases, res)])
    b = lib.run_model([lib.req("next_run_spec", r["facts_after"][1], r["facts_after"][2], sm(c), c["start"], c["days"]) for c, r in zip(cases, res)])
    io = [("ok " + r["text"]) if r["text"] != "raised" else "raised" for r in res]
    ex = [i if i in (x, y) else "%s   (or, if midnight had passed: %s)" % (x, y) for i, x, y in zip(io, a, b)]
    lib.differential(out, "clock-running-across-midnight-during-the-call", cases, io, None, ex,
                     lambda c: "zone %s, call started %.0f microseconds before local midnight %d: pretty_next_run(%r, days %s)" % (c["zone"], (c["midnight"] - c["now"]) * 1e6, c["midnight"], c["start"], c["days"]),
                     nontrivial=lambda c: True, sample=lambda c: c, classify=lambda c, i: "ticking/" + c["zone"])


def thread_call(start, days):
    from aioswitcher.schedule import Days, tools
    D_ = list(Days)
    try: return lib.ok(tools.pretty_next_run(start, {D_[i] for i in days}))
    except Exception: return "raised"


def run_threads(tier, out, rnd):
    """the first next-run texts of a fresh interpreter, asked for by several threads at once (host zone UTC, the clock standing still)"""
    now = rnd.randrange(1_600_000_000, 1_900_000_000); dt = D.datetime.fromtimestamp(now, D.timezone.utc)
    cs = [("12:00", [(dt.weekday() + k) % 7]) for k in (3, 2, 4, 5, 3, 6)]          # the first calls of every thread reach the last branch (a weekday's name)
    cs += [("%02d:%02d" % (rnd.randrange(24), rnd.randrange(60)), sorted(rnd.sample(range(7), rnd.randrange(1, 8)))) for _ in range(30)] + [("12:00", [d]) for d in range(7)]
    ex = lib.run_model([lib.req("next_run_spec", dt.weekday(), dt.hour * 60 + dt.minute, int(s[:2]) * 60 + int(s[3:]), s, ds) for s, ds in cs])
    world.run_threads(out, "several-threads-from-the-first-call-on", "props.c13", "thread_call", [[s, ds] for s, ds in cs], ex,
                      lambda c: "pretty_next_run(%r, days %s) at %d UTC" % ((c[0], c[1], now) if c else ("?", "?", now)), startups=96 if tier == "quick" else 1200, spread=False, now=now, zone="UTC")


def run(tier, rnd, out):
    run_threads(tier, out, rnd)
    zones = ["UTC", "Asia/Jerusalem", "America/Los_Angeles", "Pacific/Kiritimati"] if tier == "quick" else world.ZONES_QUICK + ["America/Los_Angeles", "Asia/Tokyo", "Europe/London"]
    for c in lib.load_corpus("C13"): run_zone(out, "corpus", c["zone"], [c])
    # every minute of a day: the clock in the very minute of the start (and one minute to either side), today among the days
    day0 = rnd.randrange(19000, 20000) * 86400; wd0 = D.datetime.fromtimestamp(day0, D.timezone.utc).weekday()
    allm = [{"zone": "UTC", "now": day0 + 60 * (m + k) + rnd.randrange(60), "start": "%02d:%02d" % divmod(m, 60), "days": sorted({wd0, rnd.randrange(7)})}
            for m in range(1440) for k in ((0, -1, 1) if tier == "thorough" or m % 7 == 0 else (0,)) if 0 <= m + k < 1440]
    run_zone(out, "the-clock-in-the-minute-of-the-start-every-minute-of-the-day", "UTC", allm)
    for zone in zones:
        cs = gen(rnd, zone, tier); run_zone(out, "weekday-set-minute-grid", zone, cs)
        if zone in zones[:2]: run_ticking(out, rnd, zone, 300 if tier == "quick" else 3000)
        if zone in zones[:3]: run_listed(out, rnd, zone, 40 if tier == "quick" else 600)
        run_zone(out, "same-set-object-consulted-twice", zone, gen_reuse(rnd, [c for c in cs if len(c["days"]) >= 2], 150 if tier == "quick" else 3000))


def replay(rp, out):
    if "threads" in rp.get("stream", ""):
        import random
        return run_threads("thorough", out, random.Random(int(rp.get("seed", 1))))
    c = rp["input"]
    if "recs" in c:
        import random
        return run_listed(out, random.Random(1), c["zone"], 40)          # the listing stream is re-run for the zone (the reply itself is rebuilt from the seed)
    run_zone(out, rp.get("stream", "replay"), c["zone"], [c])
