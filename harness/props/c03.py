"""C03 — every operation logs in first and binds its commands to that login's session."""
import asyncio, struct
import time_machine, copy
import lib, world
from props import opcommon as oc
from props import c02
COQ_TARGET = "C03"
TRUSTED = ["that the Python classes keep no hidden state between calls or instances, and how asyncio interleaves two coroutines, "
           "is outside the model: it is what the sequence and interleaving streams of this run test",
           "interleaving: two API objects driven by asyncio.gather over scripted streams whose reads yield to the loop a random "
           "number of times while a shared virtual clock advances"]
ASSUMPTIONS = ["login reply of at least 12 bytes in the cases the Spec checker judges; shorter or empty login replies are compared "
               "with the model only"]
RULE = ("single operations of all 12 kinds; sequences of 2..12 operations on one API object (all ordered pairs of kinds in the "
        "thorough tier) with a fresh session id per login and the clock advanced between operations; pairs of objects with "
        "different ids and keys run concurrently, thermostat control over all 32 request subsets x separate-swing or not x update-only or not, sequences on one object whose device answers each read after 0.2 s .. 25 h of virtual time, including the four-frame thermostat flow against another object's login; non-trivial = distinct operations that wrote at least one command frame")
REQUIREMENT = ("frames of one operation = login frame of this API for this clock reading (key for type 1, device id for type 2), then "
               "1 command frame (thermostat control: 1-3) each carrying bytes 8-11 of this login's reply, this operation's "
               "timestamp and the configured device id (Spec/FrameSpec.v c03_check)")


def field_view(text):
    fs, o = oc.split_text(text)
    if not fs: return "no frames"
    return "login=" + c02.mask(fs[0]) + " " + " ".join("%d:%s:%s:%s" % (len(f) // 2, f[16:24], f[48:56], f[80:86]) for f in fs[1:])


SEP_IDS = ("ELEC7022", "ZM079055", "ZM079065", "ZM079049")
def count_bounds(c, verdict, outcome=""):
    if c["kind"] == 12:
        # a thermostat call that succeeded wrote exactly the frames of its kind: state query + main command when anything but the
        # swing of a separate-swing remote was asked, plus the separate swing command (never for update-only)
        irset, state, mode, target, fan, swing, update = c["args"]
        sep = irset["IRSetID"] in SEP_IDS
        main = state is not None or mode is not None or bool(target) or fan is not None or (swing is not None and not sep)
        n = (2 if main else 0) + (1 if sep and swing is not None and not update else 0)
        return (n, n) if outcome.startswith("ok") and all(len(r) > 0 for r in c["replies"]) else (0, 3)
    if verdict.startswith("frame:"): return (1, 1)
    if verdict == "raise": return (0, 1)      # that nothing is sent for a rejected argument is C02's claim, not this property's
    return (0, 1)


def judge(out, stream, cases, impl_texts):
    """impl vs model on the field view; impl frames vs the Spec's shape checker"""
    mo = [field_view(t) for t in lib.run_model([world.model_line(c) for c in cases])]
    io = [field_view(t) for t in impl_texts]
    verdicts = lib.run_model([c02.spec_line(c) if c["kind"] != 12 and oc.has_session(c) else "spec_login #0 - - #0" for c in cases])
    lines = []; judged = []
    for c, t, v in zip(cases, impl_texts, verdicts):
        fs, _ = oc.split_text(t)
        ok_hex = all(len(f) % 2 == 0 for f in fs)
        if not oc.has_session(c) or not ok_hex: judged.append(False); lines.append("spec_login #0 - - #0"); continue
        lo, hi = count_bounds(c, v, oc.split_text(t)[1])
        judged.append(True)
        lines.append(lib.req("c03", 1 if c["kind"] in world.TYPE2_KINDS else 0, bytes.fromhex(c["id"]), bytes.fromhex(c["key"]),
                             c["now"], bytes.fromhex(c["replies"][0]), lo, hi, [bytes.fromhex(f) for f in fs]))
    res = lib.run_model(lines)
    spec_impl = [r if j else "-" for r, j in zip(res, judged)]
    ex = ["ok" if j else "-" for j in judged]
    lib.differential(out, stream, cases, io, mo, ex, oc.describe, nontrivial=lambda c: True, sample=lambda c: oc.describe(c)[:300],
                     classify=lambda c, i: world.KIND_NAMES[c["kind"]] + "/%d-cmd" % max(0, i.count(":") // 3), impl_spec=spec_impl)


def clean_case(rnd, kind):
    c = world.rand_op_case(rnd, kind)
    return c


def run_sequences(rnd, seqs):
    """each sequence on ONE api object per class; returns (flat cases, flat impl texts)"""
    async def go():
        cases = []; texts = []
        for seq in seqs:
            apis = {}
            ident = {False: ("%06x" % rnd.randrange(1 << 24), "%02x" % rnd.randrange(256)),
                     True: ("%06x" % rnd.randrange(1 << 24), "%02x" % rnd.randrange(256))}
            now = rnd.randrange(1_600_000_000, 2_000_000_000)
            prev = None
            for kind in seq:
                t2 = kind in world.TYPE2_KINDS
                if t2 not in apis: apis[t2] = world.ScriptedApi(t2, *ident[t2])
                c = clean_case(rnd, kind); c["id"], c["key"] = ident[t2]
                if prev is not None and prev["kind"] == kind and rnd.random() < .7:       # the very same request again (a user pressing the button twice): a full exchange again
                    c["args"] = copy.deepcopy(prev["args"])
                now += rnd.choice([0, 1, 1, 5, 3600, 86400]); c["now"] = now
                if kind == 4: c["replies"][1] = world.schedules_reply(rnd, now).hex()
                texts.append(await apis[t2].run(kind, c["args"], [bytes.fromhex(r) for r in c["replies"]], now)); cases.append(c); prev = c
        return cases, texts
    return asyncio.run(go())


DELAYS = [0, 0.2, 1.9, 2.1, 4.9, 5.1, 9.9, 10.1, 29, 31, 59, 61, 125, 601, 3700, 90000]
def run_slow_sequences(rnd, n):
    """sequences of operations on ONE api object whose device takes from a fraction of a second to a day to answer each read
    (virtual clock): however slow a reply, it belongs to the read that was waiting for it"""
    async def go():
        cases = []; texts = []
        for _ in range(n):
            t2 = rnd.random() < .5
            ident = ("%06x" % rnd.randrange(1 << 24), "%02x" % rnd.randrange(256))
            api = world.SlowApi(t2, *ident); now = rnd.randrange(1_600_000_000, 2_000_000_000)
            for _ in range(rnd.randrange(2, 5)):
                kind = rnd.choice([k for k in range(1, 13) if (k in world.TYPE2_KINDS) == t2])
                c = clean_case(rnd, kind); c["id"], c["key"] = ident
                now += rnd.choice([1, 5, 3600]); c["now"] = now
                if kind == 4: c["replies"][1] = world.schedules_reply(rnd, now).hex()
                api.delays[:] = [rnd.choice(DELAYS) for _ in c["replies"]]; c["delays"] = list(api.delays)
                texts.append(await api.run(kind, c["args"], [bytes.fromhex(r) for r in c["replies"]], now)); cases.append(c)
        return cases, texts
    return world.run_virtual(go())


def run_idle_sessions(rnd, n):
    """a session opened with the real connect() (over a scripted connection: the library's `open_connection` is answered by the harness) on
    the virtual clock, with seconds to hours of silence between its operations.  Whatever the client does while idle, the frames the device gets
    are those of the operations: nothing is written in between, and each operation is its login frame and its command frames"""
    import time as _time
    import aioswitcher.api as A
    async def go():
        cases = []; texts = []; loop = asyncio.get_running_loop()
        for _ in range(n):
            t2 = rnd.random() < .5; ident = ("%06x" % rnd.randrange(1 << 24), "%02x" % rnd.randrange(256))
            s = world.SlowApi(t2, *ident); reader, writer = s.api._reader, s.api._writer
            async def closed(): return None
            writer.wait_closed = closed; writer.is_closing = lambda: False
            fresh = (world.SwitcherType2Api if t2 else world.SwitcherType1Api)("127.0.0.1", *ident)
            async def answered(*a, **k): return reader, writer
            orig = getattr(A, "open_connection", None); mono = _time.monotonic
            if orig is None: return None, None
            renamed = []
            A.open_connection = answered; _time.monotonic = loop.time          # the monotonic clock follows the loop's (virtual) clock,
            renamed = [k for k, v in vars(A).items() if v is mono]               # also where the library holds it under a name of its own (`from time import monotonic`)
            for k in renamed: setattr(A, k, loop.time)
            try:
                await fresh.connect(); s.api = fresh; now = rnd.randrange(1_600_000_000, 2_000_000_000)
                for _ in range(rnd.randrange(2, 4)):
                    s.frames.clear(); gap = rnd.choice([0, 3, 26, 31, 61, 125, 601, 3700]); await asyncio.sleep(gap)
                    idle = list(s.frames)
                    kind = rnd.choice([k for k in range(1, 12) if (k in world.TYPE2_KINDS) == t2])
                    c = clean_case(rnd, kind); c["id"], c["key"] = ident; now += gap + 1; c["now"] = now; c["idle_before"] = gap
                    if kind == 4: c["replies"][1] = world.schedules_reply(rnd, now).hex()
                    t = await s.run(kind, c["args"], [bytes.fromhex(r) for r in c["replies"]], now)
                    texts.append("".join(f + "|" for f in idle) + t); cases.append(c)
                try: await asyncio.wait_for(fresh.disconnect(), 5)
                except Exception: pass
            finally:
                A.open_connection = orig; _time.monotonic = mono
                for k in renamed: setattr(A, k, mono)
        return cases, texts
    return world.run_virtual(go())


def run_one_script(rnd, n):
    """sequences of operations on ONE api object whose device script is loaded ONCE for the whole sequence: the replies are consumed
    one per frame written, so an operation that stops early (refused argument, empty login reply) leaves its replies to the next
    one, and a reply dropped or added shifts everything after it.  Compared with the model's threaded connection (Model/Session.v
    run_seq) and with the Spec's reading (Spec/Session.v: each operation alone on what the earlier ones left)"""
    async def go():
        cases = []; texts = []
        for _ in range(n):
            t2 = rnd.random() < .5
            ident = ("%06x" % rnd.randrange(1 << 24), "%02x" % rnd.randrange(256))
            api = world.ScriptedApi(t2, *ident); now = rnd.randrange(1_600_000_000, 2_000_000_000)
            ops = []; script = []
            for _ in range(rnd.randrange(2, 7)):
                # thermostat control is left to the other streams: which frames it writes depends on the remote's code table (C15, C16)
                kind = rnd.choice([k for k in range(1, 12) if (k in world.TYPE2_KINDS) == t2])
                c = oc.mixed_cases(rnd, 1)[0] if rnd.random() < .3 else clean_case(rnd, kind)
                if (c["kind"] in world.TYPE2_KINDS) != t2 or c["kind"] == 12: c = clean_case(rnd, kind)
                now += rnd.choice([0, 1, 5, 3600]); c["now"] = now; c["id"], c["key"] = ident
                if c["kind"] == 4 and len(c["replies"]) > 1: c["replies"][1] = world.schedules_reply(rnd, now).hex()
                ops.append(c); script += [r for r in c["replies"] if len(r) <= 2048]
            u = rnd.random()
            if u < .15 and script: del script[rnd.randrange(len(script))]
            elif u < .3: script.insert(rnd.randrange(len(script) + 1), rnd.choice(["", "00", rnd.randbytes(rnd.randrange(1, 60)).hex()]))
            elif u < .4: script = script[:rnd.randrange(len(script) + 1)]
            api.frames.clear(); api.script[:] = [bytes.fromhex(r) for r in script]; api.pending = b""
            outs = [await api.run_on(c["kind"], c["args"], c["now"]) for c in ops]
            cases.append({"id": ident[0], "key": ident[1], "ops": ops, "script": script})
            texts.append("".join(f + "|" for f in api.frames) + "".join(o + ";" for o in outs))
        return cases, texts
    return asyncio.run(go())


def seq_line(fn, c):
    return lib.req(fn, c["id"], c["key"], [[o["kind"], o["now"], world.model_op_args(o["kind"], o["args"], o["now"])] for o in c["ops"]],
                   [bytes.fromhex(r) for r in c["script"]])


def judge_scripts(out, stream, cases, texts):
    def view(t):          # per frame: its size, bytes 8-11 (session), 24-27 (timestamp), 40-42 (device id / login key); then the outcomes
        fs = t.split("|")
        # what a reply decodes to, and which exception a refused argument or a bad reply raises, are other properties' subjects (C08, C09, C02)
        return " ".join("%d:%s:%s:%s" % (len(f) // 2, f[16:24], f[48:56], f[80:86]) for f in fs[:-1])
    mo = [view(t) for t in lib.run_model([seq_line("seq", c) for c in cases])]; ex = [view(t) for t in lib.run_model([seq_line("seq_spec", c) for c in cases])]
    texts = [view(t) for t in texts]
    d = lambda c: "one script of %d replies for: " % len(c["script"]) + "; ".join(oc.describe(o)[:120] for o in c["ops"])
    lib.differential(out, stream, cases, texts, mo, ex, d, nontrivial=lambda c: True, sample=lambda c: d(c)[:300],
                     classify=lambda c, i: "one-script/%d-ops/%d-frames" % (len(c["ops"]), i.count("|")))


def run_same_address(rnd, n):
    """two API objects of one class, different device ids and keys, CONNECTED (real connect()) to the same address - two applications,
    or two logical devices behind one address - and operating at the same time against a device that takes 10 ms per reply and hands out
    a different session id per login.  Each object must have a connection of its own carrying its own exchange"""
    async def go():
        ip = world.loopback_ip(11); cases = []; texts = []
        for j in range(n):
            t2 = j % 2 == 1; dev = world.FakeDevice(ip, 10000 if t2 else 9957); dev.delay = 0.01; count = [0]
            def policy(conn, d):
                if d[8:12] == b"\0\0\0\0": count[0] += 1; return bytes(8) + bytes([0xa0 + conn, count[0], 0x5a, conn]) + bytes(12)
                return b"\x01" * 20
            dev.policy = policy
            await dev.listen(True)
            try:
                kinds = [7, 8] if t2 else [1, 3, 5, 2]
                objs = []
                for _ in range(2):
                    c = clean_case(rnd, rnd.choice(kinds)); c["id"] = "%06x" % rnd.randrange(1 << 24); c["key"] = "%02x" % rnd.randrange(256)
                    while objs and (c["key"] == objs[0][0]["key"] or c["id"] == objs[0][0]["id"]):          # DIFFERENT ids and keys: a connection is attributed by the credential it carries (FA15)
                        c["id"] = "%06x" % rnd.randrange(1 << 24); c["key"] = "%02x" % rnd.randrange(256)
                    objs.append((c, (world.SwitcherType2Api if t2 else world.SwitcherType1Api)(ip, c["id"], c["key"])))
                for _, api in objs: await asyncio.wait_for(api.connect(), 10)
                async def one(c, api):
                    try: return world.show_response(c["kind"], await asyncio.wait_for(world.call_op(api, c["kind"], c["args"]), 10))
                    except asyncio.TimeoutError: return "exc:NeverReturned"
                    except Exception as e: return "exc:" + world.exc_name(e)
                outs = await asyncio.gather(*[one(c, api) for c, api in objs])
                for _, api in objs:
                    try: await asyncio.wait_for(api.disconnect(), 10)
                    except Exception: pass
                for _ in range(3): await asyncio.sleep(0)
            finally:
                await dev.listen(False)
            # per object: the connection whose first frame carries its credential (type 1: the key at byte 40; type 2: the id at 40-42)
            for (c, _), o in zip(objs, outs):
                cred = bytes.fromhex(c["id"]) if t2 else bytes.fromhex(c["key"])
                mine = sorted({k for k, d in dev.log if d[8:12] == b"\0\0\0\0" and d[40:40 + len(cred)] == cred})
                frames = [d for k, d in dev.log if k in mine]; replies = [r for k, r in dev.sent if k in mine]
                if frames and len(frames[0]) >= 28: c["now"] = int.from_bytes(frames[0][24:28], "little")
                c["replies"] = [r.hex() for r in replies]; c["connections"] = dev.conns; c["mine"] = len(mine)
                cases.append(c); texts.append("".join(f.hex() + "|" for f in frames) + o)
        return cases, texts
    return asyncio.run(go())


def judge_same_address(out, stream, cases, texts):
    mo = [field_view(t) for t in lib.run_model([world.model_line(c) for c in cases])]; io = [field_view(t) for t in texts]
    def verdict(c, t):
        if c["connections"] != 2: return "the device saw %d connections for two connected API objects" % c["connections"]
        if c["mine"] != 1: return "%d connections carry a login with this object's credential" % c["mine"]
        return "ok"
    lib.differential(out, stream, cases, io, mo, ["ok"] * len(cases), lambda c: oc.describe(c) + " (one of two objects connected to the same address)",
                     nontrivial=lambda c: True, sample=lambda c: oc.describe(c)[:300], classify=lambda c, i: "same-address/" + world.KIND_NAMES[c["kind"]],
                     impl_spec=[verdict(c, t) for c, t in zip(cases, texts)])


class Interleaved(world.ScriptedApi):
    def __init__(self, rnd, traveller, *a):
        super().__init__(*a); self.rnd = rnd; self.trav = traveller
        async def read(n):
            for _ in range(self.rnd.randrange(0, 4)):
                await asyncio.sleep(0)
                if self.rnd.random() < .4: self.trav.shift(self.rnd.choice([1, 2, 61]))
            if not self.pending: self.pending = self.script.pop(0) if self.script else b""
            out, self.pending = self.pending[:n], self.pending[n:]
            return out
        self.api._reader.read = read

    async def run_unfrozen(self, kind, args, replies):
        self.frames.clear(); self.script[:] = list(replies); self.pending = b""
        try: out = world.show_response(kind, await world.call_op(self.api, kind, args))
        except Exception as e: out = "exc:" + world.exc_name(e)
        return "".join(f + "|" for f in self.frames) + out


def four_frame_args(rnd):
    """thermostat control that needs all four frames: separate-swing remote, swing plus another setting, not update-only"""
    irset = world.gen_irset(rnd); irset["IRSetID"] = rnd.choice(["ELEC7022", "ZM079055", "ZM079065", "ZM079049"])
    irset["IRWaveList"] += [{"Key": k, "Para": "P", "HexCode": k.upper().encode().hex()} for k in ("FUN_d0", "FUN_d1", "off", "aa", "ad", "aw", "ar", "ah", "on_")]
    return [irset, rnd.choice([True, False]), rnd.choice(world.MODE_NAMES), rnd.randrange(16, 31), rnd.choice(world.FAN_NAMES), rnd.choice([True, False]), False]


def run_interleaved(rnd, n_pairs, four_frames=False, shared_remote=False):
    """two API objects (any mix of classes, different identities) run their operation lists concurrently"""
    async def go():
        cases = []; texts = []
        for _ in range(n_pairs):
            t0 = rnd.randrange(1_600_000_000, 2_000_000_000)
            with time_machine.travel(float(t0), tick=False) as trav:
                objs = [Interleaved(rnd, trav, (rnd.random() < .5) if not ((four_frames and j == 0) or shared_remote) else True, "%06x" % rnd.randrange(1 << 24), "%02x" % rnd.randrange(256)) for j in range(2)]
                shared = None
                if shared_remote:          # two air conditioners of one model: the application holds ONE remote object for both (the manager hands out one per model)
                    shared = four_frame_args(rnd)[0]; world.REMOTES[id(shared)] = world.SwitcherBreezeRemote(shared)
                async def drive(o):
                    t2 = isinstance(o.api, world.SwitcherType2Api); res = []
                    for _ in range(rnd.randrange(1, 4)):
                        kind = rnd.choice([k for k in range(1, 13) if (k in world.TYPE2_KINDS) == t2])
                        if (four_frames or shared is not None) and t2: kind = 12
                        c = clean_case(rnd, kind); c["id"] = o.api._device_id; c["key"] = o.api._device_key
                        if four_frames and t2: c["args"] = four_frame_args(rnd)
                        if shared is not None:
                            c["args"] = four_frame_args(rnd); c["args"][0] = shared
                            if o is objs[1]: c["args"][5] = None          # the second one never asks for a swing change
                        if kind == 6: c["args"][0] = c["args"][1] = "10:00"       # the date may roll while the clock is shifted
                        txt = await o.run_unfrozen(kind, c["args"], [bytes.fromhex(r) for r in c["replies"]])
                        fs, _ = oc.split_text(txt)
                        if fs and len(fs[0]) >= 56: c["now"] = struct.unpack("<I", bytes.fromhex(fs[0][48:56]))[0]
                        res.append((c, txt))
                    return res
                for r in await asyncio.gather(*[drive(o) for o in objs]):
                    for c, t in r: cases.append(c); texts.append(t)
        return cases, texts
    return asyncio.run(go())


def run(tier, rnd, out):
    corpus = lib.load_corpus("C03")
    if corpus: judge(out, "corpus", corpus, world.run_cases_fresh(corpus))
    cs = oc.mixed_cases(rnd, 10 if tier == "quick" else 200)
    judge(out, "single", cs, world.run_cases_fresh(cs))
    kinds = list(range(1, 13))
    seqs = [[a, b] for a in kinds for b in kinds] if tier == "thorough" else [[rnd.choice(kinds), rnd.choice(kinds)] for _ in range(40)]
    seqs += [[rnd.choice(kinds) for _ in range(rnd.randrange(3, 13))] for _ in range(25 if tier == "quick" else 400)]
    seqs += [[k, k, k] for k in kinds] + [[k, rnd.choice(kinds), k, k] for k in kinds]           # the same operation twice or three times in a row, and again after another one
    cases, texts = run_sequences(rnd, seqs)
    judge(out, "sequences-on-one-object", cases, texts)
    from props import c16
    grid = [c16.gen_case(rnd, sub=sub, sep=sep, upd=upd) for sub in range(32) for sep in (False, True) for upd in (False, True)
            for _ in range(1 if tier == "quick" else 6)]
    for c in grid: c.pop("cur", None); c.pop("fault_at", None)
    judge(out, "thermostat-request-grid", grid, world.run_cases_fresh(grid))
    cases, texts = run_one_script(rnd, 60 if tier == "quick" else 1500)
    judge_scripts(out, "one-script-for-a-whole-sequence", cases, texts)
    cases, texts = run_slow_sequences(rnd, 30 if tier == "quick" else 600)
    judge(out, "slow-replies-on-one-object", cases, texts)
    cases, texts = run_idle_sessions(rnd, 25 if tier == "quick" else 500)
    if cases is None: out.notes.append("the library no longer opens its connection through aioswitcher.api.open_connection: stream sessions-with-idle-gaps not run")
    else: judge(out, "sessions-with-idle-gaps-on-a-virtual-clock", cases, texts)
    cases, texts = run_interleaved(rnd, 40 if tier == "quick" else 1000)
    judge(out, "two-objects-interleaved", cases, texts)
    cases, texts = run_interleaved(rnd, 40 if tier == "quick" else 1000, four_frames=True)
    judge(out, "four-frame-thermostat-flow-interleaved-with-another-object", cases, texts)
    cases, texts = run_interleaved(rnd, 30 if tier == "quick" else 800, shared_remote=True)
    judge(out, "two-thermostats-controlled-at-once-through-one-shared-remote-object", cases, texts)
    cases, texts = run_same_address(rnd, 6 if tier == "quick" else 100)
    judge_same_address(out, "two-objects-connected-to-one-address-operating-at-once", cases, texts)
    tcp = [c for c in oc.mixed_cases(rnd, 2 if tier == "quick" else 15) if all(len(r) > 0 for r in c["replies"])]
    judge(out, "single-over-tcp", tcp, asyncio.run(oc.run_tcp(tcp)))
    # ... and a device that answers the login and hangs up at the command (every kind of operation): whatever the outcome, the frames it
    # received - on whatever connections - are this operation's login frame and one command frame bound to it
    hang = []
    for kind in range(1, 12):
        c = world.rand_op_case(rnd, kind, "valid", True)
        if len(c["replies"][0]) >= 24: c["replies"] = [c["replies"][0], ""]; hang.append(c)
    judge(out, "over-tcp-the-device-hangs-up-at-the-command", hang, asyncio.run(oc.run_tcp(hang)))


def run_one_slow(c):
    async def go():
        api = world.SlowApi(c["kind"] in world.TYPE2_KINDS, c["id"], c["key"]); api.delays[:] = list(c["delays"])
        return [await api.run(c["kind"], c["args"], [bytes.fromhex(r) for r in c["replies"]], c["now"])]
    return world.run_virtual(go())


def replay_script(c):
    async def go():
        api = world.ScriptedApi(c["ops"][0]["kind"] in world.TYPE2_KINDS, c["id"], c["key"])
        api.frames.clear(); api.script[:] = [bytes.fromhex(r) for r in c["script"]]; api.pending = b""
        outs = [await api.run_on(o["kind"], o["args"], o["now"]) for o in c["ops"]]
        return "".join(f + "|" for f in api.frames) + "".join(o + ";" for o in outs)
    return asyncio.run(go())


def replay(rp, out):
    c = rp["input"]
    if "ops" in c: return judge_scripts(out, rp.get("stream", "replay"), [c], [replay_script(c)])
    judge(out, rp.get("stream", "replay"), [c], run_one_slow(c) if c.get("delays") else world.run_cases_fresh([c]))
