"""C19 — device types, categories, classes and ports are mutually consistent."""
import re, os
import lib, world
import aioswitcher.api as api, aioswitcher.bridge as bridge
from aioswitcher import device
from aioswitcher.device import DeviceType, DeviceCategory, DeviceState
COQ_TARGET = "C19"
TRUSTED = ["the tables the theorems range over are regenerated from the imported modules on every run (harness/extract_consts.py): "
           "enum members with all attributes, both port tables, and the 4 x 9 class-acceptance table obtained by calling each real "
           "constructor with each DeviceType"]
ASSUMPTIONS = ["the four device classes and their categories are fixed by name in Spec/Tables.v class_category"]
RULE = ("exhaustive: all 36 (class, type) pairs, each constructor called under both device states and varied other fields, all 65536 two-byte model codes through the broadcast parser (a type exactly for the nine codes of the protocol), all 9 types (code, protocol, category), all 4 categories in both port "
        "tables; each compared with the regenerated Coq table and judged against the property, in a fresh interpreter whose environment names the modules' constants, once at import and once after a bridge heard every family on ports of its own and both API classes ran an operation; non-trivial = distinct table rows")
REQUIREMENT = ("class accepts type iff same category; model codes unique 4-hex-digit; protocol 1 -> UDP 20002 / TCP 9957, protocol 2 -> "
               "UDP 20003 / TCP 10000; every category present in both port tables")
CLASS_CAT = {"SwitcherPowerPlug": "POWER_PLUG", "SwitcherWaterHeater": "WATER_HEATER", "SwitcherThermostat": "THERMOSTAT", "SwitcherShutter": "SHUTTER"}


DETAIL = {}
def variants():
    for st in DeviceState:
        for name in ("n", "", "x" * 32, "שלום"):
            yield (st, "aabbcc", "00", "1.2.3.4", "AA:BB:CC:DD:EE:FF", name)
        yield (st, "000000", "ff", "0.0.0.0", "00:00:00:00:00:00", "n")
    # the address as a caller may have it: zero-padded octets, a host name, an IPv6 address, nothing yet; the MAC in other spellings
    for ip, mac in (("192.168.001.033", "aa:bb:cc:dd:ee:ff"), ("switcher-boiler.local", "AA-BB-CC-DD-EE-FF"), ("::1", "aabbccddeeff"), ("", ""), ("255.255.255.255", "AA:BB:CC:DD:EE:FF")):
        yield (DeviceState.ON, "aabbcc", "18", ip, mac, "n")


def construct(cn, t):
    """the constructor's verdict on the type under every variation of the other fields; 'depends on ...' if it is not constant"""
    seen = {}
    for b in variants():
        try:
            # numbers as a caller may write them: whole amperes and whole degrees as int as well as float
            if cn == "SwitcherPowerPlug": [device.SwitcherPowerPlug(t, *b, w, a) for w, a in ((0, 0.0), (2600, 11.8), (65535, 297.9), (0, 0), (2640, 12))]
            elif cn == "SwitcherWaterHeater": [device.SwitcherWaterHeater(t, *b, w, a, r, au) for w, a, r, au in ((0, 0.0, "00:00:00", "00:00:00"), (2600, 11.8, "00:45:10", "23:59:59"), (2640, 12, "00:00:01", "01:00:00"))]
            elif cn == "SwitcherThermostat": [device.SwitcherThermostat(t, *b, m, tmp, 24, f, sw, "ELEC7022") for m in device.ThermostatMode for f in device.ThermostatFanLevel for sw in device.ThermostatSwing for tmp in (21.5, 26)]
            else: [device.SwitcherShutter(t, *b, pos, d) for pos in (0, 50, 100) for d in device.ShutterDirection]
            r = "accepted"
        except ValueError: r = "refused"
        except Exception as e: r = "raised " + type(e).__name__
        seen.setdefault(r, b)
    # a type of another category stays refused whatever else the caller adds to the call (an extra positional or keyword argument
    # is a TypeError today; were it accepted, it must not open the class to foreign types)
    own = t.category.name == CLASS_CAT[cn]
    if not own and seen == {"refused": seen.get("refused")}:
        b = next(variants()); tail = {"SwitcherPowerPlug": (0, 0.0), "SwitcherWaterHeater": (0, 0.0, "00:00:00", "00:00:00"),
                                      "SwitcherThermostat": (device.ThermostatMode.COOL, 21.5, 24, device.ThermostatFanLevel.LOW, device.ThermostatSwing.OFF, "ELEC7022"),
                                      "SwitcherShutter": (0, device.ShutterDirection.SHUTTER_STOP)}[cn]
        cls = getattr(device, cn)
        for extra in list(DeviceCategory) + [None, True, t.category.name]:
            for how in ("positional", "category", "device_category"):
                try:
                    cls(t, *b, *tail, extra) if how == "positional" else cls(t, *b, *tail, **{how: extra})
                    seen.setdefault("accepted", b); DETAIL[(cn, t.name)] = "accepted with an extra %s argument %r" % (how, extra)
                except (TypeError, ValueError): pass
                except Exception: pass
    if len(seen) == 1: return next(iter(seen))
    DETAIL[(cn, t.name)] = "; ".join("%s with state %s name %r" % (r, b[0].name, b[5]) for r, b in sorted(seen.items()))
    return "depends on the other fields"


def exercise():
    """use the library the way an application does: a bridge hearing every family on ports of its own choosing, both API classes
    talking to a scripted device; the tables must read the same afterwards"""
    import asyncio
    from props import c05, c06
    caps = c05.captures()
    async def go():
        await world.feed_bridge(2, [(k % 2, d) for k, d in enumerate(caps + caps)], (), c05.show, c06.sentinel)
        for t2 in (False, True):
            s = world.ScriptedApi(t2, "ab1c2d", "18")
            await s.run(9 if t2 else 11, [], [bytes(8) + b"\x01\x02\x03\x04" + bytes(12), bytes(120)], 1_700_000_000)
    asyncio.run(go())
    # a host that refuses one of the two control ports and accepts the other (a Runner asked as if it were a plug, and the other way round)
    async def wrong_port():
        ip = world.loopback_ip(19)
        for listen, cls in ((10000, world.SwitcherType1Api), (9957, world.SwitcherType2Api)):
            dev = world.FakeDevice(ip, listen); await dev.listen(True)
            try:
                api = cls(ip, "ab1c2d", "18")
                try: await asyncio.wait_for(api.connect(), 5)
                except Exception: pass
                try: await asyncio.wait_for(api.disconnect(), 5)
                except Exception: pass
            finally: await dev.listen(False)
    asyncio.run(wrong_port())
    # one device id heard as members of different families (a replaced device, a spoofed id): what the callback gets is an object of the class of
    # ITS type's category, every time
    seen = []
    async def same_id():
        pairs = [d for c in caps[:6] for d in [bytes(c[:18]) + b"\xaa\xaa\xaa" + bytes(c[21:])]]
        await world.feed_bridge(1, [(0, d) for d in pairs + pairs[::-1]], (), lambda dev: seen.append((type(dev).__name__, dev.device_type.category.name)) or "x", c06.sentinel, serial=True)
    asyncio.run(same_id())
    CLS = {"SwitcherPowerPlug": "POWER_PLUG", "SwitcherWaterHeater": "WATER_HEATER", "SwitcherShutter": "SHUTTER", "SwitcherThermostat": "THERMOSTAT"}
    exercise.mismatches = [x for x in seen if CLS.get(x[0]) != x[1]]
    # objects built with other spellings of their arguments (never started, never connected): ports as a tuple, a set, a mapping from
    # category to port, a generator; ids in upper case; whatever the constructors make of them, the tables are not theirs to change
    from aioswitcher.bridge import SwitcherBridge
    from aioswitcher.api import SwitcherType1Api, SwitcherType2Api
    for spec in ((20002, 10002), {20003}, {DeviceCategory.SHUTTER: 10003, DeviceCategory.WATER_HEATER: 10002}, {c: 1 for c in DeviceCategory}, (p for p in [1, 2]), None, [], "20002"):
        try: SwitcherBridge(lambda dev: None, spec)
        except Exception: pass
        try: SwitcherBridge(lambda dev: None, broadcast_ports=spec)
        except Exception: pass
    for cls in (SwitcherType1Api, SwitcherType2Api):
        for a in (("1.2.3.4", "AB1C2D", "18"), ("1.2.3.4", "ab1c2d", "18", 1234), ("::1", "000000", "00")):
            try: cls(*a)
            except Exception: pass
    # ... and the last things the library sees are broadcasts of known models that fail to decode, and a user callback that raises
    from aioswitcher.bridge import _parse_device_from_datagram
    def boom(dev): raise KeyError("user callback")
    for cap in caps:
        for damage in ((135, b"\xff\xff\xff\xff"), (42, b"\xff" * 32), (140, b"\xf7"), (137, b"\x07\x07"), (155, b"\xff\xff\xff\x7f")):
            d = bytearray(cap); o, b = damage
            if o + len(b) <= len(d): d[o:o + len(b)] = b
            for cb in ((lambda dev: None), boom):
                try: _parse_device_from_datagram(cb, bytes(d))
                except Exception: pass
        try: _parse_device_from_datagram(boom, cap)
        except Exception: pass


def codes_sweep(out):
    """every two-byte model code through the broadcast parser: a device type comes out exactly for the nine codes of the table"""
    from aioswitcher.bridge import DatagramParser
    gen = open(os.path.join(lib.COQ, "theories", "Gen", "Extracted.v")).read()
    table = {m.group(2): m.group(1) for m in re.finditer(r'\("(\w+)", "[^"]*", "([0-9a-f]{4})", \d%N, "\w+"\)', gen)}      # regenerated Coq table: code -> type
    spec = {t.hex_rep: t.name for t in DeviceType}          # the property: each type has its own code; the parser must name a type for exactly these
    base = bytearray(165); base[0:2] = b"\xfe\xf0"
    io = []; mo = []; ex = []; cases = []
    for code in range(65536):
        b = code.to_bytes(2, "big"); base[74:76] = b
        try:
            t = DatagramParser(bytes(base)).get_device_type(); i = t.name if t is not None else "none"
        except Exception as e: i = "raised " + type(e).__name__
        h = b.hex()
        if i != "none" or h in table or h in spec:
            cases.append({"code": h}); io.append(i); mo.append(table.get(h, "none")); ex.append(spec.get(h, "none"))
    out.stream("all-65536-model-codes-through-the-parser", 65536)
    lib.differential(out, "model-codes-that-name-a-type", cases, io, mo, ex, lambda c: "broadcast model code %s" % c["code"], sample=lambda c: c)


def environment(out):
    """the tables do not depend on the process environment: a fresh interpreter whose environment names every numeric constant of the
    two modules (as SWITCHER_* style variables, each set to its own documented value) reads the same tables"""
    import subprocess, sys, json
    consts = {}
    for mod in (api, bridge):
        for n in dir(mod):
            v = getattr(mod, n)
            if n.isupper() and isinstance(v, int) and not isinstance(v, bool): consts[n] = v
    # the port tables and the class / type acceptance matrix (a class accepts exactly the types of its own category)
    code = ("import json, aioswitcher.api as a, aioswitcher.bridge as b, aioswitcher.device as d\n"
            "S = d.DeviceState.ON; base = ('aabbcc', '18', '1.2.3.4', 'AA:BB:CC:DD:EE:FF', 'name')\n"
            "mk = {'SwitcherPowerPlug': lambda t: d.SwitcherPowerPlug(t, S, *base, 5, 0.0), 'SwitcherWaterHeater': lambda t: d.SwitcherWaterHeater(t, S, *base, 5, 0.0, '00:00:00', '01:00:00'),\n"
            "      'SwitcherShutter': lambda t: d.SwitcherShutter(t, S, *base, 50, d.ShutterDirection.SHUTTER_STOP),\n"
            "      'SwitcherThermostat': lambda t: d.SwitcherThermostat(t, S, *base, d.ThermostatMode.COOL, 21.5, 24, d.ThermostatFanLevel.LOW, d.ThermostatSwing.OFF, 'ELEC7022')}\n"
            "def v(f, t):\n"
            "    try: f(t); return 'accepted'\n"
            "    except ValueError: return 'refused'\n"
            "    except Exception as e: return 'raised ' + type(e).__name__\n"
            "print(json.dumps({'tcp': {k.name: v_ for k, v_ in a.SWITCHER_DEVICE_TO_TCP_PORT.items()}, 'udp': {k.name: v_ for k, v_ in b.SWITCHER_DEVICE_TO_UDP_PORT.items()},\n"
            "                  'classes': {c + '/' + t.name: v(f, t) for c, f in mk.items() for t in d.DeviceType}}))")
    cat = {"SwitcherPowerPlug": "POWER_PLUG", "SwitcherWaterHeater": "WATER_HEATER", "SwitcherShutter": "SHUTTER", "SwitcherThermostat": "THERMOSTAT"}
    from aioswitcher.device import DeviceType
    want = {"tcp": {c.name: api.SWITCHER_DEVICE_TO_TCP_PORT.get(c) for c in DeviceCategory}, "udp": {c.name: bridge.SWITCHER_DEVICE_TO_UDP_PORT.get(c) for c in DeviceCategory},
            "classes": {c + "/" + t.name: ("accepted" if t.category.name == cat[c] else "refused") for c in cat for t in DeviceType}}
    envs = [("every constant named in the environment with its own value", {n: str(v) for n, v in consts.items()}, []),
            ("only the type-1 constants named", {n: str(v) for n, v in consts.items() if "TYPE1" in n}, []),
            ("unrelated variables", {"SWITCHER": "1", "PORT": "1", "TZ": "Asia/Kathmandu", "LANG": "tr_TR.UTF-8"}, []),
            ("TZ=Asia/Jerusalem", {"TZ": "Asia/Jerusalem"}, []), ("TZ=America/Los_Angeles", {"TZ": "America/Los_Angeles"}, []), ("TZ=Asia/Kolkata", {"TZ": "Asia/Kolkata"}, []),
            ("TZ=Australia/Lord_Howe", {"TZ": "Australia/Lord_Howe"}, []), ("an interpreter started with -O", {}, ["-O"]), ("an interpreter started with -OO", {}, ["-OO"]),
            ("PYTHONOPTIMIZE=1", {"PYTHONOPTIMIZE": "1"}, []), ("PYTHONHASHSEED=0 and -X dev", {"PYTHONHASHSEED": "0"}, ["-X", "dev"]), ("an isolated interpreter's opposite: -E ignored variables", {"PYTHONUTF8": "0", "LC_ALL": "C"}, [])]
    io = []
    for _, extra, flags in envs:
        env = dict(os.environ, PYTHONPATH=lib.REPO_SRC, **extra)
        p = subprocess.run([sys.executable] + flags + ["-c", code], capture_output=True, text=True, env=env, timeout=120)
        try: io.append(json.dumps(json.loads(p.stdout), sort_keys=True))
        except Exception: io.append("import failed: " + p.stderr.strip()[-200:])
    lib.differential(out, "tables-in-a-fresh-interpreter-under-other-environments", [{"environment": n} for n, _, _ in envs], io, None,
                     [json.dumps(want, sort_keys=True)] * len(envs), lambda c: "port tables and class / type matrix with " + c["environment"], sample=lambda c: c)


def run(tier, rnd, out):
    environment(out)
    codes_sweep(out)
    tables(out, "")
    exercise()
    lib.differential(out, "one-device-id-heard-as-different-families", [{"what": "class of each delivered object vs the category of its type"}],
                     ["consistent" if not exercise.mismatches else "delivered %s" % exercise.mismatches[:3]], None, ["consistent"], lambda c: c["what"])
    tables(out, "-after-the-library-was-used")
    out.exhaustive = True


def tables(out, suffix):
    gen = open(os.path.join(lib.COQ, "theories", "Gen", "Extracted.v")).read()
    rows = dict(((m.group(1), m.group(2)), m.group(3)) for m in re.finditer(r'\("(Switcher\w+)", "(\w+)", (true|false)\)', gen[gen.index("Definition class_accepts "):gen.index("Definition class_accepts_some")]))
    cases = [{"cls": cn, "type": t.name} for cn in CLASS_CAT for t in DeviceType]
    io = [construct(c["cls"], DeviceType[c["type"]]) for c in cases]
    some = dict(((m.group(1), m.group(2)), m.group(3)) for m in re.finditer(r'\("(Switcher\w+)", "(\w+)", (true|false)\)', gen[gen.index("Definition class_accepts_some"):]))
    mo = [{("true", "true"): "accepted", ("false", "false"): "refused"}.get((rows.get((c["cls"], c["type"])), some.get((c["cls"], c["type"]))), "depends on the other fields") for c in cases]
    ex = ["accepted" if DeviceType[c["type"]].category.name == CLASS_CAT[c["cls"]] else "refused" for c in cases]
    lib.differential(out, "class-x-type" + suffix, cases, io, mo, ex, lambda c: "%s(%s)%s" % (c["cls"], c["type"], " [" + DETAIL[(c["cls"], c["type"])] + "]" if (c["cls"], c["type"]) in DETAIL else ""), sample=lambda c: c, classify=lambda c, i: i)
    tcases = [{"type": t.name} for t in DeviceType]
    codes = [t.hex_rep for t in DeviceType]
    io = []; ex = []
    for t in DeviceType:
        ok_code = bool(re.fullmatch(r"[0-9a-f]{4}", t.hex_rep)) and codes.count(t.hex_rep) == 1
        tp = api.SWITCHER_DEVICE_TO_TCP_PORT.get(t.category); up = bridge.SWITCHER_DEVICE_TO_UDP_PORT.get(t.category)
        io.append("code-ok=%s proto=%s tcp=%s udp=%s" % (ok_code, t.protocol_type, tp, up))
        ex.append("code-ok=True proto=%s tcp=%s udp=%s" % (t.protocol_type, {1: 9957, 2: 10000}.get(t.protocol_type), {1: 20002, 2: 20003}.get(t.protocol_type)))
    mo = []
    for t in DeviceType:
        m = re.search(r'\("%s", "[^"]*", "([0-9a-f]*)", (\d)%%N, "(\w+)"\)' % t.name, gen)
        tp = re.search(r'tcp_port_of_category : [^=]*:= \[.*?\("%s", (\d+)%%N\)' % (m.group(3) if m else "?"), gen)
        up = re.search(r'udp_port_of_category : [^=]*:= \[.*?\("%s", (\d+)%%N\)' % (m.group(3) if m else "?"), gen)
        mo.append("code-ok=%s proto=%s tcp=%s udp=%s" % (bool(m) and codes.count(m.group(1)) == 1, m.group(2) if m else "?", tp.group(1) if tp else None, up.group(1) if up else None))
    lib.differential(out, "types-and-ports" + suffix, tcases, io, mo, ex, lambda c: "DeviceType." + c["type"], sample=lambda c: c)
    cats = [{"category": c.name} for c in DeviceCategory]
    io = ["tcp=%s udp=%s" % (c in api.SWITCHER_DEVICE_TO_TCP_PORT, c in bridge.SWITCHER_DEVICE_TO_UDP_PORT) for c in DeviceCategory]
    lib.differential(out, "categories" + suffix, cats, io, None, ["tcp=True udp=True"] * len(cats), lambda c: "DeviceCategory." + c["category"])


def replay(rp, out):
    import random; run("quick", random.Random(1), out)
