"""C19 — device types, categories, classes and ports are mutually consistent."""
import re, os
import lib, world
import aioswitcher.api as api, aioswitcher.bridge as bridge
from aioswitcher import device
from aioswitcher.device import DeviceType, DeviceCategory, DeviceState
COQ_TARGET = "C19"
TRUSTED = ["the tables the theorems range over are regenerated from the imported modules on every run (harness/extract_consts.py): "
           "enum members with all attributes, both port tables, and the 4 x 9 class-acceptance table obtained by calling each real "
           "constructor with each DeviceType"]
ASSUMPTIONS = ["the four device classes and their categories are fixed by name in Spec/Tables.v class_category"]
RULE = ("exhaustive: all 36 (class, type) constructor calls, all 9 types (code, protocol, category), all 4 categories in both port "
        "tables; each compared with the regenerated Coq table and judged against the property; non-trivial = distinct table rows")
REQUIREMENT = ("class accepts type iff same category; model codes unique 4-hex-digit; protocol 1 -> UDP 20002 / TCP 9957, protocol 2 -> "
               "UDP 20003 / TCP 10000; every category present in both port tables")
CLASS_CAT = {"SwitcherPowerPlug": "POWER_PLUG", "SwitcherWaterHeater": "WATER_HEATER", "SwitcherThermostat": "THERMOSTAT", "SwitcherShutter": "SHUTTER"}


def construct(cn, t):
    base = (DeviceState.ON, "aabbcc", "00", "1.2.3.4", "AA:BB:CC:DD:EE:FF", "n")
    try:
        if cn == "SwitcherPowerPlug": device.SwitcherPowerPlug(t, *base, 0, 0.0)
        elif cn == "SwitcherWaterHeater": device.SwitcherWaterHeater(t, *base, 0, 0.0, "00:00:00", "00:00:00")
        elif cn == "SwitcherThermostat": device.SwitcherThermostat(t, *base, device.ThermostatMode.COOL, 0.0, 0, device.ThermostatFanLevel.LOW, device.ThermostatSwing.OFF, "R")
        else: device.SwitcherShutter(t, *base, 0, device.ShutterDirection.SHUTTER_STOP)
        return "accepted"
    except ValueError: return "refused"
    except Exception as e: return "raised " + type(e).__name__


def run(tier, rnd, out):
    gen = open(os.path.join(lib.COQ, "theories", "Gen", "Extracted.v")).read()
    rows = dict(((m.group(1), m.group(2)), m.group(3)) for m in re.finditer(r'\("(Switcher\w+)", "(\w+)", (true|false)\)', gen))
    cases = [{"cls": cn, "type": t.name} for cn in CLASS_CAT for t in DeviceType]
    io = [construct(c["cls"], DeviceType[c["type"]]) for c in cases]
    mo = [{"true": "accepted", "false": "refused"}.get(rows.get((c["cls"], c["type"])), "missing") for c in cases]
    ex = ["accepted" if DeviceType[c["type"]].category.name == CLASS_CAT[c["cls"]] else "refused" for c in cases]
    lib.differential(out, "class-x-type", cases, io, mo, ex, lambda c: "%s(%s)" % (c["cls"], c["type"]), sample=lambda c: c, classify=lambda c, i: i)
    tcases = [{"type": t.name} for t in DeviceType]
    codes = [t.hex_rep for t in DeviceType]
    io = []; ex = []
    for t in DeviceType:
        ok_code = bool(re.fullmatch(r"[0-9a-f]{4}", t.hex_rep)) and codes.count(t.hex_rep) == 1
        tp = api.SWITCHER_DEVICE_TO_TCP_PORT.get(t.category); up = bridge.SWITCHER_DEVICE_TO_UDP_PORT.get(t.category)
        io.append("code-ok=%s proto=%s tcp=%s udp=%s" % (ok_code, t.protocol_type, tp, up))
        ex.append("code-ok=True proto=%s tcp=%s udp=%s" % (t.protocol_type, {1: 9957, 2: 10000}.get(t.protocol_type), {1: 20002, 2: 20003}.get(t.protocol_type)))
    mo = []
    for t in DeviceType:
        m = re.search(r'\("%s", "[^"]*", "([0-9a-f]*)", (\d)%%N, "(\w+)"\)' % t.name, gen)
        tp = re.search(r'tcp_port_of_category := \[.*?\("%s", (\d+)%%N\)' % (m.group(3) if m else "?"), gen)
        up = re.search(r'udp_port_of_category := \[.*?\("%s", (\d+)%%N\)' % (m.group(3) if m else "?"), gen)
        mo.append("code-ok=%s proto=%s tcp=%s udp=%s" % (bool(m) and codes.count(m.group(1)) == 1, m.group(2) if m else "?", tp.group(1) if tp else None, up.group(1) if up else None))
    lib.differential(out, "types-and-ports", tcases, io, mo, ex, lambda c: "DeviceType." + c["type"], sample=lambda c: c)
    cats = [{"category": c.name} for c in DeviceCategory]
    io = ["tcp=%s udp=%s" % (c in api.SWITCHER_DEVICE_TO_TCP_PORT, c in bridge.SWITCHER_DEVICE_TO_UDP_PORT) for c in DeviceCategory]
    lib.differential(out, "categories", cats, io, None, ["tcp=True udp=True"] * len(cats), lambda c: "DeviceCategory." + c["category"])
    out.exhaustive = True


def replay(rp, out):
    import random; run("quick", random.Random(1), out)
