"""C10 — listed schedules decode exactly; a created schedule reads back unchanged."""
import datetime as D, struct, zoneinfo
import lib, world
COQ_TARGET = "C10"
TRUSTED = ["zone tables: TZif data under /usr/share/zoneinfo, read by the harness for the model and by zoneinfo for the oracle; that "
           "libc's localtime follows the table of the configured zone is checked by this run only",
           "virtual clock: time_machine in a subprocess started with TZ=<zone>"]
ASSUMPTIONS = ["whole 16-byte records; day masks 0 or even 2..254 are judged by the oracle, masks 1, 255 and odd ones are compared "
               "with the model only; duplicate slot ids keep the first record",
               "the display text is C13's subject and is not part of this check's view"]
RULE = ("replies built by the Spec encoder holding 0..8 records with ids (including duplicates), all kinds of masks, start and end "
        "instants around the virtual now, 40 % of the nows within a day of a zone transition, in several zones; truncated and empty "
        "replies; the same replies listed in one process whose host zone is switched in between; create_schedule -> captured record -> listed back through the parser; non-trivial = distinct replies with at least "
        "one record")
REQUIREMENT = ("parsed set = one schedule per distinct slot id with that record's id, recurrence flag (mask != 0), day set (bit d+1 = "
               "weekday d), local start / end HH:MM (oracle: zoneinfo) and duration (end - start) mod 24 h; empty reply: no schedules; "
               "created (start, end, days) listed back gives the same start, end, days")


def oracle(zone, recs):
    tz = zoneinfo.ZoneInfo(zone); seen = set(); rows = []
    if any(not (r[2] == 0 or (r[2] % 2 == 0 and 2 <= r[2] <= 254)) for r in recs): return "-"     # a mask the property does not speak about
    for (i, en, mask, st, s, e, t) in recs:
        if i in seen: continue
        seen.add(i)
        ls = D.datetime.fromtimestamp(s, tz); le = D.datetime.fromtimestamp(e, tz)
        dur = ((le.hour * 60 + le.minute) - (ls.hour * 60 + ls.minute)) % 1440
        rows.append((i, ",".join([str(i), "0" if mask == 0 else "1", "".join(str(d) for d in range(7) if mask >> (d + 1) & 1),
                                  ls.strftime("%H:%M"), le.strftime("%H:%M"), "%d:%02d:00" % divmod(dur, 60)])))
    return "|".join(r for _, r in sorted(rows))


def strip_display(text):
    if text == "raised" or not text: return text
    return "|".join(",".join(r.split(",")[:6]) for r in text.split("|"))


def gen_case(rnd, zone, now):
    recs = []
    for i in range(rnd.randrange(0, 9)):
        mask = rnd.choice([0, rnd.randrange(1, 128) * 2, rnd.randrange(1, 128) * 2, rnd.randrange(1, 128) * 2, rnd.choice([1, 255, 3, 253])])
        st = now + rnd.choice([rnd.randrange(-100000, 100000)] * 3 + [rnd.randrange(-300, 300) * 86400 + rnd.randrange(86400)])       # also months away: the other season
        en = st + rnd.choice([rnd.randrange(0, 90000), rnd.randrange(0, 90000), 0, 86400, rnd.randrange(0, 60) - st % 60, 60, 86340])
        # the enabled flag and the state byte are not part of what a listing reports: any byte value may stand there
        recs.append([rnd.choice([i, i, rnd.randrange(256), rnd.randrange(3)]), rnd.choice([0, 1, 1, 2, 255, rnd.randrange(256)]), mask, rnd.choice([0, 1, 1, 2, 0x80, 255, rnd.randrange(256)]), st % 2 ** 32, en % 2 ** 32,
                     rnd.choice([[0, 0, 0, 0], [0, 0, 0, 0], [rnd.randrange(256) for _ in range(4)], [rnd.randrange(256), 0, 0, 0], [255] * 4])])      # the four bytes a listing does not read: often all zero
    return {"zone": zone, "now": now, "recs": recs, "hdr": world.rand_bytes(rnd, 45).hex(), "tail": world.rand_bytes(rnd, 4).hex(), "cut": None}


def describe(c): return "zone %s now %d records %s%s" % (c["zone"], c["now"], [r[:6] for r in c["recs"]], "" if c.get("cut") is None else " cut to %d bytes" % c["cut"])


def run_zone(out, stream, zone, cases):
    msgs = [bytes.fromhex(m) for m in lib.run_model([lib.req("schedules_encode", bytes.fromhex(c["hdr"]), c["recs"], bytes.fromhex(c["tail"])) for c in cases])]
    msgs = [m if c.get("cut") is None else m[:c["cut"]] for m, c in zip(msgs, cases)]
    full = world.zone_job(zone, "schedules", [{"now": c["now"], "msg": m.hex()} for c, m in zip(cases, msgs)])
    zd, tr = world.zone_args(zone)
    mo = []
    for t in lib.run_model([lib.req("schedules", zd, tr, c["now"], m) for c, m in zip(cases, msgs)]):
        mo.append(t if t == "raised" else "|".join(sorted([x for x in t.split("|") if x], key=lambda r: int(r.split(",")[0]))))
    ex = [oracle(zone, c["recs"]) if c.get("cut") is None else "-" for c in cases]
    # the display text is C13's subject: dropped from the view on both sides
    lib.differential(out, stream, cases, [strip_display(t) for t in full], [strip_display(t) for t in mo], ex, describe,
                     nontrivial=lambda c: len(c["recs"]) > 0, sample=describe,
                     classify=lambda c, i: zone + ("/raised" if i == "raised" else "/%d-schedules" % (i.count("|") + 1 if i else 0)))


def run_zone_changes(out, rnd, zones, n):
    """one process, the host zone switched between replies (TZ + tzset): the same records listed under one zone, then another,
    then the first again"""
    base = [gen_case(rnd, zones[0], now) for now in world.interesting_instants(rnd, zones[0], n)]
    cases = []
    for c in base:
        order = rnd.sample(zones, min(3, len(zones))); order.append(order[0])
        for z in order: cases.append(dict(c, zone=z))
    msgs = [bytes.fromhex(m) for m in lib.run_model([lib.req("schedules_encode", bytes.fromhex(c["hdr"]), c["recs"], bytes.fromhex(c["tail"])) for c in cases])]
    full = world.zone_job(zones[0], "schedules", [{"now": c["now"], "msg": m.hex(), "zone": c["zone"]} for c, m in zip(cases, msgs)])
    mo = []
    for c, m in zip(cases, msgs):
        zd, tr = world.zone_args(c["zone"])
        t = lib.run_model([lib.req("schedules", zd, tr, c["now"], m)])[0]
        mo.append(t if t == "raised" else "|".join(sorted([x for x in t.split("|") if x], key=lambda r: int(r.split(",")[0]))))
    ex = [oracle(c["zone"], c["recs"]) for c in cases]
    lib.differential(out, "host-zone-changed-within-one-process", cases, [strip_display(t) for t in full], [strip_display(t) for t in mo], ex, describe,
                     nontrivial=lambda c: len(c["recs"]) > 0, sample=describe, classify=lambda c, i: "zone-change/" + c["zone"])


def run_readback(out, stream, zone, rnd, n):
    cases = []
    for k, now in enumerate(world.interesting_instants(rnd, zone, n)):
        m = rnd.randrange(128) if k >= 3 else [0, 0, 127][k]           # the one-time schedule (no days) and the full week are always there
        cases.append({"zone": zone, "now": now, "start": "%02d:%02d" % (rnd.randrange(24), rnd.randrange(60)),
                      "end": "%02d:%02d" % (rnd.randrange(24), rnd.randrange(60)), "days": [d for d in range(7) if m >> d & 1], "slot": rnd.randrange(8)})
        if k % 5 == 4: cases[-1]["end"] = cases[-1]["start"]              # a slot that ends in the minute it starts in (duration 0:00:00) is a slot
        if k % 5 == 3: cases[-1]["end"] = "%02d:%02d" % divmod((int(cases[-1]["start"][:2]) * 60 + int(cases[-1]["start"][3:]) + rnd.choice([1, -1, 720])) % 1440, 60)
    # slots created in the week before the clocks change, for the change-over weekday (alone, or with the days after it), at times that day
    # does not have or has twice - today has them once, and today's date is the one the record is stamped with
    tz = zoneinfo.ZoneInfo(zone)
    for t in rnd.sample(world.transitions_in(zone, 1_000_000_000, 2_100_000_000), min(3, len(world.transitions_in(zone, 1_000_000_000, 2_100_000_000)))):
        lt = D.datetime.fromtimestamp(t - 1, tz); wd = lt.weekday(); base = lt.hour * 60 + lt.minute + 1
        for k in (1, 2, 6):
            now = t - k * 86400 + rnd.randrange(-7200, 7200)
            for off in (rnd.randrange(0, 30), rnd.randrange(30, 60), rnd.randrange(-60, 0)):
                a = (base + off) % 1440; b = (a + rnd.choice([30, 60, 600])) % 1440
                if rnd.random() < .3: a, b = b, a
                cases.append({"zone": zone, "now": now, "start": "%02d:%02d" % divmod(a, 60), "end": "%02d:%02d" % divmod(b, 60),
                              "days": sorted({wd} | ({(wd + 1) % 7} if rnd.random() < .4 else set())), "slot": rnd.randrange(8)})
    res = world.zone_job(zone, "create_readback", cases)
    io = []; ex = []
    for c, r in zip(cases, res):
        io.append(r.get("listed", "create raised"))
        # judged only when both wall-clock times exist today and are unambiguous (C11's domain)
        today = D.datetime.fromtimestamp(c["now"], tz).date(); ok = True
        for s in (c["start"], c["end"]):
            h, mi = map(int, s.split(":")); cand = set()
            for fold in (0, 1):
                dt = D.datetime(today.year, today.month, today.day, h, mi, tzinfo=tz, fold=fold)
                back = D.datetime.fromtimestamp(dt.timestamp(), tz)
                if (back.date(), back.hour, back.minute) == (today, h, mi): cand.add(dt.timestamp())
            if len(cand) != 1: ok = False
        sm = int(c["start"][:2]) * 60 + int(c["start"][3:]); em = int(c["end"][:2]) * 60 + int(c["end"][3:])
        ex.append(",".join([str(c["slot"]), "1" if c["days"] else "0", "".join(map(str, c["days"])), c["start"], c["end"],
                            "%d:%02d:00" % divmod((em - sm) % 1440, 60)]) if ok else "-")
    lib.differential(out, stream, cases, io, None, ex, lambda c: "create_schedule(%s, %s, days %s) listed back, zone %s now %d" % (c["start"], c["end"], c["days"], c["zone"], c["now"]),
                     sample=lambda c: c, classify=lambda c, i: zone + "/readback")


def run(tier, rnd, out):
    zones = world.ZONES_QUICK[:6] if tier == "quick" else world.ZONES_QUICK + world.ZONES_MORE
    for c in lib.load_corpus("C10"): run_zone(out, "corpus", c["zone"], [c])
    for zone in zones:
        nows = world.interesting_instants(rnd, zone, 100 if tier == "quick" else 500)
        cs = [gen_case(rnd, zone, now) for now in nows]
        for c in cs[:len(cs) // 12]: c["cut"] = rnd.randrange(0, 45 + 16 * len(c["recs"]) + 5)
        cs.append({"zone": zone, "now": nows[0], "recs": [], "hdr": "", "tail": "", "cut": 0})
        run_zone(out, "listed-replies", zone, cs)
        run_readback(out, "create-then-list-back", zone, rnd, 30 if tier == "quick" else 200)
    run_zone_changes(out, rnd, zones, 25 if tier == "quick" else 300)


def replay(rp, out):
    c = rp["input"]
    if "recs" in c and rp.get("stream") == "host-zone-changed-within-one-process":
        import random; run_zone_changes(out, random.Random(int(rp.get("seed", 1))), world.ZONES_QUICK[:6], 25)      # a sequence: the stream is the replay
    elif "recs" in c: run_zone(out, rp.get("stream", "replay"), c["zone"], [c])
    else: out.notes.append("read-back case: re-run the check to replay")
