"""C06 — only genuine Switcher broadcasts are accepted; anything else is ignored quietly."""
import asyncio
import lib, world
from props import c05
COQ_TARGET = "C06"
TRUSTED = ["warnings are observed with warnings.catch_warnings(record=True), escaped exceptions with the loop exception handler"]
ASSUMPTIONS = ["what a frame that passes the gate and names a known model decodes to is C05's subject and not judged here"]
RULE = ("every length 0..400 with and without the magic (802 datagrams), every length with a truthful length field, the captures followed by "
        "one more byte of every value (newline, NUL, ... included), the captures cut or extended by 1..3 bytes and with each "
        "magic bit flipped, accepted frames with model codes: all known ones, their one-bit neighbours and random ones (thorough: all "
        "65536 codes on each of the three lengths), random byte strings, "
        "other spellings of a genuine broadcast (hex text, base64, BOM, doubled), unknown-model frames whose name field is not UTF-8; the direct stream "
        "again with the library's loggers at DEBUG; a sample through a running bridge; "
        "non-trivial = distinct datagrams the Spec judges (outside the gate, or inside with an unknown model code)")
REQUIREMENT = ("gate = starts with fe f0 and length in {165, 168, 159} (Entry.e_gate_spec); outside the gate: no device, no warning, "
               "no exception; inside with an unknown model code: no device, one 'unknown device' warning, no exception")
KNOWN = None


def known_codes():
    global KNOWN
    if KNOWN is None:
        from aioswitcher.device import DeviceType
        KNOWN = {bytes.fromhex(t.hex_rep) for t in DeviceType}
    return KNOWN


def coarse(s):
    return s if s in ("ignored", "warned", "raised") or s.startswith("delivered ") else "delivered"


def expected(dgrams):
    gates = lib.run_model([lib.req("gate_spec", d) for d in dgrams])
    ex = []
    for d, g in zip(dgrams, gates):
        if g == "ignored": ex.append("ignored")
        elif bytes(d[74:76]) not in known_codes(): ex.append("warned")
        else: ex.append("-")
    return ex


def cases(tier, rnd):
    cs = []
    for n in range(401):
        cs.append(world.rand_bytes(rnd, n)); cs.append((b"\xfe\xf0" + world.rand_bytes(rnd, n))[:max(n, 0)] if n >= 2 else b"\xfe\xf0"[:n])
    for n in range(4, 401):             # the magic with a truthful little-endian length field, and with the field of an accepted length
        cs.append(b"\xfe\xf0" + n.to_bytes(2, "little") + world.rand_bytes(rnd, n - 4))
        cs.append(b"\xfe\xf0" + rnd.choice([159, 165, 168]).to_bytes(2, "little") + world.rand_bytes(rnd, n - 4))
    caps = c05.captures()
    for c in caps:
        for b in range(256):              # one more byte of every value after / before a genuine broadcast
            cs.append(c + bytes([b]))
            if tier == "thorough" or b in (0, 10, 13, 32, 254, 255): cs.append(bytes([b]) + c)
    for L in (159, 165, 168):
        for b in (0, 10, 13, 32, 255):
            for k in (1, 2, 3): cs.append(b"\xfe\xf0" + world.rand_bytes(rnd, L - 2) + bytes([b]) * k)
    for c in caps:
        for k in (1, 2, 3): cs.append(c[:-k]); cs.append(c + world.rand_bytes(rnd, k))
        for bit in range(16):
            x = bytearray(c); x[bit // 8] ^= 1 << (bit % 8); cs.append(bytes(x))
    for c in caps[:6]:                   # right-sized strings whose magic is not at the front: a capture rotated by one or two bytes, shifted by a nibble
        cs += [c[-1:] + c[:-1], c[-2:] + c[:-2], c[1:] + c[:1], bytes.fromhex((c.hex()[-1:] + c.hex()[:-1])), b"\0" + c[:-1], b"\0\0" + c[:-2]]
    codes = set(known_codes())
    for k in list(codes):
        for bit in range(16):
            x = bytearray(k); x[bit // 8] ^= 1 << (bit % 8); codes.add(bytes(x))
    for k in list(known_codes()):            # other near misses of the listed codes: bytes swapped, nibbles swapped, one more / one less
        a, b = k[0], k[1]
        codes |= {bytes([b, a]), bytes([(a >> 4) | ((a & 15) << 4), b]), bytes([a, (b >> 4) | ((b & 15) << 4)]), bytes([a, (b + 1) & 255]), bytes([a, (b - 1) & 255]),
                  bytes([(a + 1) & 255, b]), bytes([(a - 1) & 255, b]), bytes([a, 0]), bytes([0, b]), bytes([a, 255])}
    codes = sorted(codes) + [world.rand_bytes(rnd, 2) for _ in range(200)]
    if tier == "thorough": codes = [bytes([a, b]) for a in range(256) for b in range(256)]
    for code in codes:
        for L in ((159, 165, 168) if tier == "thorough" else (rnd.choice((159, 165, 168)),)):
            x = bytearray(world.rand_bytes(rnd, L)); x[0:2] = b"\xfe\xf0"; x[74:76] = code
            if rnd.random() < .5: x[133] = 1
            cs.append(bytes(x))
    cs += [world.rand_bytes(rnd, rnd.choice([159, 165, 168])) for _ in range(100)]
    # frames of other lengths that are self-consistent: a correct signature (Spec/Sign.v) over everything before it, and a truthful length field
    bodies = []
    for n in (40, 100, 155, 156, 161, 162, 163, 164, 166, 167, 170, 200, 400):
        for c in caps[:2]:
            b = bytearray((c + world.rand_bytes(rnd, 400))[:n]); b[2:4] = (n + 4).to_bytes(2, "little"); bodies.append(bytes(b))
    signed = lib.run_model([lib.req("sign_spec", b.hex()) for b in bodies])
    cs += [bytes.fromhex(t[3:]) for t in signed if t.startswith("ok ")]
    for c in caps:                         # other spellings of a genuine broadcast: hex text, base64, with a BOM, doubled
        import base64
        cs += [c.hex().encode(), c.hex().upper().encode(), b"0x" + c.hex().encode(), base64.b64encode(c), b"\xef\xbb\xbf" + c, c + c, c[::-1]]
    for L in (159, 165, 168):              # unknown model, name field that is not UTF-8 / is cut inside a character / is all zero
        for name in (b"\xff" * 32, ("\u05d0" * 16).encode()[:31] + b"\xd7", b"\0" * 32, b"\x80abc" + b"\0" * 28):
            x = bytearray(world.rand_bytes(rnd, L)); x[0:2] = b"\xfe\xf0"; x[74:76] = b"\xee\xee"; x[42:74] = name; cs.append(bytes(x))
    return cs


def describe(c): return "datagram of %d bytes %s.. model code %s" % (len(c["d"]) // 2, c["d"][:12], c["d"][148:152])


def run_direct(out, stream, dgrams):
    io = [coarse(c05.impl(d)) for d in dgrams]
    mo = [coarse(m) if "|" in m else m for m in lib.run_model([lib.req("bcast", d) for d in dgrams])]
    mo = [m if m in ("ignored", "warned", "raised") else "delivered" for m in mo]
    ex = expected(dgrams)
    cs = [{"d": d.hex()} for d in dgrams]
    j = {c["d"] for c, e in zip(cs, ex) if e != "-"}
    lib.differential(out, stream, cs, io, mo, ex, describe, nontrivial=lambda c: c["d"] in j, sample=describe,
                     classify=lambda c, i: i + ("/len%d" % (len(c["d"]) // 2) if len(c["d"]) // 2 in (159, 165, 168) else "/other-length"))


def sentinel(p):
    enc = c05.encode([{"desc": ["POWER_PLUG", 1, "aabbcc", 1, ("SENTINEL%d" % p).encode().hex(), "01020304", "0a0b0c0d0e0f", 5, 0, 0, 0, "SHUTTER_STOP", "COOL", 0, 0, "LOW", 0, "3030303030303030"], "filler": "00" * 170}])
    return enc[0][0]


def run_bridge(out, stream, dgrams):
    """through a running bridge: per datagram one observation, taken with a barrier after each"""
    async def go():
        res = []
        for d in dgrams:
            log, nh, nw, complete = await world.feed_bridge(1, [(0, d)], (), c05.show, sentinel)
            if not complete: res.append("barrier-lost")
            elif nh: res.append("raised")
            elif nw or world.feed_bridge.other_warnings: res.append("warned")          # any warning at all (the checks run under -b: a logged bytes object is one)
            elif log: res.append("delivered")
            else: res.append("ignored")
        return res
    io = asyncio.run(go())
    lost = [k for k, t in enumerate(io) if t == "barrier-lost"]
    if lost:
        keep = dgrams; dgrams = [keep[k] for k in lost]; again = asyncio.run(go()); dgrams = keep
        for k, t in zip(lost, again): io[k] = t
    mo = [m if m in ("ignored", "warned", "raised") else "delivered" for m in lib.run_model([lib.req("bcast", d) for d in dgrams])]
    ex = expected(dgrams); cs = [{"d": d.hex()} for d in dgrams]
    lib.differential(out, stream, cs, io, mo, ex, describe, sample=describe, classify=lambda c, i: "bridge/" + i)


def run_pairs(out, rnd):
    """one bridge, a genuine broadcast of a device and then a frame of the same device id with an unknown model code (and the other
    way round): what the bridge has seen before does not make an unknown model known"""
    caps = [c for c, m in zip(c05.captures(), lib.run_model([lib.req("bcast", c) for c in c05.captures()])) if "|" in m]     # the genuine ones
    pairs = []
    for c in caps:
        for code in (b"\xff\xff", b"\x00\x00", b"\xee\x01"):
            u = bytearray(c); u[74:76] = code; pairs.append([c, bytes(u)]); pairs.append([bytes(u), c]); pairs.append([c, c, bytes(u), bytes(u)])
    async def go():
        res = []
        for p in pairs:
            log, nh, nw, complete = await world.feed_bridge(1, [(0, d) for d in p], (), c05.show, sentinel, serial=True)
            res.append("%d delivered, %d unknown-device warnings, %d escaped exceptions" % (len(log), nw, nh) if complete else "barrier-lost")
        return res
    io = asyncio.run(go())
    lost = [k for k, t in enumerate(io) if t == "barrier-lost"]
    if lost:
        keep = pairs; pairs = [keep[k] for k in lost]; again = asyncio.run(go()); pairs = keep
        for k, t in zip(lost, again): io[k] = t
    ex = ["%d delivered, %d unknown-device warnings, 0 escaped exceptions" % (sum(1 for d in p if bytes(d[74:76]) in known_codes()), sum(1 for d in p if bytes(d[74:76]) not in known_codes())) for p in pairs]
    lib.differential(out, "known-and-unknown-models-of-one-device-through-one-bridge", [{"d": "|".join(x.hex() for x in p)} for p in pairs], io, None, ex,
                     lambda c: "one bridge, datagrams with model codes %s" % [x[148:152] for x in c["d"].split("|")], sample=lambda c: c["d"][:60])


def run_then_genuine(out, rnd, junk):
    """ONE bridge: a datagram that is to be ignored (or warned about), then genuine broadcasts - what is ignored is ignored QUIETLY: the
    bridge goes on listening"""
    caps = [c for c, m in zip(c05.captures(), lib.run_model([lib.req("bcast", c) for c in c05.captures()])) if "|" in m][:3]
    ex = expected(junk)
    async def go():
        res = []
        for j in junk:
            log, nh, nw, complete = await world.feed_bridge(1, [(0, j)] + [(0, c) for c in caps], (), c05.show, sentinel, serial=True)
            res.append("%d genuine broadcasts delivered afterwards%s" % (len(log), "" if complete else " (the barrier frame was lost too)"))
        return res
    io = asyncio.run(go())
    keep = [k for k, e in enumerate(ex) if e in ("ignored", "warned")]
    lib.differential(out, "ignored-datagram-then-genuine-broadcasts-through-one-bridge", [{"d": junk[k].hex()} for k in keep], [io[k] for k in keep], None,
                     ["%d genuine broadcasts delivered afterwards" % len(caps)] * len(keep), describe, sample=describe, classify=lambda c, i: "then-genuine/" + i[:2])


def run_split_and_ports(out, rnd):
    """(a) a genuine broadcast cut in two datagrams: each piece is a datagram to be ignored, and stays so when the other follows it;
    (b) ONE bridge on two ports: a genuine broadcast on one port, then a frame of the same device id with an unknown model code on the
    other (and the other way round): the warning comes whatever the other port has just seen"""
    caps = [c for c, m in zip(c05.captures(), lib.run_model([lib.req("bcast", c) for c in c05.captures()])) if "|" in m]
    cases = []; io = []; ex = []
    async def go():
        for c in caps[:4]:
            for k in (2, 40, 100, len(c) - 4, len(c) - 1):
                log, nh, nw, complete = await world.feed_bridge(1, [(0, c[:k]), (0, c[k:])], (), c05.show, sentinel, serial=True)
                cases.append({"d": c[:k].hex() + "|" + c[k:].hex()}); ex.append("0 delivered, 0 unknown-device warnings, 0 escaped exceptions")
                io.append("%d delivered, %d unknown-device warnings, %d escaped exceptions" % (len(log), nw, nh) if complete else "barrier-lost")
        for c in caps[:6]:
            u = bytearray(c); u[74:76] = b"\xee\x01"; u = bytes(u)
            for first, second in ((c, u), (u, c), (u, u)):
                log, nh, nw, complete = await world.feed_bridge(2, [(0, first), (1, second)], (), c05.show, sentinel, serial=True)
                k = sum(1 for d in (first, second) if d is c); cases.append({"d": first.hex() + "|" + second.hex()})
                ex.append("%d delivered, %d unknown-device warnings, 0 escaped exceptions" % (k, 2 - k))
                io.append("%d delivered, %d unknown-device warnings, %d escaped exceptions" % (len(log), nw, nh) if complete else "barrier-lost")
    asyncio.run(go())
    lib.differential(out, "split-broadcasts-and-one-device-on-two-ports-of-one-bridge", cases, io, None, ex,
                     lambda c: "one bridge, datagrams of %s bytes" % [len(x) // 2 for x in c["d"].split("|")], sample=lambda c: c["d"][:60])


def run_flood(out, rnd, tier):
    """ONE bridge, a few hundred datagrams that are all to be ignored (foreign traffic on a shared port), then a genuine broadcast: all
    of it ignored quietly - no warning of any kind, no error - and the broadcast delivered"""
    cap = [c for c, m in zip(c05.captures(), lib.run_model([lib.req("bcast", c) for c in c05.captures()])) if "|" in m][0]
    floods = {"random bytes of random sizes": [world.rand_bytes(rnd, rnd.randrange(0, 400)) for _ in range(260)],
              "one datagram repeated": [b"hello switcher"] * 260,
              "magic with other lengths": [b"\xfe\xf0" + world.rand_bytes(rnd, rnd.choice([10, 100, 160, 161, 164, 167, 200])) for _ in range(260)]}
    names = list(floods); io = []
    async def go():
        for n in names:
            junk = [d for d, e in zip(floods[n], expected(floods[n])) if e == "ignored"]
            log, nh, nw, complete = await world.feed_bridge(1, [(0, j) for j in junk] + [(0, cap)], (), c05.show, sentinel, serial=True)
            io.append("%d delivered, %d unknown-device warnings, other warnings %s, %d escaped exceptions%s" % (len(log), nw, world.feed_bridge.other_warnings[:2], nh, "" if complete else " (barrier lost)"))
    asyncio.run(go())
    lib.differential(out, "hundreds-of-foreign-datagrams-then-a-genuine-broadcast-through-one-bridge", [{"d": n.encode().hex()} for n in names], io, None,
                     ["1 delivered, 0 unknown-device warnings, other warnings [], 0 escaped exceptions"] * len(names), lambda c: "flood of " + bytes.fromhex(c["d"]).decode(), sample=lambda c: c)


def run_while_starting(out, rnd, trials):
    """datagrams that reach a port the bridge has already bound while start() is still opening its other ports go through the same
    gate: an unknown-model frame is warned about, anything else is ignored quietly"""
    async def go():
        res = []
        for _ in range(trials):
            ds = []
            for k in range(30):
                if k % 3 == 2: ds.append(world.rand_bytes(rnd, rnd.choice([0, 3, 165, 200])) if rnd.random() < .7 else b"\xfe\xf0" + world.rand_bytes(rnd, 100))
                else:
                    x = bytearray(world.rand_bytes(rnd, rnd.choice([159, 165, 168]))); x[0:2] = b"\xfe\xf0"; x[74:76] = rnd.choice([b"\xee\xee", b"\x01\x00", b"\xff\xff"]); x[42:74] = b"early".ljust(32, b"\0"); ds.append(bytes(x))
            log, nh, nw, complete = await world.feed_bridge(4, [], (), c05.show, sentinel, during_start=ds)
            early = list(world.feed_bridge.sent_early)
            want = sum(1 for k in early if expected([ds[k]])[0] == "warned")
            res.append((len(early), "barrier-lost" if not complete else "%d devices, %d warnings, %d errors" % (len(log), nw, nh), "0 devices, %d warnings, 0 errors" % want))
        return res
    res = asyncio.run(go())
    lib.differential(out, "datagrams-arriving-while-the-bridge-starts", [{"sent_while_starting": n} for n, _, _ in res], [i for _, i, _ in res], None, [e for _, _, e in res],
                     lambda c: "%d datagrams (unknown-model frames and junk) sent to the first port while start() was still opening the others" % c["sent_while_starting"],
                     nontrivial=lambda c: c["sent_while_starting"] > 0, sample=lambda c: c, classify=lambda c, i: "during-start/%d" % min(c["sent_while_starting"], 3))


def run(tier, rnd, out):
    corpus = lib.load_corpus("C06")
    if corpus: run_direct(out, "corpus", [bytes.fromhex(c["d"]) for c in corpus])
    cs = cases(tier, rnd)
    run_direct(out, "direct", cs)
    import logging
    lg = logging.getLogger("aioswitcher"); old = lg.level; h = lib.FormattingSink(); lg.addHandler(h); lg.setLevel(logging.DEBUG)
    try: run_direct(out, "direct-with-debug-logging-enabled", cs)
    finally: lg.setLevel(old); lg.removeHandler(h)
    longer = [c + world.rand_bytes(rnd, k) for c in c05.captures() for k in (1, 2, 3, 4, 40, 300, 1000)]
    longer += [b"\xfe\xf0" + world.rand_bytes(rnd, n - 2) for n in (169, 170, 200, 256, 336, 400, 1400)]
    run_bridge(out, "through-a-running-bridge", [b"", b"\0", b"\xfe", b"\xfe\xf0"] + rnd.sample(cs, 60 if tier == "quick" else 600) + longer)
    lg.addHandler(h); lg.setLevel(logging.DEBUG)          # ... and with someone debugging (a handler that formats every record; the interpreter runs under -b)
    try: run_bridge(out, "through-a-running-bridge-with-debug-logging-enabled", [b"", b"\0", b"\xfe\xf0", world.rand_bytes(rnd, 165)] + rnd.sample(cs, 25 if tier == "quick" else 300))
    finally: lg.setLevel(old); lg.removeHandler(h)
    run_then_genuine(out, rnd, [b"", b"\0", b"\xfe\xf0", b"\xfe\xf0" + bytes(163), world.rand_bytes(rnd, 165), world.rand_bytes(rnd, 1400)] + rnd.sample(cs, 10 if tier == "quick" else 200))
    run_pairs(out, rnd)
    run_flood(out, rnd, tier)
    run_split_and_ports(out, rnd)
    run_while_starting(out, rnd, 6 if tier == "quick" else 60)
    # a bridge on the library's default ports: the gate is the same on each of them - an unknown-model frame of any of the three lengths is
    # warned about on every port, junk is ignored on every port
    if world.well_known_ports():
        try:
            frames = []
            for L in (159, 165, 168):
                x = bytearray(world.rand_bytes(rnd, L)); x[0:2] = b"\xfe\xf0"; x[74:76] = b"\xee\xee"; x[42:74] = b"dflt".ljust(32, b"\0"); frames.append(bytes(x))
            events = [(p_, f_) for p_ in range(4) for f_ in frames + [world.rand_bytes(rnd, 165), b"\xfe\xf0" + bytes(100)]]
            async def dflt():
                return await world.feed_bridge(4, events, (), c05.show, sentinel, ports=world.WELL_KNOWN_PORTS, serial=True)
            log, nh, nw, complete = asyncio.run(dflt())
            got = "barrier-lost" if not complete else "%d devices, %d warnings, %d errors" % (len(log), nw, nh)
            lib.differential(out, "a-bridge-on-its-default-ports", [{"ports": world.WELL_KNOWN_PORTS, "unknown_model_frames_per_port": 3, "junk_per_port": 2}], [got], None, ["0 devices, 12 warnings, 0 errors"],
                             lambda c: "unknown-model frames of 159, 165 and 168 bytes and two junk datagrams to each of the ports %s" % c["ports"], sample=lambda c: c)
        finally: world.release_well_known_ports()
    else: out.notes.append("the library's default ports were not available on this machine for a minute: stream a-bridge-on-its-default-ports not run")
    out.exhaustive = tier == "thorough"
    out.notes.append("thorough enumerates all 65536 model codes on each accepted length")


def replay(rp, out):
    if "unknown_model_frames_per_port" in rp["input"]:
        import random
        return run("quick", random.Random(int(rp.get("seed", 1))), out)
    if "sent_while_starting" in rp["input"]:
        import random
        return run_while_starting(out, random.Random(int(rp.get("seed", 1))), 20)
    d = bytes.fromhex(rp["input"]["d"])
    (run_bridge if (rp.get("stream") or "").startswith("through-a-running-bridge") else run_direct)(out, rp.get("stream", "replay"), [d])
