"""C05 — a status broadcast is decoded into exactly the device the sender described."""
import asyncio, os, socket, warnings
import lib, world
from aioswitcher.bridge import _parse_device_from_datagram, SwitcherBridge
from aioswitcher.device import (DeviceType, DeviceState, ThermostatSwing, SwitcherWaterHeater, SwitcherPowerPlug, SwitcherShutter,
                                SwitcherThermostat)
COQ_TARGET = "C05"
TRUSTED = ["Spec/Encoders.v encode_bcast transcribes the broadcast layouts of the pinned commit and the shipped captures",
           "amps: the model evaluates round(w / 220.0, 1) on Coq's primitive floats; Python's float repr is compared as round(x * 10)"]
ASSUMPTIONS = ["names are valid UTF-8 of at most 32 bytes not ending in NUL; remaining / auto-shutdown below 24 h; position 0..100 "
               "with byte 136 zero; remote id 8 bytes of valid UTF-8"]
RULE = ("descriptions of devices of all 9 types with random field values, ON and OFF, names in several scripts and of every byte "
        "length, every filler byte random, encoded by the Spec encoder and handed to the real parser directly and through a running "
        "bridge on loopback UDP (35 % of them repeated byte-identically, as an idle device does); the 18 captures of tests/testresources; non-trivial = distinct descriptions")
REQUIREMENT = ("the callback receives one object of the family's class whose fields equal the description (Spec/Encoders.v "
               "expected_bcast): OFF reports power 0, amps 0.0 and remaining 00:00:00; type-2 MAC at bytes 81-86")
TYPES = [t.name for t in DeviceType]
DIRS = ["SHUTTER_STOP", "SHUTTER_UP", "SHUTTER_DOWN"]
NAME_CHARS = ["abcXYZ 09_", "אבגדה ", "éüñß", "😀🚀", "aé😀א",
              "e\u0301a\u0308\u2126\u212b\u1100\u1161\ufb01",        # well-formed UTF-8 that is not in NFC / NFKC form: the name is the device's, untouched
              "\u200e\u00a0\t~\x7f\u3000",                                # marks, no-break and ideographic spaces, controls
              "\ufeffab\ufeff",                                             # a byte order mark is a character of the name like any other
              "ab\0c \0"]                                                   # a zero byte INSIDE the name (only the trailing padding is stripped)


def show(dev):
    b = lambda x: "1" if x == DeviceState.ON else "0"
    common = [dev.device_id, dev.device_key, dev.ip_address, dev.mac_address, dev.name.encode().hex()]
    t = dev.device_type.name
    if isinstance(dev, SwitcherWaterHeater):
        f = ["WH", t, b(dev.device_state)] + common + [str(dev.power_consumption), world.tenths(dev.electric_current), dev.remaining_time, dev.auto_shutdown]
    elif isinstance(dev, SwitcherPowerPlug):
        f = ["PP", t, b(dev.device_state)] + common + [str(dev.power_consumption), world.tenths(dev.electric_current)]
    elif isinstance(dev, SwitcherShutter): f = ["SH", t] + common + [str(dev.position), dev.direction.name]
    elif isinstance(dev, SwitcherThermostat):
        f = ["TH", t, b(dev.device_state)] + common + [dev.mode.name, world.tenths(dev.temperature), str(dev.target_temperature), dev.fan_level.name,
                                                        "1" if dev.swing == ThermostatSwing.ON else "0", dev.remote_id.encode().hex()]
    else: f = ["?" + type(dev).__name__]
    return "".join(x + "|" for x in f)


def impl(d):
    got = []
    with warnings.catch_warnings(record=True) as w:
        warnings.simplefilter("always")
        try: _parse_device_from_datagram(got.append, d)
        except Exception: return "raised"
    if w: return "warned"
    if not got: return "ignored"
    return show(got[0]) if len(got) == 1 else "delivered %d devices" % len(got)


def thread_call(hexd):
    got = []
    try: _parse_device_from_datagram(got.append, bytes.fromhex(hexd))
    except Exception: return "raised"
    return show(got[0]) if len(got) == 1 else "delivered %d devices" % len(got)


ID_POOL = [b"\xaa\xaa\xaa", b"\x00\x00\x01", b"\x12\x34\x56"]
def rand_name(rnd, nbytes=None):
    alph = rnd.choice(NAME_CHARS); s = b""
    limit = rnd.randrange(0, 33) if nbytes is None else nbytes
    while True:
        c = rnd.choice(alph).encode()
        if len(s) + len(c) > limit: break
        s += c
    s = s.rstrip(b"\0")
    return s


EDGE_IPS = [bytes([0, 0, 0, 0]), bytes([255] * 4), bytes([127, 0, 0, 1]), bytes([0, 0, 0, 1]), bytes([1, 0, 0, 0]), bytes([169, 254, 0, 1]),
            bytes([224, 0, 0, 1]), bytes([192, 168, 1, 255]), bytes([10, 0, 0, 0]), bytes([255, 255, 255, 0])]
def rand_desc(rnd, ty=None, on=None, nbytes=None):
    on = int(rnd.random() < .6 if on is None else on)
    rem = rnd.choice([0, 1, 59, 3600, 86399, rnd.randrange(86400)])
    if not on and rnd.random() < .5:                 # a device that is off may carry anything in its countdown field
        rem = rnd.choice([86400, 86401, 90000, 2 ** 31, 2 ** 32 - 1, rnd.randrange(86400, 2 ** 32)])
    dev_id = world.rand_bytes(rnd, 3) if rnd.random() < .7 else rnd.choice(ID_POOL)       # some ids recur with other addresses, names, families
    # every byte-valued field also at the values with a meaning elsewhere: unassigned / broadcast / loopback / multicast addresses, all-zero and all-one ids
    ip = rnd.choice(EDGE_IPS) if rnd.random() < .3 else world.rand_bytes(rnd, 4)
    mac = rnd.choice([bytes(6), b"\xff" * 6, b"\x01\x00\x5e\x00\x00\x01"]) if rnd.random() < .15 else world.rand_bytes(rnd, 6)
    if rnd.random() < .1: dev_id = rnd.choice([bytes(3), b"\xff" * 3])
    return [ty or rnd.choice(TYPES), on, dev_id, rnd.choice([0, 255, rnd.randrange(256), rnd.randrange(256)]), rand_name(rnd, nbytes),
            ip, mac, rnd.choice([0, 1, 219, 220, 2600, 65535, rnd.randrange(65536)]),
            rem, rnd.choice([0, 3600, 86399, rnd.randrange(86400)]),
            rnd.choice([0, 1, 99, 100, rnd.randrange(101)]), rnd.choice(DIRS), rnd.choice(world.MODE_NAMES), rnd.choice([0, 255, 256, 65535, rnd.randrange(1000)]),
            rnd.choice([0, 16, 30, 255, rnd.randrange(256)]), rnd.choice(world.FAN_NAMES), int(rnd.random() < .5),
            bytes(rnd.choice(b"ABCELZMabcelz0123456789-_ ") for _ in range(8))]


def describe(c): return "broadcast of %s on=%s name=%r power=%s rem=%s auto=%s pos=%s dir=%s mode=%s t10=%s target=%s fan=%s swing=%s" % (
    c["desc"][0], c["desc"][1], bytes.fromhex(c["desc"][4]).decode(), *c["desc"][7:17])


def mk_case(rnd, desc):
    d = [x.hex() if isinstance(x, bytes) else x for x in desc]
    return {"desc": d, "filler": world.rand_bytes(rnd, 170).hex(), "state_byte": rnd.choice([None, None, 0, 2, 4, 0x81, 0xff, rnd.randrange(2, 256)])}


def desc_args(c): return [bytes.fromhex(x) if i in (2, 4, 5, 6, 17) else x for i, x in enumerate(c["desc"])]


def encode(cases):
    res = lib.run_model([lib.req("bcast_encode", desc_args(c), bytes.fromhex(c["filler"])) for c in cases])
    out = []
    for c, r in zip(cases, res):
        if r == "-": raise lib.BuildError("Spec encoder refused a generated description")
        h, exp = r.split(";", 1); d = bytearray.fromhex(h)
        # a device that is not ON may report any state byte but 01 (the Spec: ON iff the byte is 01); the case says which
        sb = c.get("state_byte")
        if sb is not None and not c["desc"][1] and len(d) in (165, 168): d[133 if len(d) == 165 else 137] = sb
        out.append((bytes(d), exp))
    return out


async def through_bridge(datagrams):
    """feed the datagrams to a running bridge over loopback UDP, one at a time; returns the rendered device per datagram (in order).
    Consecutive byte-identical datagrams are ordinary broadcasts of an idle device: each must produce its own device."""
    s = socket.socket(socket.AF_INET, socket.SOCK_DGRAM); s.bind(("127.0.0.1", 0)); port = s.getsockname()[1]; s.close()
    got = []
    def cb(d): got.append(show(d)); world.scribble(d)
    bridge = SwitcherBridge(cb, [port])
    tx = socket.socket(socket.AF_INET, socket.SOCK_DGRAM)
    await bridge.start()
    try:
        for i, d in enumerate(datagrams):
            tx.sendto(d, ("127.0.0.1", port))
            for _ in range(200 if through_bridge.misses < 12 else 20):       # a bridge that drops much is not waited for at length again and again
                if len(got) > i: break
                await asyncio.sleep(0.001)
            if len(got) <= i: got.append("not delivered"); through_bridge.misses += 1
    finally:
        await bridge.stop(); tx.close(); await asyncio.sleep(0)
    return got


through_bridge.misses = 0


def run_stream(out, stream, cases, via_bridge=False):
    enc = encode(cases)
    dgrams = [d for d, _ in enc]; ex = [e for _, e in enc]
    io = asyncio.run(through_bridge(dgrams)) if via_bridge else [impl(d) for d in dgrams]
    if via_bridge and "not delivered" in io:
        k = io.index("not delivered")        # UDP under load: everything from the first undelivered datagram on is sent once more,
        j = max(k - 1, 0)                    # together with the datagram before it (what precedes a broadcast must not matter)
        io[k:] = asyncio.run(through_bridge(dgrams[j:]))[k - j:]
    mo = lib.run_model([lib.req("bcast", d) for d in dgrams])
    lib.differential(out, stream, cases, io, mo, ex, describe, sample=lambda c: describe(c)[:300],
                     classify=lambda c, i: c["desc"][0] + ("/on" if c["desc"][1] else "/off"))


def captures():
    caps = []
    for dp, _, fs in os.walk(os.path.join(lib.REPO, "tests", "testresources")):
        for f in sorted(fs):
            if f.endswith(".txt"):
                try: b = bytes.fromhex(open(os.path.join(dp, f)).read().strip())
                except ValueError: continue
                if len(b) in (159, 165, 168): caps.append(b)
    return caps


def run(tier, rnd, out):
    corpus = lib.load_corpus("C05")
    if corpus: run_stream(out, "corpus", corpus)
    n = 25 if tier == "quick" else 1200
    cs = [mk_case(rnd, rand_desc(rnd, ty, on)) for ty in TYPES for on in (0, 1) for _ in range(n)]
    cs += [mk_case(rnd, rand_desc(rnd, ty, nbytes=k)) for ty in TYPES for k in (range(33) if tier == "thorough" else [0, 1, 2, 31, 32])]
    for w in [11 * k for k in (1, 3, 9, 13, 109, 317, 1001, 2999, 5957)] + [1, 21, 22, 23, 109, 110, 111, 219, 221, 3489]:      # exact ties of watts / 220 at one decimal (odd multiples of 11) and their neighbours
        d = rand_desc(rnd, rnd.choice(TYPES[:6]), 1); d[7] = w; cs.append(mk_case(rnd, d))
    if tier == "thorough":
        for w in range(0, 65536, 7): d = rand_desc(rnd, rnd.choice(TYPES[:6]), 1); d[7] = w; cs.append(mk_case(rnd, d))
    run_stream(out, "encoded-descriptions", cs)
    cs = [mk_case(rnd, rand_desc(rnd)) for _ in range(110 if tier == "quick" else 1500)]
    rep = []
    for c in cs:
        rep.append(c)
        if rnd.random() < .35: rep += [c] * rnd.choice([1, 1, 2])          # an idle device repeats its broadcast unchanged
    run_stream(out, "through-a-running-bridge", rep, via_bridge=True)
    # the same through a bridge that was stopped and started again twice before the broadcasts arrive, and through a bridge constructed
    # without a port list (the four ports of the documentation), one broadcast of every family to every port
    from props import c06
    for label, kw in (("through-a-bridge-that-was-restarted", {"restarts": 2}), ("through-a-bridge-on-its-default-ports", {"ports": world.WELL_KNOWN_PORTS})):
        if "ports" in kw and not world.well_known_ports():
            out.notes.append("the library's default ports are taken on this machine: stream %s not run" % label); continue
        cs = [mk_case(rnd, rand_desc(rnd, ty)) for ty in TYPES for _ in range(4)]
        enc = encode(cs); events = [(k % 4, d) for k, (d, _) in enumerate(enc)]
        async def go():
            log, nh, nw, complete = await world.feed_bridge(4, events, (), show, c06.sentinel, **kw)
            if not complete: log, nh, nw, complete = await world.feed_bridge(4, events, (), show, c06.sentinel, **kw)
            return log
        log = asyncio.run(go()); left = list(log); io = []
        for _, e in enc:
            if e in left: left.remove(e); io.append(e)
            else: io.append("not delivered (the callback got: %s)" % (left[:1] or "nothing more"))
        if "ports" in kw: world.release_well_known_ports()
        lib.differential(out, label, cs, io, None, [e for _, e in enc], describe, sample=lambda c: describe(c)[:300], classify=lambda c, i: label)
    # nobody but the bridge holds the callback's owner (shared with C07), and a second bridge object is started on the port of a running one
    cs = [mk_case(rnd, rand_desc(rnd, ty)) for ty in TYPES]; enc = encode(cs)          # several threads, each decoding the broadcasts of its own devices
    world.run_threads(out, "several-threads-each-decoding-its-own-broadcasts", "props.c05", "thread_call", [[d.hex()] for d, _ in enc], [e for _, e in enc],
                      lambda c: "broadcast %s.." % (c[0][:40] if c else "?"), startups=16 if tier == "quick" else 300, threads=4, rounds=60 if tier == "quick" else 300)
    from props import c07
    c07.run_unreferenced(out, rnd, 4 if tier == "quick" else 40)
    c07.run_with_a_port_taken(out, rnd, 5 if tier == "quick" else 40)          # ... and another program holds one of the configured ports at start (also C07's)
    cs = [mk_case(rnd, rand_desc(rnd, ty)) for ty in TYPES for _ in range(2)]; enc = encode(cs)
    async def two():
        port = world.free_udp_ports(1)[0]; a = []; b = []; marks = set()
        def cb(log):
            def f(dev):
                if dev.name.startswith("SENTINEL"): marks.add(id(log))
                else: log.append(show(dev))
            return f
        b1 = SwitcherBridge(cb(a), [port]); b2 = SwitcherBridge(cb(b), [port]); await b1.start()
        try: await b2.start(); second = "started too"
        except OSError: second = "was refused"
        txs = [socket.socket(socket.AF_INET, socket.SOCK_DGRAM) for _ in range(6)]          # several senders (devices): sockets sharing a port are served per sender
        try:
            for k, (d, _) in enumerate(enc):
                txs[k % 6].sendto(d, ("127.0.0.1", port))
                for _ in range(4): await asyncio.sleep(0.001)
            for tx in txs: tx.sendto(c06.sentinel(0), ("127.0.0.1", port))
            for _ in range(1500):
                if id(a) in marks: break
                await asyncio.sleep(0.001)
        finally:
            for tx in txs: tx.close()
            await b2.stop(); await b1.stop(); await asyncio.sleep(0)
        return a, b, second
    a, b, second = asyncio.run(two()); left = list(a); io = []
    for _, e in enc:
        if e in left: left.remove(e); io.append(e if e not in b else e + " (and the second bridge object got it too)")
        else: io.append("not delivered to the running bridge (the second bridge object on the same port %s and got: %s)" % (second, "this broadcast" if e in b else "nothing of it"))
    lib.differential(out, "a-second-bridge-object-started-on-the-port-of-a-running-one", cs, io, None, [e for _, e in enc], describe, sample=lambda c: describe(c)[:300])
    caps = captures()
    io = [impl(d) for d in caps]; mo = lib.run_model([lib.req("bcast", d) for d in caps])
    lib.differential(out, "captures", [{"datagram": d.hex()} for d in caps], io, mo, None, lambda c: "capture " + c["datagram"][:40])


def replay(rp, out):
    c = rp["input"]
    if "threads" in rp.get("stream", ""):
        import random
        return run("quick", random.Random(int(rp.get("seed", 1))), out)
    if "datagram" in c:
        d = bytes.fromhex(c["datagram"])
        lib.differential(out, "replay", [c], [impl(d)], lib.run_model([lib.req("bcast", d)]), None, lambda c: "capture")
    else: run_stream(out, rp.get("stream", "replay"), [c], via_bridge=(rp.get("stream") == "through-a-running-bridge"))
