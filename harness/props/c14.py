"""C14 — a schedule's duration is (end - start) modulo 24 hours."""
import lib
from aioswitcher.schedule.tools import calc_duration
COQ_TARGET = "C14"
TRUSTED = ["datetime.strptime %H:%M modelled by the _strptime regex (compared on every case)"]
ASSUMPTIONS = ["inputs are canonical HH:MM strings; other spellings are compared only for raised / returned"]
RULE = ("pairs of HH:MM strings: all (s,s), (s,s+1), (s,s-1), midnight edges, random pairs; thorough: all 1440 x 1440; "
        "non-trivial = end differs from start")
REQUIREMENT = "duration = H:MM:SS of ((end - start) mod 1440) minutes"
def hm(m): return "%02d:%02d" % divmod(m % 1440, 60)
def corpus(): return [["13:00", "14:00"], ["14:00", "13:00"], ["23:59", "00:00"], ["00:00", "00:00"]]
def cases(tier, rnd):
    if tier == "thorough": return [[hm(s), hm(e)] for s in range(1440) for e in range(1440)]
    cs = [[hm(s), hm(s + d)] for s in range(1440) for d in (0, 1, -1)]
    cs += [[hm(rnd.randrange(1440)), hm(rnd.randrange(1440))] for _ in range(1500)]
    return cs + [["1:5", "2:07"], ["24:00", "01:00"], ["12:60", "01:00"], ["", "01:00"], ["12:00:30", "13:00"]]
def impl(c):
    try: return ["ok", calc_duration(c[0], c[1])]
    except Exception as e: return ["exc", type(e).__name__]
def model_line(c): return "calc_duration h:%s h:%s" % (lib.H(c[0]), lib.H(c[1]))
def parse_model(l):
    k, _, v = l.partition(" "); return ["ok", bytes.fromhex(v).decode()] if k == "ok" else ["exc", v]
def view(r): return r if r[0] == "ok" else ["exc"]
def check_line(c, i): return "check_duration h:%s h:%s h:%s" % (lib.H(c[0]), lib.H(c[1]), lib.H(i[1] if i[0] == "ok" else "!"))
def python_oracle(c, i): return True
def describe(c): return "calc_duration(%r, %r)" % tuple(c)
def nontrivial(c): return c[0] != c[1]
def sample(c, i): return {"start": c[0], "end": c[1], "result": i}
def distribution(cs):
    d = {"equal": 0, "end_before_start": 0, "end_after_start": 0, "non_canonical": 0}
    for s, e in cs:
        if not (len(s) == 5 and len(e) == 5): d["non_canonical"] += 1
        elif s == e: d["equal"] += 1
        elif e < s: d["end_before_start"] += 1
        else: d["end_after_start"] += 1
    return d
def exhaustive(tier): return tier == "thorough"
