"""C14 — a schedule's duration is (end - start) modulo 24 hours."""
import lib, world
from aioswitcher.schedule import tools
COQ_TARGET = "C14"
TRUSTED = ["datetime.strptime('%H:%M') and str(timedelta) are modelled (Model/ScheduleTools.v strptime_HM, timedelta_str)"]
ASSUMPTIONS = ["arguments are HH:MM strings; other spellings are compared with the model and not judged"]
RULE = ("pairs of clock strings: all (s, s), (s, s+1), (s, s-1), the edges 00:00 / 23:59 against every minute, random pairs "
        "(thorough: all 2 073 600 pairs against the Spec formula), one-digit spellings and malformed strings against the model; schedules listed by the parser from records whose timestamps carry seconds and fall on transition nights; SwitcherSchedule objects created in sequence with colliding slot ids, their duration read twice; pairs under zones with DST on transition days (virtual clock); "
        "non-trivial = distinct pairs with start != end")
REQUIREMENT = "calc_duration(HH:MM, HH:MM) = H:MM:SS of ((end - start) mod 1440) minutes; equal times give 0:00:00"


def hm(m): return "%02d:%02d" % divmod(m % 1440, 60)
@lib.bounded
def impl(a, b):
    try: return lib.ok(tools.calc_duration(a, b))
    except Exception: return "raised"
@lib.bounded
def impl_kw(a, b, form):
    """the same call spelled with keywords, in either order, or from a dict"""
    try:
        if form == 0: return lib.ok(tools.calc_duration(start_time=a, end_time=b))
        if form == 1: return lib.ok(tools.calc_duration(end_time=b, start_time=a))
        if form == 2: return lib.ok(tools.calc_duration(a, end_time=b))
        return lib.ok(tools.calc_duration(**{"end_time": b, "start_time": a}))
    except Exception: return "raised"


def run_threads(tier, out, rnd):
    """the first durations a process computes, asked for by several threads at once"""
    ps = [("00:00", "23:59"), ("23:59", "00:00"), ("12:00", "12:00"), ("00:01", "00:00")] + [(hm(rnd.randrange(1440)), hm(rnd.randrange(1440))) for _ in range(60)]
    ex = lib.run_model([lib.req("duration_spec", a, b) for a, b in ps])
    world.run_threads(out, "several-threads-from-the-first-call-on", "props.c14", "impl", [list(p) for p in ps], ex, lambda c: "calc_duration(%r, %r)" % tuple(c or ("?", "?")),
                      startups=64 if tier == "quick" else 1000, spread=False)


def run(tier, rnd, out):
    run_threads(tier, out, rnd)
    pairs = []
    for s in range(1440): pairs += [(hm(s), hm(s)), (hm(s), hm(s + 1)), (hm(s), hm(s - 1)), ("00:00", hm(s)), (hm(s), "00:00"), ("23:59", hm(s)), (hm(s), "23:59")]
    pairs += [(hm(rnd.randrange(1440)), hm(rnd.randrange(1440))) for _ in range(3000)]
    odd = ["1:5", "7:05", "24:00", "23:60", "", "ab:cd", "12", "12:3:4", " 12:00", "12:00 ", "9:9", "00:0", "0:00", "1:60", "-1:00"]
    pairs += [(rnd.choice(odd), hm(rnd.randrange(1440))) for _ in range(60)] + [(hm(rnd.randrange(1440)), rnd.choice(odd)) for _ in range(60)]
    pairs += [(a, b) for a in odd[:8] for b in odd[:8]]
    cases = [{"start": a, "end": b} for a, b in pairs]
    io = [impl(a, b) for a, b in pairs]
    mo = lib.run_model([lib.req("duration", a, b) for a, b in pairs]); ex = lib.run_model([lib.req("duration_spec", a, b) for a, b in pairs])
    lib.differential(out, "pairs", cases, io, mo, ex, lambda c: "calc_duration(%r, %r)" % (c["start"], c["end"]),
                     nontrivial=lambda c: c["start"] != c["end"], sample=lambda c: c, classify=lambda c, i: i.split(" ")[0])
    kwp = [(hm(rnd.randrange(1440)), hm(rnd.randrange(1440)), k % 4) for k in range(200)]
    lib.differential(out, "keyword-spellings-of-the-call", [{"start": a, "end": b, "form": f} for a, b, f in kwp], [impl_kw(a, b, f) for a, b, f in kwp],
                     lib.run_model([lib.req("duration", a, b) for a, b, _ in kwp]), lib.run_model([lib.req("duration_spec", a, b) for a, b, _ in kwp]),
                     lambda c: "calc_duration with keywords (form %d) start %r end %r" % (c["form"], c["start"], c["end"]), nontrivial=lambda c: c["start"] != c["end"], sample=lambda c: c)
    # schedule objects: every object reports the duration of its own times, whatever objects (same slot id included) exist already
    from aioswitcher.schedule.parser import SwitcherSchedule
    from aioswitcher.schedule import Days
    objs = []; oc_ = []
    @lib.bounded
    def make(*a):
        try: return SwitcherSchedule(*a)
        except Exception: return None
    for _ in range(300 if tier == "quick" else 5000):
        sid = str(rnd.randrange(8)); a = hm(rnd.randrange(1440)); b = hm(rnd.choice([rnd.randrange(1440), rnd.randrange(1440), int(a[:2]) * 60 + int(a[3:])]))
        o = make(sid, rnd.random() < .5, set(rnd.sample(list(Days), rnd.randrange(0, 3))), a, b)
        objs.append(o); oc_.append({"slot": sid, "start": a, "end": b})
    import dataclasses
    for k in range(0, len(objs) - 1, 5):          # every fifth schedule is derived from its predecessor with dataclasses.replace
        if objs[k] is None: continue
        try: objs[k + 1] = dataclasses.replace(objs[k], start_time=oc_[k + 1]["start"], end_time=oc_[k + 1]["end"]); oc_[k + 1]["slot"] = oc_[k]["slot"]
        except Exception: pass
    def dur(o):
        try: return lib.ok(o.duration)
        except Exception: return "raised"
    io = [dur(o) for o in objs]; io2 = [dur(o) for o in objs]
    ex = lib.run_model([lib.req("duration_spec", c["start"], c["end"]) for c in oc_])
    lib.differential(out, "schedule-objects-sharing-slot-ids", oc_, io, None, ex, lambda c: "SwitcherSchedule(slot %s, %r, %r).duration (after other schedules of the same slots)" % (c["slot"], c["start"], c["end"]),
                     nontrivial=lambda c: c["start"] != c["end"], sample=lambda c: c, classify=lambda c, i: "object/" + i.split(" ")[0])
    lib.differential(out, "schedule-objects-read-again", oc_, io2, None, ex, lambda c: "SwitcherSchedule(slot %s, %r, %r).duration read a second time" % (c["slot"], c["start"], c["end"]),
                     nontrivial=lambda c: c["start"] != c["end"], sample=lambda c: c, classify=lambda c, i: "object/" + i.split(" ")[0])
    # the duration of two clock strings does not depend on the host zone or on today's date
    import datetime as D, zoneinfo
    for zone in (["Europe/Berlin", "America/New_York", "Australia/Lord_Howe"] if tier == "quick" else world.ZONES_QUICK + world.ZONES_MORE):
        tr = world.transitions_in(zone, 1_600_000_000, 2_000_000_000)
        nows = [t + k for t in rnd.sample(tr, min(len(tr), 2 if tier == "quick" else 6)) for k in (-7200, 3600, 40000)] or [1_700_000_000]
        zc = []
        for now in nows:
            for _ in range(60 if tier == "quick" else 400):
                s_ = rnd.randrange(1440); e_ = rnd.choice([s_, (s_ + 60) % 1440, (s_ + 180) % 1440, rnd.randrange(1440), rnd.randrange(0, 300)])
                zc.append({"zone": zone, "now": now, "start": hm(s_), "end": hm(e_)})
        io = world.zone_job(zone, "duration", zc)
        mo = lib.run_model([lib.req("duration", c["start"], c["end"]) for c in zc]); ex = lib.run_model([lib.req("duration_spec", c["start"], c["end"]) for c in zc])
        lib.differential(out, "under-zones-on-transition-days", zc, io, mo, ex, lambda c: "zone %s now %d calc_duration(%r, %r)" % (c["zone"], c["now"], c["start"], c["end"]),
                         nontrivial=lambda c: c["start"] != c["end"], sample=lambda c: c, classify=lambda c, i: c["zone"])
    # every zone of the tz database (the zones above are the ones with odd rules today; a zone can be odd on another date, too - the
    # date the parsing anchors its values on is 1 January 1900, where a few zones leave local mean time that very day)
    allz = sorted(zoneinfo.available_timezones() - {"localtime", "Factory"})
    if tier == "quick": allz = [z for z in allz if "/" in z and not z.startswith(("Etc/", "posix/", "right/", "SystemV/", "US/", "Brazil/", "Canada/", "Chile/", "Mexico/"))]
    corner = ["00:00", "00:01", "00:02", "00:03", "00:30", "06:30", "12:00", "23:59"]
    zc = [{"zone": z, "now": 1_700_000_000, "start": a, "end": b} for z in allz for a, b in ([(a, b) for a in corner[:4] for b in corner[3:]] + [(b, a) for a in corner[:4] for b in corner[4:]]
                                                                                  + [(hm(rnd.randrange(1440)), hm(rnd.randrange(1440)))])]
    io = world.zone_job("UTC", "duration", zc)
    lib.differential(out, "every-zone-of-the-tz-database", zc, io, lib.run_model([lib.req("duration", c["start"], c["end"]) for c in zc]), lib.run_model([lib.req("duration_spec", c["start"], c["end"]) for c in zc]),
                     lambda c: "zone %s calc_duration(%r, %r)" % (c["zone"], c["start"], c["end"]), nontrivial=lambda c: c["start"] != c["end"], sample=lambda c: c,
                     classify=lambda c, i: c["zone"].split("/")[0])
    # schedules that arrive through the parser: the duration is that of the listed start and end times, whatever seconds or zone
    # rules the device's timestamps carry
    from props import c10
    for zone in ["Europe/London", "America/St_Johns"] if tier == "quick" else world.ZONES_QUICK:
        lc = [c10.gen_case(rnd, zone, now) for now in world.interesting_instants(rnd, zone, 40 if tier == "quick" else 300)]
        for c in lc:
            for r in c["recs"]:
                if r[2] % 2 or r[2] > 254: r[2] = 2 * (r[2] % 127 + 1)          # masks the parser accepts
        msgs = lib.run_model([lib.req("schedules_encode", bytes.fromhex(c["hdr"]), c["recs"], bytes.fromhex(c["tail"])) for c in lc])
        listed = world.zone_job(zone, "schedules_nodisplay", [{"now": c["now"], "msg": m} for c, m in zip(lc, msgs)])
        rows = [r.split(",") for t in listed if t and t != "raised" for r in t.split("|")]
        rows = [r for r in rows if len(r) >= 6]
        rc = [{"zone": zone, "start": r[3], "end": r[4]} for r in rows]
        lib.differential(out, "schedules-listed-by-the-parser", rc, ["ok " + r[5] for r in rows], None,
                         lib.run_model([lib.req("duration_spec", r[3], r[4]) for r in rows]), lambda c: "zone %s: listed schedule %s - %s" % (c["zone"], c["start"], c["end"]),
                         nontrivial=lambda c: c["start"] != c["end"], sample=lambda c: c, classify=lambda c, i: "listed/" + c["zone"])
    if tier == "thorough":
        bad = None; n = 0
        for s in range(1440):
            a = hm(s)
            for e in range(1440):
                n += 1
                want = "%d:%02d:00" % divmod((e - s) % 1440, 60)
                if bad is None and impl(a, hm(e)) != "ok " + want: bad = (a, hm(e), "ok " + want)
        out.stream("all-pairs-vs-formula", n); out.exhaustive = True
        if bad: out.failing.append({"stream": "all-pairs-vs-formula", "describe": "calc_duration(%r, %r)" % bad[:2], "input": {"start": bad[0], "end": bad[1]},
                                    "impl": impl(bad[0], bad[1]), "expected": bad[2]})


def replay(rp, out):
    c = rp["input"]
    if "threads" in rp.get("stream", ""):
        import random
        return run_threads("thorough", out, random.Random(1))
    if "slot" in c or rp.get("stream") == "schedules-listed-by-the-parser":       # a sequence of objects / a listing: the whole quick run is the replay
        import random
        run("quick", random.Random(int(rp.get("seed", 1))), out); return
    a, b = c["start"], c["end"]
    if "zone" in c:
        io = world.zone_job(c["zone"], "duration", [c])
        lib.differential(out, "replay", [c], io, lib.run_model([lib.req("duration", a, b)]), lib.run_model([lib.req("duration_spec", a, b)]), lambda c: "zone %s now %d calc_duration(%r, %r)" % (c["zone"], c["now"], a, b))
        return
    lib.differential(out, "replay", [c], [impl(a, b)], lib.run_model([lib.req("duration", a, b)]), lib.run_model([lib.req("duration_spec", a, b)]),
                     lambda c: "calc_duration(%r, %r)" % (c["start"], c["end"]))
