"""C04 — the signature is the protocol's double CRC-16."""
import lib
from aioswitcher.device.tools import sign_packet_with_crc_key
COQ_TARGET = "C04"
TRUSTED = ["binascii.crc_hqx modelled by the table-driven CRC (compared on every case)"]
ASSUMPTIONS = ["hex strings are compared as Python str; non-ASCII str input is only checked to raise"]
RULE = ("hex spellings of byte strings: all of length 0..1, random or all of length 2, random up to 4 KiB in lower/upper/mixed "
        "case, malformed (odd, non-hex, blanks, non-ASCII); non-trivial = well-formed hex of at least one byte")
REQUIREMENT = "out = p ++ hexlify(le16(crc(p)) ++ le16(crc(le16(crc(p)) ++ 0x30*32))), CRC-16/CCITT init 0x1021; malformed input raises"
def corpus(): return ["", "fef0", "FEF0", "fef", "zz"]
def cases(tier, rnd):
    cs = ["%02x" % a for a in range(256)]
    cs += ["%02x%02x" % (a, b) for a in range(256) for b in range(256)] if tier == "thorough" else \
          ["%02x%02x" % (rnd.randrange(256), rnd.randrange(256)) for _ in range(4096)]
    for _ in range(20000 if tier == "thorough" else 500):
        s = bytes(rnd.randrange(256) for _ in range(rnd.choice([rnd.randrange(64), rnd.randrange(4096)]))).hex()
        k = rnd.random()
        cs.append(s.upper() if k < .2 else "".join(ch.upper() if rnd.random() < .5 else ch for ch in s) if k < .3 else s)
    return cs + ["f", "fe f0", " fef0", "fef0 ", "0x", "fe\n", "g0", "שש", "fe-0", "+f", "f" * 4097]
def impl(p):
    try: return ["ok", sign_packet_with_crc_key(p)]
    except Exception as e: return ["exc", type(e).__name__]
def model_line(p): return "sign h:" + lib.H(p)
def parse_model(l):
    k, _, v = l.partition(" "); return ["ok", bytes.fromhex(v).decode()] if k == "ok" else ["exc", v]
def view(r): return r if r[0] == "ok" else ["exc"]
def check_line(p, i): return "check_sign h:%s h:%s" % (lib.H(p), lib.H(i[1])) if i[0] == "ok" else "check_sign_rejects h:" + lib.H(p)
def python_oracle(p, i): return True
def describe(p): return "sign(%r)" % (p[:40],)
def nontrivial(p): return len(p) >= 2 and len(p) % 2 == 0 and all(c in "0123456789abcdefABCDEF" for c in p)
def sample(p, i): return {"p": p[:80], "result": [i[0], i[1][:96]]}
def distribution(cs):
    d = {"len0-2": 0, "len3-64": 0, "len65+": 0, "malformed": 0}
    for c in cs:
        if not (len(c) % 2 == 0 and all(x in "0123456789abcdefABCDEF" for x in c)): d["malformed"] += 1
        elif len(c) <= 4: d["len0-2"] += 1
        elif len(c) <= 128: d["len3-64"] += 1
        else: d["len65+"] += 1
    return d
def exhaustive(tier): return tier == "thorough"   # the 65 793 strings of length 0..2 are enumerated completely
