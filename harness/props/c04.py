"""C04 — the signature is the protocol's double CRC-16 for every byte string."""
import binascii
import lib, world
from aioswitcher.device.tools import sign_packet_with_crc_key
COQ_TARGET = "C04"
TRUSTED = ["binascii.crc_hqx is modelled by the table-driven CRC of CPython's binascii.c (compared on every case of this run "
           "and directly on random buffers)"]
ASSUMPTIONS = ["hex strings are Python str; a non-ASCII or non-hex str is only required to raise",
               "the implementation is called in-process with PYTHONPATH=/repo/src"]
RULE = ("hex spellings of byte strings: the regression corpus, every string of length 0..2 (all 65 793: every 16-bit value of the first CRC occurs), "
        " every single-bit flip of the signed frames of tests/test_api_packet_crc_signing.py shapes, strings that already end with "
        "their own signature (signed one to three times), every packet template of the sources rendered with random fields and with "
        "its length field blank / stamped / arbitrary, the magic followed by a sweep of length-field values, calls with bytes / bytearray / None / garbage arguments followed by ordinary calls, four threads signing concurrently, random strings "
        "up to 4 KiB in lower/upper/mixed case, and a malformed stream (odd length, non-hex, blanks, non-ASCII); "
        "non-trivial = distinct well-formed hex of at least one byte")
REQUIREMENT = ("sign(p) = p ++ hex(le16(c) ++ le16(crc(le16(c) ++ 0x30*32))) with c = crc(unhex p), CRC-16/CCITT poly 0x1021 "
               "init 0x1021, bit-serial definition (Spec/Sign.v); input that is not valid hex raises")
HEXCHARS = set("0123456789abcdefABCDEF")
FRAMES = ["fef052000232a10000000000340001000000000000000000d8a5f36200000000000000000000f0fe1c" + "00" * 37,
          "fef0300002320103aabbccdd340001000000000000000000d8a5f36200000000000000000000f0fea1b2c300",
          "fef05d0002320102aabbccdd340001000000000000000000d8a5f36200000000000000000000f0fea1b2c3" + "00" * 36 + "0001060001" + "00" + "08070000"]

def sign_spec_py(p):
    """p signed by the Spec (through the extracted Spec/Sign.v); used only to build inputs"""
    return lib.run_model([lib.req("sign_spec", p)])[0][3:]


def template_texts(rnd):
    import re
    from aioswitcher.api import packets
    out = []
    for name in sorted(dir(packets)):
        v = getattr(packets, name)
        if not (name.isupper() and isinstance(v, str) and v.startswith("fef0")): continue
        n = len(re.findall(r"\{\}", v))
        for _ in range(3):
            args = ["%08x" % rnd.randrange(2 ** 32), "%08x" % rnd.randrange(2 ** 32), "%06x" % rnd.randrange(2 ** 24)] + \
                   [bytes(rnd.randrange(256) for _ in range(rnd.choice([1, 2, 4, 32]))).hex() for _ in range(8)]
            try: t = v.format(*args[:max(n, 0)]) if n else v
            except Exception: continue
            if len(t) % 2 == 0: out.append(t)
    return out


def wellformed(p): return len(p) % 2 == 0 and all(c in HEXCHARS for c in p)
def impl(p):
    try: return lib.ok(sign_packet_with_crc_key(p))
    except Exception: return "raised"
def impl_other_spellings(p):
    """the same call spelled with its keyword, from a dict, through functools.partial and on a str subclass: one answer"""
    import functools
    class S(str): pass
    outs = []
    for f in (lambda: sign_packet_with_crc_key(hex_packet=p), lambda: sign_packet_with_crc_key(**{"hex_packet": p}),
              lambda: functools.partial(sign_packet_with_crc_key, hex_packet=p)(), lambda: sign_packet_with_crc_key(S(p))):
        try: outs.append("ok " + str(f()))
        except Exception: outs.append("raised")
    return outs[0] if len(set(outs)) == 1 else "the spellings disagree: keyword %s, dict %s, partial %s, str subclass %s" % tuple(o[:40] for o in outs)
def view(text): return text if text.startswith("ok ") else "raised"

def cases(tier, rnd):
    cs = ["", "fef0", "FEF0", "fef", "zz"]                       # corpus
    cs += ["%02x" % a for a in range(256)]
    cs += ["%02x%02x" % (a, b) for a in range(256) for b in range(256)]       # every 2-byte string: every value of the first CRC occurs
    for f in FRAMES:
        b = bytes.fromhex(f)
        flips = [(i, j) for i in range(len(b)) for j in range(8)]
        if tier != "thorough": flips = rnd.sample(flips, 120)
        for i, j in flips:
            x = bytearray(b); x[i] ^= 1 << j; cs.append(x.hex())
    for _ in range(20000 if tier == "thorough" else 600):
        s = bytes(rnd.randrange(256) for _ in range(rnd.choice([rnd.randrange(64), rnd.randrange(4096)]))).hex()
        k = rnd.random()
        cs.append(s.upper() if k < .2 else "".join(ch.upper() if rnd.random() < .5 else ch for ch in s) if k < .3 else s)
    # strings that already end with their own signature (signing twice), to depth 3, from the shortest strings up
    seeds = ["", "00", "fef0", "ff" * 7] + FRAMES + [bytes(rnd.randrange(256) for _ in range(rnd.randrange(1, 200))).hex() for _ in range(40)]
    for q in seeds:
        for _ in range(3):
            q = sign_spec_py(q); cs.append(q); cs.append(q.upper())
    # every packet template of the sources as it reaches the signer: holes filled, length field blank, stamped, or arbitrary
    for t in template_texts(rnd):
        cs.append(t)
        for lf in ["0000", "0100", "ffff", "%04x" % (len(t) // 2 + 4), "%04x" % rnd.randrange(65536)]:
            cs.append(t[:4] + lf + t[8:])
    for lf in range(0, 65536, 257 if tier != "thorough" else 1):
        cs.append("fef0%04x" % lf + bytes(rnd.randrange(256) for _ in range(rnd.randrange(0, 40))).hex())
    for n in (255, 256, 257, 511, 512, 513, 1023, 1024, 1025, 2047, 2048, 2049, 3072, 4095, 4096, 4097, 8192, 65535, 65536):     # sizes around powers of two
        cs.append(bytes(rnd.randrange(256) for _ in range(n)).hex())
    for base in FRAMES[:4]:          # a real frame with each aligned four-byte field blanked in turn (an unset timestamp, session, id ...)
        for off in range(0, len(base) - 8, 8): cs.append(base[:off] + "00000000" + base[off + 8:]); cs.append(base[:off] + "ffffffff" + base[off + 8:])
    cs += ["f", "fe f0", " fef0", "fef0 ", "0x", "fe\n", "g0", "שש", "fe-0", "+f", "f" * 4097, "0" * 8191, "１２", "1_0", "fe\x00",
           "\ufb00", "0\ufb000", "fef0\ufb00", "\ufb00\ufb00", "\ufb03a", "\u212a0", "\u00df0", "a\u0300", "\u0661\u0662", "\uff41\uff42"]      # characters that case-fold or normalise into hex digits
    # the way hex dumps are written elsewhere: separators between, before and after whole byte pairs (even and odd total lengths)
    for base in ("fef0", "abcd", "00", FRAMES[0][:24]):
        pairs = [base[i:i + 2] for i in range(0, len(base), 2)]
        for sep in (" ", "  ", "\n", "\t", "\r\n", ":", "-", ",", "_", "\x0b", "\x0c", "\u00a0", "\u2003", "0x", "\\x"):
            cs += [sep.join(pairs), sep + base, base + sep, sep + base + sep, sep * 2 + base, base + sep * 2, sep.join(pairs) + sep]
    cs += [" ", "  ", "\t\n", "\n\n", " \n \n"]
    return cs

def run_cases(stream, cs, out):
    io = [impl(p) for p in cs]
    mo = lib.run_model([lib.req("sign", p) for p in cs])
    ex = lib.run_model([lib.req("sign_spec", p) for p in cs])
    def cls(p, i):
        if not wellformed(p): return "malformed"
        return "len0-2" if len(p) <= 4 else "len3-64" if len(p) <= 128 else "len65+"
    lib.differential(out, stream, cs, io, mo, ex, lambda p: "sign(%r)" % (p if len(p) <= 64 else p[:60] + "...[%d chars]" % len(p)),
                     nontrivial=lambda p: len(p) >= 2 and wellformed(p), sample=lambda p: p[:96], classify=cls)

def spellings(out, rnd, cs):
    sample = rnd.sample(cs, min(len(cs), 400))
    io = [impl_other_spellings(p) for p in sample]
    lib.differential(out, "keyword-and-other-spellings-of-the-call", sample, io, lib.run_model([lib.req("sign", p) for p in sample]), lib.run_model([lib.req("sign_spec", p) for p in sample]),
                     lambda p: "sign(hex_packet=%r) and other spellings" % p[:60], nontrivial=lambda p: len(p) >= 2 and wellformed(p))


def frozen_clock(out, rnd, cs):
    """the wall clock stands still (a coarse clock, a frozen test clock) or steps backwards between calls: the signature is a function of the text alone"""
    import time_machine
    sample = rnd.sample(cs, min(len(cs), 200)); io = []
    with time_machine.travel(1_800_000_000, tick=False) as trav:
        for k, p in enumerate(sample):
            a = impl(p); b = impl(p)
            if k % 3 == 0: trav.shift(-rnd.choice([1, 61, 3600]))
            io.append(a if a == b else "first %s, again at the same instant %s" % (a[-14:], b[-14:]))
    lib.differential(out, "clock-standing-still-or-stepping-back-between-calls", sample, io, lib.run_model([lib.req("sign", p) for p in sample]),
                     lib.run_model([lib.req("sign_spec", p) for p in sample]), lambda p: "sign(%r) twice at one instant" % p[:60], nontrivial=lambda p: len(p) >= 2 and wellformed(p))


def after_length_stamp(out, rnd):
    """the signer is handed what the library's own length setter returned (the way the api calls it): the signature is that of the
    text it was handed, and the same as for a plain copy of that text"""
    from aioswitcher.device.tools import set_message_length
    cs = []; io = []
    for t in template_texts(rnd) + [bytes(rnd.randrange(256) for _ in range(rnd.randrange(4, 120))).hex() for _ in range(60)]:
        for lf in ("0000", "ffff", t[4:8]):
            m = t[:4] + lf + t[8:]
            try: stamped = set_message_length(m)
            except Exception: continue
            cs.append(str(stamped))
            try:
                a = "ok " + str(sign_packet_with_crc_key(stamped)); b = "ok " + str(sign_packet_with_crc_key(str(stamped) + ""))
                io.append(a if a == b else "%s for the object returned by set_message_length, %s for an equal plain string" % (a[-12:], b[-12:]))
            except Exception: io.append("raised")
    lib.differential(out, "sign-what-the-length-setter-returned", cs, io, lib.run_model([lib.req("sign", p) for p in cs]), lib.run_model([lib.req("sign_spec", p) for p in cs]),
                     lambda p: "sign(set_message_length(..)) = sign(%r..)" % p[:40], nontrivial=lambda p: len(p) >= 2)


def other_types_then_str(out, rnd):
    """valid hex handed over as bytes / bytearray / memoryview (the signer takes str: the call may raise), each followed by ordinary
    calls: what a refused or odd call leaves behind must not change the next signature"""
    cs = []; io = []
    for _ in range(60):
        q = bytes(rnd.randrange(256) for _ in range(rnd.randrange(0, 90))).hex()
        for conv in (bytes, bytearray, lambda b: memoryview(b)):
            try: sign_packet_with_crc_key(conv(q.encode()))
            except Exception: pass
        for bad in (None, 12, ["fe"], q + "zz", "f"):
            try: sign_packet_with_crc_key(bad)
            except Exception: pass
        p = bytes(rnd.randrange(256) for _ in range(rnd.randrange(0, 90))).hex(); cs.append(p); io.append(impl(p))
    mo = lib.run_model([lib.req("sign", p) for p in cs]); ex = lib.run_model([lib.req("sign_spec", p) for p in cs])
    lib.differential(out, "after-calls-with-other-argument-types", cs, io, mo, ex, lambda p: "sign(%r) after refused calls" % p[:60], nontrivial=lambda p: len(p) >= 2)


def threads(out, rnd, rounds):
    """four threads signing their own packets at the same time: every result is the one the same call gives alone"""
    import threading
    packets = [[bytes(rnd.randrange(256) for _ in range(rnd.randrange(1, 120))).hex() for _ in range(8)] for _ in range(4)]
    want = {p: impl(p) for ps in packets for p in ps}; bad = []
    def work(ps):
        for k in range(rounds):
            p = ps[k % len(ps)]; r = impl(p)
            if r != want[p] and len(bad) < 5: bad.append((p, r))
    ts = [threading.Thread(target=work, args=(ps,)) for ps in packets]
    import sys; old = sys.getswitchinterval(); sys.setswitchinterval(1e-5)
    try:
        for t in ts: t.start()
        for t in ts: t.join()
    finally: sys.setswitchinterval(old)
    cs = [p for ps in packets for p in ps]
    io = [next((r for q, r in bad if q == p), want[p]) for p in cs]
    lib.differential(out, "four-threads-signing-concurrently", cs, io, lib.run_model([lib.req("sign", p) for p in cs]), lib.run_model([lib.req("sign_spec", p) for p in cs]),
                     lambda p: "sign(%r) while three other threads sign" % p[:60], nontrivial=lambda p: True)
    out.stream("four-threads-signing-concurrently/calls", 4 * rounds)


def run(tier, rnd, out):
    cs = cases(tier, rnd)
    run_cases("sign", cs, out)
    spellings(out, rnd, cs)
    after_length_stamp(out, rnd)
    frozen_clock(out, rnd, cs)
    other_types_then_str(out, rnd)
    threads(out, rnd, 20000 if tier == "quick" else 300000)
    # ... and as the first signatures a fresh interpreter computes, asked for by several threads at once
    ps = [t for t in template_texts(rnd) if wellformed(t)][:12] + [bytes(rnd.randrange(256) for _ in range(rnd.randrange(1, 90))).hex() for _ in range(12)]
    world.run_threads(out, "several-threads-from-the-first-call-on", "props.c04", "impl", [[p] for p in ps], lib.run_model([lib.req("sign_spec", p) for p in ps]),
                      lambda c: "sign(%r)" % (c[0][:60] if c else "?"), startups=32 if tier == "quick" else 600, threads=6, rounds=3)
    # the model's table-driven CRC against binascii.crc_hqx directly (the external call the model replaces)
    bufs = [bytes(rnd.randrange(256) for _ in range(rnd.randrange(0, 300))) for _ in range(300)]
    inits = [0x1021, 0, 0xffff] + [rnd.randrange(65536) for _ in range(297)]
    got = lib.run_model([lib.req("crc", i, b) for b, i in zip(bufs, inits)])
    want = [str(binascii.crc_hqx(b, i)) for b, i in zip(bufs, inits)]
    lib.differential(out, "crc_hqx", list(zip([b.hex() for b in bufs], inits)), want, got, None, lambda c: "crc_hqx(%s.., %d)" % (c[0][:16], c[1]))
    out.exhaustive = True
    out.notes.append("thorough enumerates all 65 793 byte strings of length 0..2 and every single-bit flip of three real frames")

def replay(rp, out):
    if "threads" in rp.get("stream", ""):
        import random
        return run("quick", random.Random(int(rp.get("seed", 1))), out)
    run_cases(rp.get("stream", "sign"), [rp["input"]], out)
