"""C08 — state replies are decoded into exactly what the device reported."""
import lib, world
from aioswitcher.api.messages import (SwitcherStateResponse, SwitcherShutterStateResponse, SwitcherThermostatStateResponse,
                                      SwitcherLoginResponse)
COQ_TARGET = "C08"
TRUSTED = ["Spec/Encoders.v transcribes the reply layouts of the pinned commit (captures under tests/testresources/dummy_responses)",
           "amps: bit-exact float model, compared as round(x * 10)"]
ASSUMPTIONS = ["time fields below 24 h; temperature in tenths 0..65535; remote id valid UTF-8 of at most 8 bytes not ending in NUL; "
               "mode / fan bytes outside the tables follow the code's defaults and are compared with the model only"]
RULE = ("replies built by the Spec encoders from random field values with random filler and random trailing length, for the four "
        "reply kinds, parsed by the response classes directly and through get_state / get_shutter_state / get_breeze_state against a "
        "scripted device; the four captured replies of the repository; watts_to_amps on all 65536 wattages against the bit-exact model; non-trivial = distinct replies")
REQUIREMENT = "response object fields = the encoded fields (Entry.e_reply_encode: expected text next to the reply bytes)"
KIND_OF = {0: 11, 1: 9, 2: 10}
CLS = {0: SwitcherStateResponse, 1: SwitcherShutterStateResponse, 2: SwitcherThermostatStateResponse}


def impl(kind, resp):
    try:
        if kind == 3:
            r = SwitcherLoginResponse(resp); t = "session:" + r.session_id; world.scribble(r); return t
        r = CLS[kind](resp); t = world.show_response(KIND_OF[kind], r)
        world.scribble(r)          # the response object is the caller's: what it does to it must not show in a later decoding
        return t
    except Exception as e: return "exc:" + world.exc_name(e)


def rand_fields(rnd, kind):
    t = lambda: rnd.choice([0, 1, 59, 60, 3599, 3600, 86399, rnd.randrange(86400)])
    if kind == 0: return [rnd.randrange(2), rnd.choice([0, 1, 219, 220, 255, 256, 65535, rnd.randrange(65536)]), t(), t(), t(), rnd.choice([0, 4, 20, rnd.randrange(40)])]
    if kind == 1: return [rnd.choice([0, 1, 99, 100, 255, rnd.randrange(101)]), rnd.choice(["SHUTTER_STOP", "SHUTTER_UP", "SHUTTER_DOWN"]), rnd.choice([0, 16, 29, rnd.randrange(40)])]
    if kind == 2:
        rem = bytes(rnd.choice(b"ABCELZMabcelz0123456789-_ ") for _ in range(rnd.choice([8, 8, 8, 0, 1, 7])))
        return [rnd.choice([0, 1, 255, 256, 65535, rnd.randrange(500)]), rnd.randrange(2), rnd.choice(world.MODE_NAMES), rnd.choice([0, 16, 30, 255, rnd.randrange(256)]),
                rnd.choice(world.FAN_NAMES), rnd.randrange(2), rem.hex(), rnd.choice([4, 17, 28, rnd.randrange(40)])]
    sess = rnd.choice([b"\0\0\0\0", b"\xff\xff\xff\xff", b"\0\0\0\1", b"\1\0\0\0", b"\0\0\xff\0", world.rand_bytes(rnd, 4), world.rand_bytes(rnd, 4), world.rand_bytes(rnd, 4)])
    return [sess.hex(), rnd.choice([0, 1, 12, 32, rnd.randrange(60)])]


def args_of(kind, f):
    if kind == 2: return f[:6] + [bytes.fromhex(f[6])] + f[7:]
    if kind == 3: return [bytes.fromhex(f[0]), f[1]]
    return f


def describe(c): return "reply kind %s fields %s" % (["type-1 state", "shutter state", "thermostat state", "login"][c["kind"]], c["fields"])


def run_stream(out, stream, cases, through_api=False):
    enc = lib.run_model([lib.req("reply_encode", c["kind"], args_of(c["kind"], c["fields"]), bytes.fromhex(c["filler"])) for c in cases])
    if any(e == "-" for e in enc): raise lib.BuildError("Spec reply encoder refused generated fields")
    replies = [bytes.fromhex(e.split(";", 1)[0]) for e in enc]; ex = [e.split(";", 1)[1] for e in enc]
    mo = lib.run_model([lib.req("parse_state", c["kind"], r) for c, r in zip(cases, replies)])
    if through_api:
        ops = [{"kind": KIND_OF[c["kind"]], "args": [], "id": "ab1c2d", "key": "18", "now": 1700000000,
                "replies": ["00" * 8 + "a1b2c3d4" + "00" * 12, r.hex()]} for c, r in zip(cases, replies)]
        io = [t.split("|")[-1] for t in (world.run_cases_second(ops, world.random.Random(len(ops))) if through_api == "second" else world.run_cases_fresh(ops))]
    else:
        io = [impl(c["kind"], r) for c, r in zip(cases, replies)]
    lib.differential(out, stream, cases, io, mo, ex, describe, sample=describe, classify=lambda c, i: "kind%d/%s" % (c["kind"], i.split(":")[0]))


def captured(out):
    import os
    d = os.path.join(lib.REPO, "tests", "testresources", "dummy_responses"); cs = []
    for f in sorted(os.listdir(d)) if os.path.isdir(d) else []:
        try: b = bytes.fromhex(open(os.path.join(d, f)).read().strip())
        except ValueError: continue
        for k in (0, 1, 2, 3): cs.append((k, b, f))
    io = [impl(k, b) for k, b, _ in cs]; mo = lib.run_model([lib.req("parse_state", k, b) for k, b, _ in cs])
    lib.differential(out, "captured-replies", [{"kind": k, "reply": b.hex(), "file": f} for k, b, f in cs], io, mo, None,
                     lambda c: "capture %s as kind %d" % (c["file"], c["kind"]))


def thread_call(kind, reply_hex): return impl(kind, bytes.fromhex(reply_hex))


def run_threads(tier, out, rnd, mk):
    """several threads, each polling devices of its own: the replies of one thread's devices are decoded while the other threads decode theirs"""
    cs = [mk(k) for k in (0, 1, 2, 0, 1, 2, 0, 3)]
    enc = lib.run_model([lib.req("reply_encode", c["kind"], args_of(c["kind"], c["fields"]), bytes.fromhex(c["filler"])) for c in cs])
    calls = [[c["kind"], e.split(";", 1)[0]] for c, e in zip(cs, enc)]; ex = [e.split(";", 1)[1] for e in enc]
    world.run_threads(out, "several-threads-each-decoding-its-own-replies", "props.c08", "thread_call", calls, ex,
                      lambda c: "reply kind %s %s.." % ((c[0], c[1][:24]) if c else ("?", "")), startups=24 if tier == "quick" else 400, threads=4, rounds=150 if tier == "quick" else 400)


def run(tier, rnd, out):
    corpus = lib.load_corpus("C08")
    if corpus: run_stream(out, "corpus", corpus)
    n = 150 if tier == "quick" else 7500
    def filler():
        f = bytearray(world.rand_bytes(rnd, 140))
        if rnd.random() < .3:                    # the frame magic, or a run of zeros, may occur anywhere in what the fields do not cover
            for _ in range(rnd.randrange(1, 4)):
                k = rnd.randrange(138); f[k:k + 2] = rnd.choice([b"\xfe\xf0", b"\xf0\xfe", b"\0\0"])
        return bytes(f).hex()
    mk = lambda k: {"kind": k, "fields": rand_fields(rnd, k), "filler": filler()}
    run_threads(tier, out, rnd, mk)
    cs = [mk(k) for k in (0, 1, 2, 3) for _ in range(n)]
    for t10 in (range(65536) if tier == "thorough" else list(range(0, 1300)) + list(range(1300, 65536, 37))):      # every tenth of a degree up to 130.0, then a sieve
        c = mk(2); c["fields"][0] = t10; cs.append(c)
    for pos in (0, 1, 50, 99, 100):              # every end stop with every direction
        for d in ("SHUTTER_STOP", "SHUTTER_UP", "SHUTTER_DOWN"): c = mk(1); c["fields"][0] = pos; c["fields"][1] = d; cs.append(c)
    for on in (0, 1):                            # the type-1 fields at their edges, all combinations of (state, power edge, time edge)
        for w in (0, 1, 65535):
            for t in (0, 1, 86399): c = mk(0); c["fields"][0] = on; c["fields"][1] = w; c["fields"][2] = t; c["fields"][3] = t; c["fields"][4] = 86399 - t; cs.append(c)
    if tier == "thorough":
        for t in range(0, 86400, 7): c = mk(0); c["fields"][2] = t; c["fields"][3] = 86399 - t; cs.append(c)
        for p in range(256): c = mk(1); c["fields"][0] = p; cs.append(c)
    run_stream(out, "encoded-replies", cs)
    again = rnd.sample(cs, min(len(cs), 300)); again = again + again          # the same replies decoded a second time, after the caller overwrote the first results
    run_stream(out, "same-replies-decoded-again", again)
    cs = [mk(k) for k in (0, 1, 2) for _ in range(40 if tier == "quick" else 1000)]
    run_stream(out, "through-the-state-queries", cs, through_api=True)
    cs = [mk(k) for k in (0, 0, 1) for _ in range(40 if tier == "quick" else 1000)]         # after a command (switch on / off, name, stop, position) on the same api object
    run_stream(out, "state-query-after-a-command-on-the-same-api-object", cs, through_api="second")
    captured(out)
    amps_sweep(out)


def amps_sweep(out):
    """watts_to_amps on every 16-bit wattage against the bit-exact float model; the Spec (|w - 22 t| <= 11) judges too"""
    from aioswitcher.device.tools import watts_to_amps
    ws = list(range(65536)); got = []
    for k in range(0, 65536, 4096):
        got += [x for x in lib.run_model([lib.req("amps", ws[k:k + 4096])])[0].split(",") if x]
    cases = [{"watts": w} for w in ws]
    io = [str(round(watts_to_amps(w) * 10)) for w in ws]
    ex = [i if abs(w - 22 * int(i)) <= 11 else "a tenth t with |watts - 22 t| <= 11" for w, i in zip(ws, io)]
    lib.differential(out, "amps-every-wattage", cases, io, got, ex, lambda c: "watts_to_amps(%d)" % c["watts"], nontrivial=lambda c: c["watts"] % 22 == 11)


def replay(rp, out):
    c = rp["input"]
    if "threads" in rp.get("stream", ""):
        import random
        return run("quick", random.Random(int(rp.get("seed", 1))), out)
    if "reply" in c: captured(out)
    else: run_stream(out, rp.get("stream", "replay"), [c], through_api=("second" if "after-a-command" in rp.get("stream", "") else rp.get("stream") == "through-the-state-queries"))
