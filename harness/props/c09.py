"""C09 — no device reply can crash the client or be mistaken for success."""
import lib, world
from props import opcommon as oc
COQ_TARGET = "C09"
TRUSTED = ["the exception class each Python primitive raises (int(), dict lookup, datetime.time, bytes.decode, unhexlify) is the "
           "modelled part (DESIGN.md appendix C); this run drives the real methods with every prefix of valid replies, random "
           "bytes and single-field corruptions to validate it"]
ASSUMPTIONS = ["replies are at most 1024 bytes and arrive one per read", "arguments are inside every encoder's accepted domain: what happens to rejected arguments is C02's subject"]
RULE = ("for each of the three state queries: empty reply, every prefix length of a valid reply, random replies of 1..1024 bytes and "
        "single-byte corruptions, at the login step and at the state step; every operation of both APIs with an empty login reply "
        "and with an empty command reply; operations with faulty replies through `async with` on loopback TCP; non-trivial = distinct (operation, reply script) pairs with a truncated, empty or "
        "corrupted reply")
REQUIREMENT = ("state query: outcome is a parsed response or RuntimeError, never another exception; a generic response is successful "
               "iff the reply is non-empty; empty login reply: state queries and all type-2 operations raise RuntimeError having "
               "written the login frame only")


def view(text):
    fs, o = oc.split_text(text)
    cls = "state" if o.startswith("state:") else o if o in ("ok:0", "ok:1", "exc:RuntimeError") else "exc:other"
    return "%d frames / %s" % (len(fs), cls)


def judge(c, text):
    """the property's demands on one exchange, 'ok' or what is wrong"""
    fs, o = oc.split_text(text); k = c["kind"]
    replies = [bytes.fromhex(r) for r in c["replies"]]
    login = replies[0] if replies else b""
    if k in world.STATE_KINDS and not (o.startswith("state:") or o == "exc:RuntimeError"):
        return "a state query ended in %s (neither a response nor RuntimeError)" % o
    if k in world.STATE_KINDS and o.startswith("state:") and o.split(":")[1].split(",")[0] != "1":
        return "a state query returned a response that reports no success"
    if not login and (k in world.STATE_KINDS or k in world.TYPE2_KINDS):
        if o != "exc:RuntimeError": return "empty login reply but the call ended in %s" % o
        if len(fs) != 1: return "empty login reply but %d frames were written" % len(fs)
    if o in ("ok:0", "ok:1") and len(fs) >= 2:
        reply = replies[len(fs) - 1] if len(replies) >= len(fs) else b""
        if (o == "ok:1") != (len(reply) > 0): return "generic response reports successful=%s for a reply of %d bytes" % (o[3:], len(reply))
    return "ok"


def run_stream(out, stream, cases):
    it = world.run_cases_fresh(cases)
    io = [view(t) for t in it]
    mo = [view(t) for t in lib.run_model([world.model_line(c) for c in cases])]
    lib.differential(out, stream, cases, io, mo, ["ok"] * len(cases), oc.describe,
                     nontrivial=lambda c: any(len(r) < 150 for r in c["replies"]), sample=lambda c: oc.describe(c)[:300],
                     classify=lambda c, i: world.KIND_NAMES[c["kind"]] + " / " + i, impl_spec=[judge(c, t) for c, t in zip(cases, it)])


def with_replies(rnd, kind, replies):
    c = world.rand_op_case(rnd, kind, accepted_args=True); c["replies"] = [r.hex() for r in replies]; return c


def cases(tier, rnd):
    cs = []
    for kind in (9, 10, 11):
        valid = world.state_reply_for(rnd, kind); login = world.login_reply(rnd)
        # a fully valid reply for the kind
        if kind == 11: valid = valid[:75] + b"\x01" + valid[76:89] + (100).to_bytes(4, "little") * 3 + valid[101:]
        if kind == 9: valid = valid[:78] + b"\x00\x00" + valid[80:]
        for n in range(len(valid) + 1): cs.append(with_replies(rnd, kind, [login, valid[:n]]))
        for n in range(len(login) + 1): cs.append(with_replies(rnd, kind, [login[:n], valid]))
        for n in (1023, 1024, 1024):         # a reply that fills the read buffer exactly (valid and followed by padding; or random)
            cs.append(with_replies(rnd, kind, [login, (valid + world.rand_bytes(rnd, n))[:n]])); cs.append(with_replies(rnd, kind, [login, world.rand_bytes(rnd, n)]))
        for _ in range(100 if tier == "quick" else 5000):
            cs.append(with_replies(rnd, kind, [login, world.rand_bytes(rnd, rnd.choice([rnd.randrange(1, 200), rnd.randrange(1, 1025)]))]))
        for _ in range(100 if tier == "quick" else 3000):
            b = bytearray(valid); i = rnd.randrange(len(b)); b[i] = rnd.randrange(256); cs.append(with_replies(rnd, kind, [login, bytes(b)]))
        for o in (75, 77, 78, 79, 80, 81, 84, 89, 93, 97):
            for v in (0, 1, 2, 0x7f, 0x80, 0xff):
                b = bytearray(valid)
                if o < len(b): b[o] = v; cs.append(with_replies(rnd, kind, [login, bytes(b)]))
        for o in (75, 77, 79, 89, 135):      # two neighbouring bytes at their extremes together (a 16-bit field all ones / all zeros)
            for v in (b"\xff\xff", b"\0\0", b"\xff\x7f", b"\0\x80"):
                b = bytearray(valid)
                if o + 2 <= len(b): b[o:o + 2] = v; cs.append(with_replies(rnd, kind, [login, bytes(b)]))
        # whole groups of fields at zero / at all ones together, with the state byte either way (a device just switched on by hand: on, no timer,
        # nothing elapsed, no power drawn yet; a device that reports nothing it knows)
        for st in (0, 1):
            for fill in (0, 0xff):
                for lo, hi in ((89, 101), (89, 97), (93, 101), (77, 101), (76, 110)):
                    b = bytearray(valid)
                    if hi <= len(b): b[lo:hi] = bytes([fill]) * (hi - lo); b[75] = st; cs.append(with_replies(rnd, kind, [login, bytes(b)]))
        for o in (89, 93, 97):          # time fields at the edges of what datetime.time accepts
            for secs in (86399, 86400, 2 ** 31 - 1, 2 ** 32 - 1):
                b = bytearray(valid); b[o:o + 4] = secs.to_bytes(4, "little"); cs.append(with_replies(rnd, kind, [login, bytes(b)]))
    # replies that look like REAL frames of the protocol at the wrong place: the state reply of another device kind (with the header a device
    # puts in front: magic, its own length, kind and command bytes) as answer to a state query, a command, a login
    def framed(body, kindbytes):
        b = bytearray(body); b[0:2] = b"\xfe\xf0"; b[2:4] = len(b).to_bytes(2, "little"); b[4:6] = kindbytes; b[6:8] = b"\x01\x03"; return bytes(b)
    looks = [framed(world.thermostat_reply(rnd), b"\x04\x00"), framed(world.shutter_reply(rnd), b"\x04\x02"), framed(world.type1_state_reply(rnd), b"\x02\x32"),
             framed(world.rand_bytes(rnd, 100), b"\x04\x02"), framed(world.rand_bytes(rnd, 1024), b"\x04\x00")]
    for kind in range(1, 13):
        for look in looks:
            c = with_replies(rnd, kind, [world.login_reply(rnd), look])
            if len(c["replies"]) >= 2: cs.append(c)
            c = with_replies(rnd, kind, [look, look]); cs.append(c)
    for kind in range(1, 13):
        for _ in range(6 if tier == "quick" else 100):
            c = world.rand_op_case(rnd, kind, accepted_args=True); r = [bytes.fromhex(x) for x in c["replies"]]
            cs.append(with_replies(rnd, kind, [b""] + r[1:]) | {"args": c["args"]})
            for i in range(1, len(r)):
                r2 = list(r); r2[i] = b""; cs.append(with_replies(rnd, kind, r2) | {"args": c["args"]})
    # thermostat control: all 32 request subsets x remote kinds x update flag, the login reply (or a later one) empty
    for sep in (False, True):
        for toggle in (False, True):
            irset = world.gen_irset(rnd)
            irset["IRSetID"] = "ELEC7022" if sep else "ELEC7001"; irset["OnOffType"] = 1 if toggle else 0
            irset["IRWaveList"] += [{"Key": k, "Para": "P", "HexCode": k.upper().encode().hex()} for k in ("FUN_d0", "FUN_d1", "off", "aa", "ad", "aw", "ar", "ah", "on_")]
            for sub in range(32):
                for upd in (False, True):
                    args = [irset, (rnd.random() < .5) if sub & 1 else None, rnd.choice(world.MODE_NAMES) if sub & 2 else None,
                            rnd.randrange(16, 31) if sub & 4 else 0, rnd.choice(world.FAN_NAMES) if sub & 8 else None,
                            (rnd.random() < .5) if sub & 16 else None, upd]
                    good = [world.login_reply(rnd), world.thermostat_reply(rnd), b"\x01\x02", b"\x03"]
                    for k in ([0] if tier == "quick" and sub % 4 else [0, 1, 2, 3]):
                        r = list(good); r[k] = b""
                        cs.append(with_replies(rnd, 12, r) | {"args": args})
    return cs


def run_sequences(out, rnd, n):
    """operations in sequence on ONE api object per class: an earlier successful operation must not help a later one whose login
    reply is empty"""
    import asyncio
    async def go():
        cases = []; texts = []
        for _ in range(n):
            apis = {}; ident = {False: ("%06x" % rnd.randrange(1 << 24), "18"), True: ("%06x" % rnd.randrange(1 << 24), "00")}
            for step in range(rnd.randrange(2, 6)):
                kind = rnd.randrange(1, 13); t2 = kind in world.TYPE2_KINDS
                if t2 not in apis: apis[t2] = world.ScriptedApi(t2, *ident[t2])
                c = world.rand_op_case(rnd, kind, accepted_args=True); c["id"], c["key"] = ident[t2]
                if step > 0 and rnd.random() < .6:
                    r = [bytes.fromhex(x) for x in c["replies"]]; r[0] = b""; c["replies"] = [x.hex() for x in r]
                texts.append(await apis[t2].run(kind, c["args"], [bytes.fromhex(r) for r in c["replies"]], c["now"])); cases.append(c)
        return cases, texts
    cases, it = asyncio.run(go())
    async def runs_of_bad_replies():
        cases2 = []; texts2 = []
        for _ in range(max(6, n // 3)):
            kind = rnd.choice([9, 10, 11]); t2 = kind in world.TYPE2_KINDS; api = world.ScriptedApi(t2, "%06x" % rnd.randrange(1 << 24), "18")
            good = world.rand_op_case(rnd, kind, accepted_args=True); bad = bytes.fromhex(good["replies"][1])[:rnd.choice([0, 1, 30, 60, 74])] if rnd.random() < .6 else world.rand_bytes(rnd, rnd.randrange(1, 70))
            plan = rnd.choice([["good", "bad", "bad"], ["bad", "bad", "bad", "bad"], ["good", "bad", "bad", "bad", "good", "bad"]])
            for what in plan:           # the SAME unparsable bytes every time: a device that keeps sending a short frame
                c = dict(good, replies=[good["replies"][0], good["replies"][1] if what == "good" else bad.hex()], id=api.api._device_id, key=api.api._device_key)
                texts2.append(await api.run(kind, c["args"], [bytes.fromhex(r) for r in c["replies"]], c["now"])); cases2.append(c)
        return cases2, texts2
    c2, t2_ = asyncio.run(runs_of_bad_replies()); cases += c2; it += t2_
    io = [view(t) for t in it]
    mo = [view(t) for t in lib.run_model([world.model_line(c) for c in cases])]
    lib.differential(out, "sequences-on-one-object", cases, io, mo, ["ok"] * len(cases), oc.describe, nontrivial=lambda c: c["replies"][0] == "",
                     sample=lambda c: oc.describe(c)[:300], classify=lambda c, i: "seq/" + world.KIND_NAMES[c["kind"]] + " / " + i,
                     impl_spec=[judge(c, t) for c, t in zip(cases, it)])


def run_context_form(out, rnd, n):
    """the documented usage: `async with Api(...) as api: await api.<operation>()` against a scripted device on loopback TCP.
    What the operation raises must come out of the block; what it returns must be what the block sees"""
    import asyncio
    from aioswitcher.api import SwitcherType1Api, SwitcherType2Api
    cs = [c for c in oc.mixed_cases(rnd, n, reply_mode="faulty", accepted_args=True) if c["kind"] != 12]
    async def go():
        ip = world.loopback_ip(9); devs = {False: world.FakeDevice(ip, 9957), True: world.FakeDevice(ip, 10000)}
        for d in devs.values(): await d.listen(True)
        res = []
        try:
            for c in cs:
                t2 = c["kind"] in world.TYPE2_KINDS; dev = devs[t2]; dev.log.clear()
                dev.script[:] = [bytes.fromhex(r) for r in c["replies"]]; dev.policy = lambda n, d: b""
                seen = "block ended without a result"; sent = []
                try:
                    async with (SwitcherType2Api if t2 else SwitcherType1Api)(ip, c["id"], c["key"]) as api:
                        w = api._writer; orig = w.write; sent = []
                        w.write = lambda b, orig=orig, sent=sent: (sent.append(bytes(b)), orig(b))[1]        # frames as the client writes them
                        r = await asyncio.wait_for(world.call_op(api, c["kind"], c["args"]), 20)
                        seen = world.show_response(c["kind"], r)
                except asyncio.TimeoutError: seen = "exc:NeverReturned"
                except Exception as e: seen = "exc:" + world.exc_name(e)
                for _ in range(3): await asyncio.sleep(0)
                res.append("".join(d.hex() + "|" for d in sent) + seen)
        finally:
            for d in devs.values(): await d.listen(False)
        return res
    it = asyncio.run(go())
    io = [view(t) for t in it]
    # over TCP an empty reply is the end of the stream: later reads see end-of-stream too, which the scripted model expresses as empty replies
    mcs = []
    for c in cs:
        r = list(c["replies"]); k = next((i for i, x in enumerate(r) if x == ""), None)
        mcs.append(dict(c, replies=r if k is None else r[:k] + [""] * (len(r) - k)))
    mo = [view(t) for t in lib.run_model([world.model_line(c) for c in mcs])]
    lib.differential(out, "async-with-over-tcp", mcs, io, mo, ["ok"] * len(mcs), oc.describe, nontrivial=lambda c: True,
                     sample=lambda c: oc.describe(c)[:300], classify=lambda c, i: "with/" + world.KIND_NAMES[c["kind"]] + " / " + i,
                     impl_spec=[judge(c, t) for c, t in zip(mcs, it)])


def run(tier, rnd, out):
    corpus = lib.load_corpus("C09")
    if corpus: run_stream(out, "corpus", corpus)
    run_stream(out, "faulty-replies", cases(tier, rnd))
    cs = oc.mixed_cases(rnd, 15 if tier == "quick" else 400, reply_mode="faulty", accepted_args=True)
    run_stream(out, "random-faults", cs)
    import copy
    slow = world.with_delays(rnd, [copy.deepcopy(c) for c in rnd.sample(cs, min(len(cs), 60 if tier == "quick" else 1500))])
    run_stream(out, "random-faults-from-a-slow-device", slow)
    run_sequences(out, rnd, 120 if tier == "quick" else 2000)
    run_context_form(out, rnd, 4 if tier == "quick" else 60)


def replay(rp, out): run_stream(out, rp.get("stream", "replay"), [rp["input"]])
