"""C12 — weekday sets and their one-byte mask are a bijection."""
import itertools
import lib, world
from aioswitcher.schedule import Days, tools
COQ_TARGET = "C12"
TRUSTED = ["the Days table (bit_rep, hex_rep, weekday) is regenerated from the sources into Gen/Extracted.v on every run"]
ASSUMPTIONS = ["odd masks 3..253 are accepted by the code and decode ignoring bit 0; the property does not forbid it: not judged"]
RULE = ("exhaustive in both tiers: the 7 single days, all 127 non-empty subsets as a set and as a sequence in sorted and in shuffled "
        "order, the empty set / list / tuple, every sequence of length <= 3 with repetition allowed (399), sequences of length 2..21 (constant, one repeated day, a shuffled full week, "
        "a full week plus one day, random), all 256 masks plus values beyond one byte and negative ones, then "
        "decode(encode(subset)) for all 127; non-trivial = distinct non-empty inputs")
REQUIREMENT = ("encode = two hex digits of the sum of 2^(weekday+1) over the days (bit 0 never set); duplicates and empty input raise; "
               "decode(mask) = the days whose bit is set, for even masks in 2..254; masks < 2 or > 254 raise")
DAYS = list(Days)


def enc_impl(form, l):
    try:
        if form == 0: return lib.ok(tools.weekdays_to_hexadecimal(DAYS[l[0]]))
        if form == 1: return lib.ok(tools.weekdays_to_hexadecimal({DAYS[i] for i in l}))
        if form == 3: return lib.ok(tools.weekdays_to_hexadecimal(tuple(DAYS[i] for i in l)))
        if form == 4: return lib.ok(tools.weekdays_to_hexadecimal(frozenset(DAYS[i] for i in l)))
        return lib.ok(tools.weekdays_to_hexadecimal([DAYS[i] for i in l]))
    except Exception: return "raised"


def days_text(got):
    """what the decoder handed back, as text: the day numbers of a set of days, or whatever else it was"""
    try: return "ok " + "".join(str(i) for i in sorted(DAYS.index(d) for d in got))
    except Exception: return "ok " + repr(got)[:60]


def dec_impl(n):
    try: got = tools.bit_summary_to_days(n)
    except Exception: return "raised"
    return days_text(got)


def thread_call(kind, a, b=None):
    return dec_impl(a) if kind == "dec" else enc_impl(a, b)


def run_threads(tier, out):
    """the first encodings and decodings of a process, made by several threads at once"""
    evens = list(range(2, 255, 2)); subs = [[d for d in range(7) if m >> d & 1] for m in range(1, 128)]
    calls = [["dec", 254], ["dec", 2], ["dec", 128]] + [["dec", n] for n in evens[::5]] + [["enc", f, l] for l in subs[::9] for f in (1, 2, 3)]
    ex = [lib.run_model([lib.req("bitsum_spec", c[1])])[0] if c[0] == "dec" else lib.run_model([lib.req("weekdays_spec", {1: 1, 2: 2, 3: 2}[c[1]], c[2])])[0] for c in calls]
    world.run_threads(out, "several-threads-from-the-first-call-on", "props.c12", "thread_call", calls, ex,
                      lambda c: ("bit_summary_to_days(%s)" % c[1]) if c and c[0] == "dec" else "weekdays_to_hexadecimal(%s)" % (c[1:] if c else ""), startups=96 if tier == "quick" else 1500, spread=False)


def run(tier, rnd, out):
    run_threads(tier, out)
    cs = [(0, [d]) for d in range(7)]
    for m in range(1, 128):
        l = [d for d in range(7) if m >> d & 1]
        cs.append((1, l)); cs.append((2, l)); sh = l[:]; rnd.shuffle(sh); cs.append((2, sh))
    cs += [(1, []), (2, [])]
    for L in (1, 2, 3): cs += [(2, list(t)) for t in itertools.product(range(7), repeat=L)]
    for L in list(range(2, 11)) + [14, 21]:                      # longer sequences: constant, one repeated day, a full week and more
        for d in range(7): cs.append((2, [d] * L))
        for _ in range(12 if tier == "quick" else 200):
            cs.append((2, [rnd.randrange(7) for _ in range(L)]))
            base = rnd.sample(range(7), min(L - 1, 7)); seq = base + [rnd.choice(base)] * (L - len(base)); rnd.shuffle(seq); cs.append((2, seq))
    for _ in range(30):
        week = list(range(7)); rnd.shuffle(week); cs.append((2, week)); cs.append((2, week + [rnd.randrange(7)])); cs.append((2, week * 2))
    cs += [(3, l) for f, l in cs if f == 2] + [(4, l) for f, l in cs if f == 1]      # the same as tuples and frozensets
    cases = [{"form": f, "days": l} for f, l in cs]
    io = [enc_impl(f, l) for f, l in cs]
    mf = {0: 0, 1: 1, 2: 2, 3: 2, 4: 1}                                                # the model and the Spec know sets and sequences
    mo = lib.run_model([lib.req("weekdays", mf[f], l) for f, l in cs]); ex = lib.run_model([lib.req("weekdays_spec", mf[f], l) for f, l in cs])
    lib.differential(out, "encode", cases, io, mo, ex, lambda c: "weekdays_to_hexadecimal(%s of %s)" % (["single day", "set", "list", "tuple", "frozenset"][c["form"]], c["days"]),
                     nontrivial=lambda c: len(c["days"]) > 0, sample=lambda c: c, classify=lambda c, i: ["single", "set", "list", "tuple", "frozenset"][c["form"]] + "/" + i.split(" ")[0])
    ms = list(range(256)) + [256, 257, 258, 510, 511, 512, 1000, 65535, 65536 + 2, 2 ** 32 + 4, -1, -2, -254, -256]
    io = [dec_impl(n) for n in ms]; mo = lib.run_model([lib.req("bitsum", n) for n in ms]); ex = lib.run_model([lib.req("bitsum_spec", n) for n in ms])
    lib.differential(out, "decode", [{"mask": n} for n in ms], io, mo, ex, lambda c: "bit_summary_to_days(%d)" % c["mask"],
                     sample=lambda c: c, classify=lambda c, i: "mask/" + i.split(" ")[0])
    # the result belongs to the caller: decoding a mask again after the caller changed what it got must give the same set
    again = []
    for n in range(2, 255, 2):
        try:
            got = tools.bit_summary_to_days(n); got.clear(); got.add(DAYS[(n // 2) % 7])
        except Exception: pass
        again.append(dec_impl(n))
    ms2 = list(range(2, 255, 2))
    lib.differential(out, "decode-again-after-the-caller-changed-the-result", [{"mask": n} for n in ms2], again,
                     lib.run_model([lib.req("bitsum", n) for n in ms2]), lib.run_model([lib.req("bitsum_spec", n) for n in ms2]),
                     lambda c: "bit_summary_to_days(%d), result mutated by the caller, bit_summary_to_days(%d) again" % (c["mask"], c["mask"]), sample=lambda c: c)
    enc_again = []
    for m in range(1, 128):
        l = [d for d in range(7) if m >> d & 1]; enc_impl(1, l); enc_again.append(enc_impl(1, l))
    lib.differential(out, "encode-twice", [{"days": [d for d in range(7) if m >> d & 1]} for m in range(1, 128)], enc_again, None,
                     lib.run_model([lib.req("weekdays_spec", 1, [d for d in range(7) if m >> d & 1]) for m in range(1, 128)]), lambda c: "encode(%s) twice" % c["days"])
    # the argument belongs to the caller: one set / list object encoded twice, and still what it was
    same = []; subs_ = [[d for d in range(7) if m >> d & 1] for m in range(1, 128)]
    for l in subs_:
        for mk in (set, list):
            obj = mk(DAYS[i] for i in l); before = list(obj) if mk is list else set(obj)
            def enc(o):
                try: return lib.ok(tools.weekdays_to_hexadecimal(o))
                except Exception: return "raised"
            a = enc(obj); b = enc(obj)
            same.append(a if (a == b and (list(obj) if mk is list else set(obj)) == before) else "first %s, again %s, argument now %s" % (a, b, sorted(DAYS.index(d) for d in obj)))
    # ... and the same object changed in place by the caller between two encodings: the second mask is that of the new content
    changed = []; cases3 = []
    for l in subs_:
        for mk in (set, list):
            obj = mk(DAYS[i] for i in l); enc(obj)
            extra = rnd.choice([d for d in range(7) if d not in l] or [None])
            if extra is None: (obj.discard if mk is set else obj.remove)(DAYS[l[0]]); now_ = [d for d in l if d != l[0]]
            else: (obj.add if mk is set else obj.append)(DAYS[extra]); now_ = sorted(l + [extra])
            changed.append(enc(obj) if now_ else "raised" if enc(obj) == "raised" else enc(obj)); cases3.append({"first": l, "then": now_, "as": mk.__name__})
    lib.differential(out, "argument-object-changed-between-two-encodings", cases3, changed, None,
                     [lib.run_model([lib.req("weekdays_spec", 1, c["then"])])[0] for c in cases3],
                     lambda c: "one %s object encoded as %s, changed in place to %s, encoded again" % (c["as"], c["first"], c["then"]), sample=lambda c: c)
    cases2 = [{"days": l, "as": n} for l in subs_ for n in ("set", "list")]
    lib.differential(out, "same-argument-object-encoded-twice", cases2, same, None,
                     [x for l in subs_ for x in lib.run_model([lib.req("weekdays_spec", 1, l)]) * 2], lambda c: "one %s object of days %s encoded twice" % (c["as"], c["days"]), sample=lambda c: c)
    # round trip through the real encoder and decoder
    subs = [[d for d in range(7) if m >> d & 1] for m in range(1, 128)]
    rt = [dec_impl(int(enc_impl(1, l)[3:], 16)) if enc_impl(1, l) != "raised" else "raised" for l in subs]
    want = ["ok " + "".join(map(str, l)) for l in subs]
    lib.differential(out, "decode-after-encode", [{"days": l} for l in subs], rt, None, want, lambda c: "decode(encode(%s))" % c["days"], sample=lambda c: c)
    # the same requests with the parameter named (its documented name `days`), from a dict, and for the decoder `sum_weekdays_bit`
    def kw(f, l):
        arg = DAYS[l[0]] if f == 0 else {DAYS[i] for i in l} if f == 1 else [DAYS[i] for i in l]
        outs = []
        for call in (lambda: tools.weekdays_to_hexadecimal(days=arg), lambda: tools.weekdays_to_hexadecimal(**{"days": arg})):
            try: outs.append("ok " + call())
            except Exception: outs.append("raised")
        return outs[0] if outs[0] == outs[1] else "keyword %s, dict %s" % tuple(outs)
    sel = [(f, l) for f, l in cs if f in (0, 1, 2) and l][::7][:400] + [(2, [0, 0]), (2, [3, 1, 3]), (0, [6]), (1, [0, 6])]
    lib.differential(out, "encode-with-the-parameter-named", [{"form": f, "days": l} for f, l in sel], [kw(f, l) for f, l in sel], lib.run_model([lib.req("weekdays", f, l) for f, l in sel]),
                     lib.run_model([lib.req("weekdays_spec", f, l) for f, l in sel]), lambda c: "weekdays_to_hexadecimal(days=%s of %s)" % (["single day", "set", "list"][c["form"]], c["days"]), sample=lambda c: c)
    def dkw(n):
        try: got = tools.bit_summary_to_days(sum_weekdays_bit=n)
        except Exception: return "raised"
        return days_text(got)
    lib.differential(out, "decode-with-the-parameter-named", [{"mask": n} for n in ms], [dkw(n) for n in ms], lib.run_model([lib.req("bitsum", n) for n in ms]),
                     lib.run_model([lib.req("bitsum_spec", n) for n in ms]), lambda c: "bit_summary_to_days(sum_weekdays_bit=%d)" % c["mask"], sample=lambda c: c)
    # ... and the other way: the decoder's own result handed to the encoder as it comes (whatever container type it is)
    def back(m):
        try: return lib.ok(tools.weekdays_to_hexadecimal(tools.bit_summary_to_days(m)))
        except Exception as e: return "raised " + type(e).__name__
    evens = list(range(2, 255, 2))
    lib.differential(out, "encode-after-decode", [{"mask": m} for m in evens], [back(m) for m in evens], None, ["ok %02x" % m for m in evens],
                     lambda c: "encode(decode(%d))" % c["mask"], sample=lambda c: c)
    # a decoded set handed on as the library itself does (a schedule object built from it, on every weekday, its start time already past):
    # the set still encodes to its mask afterwards, and so does the object's own `days`
    import time_machine
    from aioswitcher.schedule.parser import SwitcherSchedule
    obj = []; oc_ = []
    for wd in range(7):
        with time_machine.travel(1_700_000_000.25 + 86400 * wd + 43200, tick=False):
            for m in evens:
                try:
                    ds = tools.bit_summary_to_days(m); sch = SwitcherSchedule("1", True, ds, "00:00", "01:00")
                    a_ = "ok " + tools.weekdays_to_hexadecimal(ds); b_ = "ok " + tools.weekdays_to_hexadecimal(sch.days)
                    obj.append(a_ if a_ == b_ else "the decoded set now encodes to %s, the schedule's days to %s" % (a_[3:], b_[3:]))
                except Exception as e: obj.append("raised " + type(e).__name__)
                oc_.append({"mask": m, "weekday": (3 + wd) % 7})
    lib.differential(out, "decoded-set-handed-to-a-schedule-object-then-encoded", oc_, obj, None, ["ok %02x" % c["mask"] for c in oc_],
                     lambda c: "encode(decode(%d)) after SwitcherSchedule(.., decode(%d), '00:00', ..) on weekday %d" % (c["mask"], c["mask"], c["weekday"]), sample=lambda c: c)
    # ... and the encoder as create_schedule reaches it: the mask byte of the created record, or a refusal, for sets and sequences with and without repeats
    sel = [(f, l) for f, l in cs if f in (1, 2) and l][::5][:500] + [(2, [0, 0]), (2, [6, 6, 2]), (2, [1, 2, 1]), (1, [0, 6])]
    ops = [{"kind": 6, "args": ["10:00", "11:00", l, "set" if f == 1 else "list"], "id": "ab1c2d", "key": "18", "now": 1_700_000_000, "replies": ["00" * 8 + "a1b2c3d4" + "00" * 12, "01"]} for f, l in sel]
    got = []
    for t in world.run_cases_fresh(ops):
        fs = [x for x in t.split("|")[:-1]]
        got.append("ok " + fs[1][170:172] if len(fs) >= 2 and len(fs[1]) >= 172 else "raised" if t.split("|")[-1].startswith("exc:") else "no record: " + t[-60:])
    lib.differential(out, "encode-as-create_schedule-reaches-it", [{"form": f, "days": l} for f, l in sel], got, None,
                     lib.run_model([lib.req("weekdays_spec", f, l) for f, l in sel]), lambda c: "create_schedule('10:00', '11:00', %s of %s): mask byte of the record" % (["", "set", "list"][c["form"]], c["days"]), sample=lambda c: c)
    out.exhaustive = True


def replay(rp, out):
    import random
    if "threads" in rp.get("stream", ""): return run_threads("thorough", out)
    run("quick", random.Random(1), out)
