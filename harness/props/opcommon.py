"""Helpers shared by the properties that look at the frames of an operation (C01 C02 C03 C09 C16)."""
import asyncio, struct
import lib, world


def split_text(text):
    """canonical exchange text -> (list of frame hex, outcome)"""
    parts = text.split("|")
    return parts[:-1], parts[-1]


def describe(c):
    a = c["args"]
    if c["kind"] == 12:
        irset = a[0]; a = ["irset %s onoff=%s %d waves" % (irset["IRSetID"], irset["OnOffType"], len(irset["IRWaveList"]))] + a[1:]
    return "%s%r id=%s key=%s now=%d replies=%s%s" % (world.KIND_NAMES[c["kind"]], tuple(a), c["id"], c["key"], c["now"],
                                                       [r[:24] + (".." if len(r) > 24 else "") for r in c["replies"]],
                                                       (" reply delays (s)=%s%s" % (c["delays"], ", the wall clock moving along" if c.get("clock_moves") else "") if c.get("delays") else "") +
                                                       (" device after its last reply: %s" % c["device_after_last_reply"] if c.get("device_after_last_reply") else ""))


def has_session(c):
    """the login reply 'carries a session id': at least 12 bytes"""
    return len(c["replies"]) > 0 and len(c["replies"][0]) >= 24


def mixed_cases(rnd, n_per_kind, kinds=range(1, 13), reply_mode="valid", accepted_args=False):
    cs = []
    for k in kinds:
        for _ in range(n_per_kind): cs.append(world.rand_op_case(rnd, k, reply_mode, accepted_args))
    return cs


async def run_tcp(cases):
    """Run each case on a fresh connection to a fake device on loopback TCP; the frames are what the device received.
    The clock is not frozen: `now` of each case is replaced by the timestamp the client put into its login frame."""
    ip = world.loopback_ip(9)
    devs = {False: world.FakeDevice(ip, 9957), True: world.FakeDevice(ip, 10000)}
    for d in devs.values(): await d.listen(True)
    out = []
    try:
        for c in cases:
            t2 = c["kind"] in world.TYPE2_KINDS; dev = devs[t2]
            api = (world.SwitcherType2Api if t2 else world.SwitcherType1Api)(ip, c["id"], c["key"])
            dev.log.clear(); dev.script[:] = [bytes.fromhex(r) for r in c["replies"]]; dev.policy = lambda n, d: None
            await api.connect()
            try:
                try:
                    r = await asyncio.wait_for(world.call_op(api, c["kind"], c["args"]), 30)
                    res = world.show_response(c["kind"], r)
                except asyncio.TimeoutError: res = "exc:Timeout"
                except Exception as e: res = "exc:" + world.exc_name(e)
            finally:
                await api.disconnect()
            for _ in range(3): await asyncio.sleep(0)
            frames = [d.hex() for _, d in dev.log]
            if frames and len(frames[0]) >= 56: c["now"] = struct.unpack("<I", bytes.fromhex(frames[0][48:56]))[0]
            out.append("".join(f + "|" for f in frames) + res)
    finally:
        for d in devs.values(): await d.listen(False)
    return out


async def run_tcp_sequences(seqs):
    """each sequence of cases (one class, one identity) on ONE connection to a fake device on loopback TCP, the operations one after the
    other; per case, the frames the device received during that operation.  `now` as in run_tcp"""
    ip = world.loopback_ip(9)
    devs = {False: world.FakeDevice(ip, 9957), True: world.FakeDevice(ip, 10000)}
    for d in devs.values(): await d.listen(True)
    out = []
    try:
        for seq in seqs:
            t2 = seq[0]["kind"] in world.TYPE2_KINDS; dev = devs[t2]
            api = (world.SwitcherType2Api if t2 else world.SwitcherType1Api)(ip, seq[0]["id"], seq[0]["key"])
            dev.log.clear(); dev.script[:] = []; dev.policy = lambda n, d: None
            await api.connect()
            try:
                for c in seq:
                    k0 = len(dev.log); dev.script[:] = [bytes.fromhex(r) for r in c["replies"]]
                    try:
                        r = await asyncio.wait_for(world.call_op(api, c["kind"], c["args"]), 30)
                        res = world.show_response(c["kind"], r)
                    except asyncio.TimeoutError: res = "exc:Timeout"
                    except Exception as e: res = "exc:" + world.exc_name(e)
                    for _ in range(3): await asyncio.sleep(0)
                    frames = [d.hex() for _, d in dev.log[k0:]]
                    if frames and len(frames[0]) >= 56: c["now"] = struct.unpack("<I", bytes.fromhex(frames[0][48:56]))[0]
                    out.append("".join(f + "|" for f in frames) + res)
            finally:
                try: await api.disconnect()
                except Exception: pass
            for _ in range(3): await asyncio.sleep(0)
    finally:
        for d in devs.values(): await d.listen(False)
    return out


def odd_length_sequences(rnd, n):
    """sequences of 2..4 accepted operations of one class on one identity whose replies carry a length field (bytes 2-3) that says less,
    more or nothing about their size - the library does not read that field, a device's firmware may count differently"""
    seqs = []
    for _ in range(n):
        t2 = rnd.random() < .4; ident = ("%06x" % rnd.randrange(1 << 24), "%02x" % rnd.randrange(256)); seq = []
        for _ in range(rnd.randrange(2, 5)):
            c = world.rand_op_case(rnd, rnd.choice([7, 8, 9]) if t2 else rnd.choice([1, 2, 3, 5, 11]), "valid", True); c["id"], c["key"] = ident
            rs = []
            for r in c["replies"]:
                b = bytearray.fromhex(r)
                if len(b) >= 4:
                    n_ = max(0, len(b) + rnd.choice([0, -1, -2, -4, -8, -11, 4, 0 - len(b), 1 - len(b), 11 - len(b)])); b[2:4] = (n_ & 0xffff).to_bytes(2, "little")
                rs.append(bytes(b).hex())
            c["replies"] = rs; seq.append(c)
        seqs.append(seq)
    return seqs
