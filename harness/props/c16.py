"""C16 — thermostat control changes only what was asked."""
import lib, world
from props import opcommon as oc
COQ_TARGET = "C16"
TRUSTED = ["the expected frames are composed from the Spec's layouts (FrameSpec.v), the Spec's choice of IR code (Remote.v) and the "
           "state the fake thermostat reported; enum members are truthy and target 0 means omitted, as in the code"]
ASSUMPTIONS = ["update-only sends the status frame with the same merged values as the command would carry (swing off for remotes with a "
               "separate swing command)", "current mode / fan bytes outside the tables, and IR requests the C15 Spec is silent about, are "
               "compared with the model only"]
RULE = ("generated IR sets of the four remote kinds (toggle or not, separate swing or not) x current thermostat states (power, 5 modes, "
        "target 16..30, 4 fan levels, swing) x all 32 subsets of requested settings x update-only or not, with valid replies, and with an "
        "empty reply injected at each step; non-trivial = distinct actionable requests")
REQUIREMENT = ("frames after the login: state query, then one main frame carrying requested-or-current values (IR code of the C15 Spec, "
               "or the status layout when update-only), swing excluded for separate-swing remotes, plus a separate swing command iff "
               "such a remote was asked for swing and not update-only; nothing actionable: RuntimeError after the login only; an empty "
               "reply at any step: RuntimeError or an unsuccessful response, never success")
MODE_BYTE = {"AUTO": 1, "DRY": 2, "FAN": 3, "COOL": 4, "HEAT": 5}
FAN_NIB = {"LOW": 1, "MEDIUM": 2, "HIGH": 3, "AUTO": 0}
SPECIAL = ["ELEC7022", "ZM079055", "ZM079065", "ZM079049"]


def mask16(f):
    """keep what C16 speaks about: protocol/opcode words and the body; session, timestamp, device id, length and signature are masked"""
    if len(f) < 96: return f
    return f[8:16] + "." + f[24:48] + "." + f[56:80] + "." + f[86:-8]


def view(text):
    fs, o = oc.split_text(text)
    cls = o if o in ("ok:0", "ok:1", "exc:RuntimeError") else "exc:other"
    return " ".join(mask16(f) for f in fs[1:]) + " / " + cls


def gen_case(rnd, fault=False, sub=None, sep=None, upd=None, step=None):
    irset = world.gen_irset(rnd, long_codes=rnd.random() < .15)
    if sep is not None:
        irset["IRSetID"] = rnd.choice(SPECIAL) if sep else rnd.choice(["DLK65863", "ELEC7001", "X1"])
        if sep: irset["IRWaveList"] += [{"Key": k, "Para": "P", "HexCode": k.upper().encode().hex()} for k in ("FUN_d0", "FUN_d1")]
    cur = {"on": rnd.randrange(2), "mode": rnd.choice(list(MODE_BYTE.values()) + [9] * (1 if rnd.random() < .1 else 0)), "target": rnd.randrange(16, 31),
           "fan": rnd.randrange(4), "swing": rnd.randrange(2)}
    c = world.rand_op_case(rnd, 12)
    if sub is None: sub = rnd.randrange(32)
    args = [irset, (rnd.random() < .5) if sub & 1 else None, rnd.choice(world.MODE_NAMES) if sub & 2 else None,
            rnd.choice([rnd.randrange(16, 31), rnd.randrange(1, 61)]) if sub & 4 else 0, rnd.choice(world.FAN_NAMES) if sub & 8 else None,
            (rnd.random() < .5) if sub & 16 else None, (rnd.random() < .3) if upd is None else upd]
    state_reply = world.thermostat_reply(rnd, cur["on"], cur["mode"], cur["target"], cur["fan"], cur["swing"])
    replies = [world.login_reply(rnd), state_reply, world.rand_bytes(rnd, rnd.randrange(1, 30)), world.rand_bytes(rnd, rnd.randrange(1, 30))]
    c["args"] = args; c["cur"] = cur; c["fault_at"] = None
    if fault:
        k = rnd.randrange(4) if step is None else step; replies[k] = b""; c["fault_at"] = k
    c["replies"] = [r.hex() for r in replies]
    return c


def tri(v): return 0 if v is None else (2 if v else 1)


def expected(cases):
    """compose the Spec's verdict for each case: masked frames after the login + outcome class, or '-'"""
    plan = []; build_lines = []
    for c in cases:
        irset, st, md, tg, fn, sw, upd = c["args"]; cur = c["cur"]
        sep = irset["IRSetID"] in SPECIAL
        main_needed = st is not None or md is not None or bool(tg) or fn is not None or (sw is not None and not sep)
        inv_mode = {v: k for k, v in MODE_BYTE.items()}; inv_fan = {v: k for k, v in FAN_NIB.items()}
        judged = cur["mode"] in inv_mode and c["fault_at"] is None
        m_on = st if st is not None else bool(cur["on"]); m_mode = md if md is not None else inv_mode.get(cur["mode"], "COOL")
        m_tg = tg if tg else cur["target"]; m_fan = fn if fn is not None else inv_fan[cur["fan"]]
        m_sw = False if sep else (sw if sw is not None else bool(cur["swing"]))
        p = {"c": c, "sep": sep, "main": main_needed, "judged": judged, "m": (m_on, m_mode, m_tg, m_fan, m_sw), "upd": upd,
             "swingcmd": sep and sw is not None and not upd, "build": None}
        if main_needed and not upd:
            p["build"] = len(build_lines)
            build_lines.append(lib.req("build_spec", irset["IRSetID"], irset["OnOffType"], world.waves_arg(irset),
                                       [1 if m_on else 0, m_mode, m_tg, m_fan, 1 if m_sw else 0, 2 if cur["on"] else 1]))
        plan.append(p)
    built = lib.run_model(build_lines) if build_lines else []
    frame_lines = []; slots = []
    for p in plan:
        c = p["c"]; idb = bytes.fromhex(c["id"]); sess = bytes.fromhex(c["replies"][0])[8:12]; now = c["now"]
        want = []      # list of ("frame", line index) or ("text", ...)
        def add(kind, args):
            frame_lines.append(lib.req("spec_frame", kind, idb, sess, now, args)); return len(frame_lines) - 1
        out = None
        if p["main"]:
            want.append(add(10, []))
            if p["upd"]:
                on, mode, tg, fan, sw = p["m"]
                want.append(add(13, [1 if on else 0, MODE_BYTE[mode], tg, FAN_NIB[fan], 1 if sw else 0]))
            else:
                b = built[p["build"]]
                if b == "-": p["judged"] = False
                elif b.startswith("exc:"): out = "exc:RuntimeError"
                else: want.append(add(14, [bytes.fromhex(b.split("|", 1)[1])[4:]]))
        if out is None and p["swingcmd"]:
            irset = c["args"][0]; key = "FUN_d1" if c["args"][5] else "FUN_d0"
            stored = [w for w in irset["IRWaveList"] if w["Key"] == key]
            if stored: want.append(add(14, [(stored[-1]["Para"] + "|" + stored[-1]["HexCode"]).encode()]))
            else: out = "exc:RuntimeError"
        if out is None: out = "ok:1" if want else "exc:RuntimeError"
        slots.append((want, out))
    frames = lib.run_model(frame_lines) if frame_lines else []
    ex = []
    for p, (want, out) in zip(plan, slots):
        if not p["judged"] or (0 < p["m"][2] > 255): ex.append("-"); continue
        fs = [frames[i] for i in want]
        if any(not f.startswith("frame:") for f in fs): ex.append("-"); continue
        ex.append(" ".join(mask16(f[6:]) for f in fs) + " / " + out)
    return ex


def fault_judgement(c, text):
    """an empty reply was given to frame k: if that frame was written (the reply was read), the call must end in RuntimeError or an
    unsuccessful response; if the call ended earlier for another reason the property does not speak"""
    fs, o = oc.split_text(text)
    k = c["fault_at"]
    if k is None or len(fs) <= k: return "-"
    if o in ("exc:RuntimeError", "ok:0"): return "ok"
    return "the reply to frame %d was empty but the call ended in %s" % (k, o)


def describe(c):
    return oc.describe(c) + " current=%s%s" % (c["cur"], "" if c["fault_at"] is None else " empty reply at step %d" % c["fault_at"])


def after_a_success(rnd, cases):
    """each case as the SECOND request on an api object whose first request (another one, fully answered) succeeded: what the object saw
    before - sessions, device states, replies - is not a source for this exchange"""
    import asyncio
    async def go():
        res = []
        for c in cases:
            first = gen_case(rnd); first["args"][0] = c["args"][0]          # same remote
            api = world.ScriptedApi(True, c["id"], c["key"])
            await api.run(12, first["args"], [bytes.fromhex(r) for r in first["replies"]], c["now"] - 60)
            res.append(await api.run(12, c["args"], [bytes.fromhex(r) for r in c["replies"]], c["now"]))
        return res
    return asyncio.run(go())


def run_stream(out, stream, cases, texts=None):
    it = texts if texts is not None else world.run_cases_fresh(cases)
    io = [view(t) for t in it]
    mo = [view(t) for t in lib.run_model([world.model_line(c) for c in cases])]
    ex = expected(cases)
    faults = [fault_judgement(c, t) for c, t in zip(cases, it)]
    spec_impl = [f if c["fault_at"] is not None else i for c, i, f in zip(cases, io, faults)]
    ex = [("ok" if f != "-" else "-") if c["fault_at"] is not None else e for c, e, f in zip(cases, ex, faults)]
    lib.differential(out, stream, cases, io, mo, ex, describe, nontrivial=lambda c: any(x is not None and x != 0 for x in c["args"][1:6]),
                     sample=lambda c: describe(c)[:400],
                     classify=lambda c, i: ("sep" if c["args"][0]["IRSetID"] in SPECIAL else "std") + ("/update" if c["args"][6] else "/ir") +
                     "/%d-frames/%s" % (i.count(" ") + (1 if i.split(" / ")[0] else 0), i.split(" / ")[1]), impl_spec=spec_impl)


def shared_remote_cases(rnd, n):
    """several calls on ONE remote object (what SwitcherBreezeRemoteManager hands out): same request, different reported states"""
    from aioswitcher.api.remotes import SwitcherBreezeRemote
    cs = []
    for _ in range(n):
        base = gen_case(rnd, sub=31 if rnd.random() < .6 else None, upd=False)        # often a fully specified request: only the
        irset = base["args"][0]                                                      # reported state differs between the calls
        if rnd.random() < .6:
            irset["OnOffType"] = 1
            irset["IRWaveList"] += [{"Key": "on_" + w["Key"], "Para": "P", "HexCode": ("on_" + w["Key"]).upper().encode().hex()}
                                    for w in irset["IRWaveList"] if w["Key"][:2] in ("aa", "ad", "aw", "ar", "ah") and rnd.random() < .7]
        world.REMOTES[id(irset)] = SwitcherBreezeRemote(irset)
        for j in range(rnd.randrange(2, 5)):
            c = gen_case(rnd); c["args"] = [irset] + (base["args"][1:] if rnd.random() < .8 else c["args"][1:])
            cs.append(c)
    return cs


def run(tier, rnd, out):
    corpus = lib.load_corpus("C16")
    if corpus: run_stream(out, "corpus", corpus)
    run_stream(out, "requests", [gen_case(rnd) for _ in range(700 if tier == "quick" else 12000)])
    run_stream(out, "empty-reply-at-a-step", [gen_case(rnd, fault=True) for _ in range(150 if tier == "quick" else 4000)])
    cs = [gen_case(rnd, fault=(k % 2 == 0)) for k in range(120 if tier == "quick" else 3000)]
    run_stream(out, "second-request-on-an-api-object-after-a-successful-one", cs, after_a_success(rnd, cs))
    run_stream(out, "requests-to-a-slow-device", world.with_delays(rnd, [gen_case(rnd, fault=(k % 4 == 0)) for k in range(80 if tier == "quick" else 2000)]))
    grid = [gen_case(rnd, fault=True, sub=sub, sep=sep, upd=upd, step=step) for sub in range(32) for sep in (False, True) for upd in (False, True)
            for step in range(4) for _ in range(1 if tier == "quick" else 6)]
    run_stream(out, "every-request-subset-x-remote-kind-x-faulted-step", grid)
    grid = [gen_case(rnd, sub=sub, sep=sep, upd=upd) for sub in range(32) for sep in (False, True) for upd in (False, True) for _ in range(2 if tier == "quick" else 12)]
    run_stream(out, "every-request-subset-x-remote-kind", grid)
    run_stream(out, "several-calls-on-one-remote-object", shared_remote_cases(rnd, 120 if tier == "quick" else 1500))
    world.REMOTES.clear()


def replay(rp, out):
    c = rp["input"]; st = rp.get("stream", "replay")
    run_stream(out, st, [c], after_a_success(world.random.Random(1), [c]) if st.startswith("second-request") else None)
