"""C17 — the bridge listens exactly while running and leaves nothing behind."""
import asyncio, itertools, socket
import lib, world
from props import c06, c05
from aioswitcher.bridge import SwitcherBridge
COQ_TARGET = "C17"
TRUSTED = ["real UDP sockets on ephemeral ports; 'released as soon as the event loop has cycled' is asyncio's deferred connection_lost: the "
           "model closes at once and the harness yields to the loop before probing (partial: the timing itself is not modelled)"]
ASSUMPTIONS = ["the OS frees a UDP port as soon as its socket is closed; foreign sockets are opened and closed by the harness only"]
RULE = ("action sequences over {start, stop, occupy port i, release port i, send a valid broadcast to port i} on 2 configured ports: every "
        "sequence of length <= 3 (584) and random ones of length 4..9 (thorough: every sequence of length <= 4, and 3 ports), the "
        "state (is_running, who holds each port by a probe bind, delivered or not, start raised or not) observed after every action; "
        "the same with stop() called on other bridge objects configured with the same ports, a port list ending in a number no socket can take, "
        "plus the async-context form and broadcasts still in flight when stop() is called (sent without waiting, 0..4 loop cycles earlier); non-trivial = distinct sequences containing a start")
REQUIREMENT = ("after every action: is_running iff the bridge holds every configured port; not running => it holds none (also after a "
               "failed start, which raises); a broadcast is delivered iff the bridge holds that port; stop twice / before start is "
               "harmless; start after stop works (Model/Lifecycle.v step, theorem C17_lifecycle)")
V = None


def valid_datagram():
    global V
    if V is None: V = c06.sentinel(9)
    return V


def can_bind(p):
    s = socket.socket(socket.AF_INET, socket.SOCK_DGRAM)
    try: s.bind(("0.0.0.0", p)); return True
    except OSError: return False
    finally: s.close()


def can_bind_shared(p):
    """would a second listener asking for SO_REUSEPORT get the port?  Never while the bridge holds it: the bridge's ports are its own"""
    s = socket.socket(socket.AF_INET, socket.SOCK_DGRAM)
    try:
        s.setsockopt(socket.SOL_SOCKET, socket.SO_REUSEPORT, 1); s.bind(("0.0.0.0", p)); return True
    except OSError: return False
    finally: s.close()


STUCK = [0]
PATIENCE = 10          # seconds after which start() / stop() on loopback sockets counts as never returning
async def settle():
    for _ in range(3): await asyncio.sleep(0)


async def run_seq(ports, acts, via_context=False):
    got = []; boom = [0]
    def cb(d):
        got.append(d)
        if boom[0]: boom[0] -= 1; raise LookupError("user callback failure")
    b = SwitcherBridge(cb, list(ports)); foreign = {}
    others = [SwitcherBridge(lambda d: None, list(ports)), SwitcherBridge(lambda d: None, list(ports))]    # same ports, never started
    tx = socket.socket(socket.AF_INET, socket.SOCK_DGRAM); out = ""; late = 0; stopped_at = None; odd = []; leaves = 0
    loop_ = asyncio.get_running_loop(); oldh = loop_.get_exception_handler(); loop_.set_exception_handler(lambda l, ctx: None)      # failures inside the handlers are C07's subject
    try:
        for k, i in acts:
            if k == 5:
                # fire and forget: a broadcast is sent and only i // 8 loop cycles pass before the next action; whether it is delivered
                # is not observed (and not modelled) - what matters is that nothing is delivered after a later stop() has returned
                # from 64 on: a datagram the parser chokes on (a name that is not text, an unknown model, junk with the magic) or, 256 and up,
                # a valid one on which the user's callback raises - sent, given time to arrive, not observed: what it must not do is change what the bridge holds
                v = i // 64; d = valid_datagram()
                if v in (1, 2, 3):
                    x = bytearray(d)
                    if v == 1: x[42:74] = b"\xff" * 32
                    elif v == 2: x[74:76] = b"\xee\xee"
                    else: x = bytearray(b"\xfe\xf0" + bytes(163))
                    d = bytes(x)
                if v >= 4: boom[0] = 1
                tx.sendto(d, ("127.0.0.1", ports[i % 8 % len(ports)]))
                for _ in range((i % 64) // 8): await asyncio.sleep(0)
                if v:
                    for _ in range(5): await asyncio.sleep(0.001)
                    boom[0] = 0
                continue
            if stopped_at is not None and len(got) > stopped_at: late += len(got) - stopped_at
            stopped_at = None
            o = "."; p = ports[i] if i < len(ports) else None
            if k == 0:
                try: await asyncio.wait_for(b.__aenter__() if via_context else b.start(), PATIENCE); o = "s"        # entering `async with bridge:` is start()
                except OSError: o = "!"
                except asyncio.TimeoutError: out += "T|"; break           # start() never returned: the rest of the sequence is not run
                except Exception as e: o = "E"; odd.append("start() raised " + type(e).__name__)        # not the error of the failed bind
            elif k == 1:
                try:
                    if via_context:          # leaving the block, normally or (every other time) through an exception raised in the body, is stop()
                        leaves += 1; exc = KeyError("body") if leaves % 2 == 0 else None
                        await asyncio.wait_for(b.__aexit__(type(exc) if exc else None, exc, exc.__traceback__ if exc else None), PATIENCE)
                    else: await asyncio.wait_for(b.stop(), PATIENCE)
                    stopped_at = len(got)
                except asyncio.TimeoutError: out += "T|"; break           # stop() never returned
                except Exception as e: o = "E"; odd.append("stop() raised " + type(e).__name__); stopped_at = len(got)
            elif k == 2:
                if p not in foreign:
                    s = socket.socket(socket.AF_INET, socket.SOCK_DGRAM)
                    try: s.bind(("0.0.0.0", p)); foreign[p] = s
                    except OSError: s.close()
            elif k == 3:
                if p in foreign: foreign.pop(p).close()
            elif k == 6:
                await others[i % 2].stop()          # stopping another bridge object (same ports, never started) concerns that object only
            elif k == 8:
                # start() cancelled while it is suspended between two ports (a timeout around start, a shutdown): what is bound at that
                # moment is the bridge's until stop() - which must then release it
                t = asyncio.ensure_future(b.start())
                for _ in range(200):
                    await asyncio.sleep(0)
                    if t.done() or not can_bind(ports[min(1, len(ports) - 1)]): break        # the second port's socket exists: the first port is open, start() is suspended on the second
                t.cancel()
                try: await t
                except BaseException: pass
                await settle()
                out += "?|"; continue
            elif k == 7:
                # an unrelated bridge object fails to start (its only port is held by a foreign socket): that concerns that object only
                xp = world.free_udp_ports(1)[0]; fs = socket.socket(socket.AF_INET, socket.SOCK_DGRAM); fs.bind(("0.0.0.0", xp))
                x = SwitcherBridge(lambda d: None, [xp])
                try: await x.start(); o = "?"
                except OSError: pass
                finally:
                    fs.close()
                    for t in list(x._transports.values()) if "_transports" in vars(x) else []:
                        if t and not t.is_closing(): t.close()
            else:
                n0 = len(got); tx.sendto(valid_datagram(), ("127.0.0.1", p))
                for _ in range(25):
                    await asyncio.sleep(0.001)
                    if len(got) > n0: break
                o = "d" if len(got) > n0 else "x"
            await settle()
            if stopped_at is not None and len(got) > stopped_at: late += len(got) - stopped_at; stopped_at = len(got)
            held = "".join("F" if q in foreign else ("-" if can_bind(q) else "S" if can_bind_shared(q) else "B") for q in ports)
            out += ("R" if b.is_running else "r") + held + o + "|"
    finally:
        try: await asyncio.wait_for(b.stop(), PATIENCE)
        except asyncio.TimeoutError:
            if "T|" not in out: out += "T|"             # the closing stop() of every sequence counts too
        except Exception: pass
        await settle()
        for s in foreign.values(): s.close()
        tx.close(); loop_.set_exception_handler(oldh)
        for t in list(b._transports.values()):       # release anything a broken start left behind
            if t and not t.is_closing(): t.close()
        await settle()
    if late: out += "LATE=%d|" % late
    if odd: out += "ODD=%s|" % odd[0]
    return out


def spec_judge(n_ports, text, acts=None):
    """the property's clauses on the observed trace, independent of the model"""
    if "LATE=" in text: return "%s callback(s) made after stop() had returned" % text.split("LATE=")[1].rstrip("|")
    if "ODD=" in text: return "%s where only the error of a failed bind may leave start(), and nothing may leave stop() (trace %s)" % (text.split("ODD=")[1].rstrip("|"), text)
    if "T|" in text: return "start() or stop() never returned (waited %d s; trace %s)" % (PATIENCE, text)
    was = False
    for a, step in zip([a for a in (acts or []) if a[0] != 5] or [None] * text.count("|"), text.split("|")[:-1]):
        if step == "?": was = None; continue
        if a is not None:         # the history clauses: stop() ends in 'not running'; a start() that returns has the bridge running; one that raises from 'not running' leaves it so
            r = step[0] == "R"
            if a[0] == 1 and r: return "is_running is True after stop() returned (%s)" % step
            if a[0] == 0 and step[-1] == "s" and not r: return "start() returned normally but is_running is False (%s)" % step
            if a[0] == 0 and step[-1] == "!" and was is False and r: return "start() raised but is_running is True (%s)" % step
            if a[0] in (2, 3, 4, 6, 7) and was is not None and r != was: return "is_running changed from %s to %s without start() or stop() (%s)" % (was, r, step)
            was = r
        run, held, o = step[0] == "R", step[1:1 + n_ports], step[-1]
        if run and any(h != "B" for h in held): return "is_running is True but not every configured port is held (%s)" % step
        if "S" in held: return "a port held by the bridge can be taken by a second listener (SO_REUSEPORT) (%s)" % step
        if not run and "B" in held: return "is_running is False but the bridge still holds a port (%s)" % step
        # a start that raises while the bridge is already running leaves the running bridge as it was (the model's reading)
    return "ok"


def run_sequences(out, stream, n_ports, seqs, via_context=False):
    async def go():
        ports = world.free_udp_ports(n_ports); res = []
        for s in seqs:
            if STUCK[0] >= 3: res.append(None); continue        # three sequences already ended in a start()/stop() that never returns: enough to report
            t = await run_seq(ports, s, via_context); res.append(t)
            if "T|" in t: STUCK[0] += 1
        return res
    import warnings
    with warnings.catch_warnings():
        warnings.simplefilter("ignore", UserWarning)          # the 'unknown device' warning of the troublesome datagrams is C06's subject
        io = asyncio.run(go())
    if None in io:
        out.notes.append("%d sequences of stream %s were not run after three had ended in a start() or stop() that never returned" % (io.count(None), stream))
        keep = [j for j, t in enumerate(io) if t is not None]; seqs = [seqs[j] for j in keep]; io = [io[j] for j in keep]
        if not seqs: return
    # the several-objects model (Model/MultiBridge.v) gives the expected trace, also for actions on other bridge objects (kinds 6, 7);
    # where only the observed object acts, the one-object model of theorem C17_lifecycle must say the same
    mo = lib.run_model([lib.req("bridge2", list(range(n_ports)), [[k, i] for k, i in s if k not in (5, 8)]) for s in seqs])
    for j, s_ in enumerate(seqs):          # the model has no cancellation: the step is marked "?" on both sides, the stop() that follows is judged
        if any(k == 8 for k, _ in s_):
            it = iter(mo[j].split("|")[:-1]); mo[j] = "".join(("?" if k == 8 else next(it)) + "|" for k, _ in s_ if k != 5)
    plain = [j for j, s_ in enumerate(seqs) if not any(k in (6, 7, 8) for k, _ in s_)]
    one = lib.run_model([lib.req("bridge", list(range(n_ports)), [[k, i] for k, i in seqs[j] if k != 5]) for j in plain])
    lib.differential(out, stream + "/one-object-model-vs-several-objects-model", [{"ports": n_ports, "acts": [list(a) for a in seqs[j]]} for j in plain],
                     [mo[j] for j in plain], one, None, lambda c: "models on %s" % c["acts"])
    # real sockets: a port can be taken by another process between two probes.  A sequence whose trace differs from the model's or
    # fails the Spec is run once more on fresh ports; only what reproduces is reported
    suspect = [k for k in range(len(seqs)) if "T|" not in io[k] and (io[k] != mo[k] or spec_judge(n_ports, io[k], seqs[k]) != "ok")]
    if suspect:
        async def again():
            res = {}
            for k in suspect[:40]:
                ports = world.free_udp_ports(n_ports); res[k] = await run_seq(ports, seqs[k], via_context)
            return res
        for k, t in asyncio.run(again()).items():
            if t != io[k]:
                out.notes.append("sequence %s gave %s, then %s on fresh ports: not reproducible, second run kept" % (seqs[k], io[k], t)); io[k] = t
    # the Spec's own reading of each history (Spec/BridgeHistory.v, extracted; theorem C17_refines_history): the whole trace, step by step
    sp = lib.run_model([lib.req("bridge_spec", list(range(n_ports)), [[k, i] for k, i in s if k not in (5, 8)]) for s in seqs])
    def history_judge(s_, t, spec):
        if any(k == 8 for k, _ in s_): return "ok"            # a cancelled start is outside the history reading; the clause judge covers what follows
        got = [x for x in t.split("|")[:-1] if not x.startswith(("LATE=", "ODD=")) and x != "T"]; want = spec.split("|")[:-1]
        for j, (g, w) in enumerate(zip(got, want)):
            if g != w: return "step %d of the trace is %s where the history (Spec/BridgeHistory.v) says %s (trace %s)" % (j + 1, g, w, t)
        return "ok"
    hist = [history_judge(s_, t, spc) for s_, t, spc in zip(seqs, io, sp)]
    cases = [{"ports": n_ports, "acts": [list(a) for a in s]} for s in seqs]
    names = ["start", "stop", "occupy", "release", "send", "send-without-waiting", "stop-another-bridge-object", "another-bridge-object-fails-to-start", "start-cancelled-between-ports"]
    lib.differential(out, stream, cases, io, mo, ["ok"] * len(cases), lambda c: "%d ports: " % c["ports"] + ", ".join(names[k] + ("" if k < 2 else " %d" % i) for k, i in c["acts"]),
                     nontrivial=lambda c: any(k == 0 for k, _ in c["acts"]), sample=lambda c: c, classify=lambda c, i: "len%d" % len(c["acts"]),
                     impl_spec=[(lambda a, b: a if a != "ok" else b)(spec_judge(n_ports, t, s_), h) for t, s_, h in zip(io, seqs, hist)])


async def context_form():
    """async with: running inside, stopped and released after, also when the body raises"""
    ports = world.free_udp_ports(2); res = []
    for raises in (False, True):
        b = SwitcherBridge(lambda d: None, list(ports)); inside = None
        try:
            async with b:
                inside = b.is_running and not any(can_bind(p) for p in ports)
                if raises: raise KeyError("body")
        except KeyError: pass
        await settle()
        res.append("inside=%s after: running=%s free=%s" % (inside, b.is_running, all(can_bind(p) for p in ports)))
    return res


async def default_ports():
    """a bridge constructed without a port list: its configured ports are the four of the documentation; running = all four held, stopped = all four free"""
    res = []
    b = SwitcherBridge(lambda d: None)
    try:
        await asyncio.wait_for(b.start(), PATIENCE); await settle()
        res.append("running=%s held=%s" % (b.is_running, "".join("-" if can_bind(p) else "B" for p in world.WELL_KNOWN_PORTS)))
        await asyncio.wait_for(b.stop(), PATIENCE); await settle()
        res.append("running=%s held=%s" % (b.is_running, "".join("-" if can_bind(p) else "B" for p in world.WELL_KNOWN_PORTS)))
    except Exception as e: res.append("raised " + type(e).__name__)
    finally:
        for t in list(getattr(b, "_transports", {}).values()):
            if t and not t.is_closing(): t.close()
        await settle()
    return res


LISTED = [[20002], [20002, 20003], [10002], [10003, 20003], [20003], [10002, 20002]]
async def listed_subsets():
    """a bridge configured with SOME of the documented ports listens on those and on no other of them, and leaves none behind"""
    res = []
    for sub in LISTED:
        b = SwitcherBridge(lambda d: None, list(sub)); t = ""
        try:
            await asyncio.wait_for(b.start(), PATIENCE); await settle()
            t = "running=%s held=%s" % (b.is_running, "".join("-" if can_bind(p) else "B" for p in world.WELL_KNOWN_PORTS))
            await asyncio.wait_for(b.stop(), PATIENCE); await settle()
            t += " then running=%s held=%s" % (b.is_running, "".join("-" if can_bind(p) else "B" for p in world.WELL_KNOWN_PORTS))
            await asyncio.wait_for(b.start(), PATIENCE); await settle(); t += " again=%s" % b.is_running
            await asyncio.wait_for(b.stop(), PATIENCE); await settle()
        except Exception as e: t += " raised " + type(e).__name__
        finally:
            for tr_ in list(getattr(b, "_transports", {}).values()):
                if tr_ and not tr_.is_closing(): tr_.close()
            await settle()
        res.append(t)
    return res


async def observed_start():
    """someone looks while start() is at work (a polling task; on a four-port bridge start() yields between the ports): whenever the bridge
    says it is running, every configured port is held"""
    res = []
    for n in (3, 4, 4):
        ports = world.free_udp_ports(n); b = SwitcherBridge(lambda d: None, list(ports)); seen = []; done = [False]
        async def watch():
            while not done[0]:
                if b.is_running and any(can_bind(p) for p in ports): seen.append("running with a configured port not held")
                await asyncio.sleep(0)
        t = asyncio.ensure_future(watch()); await asyncio.sleep(0)
        try: await asyncio.wait_for(b.start(), PATIENCE)
        except Exception as e: seen.append("start raised " + type(e).__name__)
        done[0] = True; await t; await settle()
        res.append("%d ports: %s" % (n, seen[0] if seen else "never running before every port was held") + "; afterwards running=%s" % b.is_running)
        try: await asyncio.wait_for(b.stop(), PATIENCE)
        except Exception: pass
        await settle()
    return res


async def coroutine_callback():
    """a callback that is a coroutine function (a mistake, or a newer calling convention): whatever the bridge does with what it returns,
    nothing of the user's runs after stop() has returned"""
    import warnings
    res = []
    for cycles in (0, 1, 3):
        ports = world.free_udp_ports(1); ran = []; stopped = [False]
        async def on_device(dev):
            ran.append("after stop" if stopped[0] else "before stop")
            await asyncio.sleep(0.01); ran.append("after stop" if stopped[0] else "before stop")
        with warnings.catch_warnings():
            warnings.simplefilter("ignore")          # 'coroutine ... was never awaited' is what the unchanged library leads to
            b = SwitcherBridge(on_device, list(ports)); await b.start()
            tx = socket.socket(socket.AF_INET, socket.SOCK_DGRAM)
            for _ in range(3): tx.sendto(valid_datagram(), ("127.0.0.1", ports[0]))
            for _ in range(cycles): await asyncio.sleep(0.001)
            await b.stop(); stopped[0] = True; tx.close()
            await asyncio.sleep(0.05); import gc; gc.collect()
        res.append("%d of the user's code steps ran after stop() had returned" % ran.count("after stop"))
    return res


async def bad_port_list():
    """a configured port no socket can take (a typo such as 200003): start raises something, and nothing is left listening"""
    res = []
    for bad in (200003, -1):
        ports = world.free_udp_ports(2); b = SwitcherBridge(lambda d: None, list(ports) + [bad]); raised = False
        try: await b.start()
        except Exception: raised = True
        await settle()
        res.append("start %s; running=%s; first ports free=%s" % ("raised" if raised else "returned", b.is_running, all(can_bind(p) for p in ports)))
        for t in list(b._transports.values()):
            if t and not t.is_closing(): t.close()
        await settle()
    return res


def run(tier, rnd, out):
    alphabet = [(0, 0), (1, 0), (2, 0), (2, 1), (3, 0), (3, 1), (4, 0), (4, 1)]
    for c in lib.load_corpus("C17"): run_sequences(out, "corpus", c["ports"], [[tuple(a) for a in c["acts"]]])
    seqs = [list(s) for L in ((1, 2, 3) if tier == "quick" else (1, 2, 3, 4)) for s in itertools.product(alphabet, repeat=L)]
    seqs += [[rnd.choice(alphabet) for _ in range(rnd.randrange(4, 10))] for _ in range(150 if tier == "quick" else 1500)]
    seqs += [[(0, 0), (1, 0), (0, 0), (4, 0), (4, 1)], [(0, 0), (1, 0), (0, 0), (1, 0), (0, 0), (4, 1), (4, 0)],
             [(2, 1), (0, 0), (3, 1), (0, 0), (4, 0), (4, 1)], [(0, 0), (0, 0), (4, 0), (1, 0), (4, 0)], [(0, 0), (4, 0), (1, 0), (0, 0), (4, 0), (1, 0), (4, 0)]]
    run_sequences(out, "sequences-2-ports", 2, seqs)
    a3 = alphabet + [(2, 2), (3, 2), (4, 2)]
    seqs3 = [[rnd.choice(a3) for _ in range(rnd.randrange(2, 9))] for _ in range(60 if tier == "quick" else 1500)]
    run_sequences(out, "sequences-3-ports", 3, seqs3)
    # broadcasts in flight when stop() is called: sent without waiting, 0..4 loop cycles before the next action
    ff = [(5, p + 8 * c) for p in (0, 1) for c in range(5)]
    seqs5 = [[(0, 0), f, (1, 0)] for f in ff] + [[(0, 0), f, g, (1, 0), (4, 0)] for f in ff for g in ff[::3]]
    seqs5 += [[rnd.choice(alphabet + ff) for _ in range(rnd.randrange(3, 9))] for _ in range(60 if tier == "quick" else 1500)]
    run_sequences(out, "broadcasts-in-flight-at-stop", 2, seqs5)
    ob = [(6, 0), (6, 1), (7, 0)]
    seqs6 = [[(0, 0), o, (4, 0)] for o in ob] + [[o, (0, 0), (4, 1), o, (4, 0), (1, 0)] for o in ob] + [[(0, 0), (1, 0), o, (0, 0), o, (4, 0), (4, 1)] for o in ob]
    seqs6 += [[rnd.choice(alphabet + ob + ob) for _ in range(rnd.randrange(3, 9))] for _ in range(60 if tier == "quick" else 1500)]
    run_sequences(out, "with-other-bridge-objects-on-the-same-ports", 2, seqs6)
    # datagrams the parser chokes on, and valid ones on which the user's callback raises, while the bridge runs: it goes on holding its ports
    tr = [(5, 64 * v + p) for v in (1, 2, 3, 4) for p in (0, 1)]
    seqs7 = [[(0, 0), t_, (4, 0), (4, 1), (1, 0), (4, 0)] for t_ in tr] + [[(0, 0), t_, u_, (4, 1), (1, 0), (0, 0), (4, 0)] for t_ in tr[::2] for u_ in tr[1::2]]
    seqs7 += [[rnd.choice(alphabet + tr) for _ in range(rnd.randrange(3, 9))] for _ in range(40 if tier == "quick" else 1000)]
    run_sequences(out, "troublesome-datagrams-and-a-raising-callback-while-running", 2, seqs7)
    seqs8 = [[(8, 0), (1, 0)], [(8, 0), (1, 0), (4, 0), (4, 1)], [(8, 0), (1, 0), (0, 0), (4, 0), (4, 1), (1, 0)], [(0, 0), (1, 0), (8, 0), (1, 0), (0, 0), (4, 1)],
             [(2, 1), (8, 0), (1, 0), (3, 1), (0, 0), (4, 1)]]
    run_sequences(out, "start-cancelled-then-stop", 2, seqs8)
    run_sequences(out, "start-cancelled-then-stop", 3, [[(8, 0), (1, 0), (4, 0), (4, 1), (4, 2)], [(8, 0), (1, 0), (0, 0), (4, 2), (1, 0)]])
    # the same bridge driven through its async context manager: entering is start(), leaving (normally or through an exception of the body) is stop()
    seqs9 = [list(s_) for L in (1, 2) for s_ in itertools.product(alphabet, repeat=L)] + [[rnd.choice(alphabet) for _ in range(rnd.randrange(3, 10))] for _ in range(80 if tier == "quick" else 1500)]
    seqs9 += [[(2, 0), (0, 0), (3, 0), (0, 0), (4, 0), (4, 1), (1, 0)], [(2, 1), (0, 0), (3, 1), (0, 0), (1, 0), (0, 0), (4, 1), (1, 0)], [(0, 0), (1, 0), (0, 0), (1, 0), (0, 0), (4, 0), (1, 0), (4, 0)],
              [(0, 0), (0, 0), (4, 0), (1, 0), (4, 0), (0, 0), (4, 1)]]
    run_sequences(out, "sequences-through-the-async-context-manager", 2, seqs9, via_context=True)
    if world.well_known_ports():
        try:
            got = asyncio.run(default_ports())
            lib.differential(out, "a-bridge-constructed-without-a-port-list", [{"step": "after start"}, {"step": "after stop"}][:len(got)], got, None,
                             ["running=True held=BBBB", "running=False held=----"][:len(got)], lambda c: "SwitcherBridge(callback) with the default ports, " + c["step"])
            got = asyncio.run(listed_subsets())
            lib.differential(out, "a-bridge-configured-with-some-of-the-documented-ports", [{"ports": sub} for sub in LISTED], got, None,
                             ["running=True held=%s then running=False held=---- again=True" % "".join("B" if p in sub else "-" for p in world.WELL_KNOWN_PORTS) for sub in LISTED],
                             lambda c: "SwitcherBridge(callback, %s): start, stop, start, stop" % c["ports"])
        finally: world.release_well_known_ports()
    else: out.notes.append("the library's default ports were not available on this machine for a minute: stream a-bridge-constructed-without-a-port-list not run")
    got = asyncio.run(observed_start())
    lib.differential(out, "start-observed-by-a-polling-task", [{"ports": n} for n in (3, 4, 4)], got, None,
                     ["%d ports: never running before every port was held; afterwards running=True" % n for n in (3, 4, 4)], lambda c: "a task polls is_running while start() opens %d ports" % c["ports"])
    got = asyncio.run(coroutine_callback())
    lib.differential(out, "a-coroutine-function-as-callback", [{"loop_cycles_before_stop": k} for k in (0, 1, 3)], got, None,
                     ["0 of the user's code steps ran after stop() had returned"] * 3, lambda c: "async def callback, three broadcasts, %d ms, stop()" % c["loop_cycles_before_stop"])
    got = asyncio.run(bad_port_list())
    lib.differential(out, "port-list-with-an-impossible-port", [{"ports": "two free ports and 200003"}, {"ports": "two free ports and -1"}], got, None,
                     ["start raised; running=False; first ports free=True"] * 2, lambda c: "start() on %s" % c["ports"])
    got = asyncio.run(context_form())
    want = ["inside=True after: running=False free=True"] * 2
    lib.differential(out, "async-context", [{"body_raises": False}, {"body_raises": True}], got, None, want, lambda c: "async with bridge, body raises=%s" % c["body_raises"])
    out.exhaustive = True
    out.notes.append("exhaustive over all action sequences up to length %d on 2 ports" % (3 if tier == "quick" else 4))


def replay(rp, out):
    c = rp["input"]
    if "acts" in c: run_sequences(out, rp.get("stream", "replay"), c["ports"], [[tuple(a) for a in c["acts"]]], via_context="context-manager" in (rp.get("stream") or ""))
    else:           # the small fixed streams (default ports, listed subsets, observed start, coroutine callback, ...): the quick run is the replay
        import random
        run("quick", random.Random(int(rp.get("seed", 1))), out)
