"""C15 — the IR command built is the stored code that best matches the request."""
import json, os, tempfile
import lib, world
from aioswitcher.api.remotes import SwitcherBreezeRemote, SwitcherBreezeRemoteManager
from aioswitcher.device import DeviceState, ThermostatMode, ThermostatFanLevel, ThermostatSwing
COQ_TARGET = "C15"
TRUSTED = ["dict / re.match / str.isdigit semantics of _resolve_capabilities are modelled (last binding of a key wins; ASCII keys)"]
ASSUMPTIONS = ["IR sets hold ASCII keys; when neither the exact key nor the key without swing nor the key without fan level is stored, "
               "or the 'off' code is missing, the property is silent and the case is compared with the model only"]
RULE = ("generated IR sets (toggle / not, special-swing id / ordinary, dense / sparse, duplicate keys, code texts of 1..2000 bytes "
        "with the stored key recoverable from the code; structured sets: swing entries only on plain / only on prefixed keys, fan entries all / none / some, "
        "five orders of the wave list) x requests over both power states, the 5 modes, the 4 fan levels, both swings, "
        "previous power {none, on, off} and target temperatures 0..60, built directly on one remote object per set (the same request repeated with another previous power state) and for a sample through "
        "SwitcherBreezeRemoteManager.get_remote on a temporary database; non-trivial = distinct (set, request) pairs the Spec judges")
REQUIREMENT = ("command = 00000000 ++ hex('Para|HexCode' of the most specific stored key: exact, else without swing, else without fan "
               "level) after clamping the temperature into [min, max]; 'off' code for non-toggle remotes switching off; 'on_' prefix "
               "only when a toggle remote changes power state; unsupported mode: RuntimeError; length = LE16 byte count; capabilities "
               "= those present in the set (Spec/Remote.v)")


def caps_impl(r, order=0):
    # the five capabilities read in one of several orders (an application may ask for any of them first)
    names = ["supported_modes", "min_temperature", "max_temperature", "on_off_type", "separated_swing_command"]
    k = order % 5; got = {n: getattr(r, n) for n in names[k:] + names[:k]}
    return ",".join(m.name for m in got["supported_modes"]) + ("," if got["supported_modes"] else "") + "|%d|%d|%s|%s" % (
        got["min_temperature"], got["max_temperature"], "1" if got["on_off_type"] else "0", "1" if got["separated_swing_command"] else "0")


def caps_fresh(irset, order):
    """the capabilities of a remote object nobody has touched yet, read in the given order"""
    try: return caps_impl(SwitcherBreezeRemote(irset), order)
    except Exception as e: return "exc:" + world.exc_name(e)


def build_impl(r, q):
    on, mode, target, fan, swing, cur = q
    try:
        c = r.build_command(DeviceState.ON if on else DeviceState.OFF, ThermostatMode[mode], target, ThermostatFanLevel[fan],
                            ThermostatSwing.ON if swing else ThermostatSwing.OFF, None if cur is None else (DeviceState.ON if cur else DeviceState.OFF))
        text = "ok " + c.length + "|" + c.command
        world.scribble(c)          # the command object is the caller's
        return text
    except Exception as e: return "exc:" + world.exc_name(e)


_REMOTES = {}; _LOCK = __import__("threading").Lock()
def thread_call(irset_json, q):
    with _LOCK:          # the harness's own table of remotes (one object per set, shared by the threads) is built under a lock; the library's calls are not
        if irset_json not in _REMOTES: _REMOTES[irset_json] = SwitcherBreezeRemote(json.loads(irset_json))
        r = _REMOTES[irset_json]
    return build_impl(r, q)


def run_threads(tier, out, rnd):
    """several threads ask ONE remote object per set for commands, from the first request of a fresh interpreter on"""
    sets = [world.gen_irset(rnd) for _ in range(3)]
    cs = [{"irset": s_, "q": rand_request(rnd, s_)} for s_ in sets for _ in range(12)]
    sa = lambda c: [c["irset"]["IRSetID"], c["irset"]["OnOffType"], world.waves_arg(c["irset"])]
    ex = lib.run_model([lib.req("build_spec", *sa(c), q_args(c["q"])) for c in cs])
    keep = [k for k, e in enumerate(ex) if e != "-"]
    world.run_threads(out, "several-threads-on-one-remote-from-the-first-request-on", "props.c15", "thread_call", [[json.dumps(cs[k]["irset"], sort_keys=True), cs[k]["q"]] for k in keep],
                      [ex[k] for k in keep], lambda c: "build_command%s on a remote shared by the threads" % (tuple(c[1]),) if c else "?", startups=32 if tier == "quick" else 500, threads=6, rounds=4, spread=False)


def q_args(q):
    on, mode, target, fan, swing, cur = q
    return [1 if on else 0, mode, target, fan, 1 if swing else 0, 0 if cur is None else (2 if cur else 1)]


def rand_request(rnd, irset):
    temps = [int(w["Key"][2:4]) for w in irset["IRWaveList"] if w["Key"][2:4].isdigit()] or [20]
    t = rnd.choice([rnd.choice(temps), rnd.choice(temps), min(temps) - 1, max(temps) + 1, 0, 60, rnd.randrange(0, 61)])
    return [rnd.random() < .7, rnd.choice(world.MODE_NAMES), t, rnd.choice(world.FAN_NAMES), rnd.random() < .5, rnd.choice([None, True, False])]


def describe(c):
    s = c["irset"]
    return "IR set %s OnOffType=%s keys=%s request(on, mode, target, fan, swing, previous)=%s" % (s["IRSetID"], s["OnOffType"], [w["Key"] for w in s["IRWaveList"]][:60], c.get("q"))


def run_stream(out, stream, cases, via_manager=False):
    tmp = None
    try:
        if via_manager:
            tmp = tempfile.mkdtemp(prefix="verif-c15-")
        io = []; io_caps = []; remotes = {}
        for k, c in enumerate(cases):
            s = c["irset"]
            if via_manager:
                path = os.path.join(tmp, "db%d.json" % k); json.dump({s["IRSetID"]: s, "OTHER": world.gen_irset(world.random.Random(k))}, open(path, "w"))
                mgr = SwitcherBreezeRemoteManager(path); r = mgr.get_remote(s["IRSetID"])
                if mgr.get_remote(s["IRSetID"]) is not r: io.append("manager did not cache the remote"); io_caps.append("?"); continue
            else:
                if id(s) not in remotes: remotes[id(s)] = SwitcherBreezeRemote(s)      # one remote object serves every request on its set
                r = remotes[id(s)]
            if k % 4 == 1:           # an application takes the list of supported modes and edits ITS list (a picker without some modes): the remote's own view is untouched
                try:
                    lst = r.supported_modes
                    if isinstance(lst, list): lst.reverse(); del lst[1:]
                except Exception: pass
            if k % 3 == 0:           # an application looks at the per-mode feature table first, also for modes the set may lack: reading changes nothing
                for m in ThermostatMode:
                    try: r.modes_features[m]
                    except Exception: pass
                    try: r.modes_features.get(m)
                    except Exception: pass
            io_caps.append(caps_fresh(s, k) if k % 2 else caps_impl(r, k)); io.append(build_impl(r, c["q"]))
    finally:
        if tmp:
            import shutil; shutil.rmtree(tmp, ignore_errors=True)
    sa = lambda c: [c["irset"]["IRSetID"], c["irset"]["OnOffType"], world.waves_arg(c["irset"])]
    mo = lib.run_model([lib.req("build", *sa(c), q_args(c["q"])) for c in cases]); ex = lib.run_model([lib.req("build_spec", *sa(c), q_args(c["q"])) for c in cases])
    judged = {id(c) for c, e in zip(cases, ex) if e != "-"}
    lib.differential(out, stream, cases, io, mo, ex, describe, nontrivial=lambda c: id(c) in judged, sample=lambda c: describe(c)[:400],
                     classify=lambda c, i: ("toggle" if c["irset"]["OnOffType"] == 1 else "plain") + "/" + i.split(" ")[0].split("|")[0])
    mo = lib.run_model([lib.req("caps", *sa(c)) for c in cases]); ex = lib.run_model([lib.req("caps_spec", *sa(c)) for c in cases])
    lib.differential(out, stream + "-capabilities", cases, io_caps, mo, ex, lambda c: "capabilities of " + describe(c), sample=lambda c: describe(c)[:300])


def shaped_sets(rnd):
    """IR sets with a structure of their own: where the swing entries are (only plain keys, only keys with the toggle prefix, both,
    none), which fan entries exist, temperatures ending in a fan digit, and the ORDER of the wave list (grouped by mode, plain
    entries first, prefixed entries first, reversed, shuffled)"""
    out = []
    for toggle in (True, False):
        for swing_where in (("plain", "prefixed", "both", "none") if toggle else ("plain", "none")):
            for fans in ("all", "none", "some"):
                for order in (("grouped", "plain-first", "prefixed-first", "reversed", "shuffled") if toggle else ("grouped", "reversed", "shuffled")):
                    groups = []
                    for mname, mc in world.MODES.items():
                        bases = [mc] if mname in ("AUTO", "DRY", "FAN") else [mc] + [mc + "%d" % t for t in (20, 21, 22, 23, 30)]
                        g_plain = []; g_pref = []
                        for b in bases:
                            fl = [0, 1, 2, 3] if fans == "all" else [] if fans == "none" else rnd.sample(range(4), 2)
                            keys = [b] + ["%s_f%d" % (b, f) for f in fl]
                            d1 = ["%s_f%d_d1" % (b, f) for f in fl] or [b + "_d1"]
                            g_plain += keys + (d1 if swing_where in ("plain", "both") else [])
                            if toggle: g_pref += ["on_" + k for k in keys] + (["on_" + k for k in d1] if swing_where in ("prefixed", "both") else [])
                        groups.append((g_plain, g_pref))
                    if order == "grouped": keys = [k for gp, gq in groups for k in gp + gq]
                    elif order == "plain-first": keys = [k for gp, _ in groups for k in gp] + [k for _, gq in groups for k in gq]
                    elif order == "prefixed-first": keys = [k for _, gq in groups for k in gq] + [k for gp, _ in groups for k in gp]
                    else:
                        keys = [k for gp, gq in groups for k in gp + gq]
                        keys = keys[::-1] if order == "reversed" else rnd.sample(keys, len(keys))
                    if not toggle or order in ("plain-first", "shuffled"): keys.append("off")
                    waves = [{"Key": k, "Para": "P", "HexCode": (k.upper().encode().hex() + "%03d" % i).upper()} for i, k in enumerate(keys)]
                    out.append({"IRSetID": rnd.choice(["DLK65863", "ELEC7001"]), "OnOffType": 1 if toggle else 0, "IRWaveList": waves,
                                "shape": "%s swing=%s fans=%s order=%s" % ("toggle" if toggle else "plain", swing_where, fans, order)})
    # sparse toggle sets: declared as toggle (OnOffType 1) with not a single entry under the toggle prefix
    for s_ in [x for x in out if x["OnOffType"] == 1][::4]:
        out.append(dict(s_, IRWaveList=[w for w in s_["IRWaveList"] if not w["Key"].startswith("on_")], shape=s_["shape"] + " no-prefixed-entries"))
    return out


def run(tier, rnd, out):
    run_threads(tier, out, rnd)
    corpus = lib.load_corpus("C15")
    if corpus: run_stream(out, "corpus", corpus)
    cs = []
    for _ in range(60 if tier == "quick" else 600):
        s = world.gen_irset(rnd, long_codes=rnd.random() < .25)
        for _ in range(25 if tier == "quick" else 60):
            q = rand_request(rnd, s); cs.append({"irset": s, "q": q})
            if rnd.random() < .4:                   # the same request again with another previous power state
                q2 = list(q); q2[5] = rnd.choice([x for x in (None, True, False) if x != q[5]]); cs.append({"irset": s, "q": q2})
    run_stream(out, "build-command", cs)
    cs = []
    sets = shaped_sets(rnd)
    for sset in (rnd.sample(sets, 24) if tier == "quick" else sets):
        grid = [[on, m, t, f, sw, prev] for on in (True, False) for m in world.MODE_NAMES for t in (19, 20, 21, 22, 23, 30, 31) for f in world.FAN_NAMES
                for sw in (True, False) for prev in (None, True, False)]
        for q in (rnd.sample(grid, 70) if tier == "quick" else grid): cs.append({"irset": sset, "q": q})
    run_stream(out, "structured-sets-and-wave-orders", cs)
    cs = []
    for _ in range(12 if tier == "quick" else 100):
        s = world.gen_irset(rnd); cs.append({"irset": s, "q": rand_request(rnd, s)})
    run_stream(out, "through-the-remote-manager", cs, via_manager=True)
    # swing commands of special remotes
    cs = [{"irset": world.gen_irset(rnd), "q": None, "swing": rnd.random() < .5} for _ in range(80 if tier == "quick" else 800)]
    io = []
    for c in cs:
        try:
            x = SwitcherBreezeRemote(c["irset"]).build_swing_command(ThermostatSwing.ON if c["swing"] else ThermostatSwing.OFF); io.append("ok " + x.length + "|" + x.command)
        except Exception as e: io.append("exc:" + world.exc_name(e))
    mo = lib.run_model([lib.req("build_swing", c["irset"]["IRSetID"], c["irset"]["OnOffType"], world.waves_arg(c["irset"]), 1 if c["swing"] else 0) for c in cs])
    lib.differential(out, "swing-command", cs, io, mo, None, lambda c: "build_swing_command(%s) on %s" % (c["swing"], describe(c)))


def replay(rp, out):
    if "threads" in rp.get("stream", ""):
        import random
        return run_threads("thorough", out, random.Random(int(rp.get("seed", 1))))
    c = rp["input"]
    if c.get("q") is not None: run_stream(out, rp.get("stream", "replay").replace("-capabilities", ""), [c])
