"""C07 — the bridge delivers each valid broadcast once, in order, whatever else arrives."""
import asyncio, itertools
import lib, world
from props import c05, c06
COQ_TARGET = "C07"
TRUSTED = ["asyncio keeps a datagram endpoint alive after an exception in a protocol callback and loopback UDP is FIFO per socket: "
           "runtime facts the dispatch model assumes (named loop_isolates in DESIGN.md) and only this harness exercises",
           "events are sent from one socket in paced bursts; a sentinel broadcast per port is the delivery barrier"]
ASSUMPTIONS = ["order is compared per port (the property's claim); the relative order of different ports is not compared"]
RULE = ("event sequences over {valid broadcast of each family, foreign bytes, truncated, bit-flipped, unknown model, invalid UTF-8 name, "
        "out-of-range time field} on 1..4 ports (random free ports, and the library's own default ports when they are free), on a fresh bridge or one stopped and started again once or twice, with the user's callback raising on chosen invocations; every valid broadcast is "
        "tagged with its port and sequence number in the device name; thorough: every sequence of length <= 3 over the 8-letter "
        "alphabet on 2 ports; broadcasts sent while start() is still opening ports; a bridge (and the owner of its callback) that the application no longer references; byte-identical datagrams repeated on the same and on other ports, sent one at a time; non-trivial = distinct sequences holding a valid broadcast after a bad datagram or a raising callback")
REQUIREMENT = ("per port, the callback log = the decoded devices of exactly the valid broadcasts sent to that port, in sending order "
               "(expected_bcast of Spec/Encoders.v for each), regardless of everything else and of raising callbacks")
LETTERS = ["wh", "pp", "sh", "th", "foreign", "trunc", "flip", "unknown", "badname", "badtime", "oddfield"]
FAMILY = {"wh": ["MINI", "TOUCH", "V2_ESP", "V2_QCA", "V4"], "pp": ["POWER_PLUG"], "sh": ["RUNNER", "RUNNER_MINI"], "th": ["BREEZE"]}


IDS = [bytes([0xa0 + k] * 3) for k in range(3)]


def make_event(rnd, letter, port, seq):
    """-> (datagram, expected rendering or None)"""
    fam = letter if letter in FAMILY else rnd.choice(list(FAMILY))
    desc = c05.rand_desc(rnd, rnd.choice(FAMILY[fam]))
    desc[2] = rnd.choice(IDS)                      # few device ids: foreign, flipped and unknown-model datagrams reuse the id of valid ones
    desc[4] = ("p%d-%d" % (port, seq)).encode()
    if rnd.random() < .25: desc[4] += b"\x00" + rnd.choice([b"old", "\u05d9\u05e9\u05df".encode(), b" x", b"\x00z"])    # a shorter name written over a longer one: the field is the name
    d, exp = c05.encode([c05.mk_case(rnd, desc)])[0]
    if letter in FAMILY: return d, exp
    x = bytearray(d)
    if letter == "foreign": return world.rand_bytes(rnd, rnd.choice([0, 1, 40, 165, 168, 300])), None if True else None
    if letter == "trunc":
        n = rnd.randrange(len(x))
        while n in (159, 165, 168): n = rnd.randrange(len(x))      # a 168- or 165-byte broadcast cut to another accepted length is not "truncated": it passes the gate
        return bytes(x[:n]), None
    if letter == "flip": x[rnd.randrange(2)] ^= 1 << rnd.randrange(8); return bytes(x), None
    if letter == "unknown":
        if rnd.random() < .5: x[74:76] = b"\xee\xee"
        else: x[75] ^= 1 << rnd.randrange(8); x[74:76] = bytes(x[74:76]) if bytes(x[74:76]) not in c06.known_codes() else b"\xee\x01"
        return bytes(x), None
    if letter == "badname":
        # a name field that is not UTF-8: a stray byte in front, or the 32 bytes end in the middle of a character (a long name cut by the field width)
        k = rnd.random()
        if k < .35: x[42] = 0xff
        elif k < .6: x[42:74] = (b"nm\x00" + rnd.choice([b"\xff", b"\xd7", b"ok\x00\xe2\x82"])).ljust(32, b"\x00")     # the bytes that are not text come after a zero byte
        else:
            tail = rnd.choice([b"\xd7", b"\xe2\x82", b"\xf0\x9f\x98"]); x[42:74] = b"n" * (32 - len(tail)) + tail
        return bytes(x), None
    if letter == "oddfield":
        # a broadcast of a known family with a byte outside its table in one enumerated field (mode, fan level, direction, state): whether
        # it is a device (with a default) or an error inside the handler is the decoder's reading (model = Spec of C07's `delivered`)
        off = {168: [137, 138, 140], 159: [135, 136, 137, 138], 165: [133]}[len(x)]           # state / mode / fan-swing bytes; shutter position and direction bytes; state byte
        x[rnd.choice(off)] = rnd.choice([0, 6, 7, 0x40, 0x7f, 0x80, 0xff])
        m = lib.run_model([lib.req("bcast", bytes(x))])[0]
        return bytes(x), (m if "|" in m else None)
    if letter == "badtime":
        x[74:76] = bytes.fromhex("030f"); x = x[:165] + bytearray(165 - len(x[:165])); x[133] = 1; x[155:159] = b"\xff\xff\xff\x7f"; return bytes(x), None
    raise AssertionError(letter)


def foreign_is_ignored(d):
    return not (d[:2] == b"\xfe\xf0" and len(d) in (159, 165, 168))


def gen_sequence(rnd, n_ports, letters):
    seq = []; exp = {p: [] for p in range(n_ports)}; counters = [0] * n_ports
    for L in letters:
        p = rnd.randrange(n_ports); counters[p] += 1
        d, e = make_event(rnd, L, p, counters[p])
        if L == "foreign" and not foreign_is_ignored(d): d = b"\x00" + d[1:]
        seq.append([p, d.hex()])
        if e is not None: exp[p].append(e)
    return seq, exp


def per_port_view(n_ports, pairs):
    return " || ".join("port%d: " % p + " ".join(x for q, x in pairs if q == p) for p in range(n_ports))


def port_of(shown):
    """recover the port tag from the rendered device's name field"""
    for f in shown.split("|"):
        try:
            t = bytes.fromhex(f).decode()
            if t.startswith("p") and "-" in t: return int(t[1:t.index("-")])
        except Exception: continue
    return -1


def run_sequences(out, stream, cases):
    async def go():
        res = []
        for c in cases:
            ev = [(p, bytes.fromhex(h)) for p, h in c["events"]]
            log, nh, nw, complete = await world.feed_bridge(c["ports"], ev, set(c["raising"]), c05.show, c06.sentinel, restarts=c.get("restarts", 0),
                                                            ports=world.WELL_KNOWN_PORTS if c.get("well_known") else None)
            v = per_port_view(c["ports"], [(port_of(s), s) for s in log])
            res.append(v + " ## handler=%d" % nh if complete else "barrier-lost " + v)
        return res
    io = asyncio.run(go())
    lost = [k for k, t in enumerate(io) if t.startswith("barrier-lost")]
    if lost:          # UDP under load: a lost sentinel says nothing about the bridge; such a sequence is sent once more
        keep = cases; cases = [keep[k] for k in lost]; again = asyncio.run(go()); cases = keep
        for k, t in zip(lost, again):
            out.notes.append("sequence %d lost its barrier datagram and was sent again" % k); io[k] = t
    mo = []
    for c, m in zip(cases, lib.run_model([lib.req("dispatch", [[p, bytes.fromhex(h)] for p, h in c["events"]], c["raising"]) for c in cases])):
        lines = m.split("\n"); pairs = []
        for l in lines[:-1]:
            p, s = l.split(":", 1); pairs.append((int(p), s))
        mo.append(per_port_view(c["ports"], pairs) + " ## " + lines[-1])
    ex = [per_port_view(c["ports"], [(int(p), e) for p, es in c["expected"].items() for e in es]) for c in cases]
    lib.differential(out, stream, cases, io, mo, ex, lambda c: "%d ports, bridge restarted %d times, events %s, callback raises on %s" % (c["ports"], c.get("restarts", 0), c["letters"], c["raising"]),
                     nontrivial=lambda c: any(l in FAMILY for l in c["letters"]) and (any(l not in FAMILY for l in c["letters"]) or c["raising"]),
                     sample=lambda c: {"ports": c["ports"], "letters": c["letters"], "raising": c["raising"]},
                     classify=lambda c, i: "%d-ports/len%d" % (c["ports"], min(len(c["letters"]) // 10 * 10, 100)),
                     impl_spec=[i.split(" ## ")[0] for i in io])


def run_repeats(out, stream, cases):
    """identical datagrams repeated on the same and on other ports, one at a time (no barrier in between): global order is compared"""
    async def go():
        res = []
        for c in cases:
            ev = [(p, bytes.fromhex(h)) for p, h in c["events"]]
            log, nh, nw, complete = await world.feed_bridge(c["ports"], ev, set(c["raising"]), c05.show, c06.sentinel, serial=True)
            res.append(" ".join(log) if complete else "barrier-lost")
        return res
    io = asyncio.run(go())
    lost = [k for k, t in enumerate(io) if t == "barrier-lost"]
    if lost:
        keep = cases; cases = [keep[k] for k in lost]; again = asyncio.run(go()); cases = keep
        for k, t in zip(lost, again): io[k] = t
    mo = []
    for m in lib.run_model([lib.req("dispatch", [[p, bytes.fromhex(h)] for p, h in c["events"]], c["raising"]) for c in cases]):
        mo.append(" ".join(l.split(":", 1)[1] for l in m.split("\n")[:-1]))
    ex = [" ".join(c["expected_global"]) for c in cases]
    lib.differential(out, stream, cases, io, mo, ex, lambda c: "%d ports, one datagram at a time: %s, callback raises on %s" % (c["ports"], c["letters"], c["raising"]),
                     nontrivial=lambda c: any(l in ("same", "mirror") for l in c["letters"]), sample=lambda c: {"ports": c["ports"], "letters": c["letters"]},
                     classify=lambda c, i: "repeats/%d-ports" % c["ports"])


def mk_repeats(rnd, n_ports, n):
    events = []; letters = []; exp = []; last = None
    for k in range(n):
        L = rnd.choice(["valid", "valid", "same", "mirror", "mirror", "foreign", "unknown"]) if last else "valid"
        if L == "valid":
            p = rnd.randrange(n_ports); d, e = make_event(rnd, rnd.choice(list(FAMILY)), p, k); last = (p, d, e)
        elif L == "same": p, d, e = last
        elif L == "mirror":
            p = rnd.choice([q for q in range(n_ports) if q != last[0]] or [last[0]]); d, e = last[1], last[2]; last = (p, d, e)
        else:
            p = rnd.randrange(n_ports); d, e = make_event(rnd, L, p, k)
            if L == "foreign" and not foreign_is_ignored(d): d = b"\x00" + d[1:]
        events.append([p, d.hex()]); letters.append(L)
        if e is not None: exp.append(e)
    nvalid = len(exp)
    raising = sorted(rnd.sample(range(nvalid), rnd.randrange(0, nvalid + 1))) if nvalid and rnd.random() < .4 else []
    return {"ports": n_ports, "letters": letters, "events": events, "raising": raising, "expected_global": exp}


def mk(rnd, n_ports, letters, raising=None):
    seq, exp = gen_sequence(rnd, n_ports, letters)
    nvalid = sum(1 for l in letters if l in FAMILY)
    if raising is None: raising = sorted(rnd.sample(range(nvalid), rnd.randrange(0, nvalid + 1))) if nvalid and rnd.random() < .6 else []
    return {"ports": n_ports, "letters": list(letters), "events": seq, "raising": raising, "expected": {str(p): e for p, e in exp.items()},
            "restarts": rnd.choice([0, 0, 0, 1, 2])}


def well_known_cases(rnd):
    """every family on each of the library's four default ports (20002, 10002, 20003, 10003), plus mixed sequences"""
    seq = []; exp = {p: [] for p in range(4)}; k = 0; letters = []
    for p in range(4):
        for fam in FAMILY:
            k += 1; d, e = make_event(rnd, fam, p, k); seq.append([p, d.hex()]); exp[p].append(e); letters.append(fam)
    cs = [{"ports": 4, "letters": letters, "events": seq, "raising": [], "expected": {str(p): e for p, e in exp.items()}, "restarts": 0}]
    cs += [mk(rnd, 4, [rnd.choice(LETTERS) for _ in range(rnd.randrange(4, 20))]) for _ in range(3)]
    for c in cs: c["well_known"] = True
    return cs


def run_during_start(out, rnd, trials):
    """a device keeps broadcasting while the bridge is still opening its four ports: whatever reaches a port that is already bound
    is delivered like any other broadcast"""
    async def go():
        res = []
        for _ in range(trials):
            ds = []; ex = []
            for k in range(40):
                d, e = make_event(rnd, rnd.choice(list(FAMILY)), 0, k + 1); ds.append(d); ex.append(e)
            log, nh, nw, complete = await world.feed_bridge(4, [], (), c05.show, c06.sentinel, during_start=ds)
            early = list(world.feed_bridge.sent_early)
            res.append((early, " ".join(log) if complete else "barrier-lost", " ".join(ex[k] for k in early)))
        return res
    res = asyncio.run(go())
    cases = [{"sent_while_starting": len(e)} for e, _, _ in res]
    lib.differential(out, "broadcasts-arriving-while-the-bridge-starts", cases, [i for _, i, _ in res], None, [x for _, _, x in res],
                     lambda c: "%d broadcasts sent to the first port while start() was still opening the others" % c["sent_while_starting"],
                     nontrivial=lambda c: c["sent_while_starting"] > 0, sample=lambda c: c, classify=lambda c, i: "during-start/%d" % min(c["sent_while_starting"], 3))


def run_clock_steps(out, rnd, n):
    """the wall clock (not the event loop's) stands still or steps between broadcasts - forwards, and backwards as at the end of summer time
    or after a time correction: every valid broadcast is delivered all the same (few device ids, so the same device is heard again and again)"""
    import time_machine
    cases = []; io = []; ex = []
    async def go():
        for _ in range(n):
            np_ = rnd.randrange(1, 3); seq = []; exp = {p: [] for p in range(np_)}
            for j in range(10):
                p = rnd.randrange(np_); d, e = make_event(rnd, rnd.choice(list(FAMILY)), p, j + 1); seq.append((p, d)); exp[p].append(e)
            steps = [rnd.choice([0, 0, -1, -3600, -7200, 1, 3600, -86400 * 3, 0.4]) for _ in range(10)]
            with time_machine.travel(1_800_000_000 + rnd.randrange(10 ** 6), tick=False) as trav:
                log, nh, nw, complete = await world.feed_bridge(np_, seq, (), c05.show, c06.sentinel, serial=True, clock_steps=(trav, steps))
            cases.append({"ports": np_, "steps": steps})
            io.append(per_port_view(np_, [(port_of(s_), s_) for s_ in log]) + ("" if complete else " (barrier lost)")); ex.append(per_port_view(np_, [(p, e) for p in exp for e in exp[p]]))
    asyncio.run(go())
    lib.differential(out, "wall-clock-standing-still-or-stepping-between-broadcasts", cases, io, None, ex,
                     lambda c: "%d ports, the wall clock moved by %s seconds before the respective broadcast" % (c["ports"], c["steps"]), sample=lambda c: c)


def run_with_a_port_taken(out, rnd, n):
    """another program holds one of the configured ports when the bridge is started.  Either start() refuses (the rule, C17's subject) and there
    is nothing to deliver, or the bridge runs - and then every valid broadcast on the ports it was configured with and could have is delivered (the other program has gone by then)"""
    cases = []; io = []
    async def go():
        for _ in range(n):
            np_ = rnd.randrange(2, 5); k = rnd.randrange(np_); seq = []; exp = {p: [] for p in range(np_)}
            for j in range(8):
                p = rnd.randrange(np_); d, e = make_event(rnd, rnd.choice(list(FAMILY)), p, j + 1); seq.append((p, d)); exp[p].append(e)      # the held port included: a bridge that says it runs listens on all its ports
            log, nh, nw, complete = await world.feed_bridge(np_, seq, (), c05.show, c06.sentinel, occupy=k)
            cases.append({"ports": np_, "taken": k})
            if log is None: io.append("consistent"); continue
            got = per_port_view(np_, [(port_of(s_), s_) for s_ in log]); want = per_port_view(np_, [(p, e) for p in exp for e in exp[p]])
            io.append("consistent" if got == want else "started although port %d of %d was taken, and delivered %s where %s was broadcast to its other ports" % (k, np_, got[:200], want[:200]))
    asyncio.run(go())
    lib.differential(out, "a-configured-port-held-by-another-program-at-start", cases, io, None, ["consistent"] * len(cases),
                     lambda c: "%d ports, port index %d held by a foreign socket when start() is called" % (c["ports"], c["taken"]), sample=lambda c: c)


SENDERS = ["192.168.1.5", "10.0.0.9", "172.31.255.254", "172.32.0.1", "100.64.3.3", "8.8.8.8", "203.0.113.7", "169.254.1.1", "198.18.0.1", "1.1.1.1", "224.0.0.251", "0.0.0.0", "255.255.255.255"]
def run_senders(out, rnd):
    """the loopback interface only ever shows 127.x senders; a device on a LAN, behind a VPN or carrier-grade NAT has another address.  The running
    bridge's own protocol object (the one its transport holds) is handed valid broadcasts with sender addresses of every kind, as the loop would"""
    from aioswitcher.bridge import SwitcherBridge
    cases = []; io = []; ex = []
    async def go():
        log = []
        ports = world.free_udp_ports(1); b = SwitcherBridge(lambda dev: log.append(c05.show(dev)), list(ports))
        await b.start()
        try:
            tr = list(getattr(b, "_transports", {}).values())
            proto = tr[0].get_protocol() if tr and hasattr(tr[0], "get_protocol") else None
            if proto is None: return False
            for k, src in enumerate(SENDERS * 2):
                d, e = make_event(rnd, rnd.choice(list(FAMILY)), 0, k + 1); n0 = len(log)
                try: proto.datagram_received(d, (src, rnd.choice([20002, 20003, 10002, 10003, 49152 + k])))
                except Exception as x: log.append("raised " + type(x).__name__)
                cases.append({"sender": src}); io.append(" ".join(log[n0:]) or "nothing delivered"); ex.append(e)
        finally: await b.stop()
        return True
    if not asyncio.run(go()): out.notes.append("the bridge's protocol object could not be reached through its transport: stream senders-of-every-kind not run"); return
    lib.differential(out, "valid-broadcasts-from-senders-of-every-kind", cases, io, None, ex, lambda c: "a valid broadcast whose sender address is %s" % c["sender"], sample=lambda c: c, classify=lambda c, i: "sender/" + c["sender"].split(".")[0])


def run_unreferenced(out, rnd, trials):
    """the application keeps no reference: the bridge is created and started inside a helper, its callback is a bound method of an
    object nobody else holds, a garbage collection runs - and the broadcasts still arrive (the event loop owns the sockets)"""
    import gc, socket
    from aioswitcher.bridge import SwitcherBridge
    async def one(use_method, collect):
        ports = world.free_udp_ports(2); got = []; seen = set()
        class Recorder:
            def on_device(self, dev):
                if dev.name.startswith("SENTINEL"): seen.add(dev.name)
                else: got.append(c05.show(dev))
        async def helper():
            if use_method: b = SwitcherBridge(Recorder().on_device, list(ports))
            else:
                rec = Recorder(); b = SwitcherBridge(lambda dev: rec.on_device(dev), list(ports))
            await b.start()
        await helper()
        if collect: gc.collect(); await asyncio.sleep(0); gc.collect()
        tx = socket.socket(socket.AF_INET, socket.SOCK_DGRAM); ex = []
        try:
            for k in range(6):
                p = k % 2; d, e = make_event(rnd, rnd.choice(list(FAMILY)), p, k + 1); ex.append((p, e)); tx.sendto(d, ("127.0.0.1", ports[p]))
                await asyncio.sleep(0.001)
            for p in range(2): tx.sendto(c06.sentinel(p), ("127.0.0.1", ports[p]))
            for _ in range(2000):
                if len(seen) == 2: break
                await asyncio.sleep(0.001)
        finally:
            tx.close()
            loop = asyncio.get_running_loop()          # nobody holds the bridge: its sockets are found through the loop
            for t in list(getattr(loop, "_transports", {}).values()):
                try:
                    if t.get_extra_info("sockname")[1] in ports: t.close()
                except Exception: pass
            for _ in range(3): await asyncio.sleep(0)
        return per_port_view(2, [(port_of(s_), s_) for s_ in got]), per_port_view(2, ex)
    async def go():
        res = []
        for k in range(trials): res.append(await one(k % 2 == 0, k % 4 < 2))
        return res
    res = asyncio.run(go())
    cases = [{"callback": "bound method of a temporary object" if k % 2 == 0 else "closure", "collected": k % 4 < 2} for k in range(trials)]
    lib.differential(out, "bridge-and-callback-owner-referenced-by-nobody", cases, [i for i, _ in res], None, [e for _, e in res],
                     lambda c: "bridge started in a helper and dropped; callback = %s; gc.collect() before the broadcasts: %s" % (c["callback"], c["collected"]),
                     nontrivial=lambda c: True, sample=lambda c: c)


def run(tier, rnd, out):
    corpus = lib.load_corpus("C07")
    if corpus: run_sequences(out, "corpus", corpus)
    cs = []
    if tier == "thorough":
        alpha = ["wh", "pp", "sh", "th", "foreign", "trunc", "unknown", "badname"]
        for L in (1, 2, 3):
            for letters in itertools.product(alpha, repeat=L): cs.append(mk(rnd, 2, letters))
    for _ in range(120 if tier == "quick" else 1000):
        n = rnd.choice([1, 2, 3, 8, 30]) if tier == "quick" else rnd.choice([1, 5, 30, 100])
        cs.append(mk(rnd, rnd.randrange(1, 5), [rnd.choice(LETTERS) for _ in range(rnd.randrange(1, n + 1))]))
    run_sequences(out, "sequences-over-udp", cs)
    if world.well_known_ports():
        try: run_sequences(out, "on-the-library's-default-ports", well_known_cases(rnd))
        finally: world.release_well_known_ports()
    else: out.notes.append("the library's default ports were not available on this machine for a minute: stream on-the-library's-default-ports not run")
    run_during_start(out, rnd, 6 if tier == "quick" else 60)
    run_unreferenced(out, rnd, 8 if tier == "quick" else 40)
    run_with_a_port_taken(out, rnd, 10 if tier == "quick" else 100)
    run_clock_steps(out, rnd, 6 if tier == "quick" else 60)
    run_senders(out, rnd)
    run_repeats(out, "repeated-datagrams-one-at-a-time", [mk_repeats(rnd, rnd.randrange(1, 4), rnd.randrange(2, 12)) for _ in range(60 if tier == "quick" else 600)])
    out.exhaustive = tier == "thorough"


def replay(rp, out):
    if "sender" in rp["input"]:
        import random
        return run_senders(out, random.Random(int(rp.get("seed", 1))))
    (run_repeats if "expected_global" in rp["input"] else run_sequences)(out, rp.get("stream", "replay"), [rp["input"]])
