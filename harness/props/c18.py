"""C18 — the TCP client is connected exactly between connect and disconnect."""
import asyncio, gc, itertools
import lib, world
from aioswitcher.api import SwitcherType1Api, SwitcherType2Api, Command
COQ_TARGET = "C18"
TRUSTED = ["a fake device on 127.<pid>.<pid>.k:9957 / 10000 counts open connections and end-of-stream events",
           "a connect issued while connected abandons the old socket; CPython's reference counting closes it at once (modelled runtime "
           "behaviour, outside the property's claim); peer resets are outside the modelled faults"]
ASSUMPTIONS = ["'operation raises' is a state query answered with garbage (RuntimeError); 'refused' is a closed listening port"]
RULE = ("action sequences over {connect (device listening / not), disconnect, operation (returns / raises on a garbage reply / raises because the device half-closed the stream at login), async-with (listening / not, "
        "body returns / raises KeyError, TimeoutError, ConnectionResetError or is cancelled)} for both API classes: every sequence of length <= 3 (584 per class) and random ones of length 4..8 "
        "(thorough: every sequence of length <= 4); after every action: connected flag, device-side open connections, EOFs seen; "
        "non-trivial = distinct sequences with a successful connect")
REQUIREMENT = ("connected is True exactly after a successful connect / inside the context and False after disconnect, leaving the context "
               "(also through an exception) or a refused connect from the disconnected state; after a disconnect the device holds no open "
               "connection of this client; disconnect twice or before connect is harmless; reconnect works")


async def settle():
    for _ in range(6): await asyncio.sleep(0)
    await asyncio.sleep(0.002)


class Dev(world.FakeDevice):
    def __init__(self, ip, port):
        super().__init__(ip, port); self.mode = "ok"
        self.policy = lambda n, d: (bytes(20) if self.mode == "ok" else world.HALF_CLOSE if self.mode == "halfclose" else b"\x01")


async def run_seq(cls, dev, acts, ip):
    api = cls(ip, "ab1c2d", "18"); out = ""; dev.open = 0; dev.eofs = 0
    for k, f in acts:
        o = "."
        try:
            if k == 0:
                await dev.listen(bool(f)); await api.connect()
            elif k == 1: await api.disconnect()
            elif k == 2:
                if api.connected and dev.srv:
                    if f == 2:          # the device answers the login packet by ending its stream (half-close): the operation raises, nothing disconnects
                        dev.mode = "halfclose"
                        try: await (api.get_state() if cls is SwitcherType1Api else api.get_shutter_state())
                        finally: dev.mode = "ok"
                    elif f:
                        dev.mode = "bad"
                        try: await (api.get_state() if cls is SwitcherType1Api else api.get_shutter_state())
                        finally: dev.mode = "ok"
                    else: await (api.control_device(Command.ON) if cls is SwitcherType1Api else api.stop())
                elif f: raise RuntimeError("simulated failure of an operation while not connected")
            else:
                await dev.listen(bool(f))
                async with api:
                    if k == 4: raise KeyError("body")
                    if k == 5: raise asyncio.TimeoutError("body timed out")      # an OSError subclass since Python 3.11
                    if k == 6: raise ConnectionResetError("body lost its peer")
                    if k == 7: raise asyncio.CancelledError()
        except (OSError, RuntimeError, KeyError, asyncio.CancelledError): o = "!"
        await settle()
        if k == 0 or k >= 3: gc.collect(); await settle()
        out += ("C" if api.connected else "c") + "%d,%d" % (dev.open, dev.eofs) + o + "|"
    try: await api.disconnect()
    except Exception: pass
    await settle()
    return out


NAMES = ["connect", "disconnect", "operation", "with", "with-body-raising-KeyError", "with-body-raising-TimeoutError",
         "with-body-raising-ConnectionResetError", "with-body-cancelled"]


def spec_judge(acts, text):
    """the property's clauses, independent of the model: track what 'connected' must be"""
    must = False; steps = text.split("|")[:-1]
    for (k, f), st in zip(acts, steps):
        flag = st[0] == "C"; open_ = int(st[1:st.index(",")]); o = st[-1]
        if k == 0:
            if f: must = True
            elif o != "!": return "a refused connect did not raise (%s)" % st
        elif k == 1: must = False
        elif k >= 3:
            if f: must = False
            elif o != "!": return "entering the context against a closed port did not raise (%s)" % st
        if flag != must and not ((k == 0 or k >= 3) and not f): return "connected is %s where it must be %s after %s (%s)" % (flag, must, NAMES[k], st)
        if (k == 0 or k >= 3) and not f: must = flag      # a refused connect while connected: the property only covers the disconnected state
        if (k == 1 or (k >= 3 and f)) and open_ != 0: return "after the disconnect the device still holds %d open connection(s) (%s)" % (open_, st)
    return "ok"


def model_acts(acts):
    """the model's action list: an operation on a stream the device has half-closed raises, like the half-close itself"""
    conn = dead = False; out = []
    for k, f in acts:
        if k == 0 and f: conn, dead = True, False
        elif k == 1: conn = False
        elif k >= 3 and f: conn = False
        if k == 2:
            if f == 2 and conn: dead = True
            out.append([2, 1 if (f or (conn and dead)) else 0])
        else: out.append([k, f])
    return out


def run_sequences(out, stream, cls, seqs):
    async def go():
        ip = world.loopback_ip(7); dev = Dev(ip, 9957 if cls is SwitcherType1Api else 10000); res = []
        for s in seqs: res.append(await asyncio.wait_for(run_seq(cls, dev, s, ip), 30))
        await dev.listen(False)
        return res
    io = asyncio.run(go())
    mo = lib.run_model([lib.req("client", model_acts(s)) for s in seqs])
    names = NAMES
    cases = [{"cls": cls.__name__, "acts": [list(a) for a in s]} for s in seqs]
    lib.differential(out, stream, cases, io, mo, ["ok"] * len(cases), lambda c: c["cls"] + ": " + ", ".join("%s(%d)" % (names[k], f) for k, f in c["acts"]),
                     nontrivial=lambda c: any((k == 0 or k >= 3) and f for k, f in c["acts"]), sample=lambda c: c, classify=lambda c, i: c["cls"] + "/len%d" % len(c["acts"]),
                     impl_spec=[spec_judge(s, t) for s, t in zip(seqs, io)])


def run(tier, rnd, out):
    alphabet = [(0, 1), (0, 0), (1, 0), (2, 0), (2, 1), (3, 1), (3, 0), (4, 1)]
    wide = alphabet + [(5, 1), (6, 1), (7, 1), (4, 0), (5, 0), (2, 2), (2, 2)]
    by = {"SwitcherType1Api": SwitcherType1Api, "SwitcherType2Api": SwitcherType2Api}
    for c in lib.load_corpus("C18"): run_sequences(out, "corpus", by[c["cls"]], [[tuple(a) for a in c["acts"]]])
    seqs = [list(s) for L in ((1, 2, 3) if tier == "quick" else (1, 2, 3, 4)) for s in itertools.product(alphabet, repeat=L)]
    seqs += [[rnd.choice(alphabet) for _ in range(rnd.randrange(4, 9))] for _ in range(60 if tier == "quick" else 1500)]
    seqs += [[a, b] for a in wide for b in wide] + [[rnd.choice(wide) for _ in range(rnd.randrange(3, 7))] for _ in range(60 if tier == "quick" else 1500)]
    for cls in (SwitcherType1Api, SwitcherType2Api): run_sequences(out, "sequences", cls, seqs)
    out.exhaustive = True
    out.notes.append("exhaustive over all action sequences up to length %d for both classes" % (3 if tier == "quick" else 4))


def replay(rp, out):
    c = rp["input"]; by = {"SwitcherType1Api": SwitcherType1Api, "SwitcherType2Api": SwitcherType2Api}
    run_sequences(out, rp.get("stream", "replay"), by[c["cls"]], [[tuple(a) for a in c["acts"]]])
