"""C18 — the TCP client is connected exactly between connect and disconnect."""
import asyncio, gc, itertools
import lib, world
from aioswitcher.api import SwitcherType1Api, SwitcherType2Api, Command
COQ_TARGET = "C18"
TRUSTED = ["a fake device on 127.<pid>.<pid>.k:9957 / 10000 counts open connections and end-of-stream events",
           "a connect issued while connected abandons the old socket; CPython's reference counting closes it at once (modelled runtime "
           "behaviour, outside the property's claim); peer resets are outside the modelled faults"]
ASSUMPTIONS = ["'operation raises' is a state query answered with garbage (RuntimeError); 'refused' is a closed listening port"]
RULE = ("action sequences over {connect (device listening / not), disconnect, operation (returns / raises on a garbage reply / raises because the device half-closed the stream at login), the wall clock jumping minutes to days ahead, async-with (listening / not, "
        "body returns / raises KeyError, TimeoutError, ConnectionResetError or is cancelled)} for both API classes: every sequence of length <= 3 (584 per class) and random ones of length 4..8 "
        "(thorough: every sequence of length <= 4); every third sequence with each action in a task of its own; after every action: connected flag, device-side open connections, EOFs seen; "
        "non-trivial = distinct sequences with a successful connect")
REQUIREMENT = ("connected is True exactly after a successful connect / inside the context and False after disconnect, leaving the context "
               "(also through an exception) or a refused connect from the disconnected state; after a disconnect the device holds no open "
               "connection of this client; disconnect twice or before connect is harmless; reconnect works")


async def settle():
    for _ in range(6): await asyncio.sleep(0)
    await asyncio.sleep(0.002)


import random as _random
THERMO = world.thermostat_reply(_random.Random(5), 1, 4, 24, 2, 1)          # a valid thermostat state reply
IRSET = {"IRSetID": "ELEC7022", "OnOffType": 0,
         "IRWaveList": [{"Key": k, "Para": "P", "HexCode": k.upper().encode().hex()} for k in ("aa", "ad", "aw", "ar", "ah", "off", "FUN_d0", "FUN_d1")]}


class Dev(world.FakeDevice):
    def __init__(self, ip, port):
        super().__init__(ip, port); self.mode = "ok"; self.bstep = 0
        def policy(n, d):
            if self.mode == "breeze":          # login reply, thermostat state, then short acknowledgements
                self.bstep += 1; return bytes(20) if self.bstep == 1 else THERMO if self.bstep == 2 else b"\x01"
            return bytes(20) if self.mode == "ok" else world.HALF_CLOSE if self.mode == "halfclose" else b"\x01"
        self.policy = policy


PATIENCE = 8        # seconds after which an action against the loopback device counts as never returning


async def act(api, cls, dev, k, f):
    if k == 0:
        await dev.listen(bool(f)); await api.connect()
    elif k == 1: await api.disconnect()
    elif k == 2 and f == 3:
        # an operation attempted on a client that was connected once and is disconnected now: whatever it does (raise, or return an
        # unsuccessful response), it is not a connect - the flag stays False and the device is not dialled
        if not api.connected and getattr(api, "_writer", None) is not None and dev.srv:
            try: await (api.control_device(Command.ON) if cls is SwitcherType1Api else api.stop())
            except Exception: pass
    elif k == 2:
        if api.connected and dev.srv:
            if f == 2:          # the device answers the login packet by ending its stream (half-close): the operation raises, nothing disconnects
                dev.mode = "halfclose"
                try: await (api.get_state() if cls is SwitcherType1Api else api.get_shutter_state())
                finally: dev.mode = "ok"
            elif f == 4 and cls is SwitcherType2Api:
                # the longest operation: thermostat control on a separate-swing remote (login, state query, command, swing command)
                from aioswitcher.api.remotes import SwitcherBreezeRemote
                from aioswitcher.device import DeviceState, ThermostatMode, ThermostatSwing
                dev.mode = "breeze"; dev.bstep = 0
                try: await api.control_breeze_device(SwitcherBreezeRemote(IRSET), state=DeviceState.ON, mode=ThermostatMode.COOL, swing=ThermostatSwing.ON)
                finally: dev.mode = "ok"
            elif f == 4: await api.control_device(Command.ON)
            elif f:
                dev.mode = "bad"
                try: await (api.get_state() if cls is SwitcherType1Api else api.get_shutter_state())
                finally: dev.mode = "ok"
            else: await (api.control_device(Command.ON) if cls is SwitcherType1Api else api.stop())
        elif f and f != 4: raise RuntimeError("simulated failure of an operation while not connected")
    else:
        await dev.listen(bool(f))
        async with api:
            if k == 4: raise KeyError("body")
            if k == 5: raise asyncio.TimeoutError("body timed out")      # an OSError subclass since Python 3.11
            if k == 6: raise ConnectionResetError("body lost its peer")
            if k == 7: raise asyncio.CancelledError()


async def run_seq(cls, dev, acts, ip, own_task=False):
    import time_machine, time
    api = cls(ip, "ab1c2d", "18"); out = ""; dev.open = 0; dev.eofs = 0; hung = False
    for k, f in acts:
        o = "."
        if k == 8:          # the wall clock jumps ahead (idle time, suspend / resume, a clock step): nothing happened to the connection
            with time_machine.travel(time.time() + 60 * f, tick=True): flag = api.connected
            out += ("C" if flag else "c") + "%d,%d" % (dev.open, dev.eofs) + "t|"; continue
        if hung: out += "never-returned|"; continue
        if (k, f) == (2, 3): o = "~"
        try:
            if own_task:           # every action in a task of its own (its own context copy), as when sessions are opened and closed by different parts of a program
                await asyncio.wait_for(asyncio.ensure_future(act(api, cls, dev, k, f)), PATIENCE)
            else:
                await asyncio.wait_for(act(api, cls, dev, k, f), PATIENCE)
        except asyncio.TimeoutError as e:
            if k == 5 and "body timed out" in str(e): o = "!"
            else: hung = True; out += "never-returned|"; continue
        except (Exception, asyncio.CancelledError): o = "!"          # whatever is raised: the action raised; the state observed next is what counts
        await settle()
        if k == 0 or k >= 3: gc.collect(); await settle()
        out += ("C" if api.connected else "c") + "%d,%d" % (dev.open, dev.eofs) + o + "|"
    try: await asyncio.wait_for(api.disconnect(), PATIENCE)
    except asyncio.TimeoutError: out += "never-returned|"          # the closing disconnect of every sequence counts too
    except (Exception, asyncio.CancelledError): pass
    await settle()
    return out


def run_aborts(out):
    """a failure of the other kind: the device ABORTS the connection (a reboot) while it is being used or while it is idle.  Whatever the
    operation and disconnect() do about it (raise or not), after disconnect() / after leaving the context the client is disconnected,
    and it can connect again"""
    async def one(cls, form):
        ip = world.loopback_ip(12); dev = Dev(ip, 9957 if cls is SwitcherType1Api else 10000); await dev.listen(True)
        api = cls(ip, "ab1c2d", "18"); log = []
        async def op():
            try: await asyncio.wait_for(api.get_state() if cls is SwitcherType1Api else api.get_shutter_state(), PATIENCE); return "returned"
            except asyncio.TimeoutError: return "never-returned"
            except Exception: return "raised"
        async def bye():
            try: await asyncio.wait_for(api.disconnect(), PATIENCE); return "returned"
            except asyncio.TimeoutError: return "never-returned"
            except Exception: return "raised"
        try:
            dev.policy = lambda n, d: world.ABORT
            if form == "with":
                try:
                    async with api:
                        log.append("inside: connected=%s, operation %s" % (api.connected, await op()))
                        await settle(); raise KeyError("body")
                except BaseException as e: log.append("left the context (%s)" % ("body's exception" if isinstance(e, KeyError) else "another exception"))
            else:
                await api.connect()
                if form == "operation": log.append("operation %s" % await op())
                else:           # the device aborts an idle connection: one byte from the client draws the reset
                    api._writer.write(b"\0"); await settle(); await asyncio.sleep(0.05)
                await settle(); r = await bye(); log.append("disconnect " + ("never returned" if r == "never-returned" else "done"))
            await settle(); log.append("connected=%s" % api.connected)
            dev.policy = lambda n, d: bytes(20); await api.connect(); log.append("again: connected=%s" % api.connected)
            await bye(); log.append("connected=%s" % api.connected)
        except Exception as e: log.append("unexpected " + type(e).__name__)
        finally:
            await dev.listen(False)
        return "; ".join(log)
    cases = [{"cls": c.__name__, "form": f} for c in (SwitcherType1Api, SwitcherType2Api) for f in ("operation", "idle", "with")]
    by = {"SwitcherType1Api": SwitcherType1Api, "SwitcherType2Api": SwitcherType2Api}
    async def go(): return [await one(by[c["cls"]], c["form"]) for c in cases]
    io = asyncio.run(go())
    want = {"operation": "operation raised; disconnect done; connected=False; again: connected=True; connected=False",
            "idle": "disconnect done; connected=False; again: connected=True; connected=False",
            "with": "inside: connected=True, operation raised; left the context (body's exception); connected=False; again: connected=True; connected=False"}
    # which exception leaves the context when the connection was aborted inside it is not the property's subject: either is accepted
    io = [i.replace("left the context (another exception)", "left the context (body's exception)") for i in io]
    lib.differential(out, "the-device-aborts-the-connection", cases, io, None, [want[c["form"]] for c in cases],
                     lambda c: "%s: the device aborts the connection (%s)" % (c["cls"], c["form"]), sample=lambda c: c, classify=lambda c, i: "abort/" + c["form"])


def run_every_operation(out, rnd):
    """a session in which one operation of every kind is made (accepted arguments, a device that answers properly): an operation is not a
    connect and not a disconnect - the flag stays up and the device keeps its one connection until the caller disconnects.  And the same
    after the device has hung up in an orderly way (end of stream): whatever the operation does then, disconnect() ends disconnected"""
    async def one(cls, kind, hangup):
        ip = world.loopback_ip(12); dev = Dev(ip, 9957 if cls is SwitcherType1Api else 10000); await dev.listen(True)
        api = cls(ip, "ab1c2d", "18"); log = []; c = world.rand_op_case(rnd, kind, "valid", True)
        try:
            await api.connect(); await settle()          # (the device object is new: it counts this one connection itself)
            if hangup:
                dev.policy = lambda n, d: b""            # the device ends its stream at the first thing it hears
                try: await asyncio.wait_for(api.get_state() if cls is SwitcherType1Api else api.get_shutter_state(), PATIENCE)
                except Exception: pass
                await settle(); await asyncio.sleep(0.02)
            else: dev.script[:] = [bytes.fromhex(r) for r in c["replies"]]
            try: await asyncio.wait_for(world.call_op(api, kind, c["args"]), PATIENCE); o = "returned"
            except asyncio.TimeoutError: o = "never-returned"
            except Exception: o = "raised"
            await settle()
            log.append(("operation %s; " % o if not hangup else "") + "connected=%s" % api.connected + ("" if hangup else " open=%d" % dev.open))
            try: await asyncio.wait_for(api.disconnect(), PATIENCE)
            except asyncio.TimeoutError: log.append("disconnect never returned")
            except Exception: pass
            await settle(); log.append("connected=%s open=%d" % (api.connected, dev.open))
        except Exception as e: log.append("unexpected " + type(e).__name__)
        finally: await dev.listen(False)
        return "; ".join(log)
    cases = [{"cls": cls.__name__, "kind": k, "after_hangup": h} for cls, ks in ((SwitcherType1Api, [1, 2, 3, 4, 5, 6, 11]), (SwitcherType2Api, [7, 8, 9])) for k in ks for h in (False, True)]
    by = {"SwitcherType1Api": SwitcherType1Api, "SwitcherType2Api": SwitcherType2Api}
    async def go(): return [await asyncio.wait_for(one(by[c["cls"]], c["kind"], c["after_hangup"]), 90) for c in cases]
    io = asyncio.run(go())
    # after a hang-up whether the flag is still up before disconnect() is not judged (the client has not been told); the outcome of the operation is C09's
    io = [i.split("; ")[-1] if c["after_hangup"] and "never" not in i and "unexpected" not in i else i.replace("operation raised", "operation returned") for i, c in zip(io, cases)]
    want = ["connected=False open=0" if c["after_hangup"] else "operation returned; connected=True open=1; connected=False open=0" for c in cases]
    lib.differential(out, "one-operation-of-every-kind-in-a-session", cases, io, None, want,
                     lambda c: "%s: connect, %s%s, disconnect" % (c["cls"], "the device hangs up, " if c["after_hangup"] else "", world.KIND_NAMES[c["kind"]]), sample=lambda c: c,
                     classify=lambda c, i: "every-op/" + ("after-hangup" if c["after_hangup"] else "answered"))


def run_context_bodies(out):
    """what the body of `async with api:` does with the connection - disconnects, reconnects, connects once more - does not change what leaving
    the context means: the client is disconnected and the device holds no open connection of it"""
    async def one(cls, body):
        ip = world.loopback_ip(13); dev = Dev(ip, 9957 if cls is SwitcherType1Api else 10000); await dev.listen(True)
        api = cls(ip, "ab1c2d", "18"); dev.open = 0; dev.eofs = 0
        try:
            try:
                async with api:
                    if "d" in body: await api.disconnect()
                    if "c" in body: await api.connect()
                    if "o" in body: await (api.control_device(Command.ON) if cls is SwitcherType1Api else api.stop())
                    inside = api.connected
                    if "x" in body: raise KeyError("body")
            except KeyError: pass
            await settle(); gc.collect(); await settle()
            return "inside connected=%s; after: connected=%s, connections the device still holds: %d" % (inside, api.connected, dev.open)
        except Exception as e: return "unexpected " + type(e).__name__
        finally:
            try: await asyncio.wait_for(api.disconnect(), PATIENCE)
            except Exception: pass
            await dev.listen(False)
    bodies = ["d", "dc", "dco", "dcx", "c", "co", "dcdc", "ddc"]
    cases = [{"cls": c.__name__, "body": b} for c in (SwitcherType1Api, SwitcherType2Api) for b in bodies]
    by = {"SwitcherType1Api": SwitcherType1Api, "SwitcherType2Api": SwitcherType2Api}
    async def go(): return [await asyncio.wait_for(one(by[c["cls"]], c["body"]), 60) for c in cases]
    io = asyncio.run(go())
    want = ["inside connected=%s; after: connected=False, connections the device still holds: 0" % (b != "d") for c in cases for b in [c["body"]]]
    lib.differential(out, "context-bodies-that-disconnect-or-reconnect", cases, io, None, want,
                     lambda c: "%s: async with api: body does %s" % (c["cls"], " ".join({"d": "disconnect", "c": "connect", "o": "an operation", "x": "raise"}[ch] for ch in c["body"])),
                     sample=lambda c: c, classify=lambda c, i: "body/" + c["body"])


def run_pushed_data(out):
    """the device sends data nobody asked for (a few KiB in several bursts) while the client is connected and idle; the client disconnects:
    the device sees an orderly end of stream, not a reset"""
    async def one(cls, total):
        ip = world.loopback_ip(14); dev = Dev(ip, 9957 if cls is SwitcherType1Api else 10000); writers = []
        async def handle(r, w):
            writers.append(w); dev.open += 1
            try:
                while True:
                    d = await r.read(4096)
                    if not d: dev.eofs += 1; break
            except ConnectionError: dev.resets += 1
            finally: dev.open -= 1; w.close()
        srv = await asyncio.start_server(handle, ip, dev.port); api = cls(ip, "ab1c2d", "18")
        try:
            await api.connect(); await settle()
            for _ in range(total):
                writers[0].write(bytes(1024)); await writers[0].drain(); await settle()
            await asyncio.sleep(0.05)
            try: await asyncio.wait_for(api.disconnect(), PATIENCE); r = "returned"
            except asyncio.TimeoutError: r = "never returned"
            except Exception as e: r = "raised " + type(e).__name__
            await settle(); await asyncio.sleep(0.05)
            return "disconnect %s; connected=%s; the device saw %d end(s) of stream and %d reset(s)" % (r, api.connected, dev.eofs, dev.resets)
        finally:
            srv.close(); await asyncio.sleep(0)
    cases = [{"cls": c.__name__, "kib": n} for c in (SwitcherType1Api, SwitcherType2Api) for n in (1, 3, 6, 40)]
    by = {"SwitcherType1Api": SwitcherType1Api, "SwitcherType2Api": SwitcherType2Api}
    async def go(): return [await asyncio.wait_for(one(by[c["cls"]], c["kib"]), 60) for c in cases]
    io = asyncio.run(go())
    lib.differential(out, "the-device-pushes-data-nobody-reads-then-the-client-disconnects", cases, io, None,
                     ["disconnect returned; connected=False; the device saw 1 end(s) of stream and 0 reset(s)"] * len(cases),
                     lambda c: "%s: %d KiB pushed by the device in 1 KiB bursts, then disconnect" % (c["cls"], c["kib"]), sample=lambda c: c, classify=lambda c, i: "pushed/%d" % c["kib"])


NAMES = ["connect", "disconnect", "operation", "with", "with-body-raising-KeyError", "with-body-raising-TimeoutError",
         "with-body-raising-ConnectionResetError", "with-body-cancelled", "clock-jumps-ahead"]


def spec_judge(acts, text):
    """the property's clauses, independent of the model: track what 'connected' must be"""
    must = False; steps = text.split("|")[:-1]; prev_counts = "0,0"
    if len(steps) > len(acts) and steps[-1] == "never-returned" and "never-returned" not in steps[:len(acts)]:
        return "the disconnect() that closes the sequence never returned (waited %d s against a loopback device; trace %s)" % (PATIENCE, text)
    for (k, f), st in zip(acts, steps):
        if st != "never-returned":
            counts = st[1:-1]
            if k == 2 and counts != prev_counts:
                return "an operation opened or closed a connection: the device saw (open, ended) = (%s) before and (%s) after %s (%s)" % (prev_counts, counts, NAMES[k], st)
            prev_counts = counts
        if st == "never-returned": return "%s never returned (waited %d s against a loopback device)" % (NAMES[k], PATIENCE)
        flag = st[0] == "C"; open_ = int(st[1:st.index(",")]); o = st[-1]
        if k == 8:
            if flag != must: return "connected is %s where it must be %s after the clock jumped %d minutes ahead (%s)" % (flag, must, f, st)
            continue
        if k == 0:
            if f: must = True
            elif o != "!": return "a refused connect did not raise (%s)" % st
        elif k == 1: must = False
        elif 3 <= k <= 7:
            if f: must = False
            elif o != "!": return "entering the context against a closed port did not raise (%s)" % st
        if flag != must and not ((k == 0 or k >= 3) and not f): return "connected is %s where it must be %s after %s (%s)" % (flag, must, NAMES[k], st)
        if (k == 0 or k >= 3) and not f: must = flag      # a refused connect while connected: the property only covers the disconnected state
        if (k == 1 or (k >= 3 and f)) and open_ != 0: return "after the disconnect the device still holds %d open connection(s) (%s)" % (open_, st)
    return "ok"


def model_acts(acts, type2=False):
    """the model's action list, mirroring what `act` really does.  An operation is sent only while connected to a listening
    device (otherwise the harness simulates its outcome).  On a stream the device has half-closed every read returns end-of-stream
    at once: a state query raises, and so does every type-2 operation (they check the login reply); a type-1 command returns an
    unsuccessful response"""
    conn = dead = listening = False; out = []
    for k, f in acts:
        if k == 0:
            listening = bool(f)
            if f: conn, dead = True, False
        elif k == 1: conn = False
        elif 3 <= k <= 7:
            listening = bool(f)
            if f: conn = False
        if (k, f) == (2, 3): out.append([8, 0]); continue          # not a model action: the previous observation repeats
        if k == 2:
            if conn and listening:
                if f == 2: dead = True
                out.append([2, 1 if ((f and f != 4) or (dead and type2)) else 0])
            else: out.append([2, 1 if (f and f != 4) else 0])
        else: out.append([k, f])
    return out


def run_sequences(out, stream, cls, seqs):
    async def go():
        ip = world.loopback_ip(7); dev = Dev(ip, 9957 if cls is SwitcherType1Api else 10000); res = []; stuck = 0
        for s in seqs:
            if stuck >= 3: res.append(None); continue         # three sequences already ended in a call that never returns: enough to report
            t = await asyncio.wait_for(run_seq(cls, dev, s, ip, own_task=(len(res) % 3 == 1)), 120); res.append(t)
            if "never-returned" in t: stuck += 1
        await dev.listen(False)
        return res
    io = asyncio.run(go())
    mo = lib.run_model([lib.req("client", [a for a in model_acts(s, cls is SwitcherType2Api) if a[0] != 8]) for s in seqs])
    for j, s_ in enumerate(seqs):           # the model has no clock: a jump of the wall clock repeats the previous observation
        if any(k == 8 or (k, f) == (2, 3) for k, f in s_):
            it = iter(mo[j].split("|")[:-1]); outl = []; prev = "c0,0."
            for k, f in s_:
                if (k, f) == (2, 3): outl.append(prev[:-1] + "~")
                elif k == 8: outl.append(prev[:-1] + "t")
                else: prev = next(it); outl.append(prev)
            mo[j] = "".join(x + "|" for x in outl)
    # the Spec's own reading of each history (Spec/Client.v, extracted): flag and connections accepted after every action
    sp = lib.run_model([lib.req("client_spec", [a for a in model_acts(s, cls is SwitcherType2Api) if a[0] != 8]) for s in seqs])
    def coq_judge(s_, t, spec):
        it = iter(spec.split("|")[:-1]); cur = "c0"
        for (k, f), st in zip(s_, t.split("|")[:-1]):
            if not (k == 8 or (k, f) == (2, 3)): cur = next(it)
            if st == "never-returned": return "ok"          # reported by the clause judge
            flag, counts = st[0], st[1:-1].split(",")
            if flag != cur[0]: return "connected is %s where the history (Spec/Client.v) says %s after %s (%s)" % (flag == "C", cur[0] == "C", NAMES[k], st)
            if int(counts[0]) + int(counts[1]) != int(cur[1:]):
                return "the device holds %s and saw the end of %s connections where it accepted %s after %s (%s)" % (counts[0], counts[1], cur[1:], NAMES[k], st)
            if int(counts[0]) != (1 if cur[0] == "C" else 0): return "the device holds %s open connections while connected is %s after %s (%s)" % (counts[0], cur[0] == "C", NAMES[k], st)
        return "ok"
    coq_verdicts = [coq_judge(s_, t, spc) if t is not None else "ok" for s_, t, spc in zip(seqs, io, sp)]
    skipped = [j for j, t in enumerate(io) if t is None]
    if skipped:
        out.notes.append("%d sequences were not run after three sequences had ended in a call that never returned" % len(skipped))
        keep = [j for j, t in enumerate(io) if t is not None]
        seqs = [seqs[j] for j in keep]; io = [io[j] for j in keep]; mo = [mo[j] for j in keep]; coq_verdicts = [coq_verdicts[j] for j in keep]
    names = NAMES
    # whether an OPERATION returned or raised is not this property's subject (C09, C15, C16 decide that): its mark is the same on both sides
    def blur(seq, text):
        steps = text.split("|")[:-1]
        return "".join(((st[:-1] + "*") if k == 2 and st != "never-returned" and st[-1] in ".!" else st) + "|" for (k, f), st in zip(seq, steps)) + "".join(x + "|" for x in steps[len(seq):])
    io = [blur(s_, t) for s_, t in zip(seqs, io)]; mo = [blur(s_, t) for s_, t in zip(seqs, mo)]
    cases = [{"cls": cls.__name__, "acts": [list(a) for a in s]} for s in seqs]
    lib.differential(out, stream, cases, io, mo, ["ok"] * len(cases), lambda c: c["cls"] + ": " + ", ".join("%s(%d)" % (names[k], f) for k, f in c["acts"]),
                     nontrivial=lambda c: any((k == 0 or 3 <= k <= 7) and f for k, f in c["acts"]), sample=lambda c: c, classify=lambda c, i: c["cls"] + "/len%d" % len(c["acts"]),
                     impl_spec=[(lambda a, b: a if a != "ok" else b)(spec_judge(s, t), v) for s, t, v in zip(seqs, io, coq_verdicts)])


def run(tier, rnd, out):
    alphabet = [(0, 1), (0, 0), (1, 0), (2, 0), (2, 1), (3, 1), (3, 0), (4, 1)]
    wide = alphabet + [(5, 1), (6, 1), (7, 1), (4, 0), (5, 0), (2, 2), (2, 2), (8, 2), (8, 90), (8, 60 * 24 * 3), (2, 3), (2, 3), (2, 4), (2, 4)]
    by = {"SwitcherType1Api": SwitcherType1Api, "SwitcherType2Api": SwitcherType2Api}
    for c in lib.load_corpus("C18"): run_sequences(out, "corpus", by[c["cls"]], [[tuple(a) for a in c["acts"]]])
    seqs = [list(s) for L in ((1, 2, 3) if tier == "quick" else (1, 2, 3, 4)) for s in itertools.product(alphabet, repeat=L)]
    seqs += [[rnd.choice(alphabet) for _ in range(rnd.randrange(4, 9))] for _ in range(60 if tier == "quick" else 1500)]
    seqs += [[a, b] for a in wide for b in wide] + [[rnd.choice(wide) for _ in range(rnd.randrange(3, 7))] for _ in range(60 if tier == "quick" else 1500)]
    seqs += [[(0, 1), (2, 2), a, b] for a in wide for b in alphabet[:5]]
    seqs += [[(0, 1), (2, 4), a, b] for a in alphabet for b in [(1, 0), (2, 0), (4, 1)]] + [[(3, 1), (0, 1), (2, 4), (2, 4), (1, 0)]]
    seqs += [[(0, 0)] * n + [(0, 1), (2, 0), (1, 0)] for n in (4, 5, 6, 7, 9)] + [[(0, 0)] * 6 + [(3, 1)], [(3, 0)] * 6 + [(0, 1), (1, 0)]]       # many refusals in a row, then the device is back
    seqs += [[(0, 1), (1, 0), (2, 3), a] for a in alphabet] + [[(3, 1), (2, 3), a] for a in alphabet] + [[(0, 1), (2, 0), (1, 0), (2, 3), (2, 3), (0, 1), (2, 0), (1, 0)]]           # what follows a half-closed login, with and without a reconnect
    for cls in (SwitcherType1Api, SwitcherType2Api): run_sequences(out, "sequences", cls, seqs)
    run_aborts(out)
    run_context_bodies(out)
    run_pushed_data(out)
    run_every_operation(out, rnd)
    out.exhaustive = True
    out.notes.append("exhaustive over all action sequences up to length %d for both classes" % (3 if tier == "quick" else 4))


def replay(rp, out):
    if "form" in (rp.get("input") or {}): return run_aborts(out)
    if "body" in (rp.get("input") or {}): return run_context_bodies(out)
    if "kib" in (rp.get("input") or {}): return run_pushed_data(out)
    if "after_hangup" in (rp.get("input") or {}):
        import random
        return run_every_operation(out, random.Random(int(rp.get("seed", 1))))
    c = rp["input"]; by = {"SwitcherType1Api": SwitcherType1Api, "SwitcherType2Api": SwitcherType2Api}
    run_sequences(out, rp.get("stream", "replay"), by[c["cls"]], [[tuple(a) for a in c["acts"]]])
