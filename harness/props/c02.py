"""C02 — each operation's frame encodes exactly that operation and the caller's arguments."""
import lib, world
from props import opcommon as oc
COQ_TARGET = "C02"
TRUSTED = ["Spec/FrameLayout.v transcribes the protocol layout of the pinned commit (there is no vendor specification)",
           "float arithmetic of timedelta_to_hexadecimal_seconds is modelled in integers (floor to the minute); compared on every "
           "second around both range ends in this run"]
ASSUMPTIONS = ["host zone is UTC for create_schedule in this check (zones are C11's subject)",
               "login reply of at least 12 bytes; device id 6 hex digits; a single multi-byte character as name, slot ids other than "
               "'0'..'7' and positions above 100 are unspecified and not compared"]
RULE = ("operations 1-11 of both APIs with boundary arguments: minutes 0, 1, 71582788, 71582789, negative; auto-shutdown every second "
        "around 3600 and 86340..86401, values beyond one day and negative ones; names of 0..40 characters in five scripts; all slots; positions 0..100; day sets in set and "
        "sequence form with and without duplicates; well-formed and malformed clock strings; random ids, sessions, clock readings; "
        "non-trivial = distinct cases whose Spec verdict is a frame or a mandatory refusal")
REQUIREMENT = ("command frame = independent layout of Spec/FrameLayout.v rendered with the declared meaning of the arguments "
               "(Spec/FrameSpec.v); bytes 2-3 and the 4 signature bytes are C01's and masked here; rejected arguments raise and only "
               "the login frame is written")
KINDS = list(range(1, 12))


def mask(f): return f[:4] + "____" + f[8:-8] + "________" if len(f) >= 16 else f


def view(text):
    fs, o = oc.split_text(text)
    if len(fs) >= 2: return "frame:" + mask(fs[1]) + ("" if len(fs) == 2 else " +%d more" % (len(fs) - 2))
    return "none/" + ("raised" if o.startswith("exc:") else "returned")


def spec_args(c):
    k, a = c["kind"], c["args"]
    if k == 1: return [1 if a[0] else 0, a[1]]
    if k == 2: return [a[0]]
    if k in (3, 5, 8): return [a[0]]
    if k == 6: return [world.utc_midnight(world.clock_after_login(c)), a[0], a[1], list(a[2])]
    return []


def spec_line(c):
    login = bytes.fromhex(c["replies"][0])
    return lib.req("spec_frame", c["kind"], bytes.fromhex(c["id"]), login[8:12], c["now"], spec_args(c))


def spec_view(s):
    if s.startswith("frame:"): return "frame:" + mask(s[6:])
    if s == "raise": return "none/raised"
    return "-"


def run_stream(out, stream, cases, impl_texts):
    mo = [view(t) for t in lib.run_model([world.model_line(c) for c in cases])]
    # the Spec speaks about exchanges whose login reply carries a session (12 bytes or more); what an empty or cut login reply leads to is C09's subject
    ex = [spec_view(s) if oc.has_session(c) else "-" for c, s in zip(cases, lib.run_model([spec_line(c) if oc.has_session(c) else "spec_login #0 - - #0" for c in cases]))]
    io = [view(t) for t in impl_texts]
    nontriv = {id(c) for c, e in zip(cases, ex) if e != "-"}
    lib.differential(out, stream, cases, io, mo, ex, oc.describe, nontrivial=lambda c: id(c) in nontriv,
                     sample=lambda c: oc.describe(c)[:300],
                     classify=lambda c, i: world.KIND_NAMES[c["kind"]] + ("/frame" if i.startswith("frame") else "/" + i))


def with_args(rnd, kind, args):
    c = world.rand_op_case(rnd, kind); c["args"] = args; return c


def boundary_cases(rnd, tier):
    cs = []
    for m in [0, 1, 2, 59, 60, 1439, 71582787, 71582788, 71582789, 71582790, -1, -60, 2 ** 31, 2 ** 40]:
        for on in (True, False): cs.append(with_args(rnd, 1, [on, m]))
    secs = list(range(3590, 3665)) + list(range(86335, 86405)) + [0, 1, 59, 60, 7200, 43200]
    secs += [90000, 93600, 86400 + 3599, 86400 + 43200, 2 * 86400 + 9000, 7 * 86400 + 43200, 10 ** 7, -1, -59, -60, -3600, -7200, -79200, -86400 + 7200, -10 ** 6]   # days part, negatives
    if tier == "thorough": secs = list(range(3000, 87000))
    for s in secs: cs.append(with_args(rnd, 2, [s, rnd.choice([0, 0, 1, 999999])]))
    for alph in world.NAME_ALPHABETS.values():
        for n in (list(range(0, 41)) if tier == "thorough" else [0, 1, 2, 3, 7, 8, 9, 15, 16, 17, 31, 32, 33, 40]):
            cs.append(with_args(rnd, 3, ["".join(rnd.choice(alph.strip() or alph) for _ in range(n))]))
    for slot in range(8): cs.append(with_args(rnd, 5, [str(slot)]))
    for p in (range(101) if tier == "thorough" else [0, 1, 2, 15, 16, 50, 99, 100]): cs.append(with_args(rnd, 8, [p]))
    masks = range(128) if tier == "thorough" else [0, 1, 2, 64, 127, 85] + [rnd.randrange(128) for _ in range(30)]
    for m in masks:
        ds = [d for d in range(7) if m >> d & 1]
        for _ in range(8 if tier == "thorough" else 2):
            cs.append(with_args(rnd, 6, [world.rand_clock(rnd, 0), world.rand_clock(rnd, 0), ds, rnd.choice(["set", "list", "tuple", "frozenset"])]))
    for t in ["00:00", "10:00", "23:59", "7:05", "07:05"] + [world.rand_clock(rnd, 0) for _ in range(6)]:       # the end is the start, or before it
        cs.append(with_args(rnd, 6, [t, t, rnd.choice([[], [0], [2, 5]]), "set"]))
        cs.append(with_args(rnd, 6, [t, world.rand_clock(rnd, 0), [], "set"])); cs.append(with_args(rnd, 6, ["23:00", "01:00", [6], "list"]))
    for bad in world.BAD_CLOCKS:
        cs.append(with_args(rnd, 6, [bad, "10:00", [0], "set"])); cs.append(with_args(rnd, 6, ["10:00", bad, [], "set"]))
    for ds in ([0, 0], [1, 2, 1], [6, 6, 6], [3, 4, 5, 3], [0] * 7, list(range(7)) + [3]):
        for form in ("list", "tuple"): cs.append(with_args(rnd, 6, ["08:00", "09:30", ds, form]))
    return cs


def run_on_one_object(rnd, n, kinds=None):
    """operations in sequence on ONE api object per class: what a frame carries never depends on the calls made before"""
    import asyncio
    async def go():
        cases = []; texts = []
        for _ in range(n):
            apis = {}; ident = {False: ("%06x" % rnd.randrange(1 << 24), "%02x" % rnd.randrange(256)), True: ("%06x" % rnd.randrange(1 << 24), "%02x" % rnd.randrange(256))}
            now = rnd.randrange(1_600_000_000, 2_000_000_000)
            for _ in range(rnd.randrange(2, 9)):
                kind = rnd.choice(kinds or KINDS); t2 = kind in world.TYPE2_KINDS
                if t2 not in apis: apis[t2] = world.ScriptedApi(t2, *ident[t2])
                c = world.rand_op_case(rnd, kind); c["id"], c["key"] = ident[t2]; now += rnd.choice([0, 1, 60, 86400]); c["now"] = now
                if kind == 4: c["replies"][1] = world.schedules_reply(rnd, now).hex()
                texts.append(await apis[t2].run(kind, c["args"], [bytes.fromhex(r) for r in c["replies"]], now)); cases.append(c)
        return cases, texts
    return asyncio.run(go())


def run_overlapping(rnd, n):
    """two calls on ONE api object, the second made while the first is waiting for the device's answer to its login (a real StreamReader:
    it refuses the late call's read).  The frame of the first call is still the frame of ITS arguments"""
    import asyncio, time_machine
    async def go():
        cases = []; texts = []
        for _ in range(n):
            kind = rnd.choice([1, 2, 3, 5, 6, 8, 8]); t2 = kind in world.TYPE2_KINDS
            a = world.rand_op_case(rnd, kind, "valid", True); b = world.rand_op_case(rnd, rnd.choice([kind, kind, rnd.choice([7, 8]) if t2 else rnd.choice([1, 2, 3, 5])]), "valid", True)
            s = world.ScriptedApi(t2, a["id"], a["key"]); reader = asyncio.StreamReader(); s.api._reader = reader
            now = a["now"]
            with time_machine.travel(float(now) + (int(now) % 997) / 2000.0, tick=False):
                ta = asyncio.ensure_future(world.call_op(s.api, kind, a["args"]))
                await asyncio.sleep(0)
                tb = asyncio.ensure_future(world.call_op(s.api, b["kind"], b["args"]))
                for _ in range(3): await asyncio.sleep(0)
                for r in a["replies"]:
                    reader.feed_data(bytes.fromhex(r))
                    for _ in range(6): await asyncio.sleep(0)
                reader.feed_eof()
                try: oa = world.show_response(kind, await asyncio.wait_for(ta, 5))
                except Exception as e: oa = "exc:" + world.exc_name(e)
                try: await asyncio.wait_for(tb, 5); ob = "returned"
                except Exception as e: ob = "exc:" + world.exc_name(e)
            fr = list(s.frames)
            if len(fr) >= 2 and fr[1] == fr[0]: del fr[1]          # the late call's login frame (same identity, same second)
            a["overlapped_by"] = {"kind": b["kind"], "args": b["args"], "outcome": ob}
            cases.append(a); texts.append("".join(f + "|" for f in fr) + oa)
        return cases, texts
    return asyncio.run(go())


def run(tier, rnd, out):
    corpus = lib.load_corpus("C02")
    if corpus: run_stream(out, "corpus", corpus, world.run_cases_fresh(corpus))
    cs = boundary_cases(rnd, tier)
    run_stream(out, "boundaries", cs, world.run_cases_fresh(cs))
    cs = oc.mixed_cases(rnd, 30 if tier == "quick" else 1500, KINDS)
    run_stream(out, "random", cs, world.run_cases_fresh(cs))
    cs = world.with_delays(rnd, oc.mixed_cases(rnd, 30 if tier == "quick" else 600, KINDS))       # a device that takes from 0.2 s to a day to answer (virtual clock)
    run_stream(out, "random-with-slow-replies", cs, world.run_cases_fresh(cs))
    # replies that are empty, cut or garbage at either step: whatever the outcome, the frames written are the login frame and, after a
    # non-empty login reply, the one command frame of the arguments - nothing is sent again, nothing else is sent
    cs = oc.mixed_cases(rnd, 25 if tier == "quick" else 600, KINDS, reply_mode="faulty", accepted_args=True)
    run_stream(out, "accepted-arguments-faulty-replies", cs, world.run_cases_fresh(cs))
    # over loopback TCP, a device that hangs up instead of answering the command (and would accept a new connection): the frames it
    # received, on whatever connections, are the login frame and the one command frame
    import asyncio
    cs = [c for c in oc.mixed_cases(rnd, 2 if tier == "quick" else 20, KINDS, accepted_args=True) if len(c["replies"]) >= 2 and len(c["replies"][0]) >= 24]
    for c in cs: c["replies"] = [c["replies"][0], ""]
    run_stream(out, "over-tcp-the-device-hangs-up-instead-of-answering-the-command", cs, asyncio.run(oc.run_tcp(cs)))
    cs, texts = run_on_one_object(rnd, 40 if tier == "quick" else 1500)
    run_stream(out, "sequences-on-one-object", cs, texts)
    cs, texts = run_overlapping(rnd, 60 if tier == "quick" else 1500)
    run_stream(out, "a-second-call-made-while-the-first-waits-for-the-login-answer", cs, texts)
    out.exhaustive = False


def replay(rp, out):
    c = rp["input"]
    if "overlapped_by" in c:
        import random
        cs, texts = run_overlapping(random.Random(int(rp.get("seed", 1))), 300); return run_stream(out, rp.get("stream", "replay"), cs, texts)
    run_stream(out, rp.get("stream", "replay"), [c], world.run_cases_fresh([c]))
