"""C01 — every frame written to a device is self-consistent and correctly signed."""
import asyncio
import lib, world
from props import opcommon as oc
COQ_TARGET = "C01"
TRUSTED = ["the API wiring (which template, which argument order, where set_message_length is applied) is modelled by hand in "
           "Model/Api.v and tied to the code by the streams of this run",
           "fake device: in-process scripted reader/recording writer for volume, loopback TCP fake device for a sample"]
ASSUMPTIONS = ["device id is 6 hex digits, login key 2 hex digits; the login reply has at least 12 bytes (carries a session id)",
               "accepted arguments as in DESIGN.md appendix B; for rejected arguments only 'no malformed frame is written' is required"]
RULE = ("all 12 operation kinds of both API classes with random ids, keys, clock readings, sessions and arguments (boundary "
        "values of every encoder mixed in), thermostat control with generated IR sets whose code texts have lengths around the "
        "15/16 and 255/256 byte boundaries of the two length fields, plus a sample over loopback TCP; "
        "non-trivial = distinct cases in which at least one command frame follows the login frame")
REQUIREMENT = ("every written byte string: bytes 0-1 = fe f0, bytes 2-3 = LE16 of its own length, bytes 38-39 = f0 fe, "
               "last 4 bytes = sig(all preceding bytes) with sig the double CRC of Spec/Sign.v (Spec/Frame.v frame_okb)")


def shape(frames, oks):
    return " ".join("%d:%s" % (len(f) // 2, o) for f, o in zip(frames, oks))


def views(texts):
    """view of an exchange for C01: per frame its length and the Spec's verdict on it"""
    split = [oc.split_text(t) for t in texts]
    flat = [f for fs, _ in split for f in fs]
    verdict = lib.run_model([lib.req("frame_ok", bytes.fromhex(f)) if len(f) % 2 == 0 else "frame_ok -" for f in flat]) if flat else []
    out = []; i = 0
    for fs, o in split:
        v = verdict[i:i + len(fs)]; i += len(fs)
        out.append(shape(fs, v) or "no frame")         # what the call returned or raised is not this property's subject
    return out


def expected(cases, impl_views):
    ex = []
    for c, v in zip(cases, impl_views):
        if not oc.has_session(c): ex.append("-"); continue
        ex.append(v.replace(":bad", ":ok"))       # same shape, every frame accepted by the Spec
    return ex


def run_stream(out, stream, cases, impl_texts):
    model_texts = lib.run_model([world.model_line(c) for c in cases])
    iv = views(impl_texts); mv = views(model_texts)
    lib.differential(out, stream, cases, iv, mv, expected(cases, iv), oc.describe,
                     nontrivial=lambda c: oc.has_session(c), sample=lambda c: oc.describe(c)[:300],
                     classify=lambda c, i: "%s/%d-frames" % (world.KIND_NAMES[c["kind"]], i.count(":")))


def boundary_cases(rnd):
    cs = []
    for _ in range(40):
        c = world.rand_op_case(rnd, 12); irset = world.gen_irset(rnd, long_codes=True)
        c["args"] = world.rand_breeze_args(rnd, irset); c["args"][6] = False
        cs.append(c)
    for name in ["ab", "a" * 32, "שלום עולם", "א" * 16, "é" * 16, "😀" * 8, "😀a", "a" * 33, "א" * 17, "x"]:
        c = world.rand_op_case(rnd, 3); c["args"] = [name]; cs.append(c)
    return cs


def run(tier, rnd, out):
    n = 40 if tier == "quick" else 600
    corpus = lib.load_corpus("C01")
    if corpus: run_stream(out, "corpus", corpus, world.run_cases_fresh(corpus))
    cs = oc.mixed_cases(rnd, n) + boundary_cases(rnd)
    run_stream(out, "operations", cs, world.run_cases_fresh(cs))
    cs = oc.mixed_cases(rnd, max(4, n // 10), reply_mode="faulty")
    run_stream(out, "operations-faulty-replies", cs, world.run_cases_fresh(cs))
    tcp = [c for c in oc.mixed_cases(rnd, 3 if tier == "quick" else 25) if all(len(r) > 0 for r in c["replies"])]
    run_stream(out, "operations-over-tcp", tcp, asyncio.run(oc.run_tcp(tcp)))
    out.notes.append("frames are observed at writer.write (in-process stream) and, for the tcp stream, as received by a fake device")


def replay(rp, out):
    c = rp["input"]; run_stream(out, rp.get("stream", "replay"), [c], world.run_cases_fresh([c]))
