"""C01 — every frame written to a device is self-consistent and correctly signed."""
import asyncio
import lib, world
from props import opcommon as oc
COQ_TARGET = "C01"
TRUSTED = ["the API wiring (which template, which argument order, where set_message_length is applied) is modelled by hand in "
           "Model/Api.v and tied to the code by the streams of this run",
           "fake device: in-process scripted reader/recording writer for volume, loopback TCP fake device for a sample"]
ASSUMPTIONS = ["device id is 6 hex digits, login key 2 hex digits; the login reply has at least 12 bytes (carries a session id)",
               "accepted arguments as in DESIGN.md appendix B; for rejected arguments only 'no malformed frame is written' is required"]
RULE = ("all 12 operation kinds of both API classes with random ids, keys, clock readings, sessions and arguments (boundary "
        "values of every encoder mixed in), thermostat control with generated IR sets whose code texts have lengths around the "
        "15/16 and 255/256 byte boundaries of the two length fields, every kind with an empty reply at each step in turn, "
        "constructed arguments whose last four payload bytes equal the signature of the bytes before them (timer, name tail, IR code "
        "tail), plus a sample over loopback TCP; "
        "non-trivial = distinct cases in which at least one command frame follows the login frame")
REQUIREMENT = ("every written byte string: bytes 0-1 = fe f0, bytes 2-3 = LE16 of its own length, bytes 38-39 = f0 fe, "
               "last 4 bytes = sig(all preceding bytes) with sig the double CRC of Spec/Sign.v (Spec/Frame.v frame_okb)")


def shape(frames, oks):
    return " ".join("%d:%s" % (len(f) // 2, o) for f, o in zip(frames, oks))


def views(texts):
    """view of an exchange for C01: per frame its length and the Spec's verdict on it"""
    split = [oc.split_text(t) for t in texts]
    flat = [f for fs, _ in split for f in fs]
    verdict = lib.run_model([lib.req("frame_ok", bytes.fromhex(f)) if len(f) % 2 == 0 else "frame_ok -" for f in flat]) if flat else []
    out = []; i = 0
    for fs, o in split:
        v = verdict[i:i + len(fs)]; i += len(fs)
        out.append(shape(fs, v) or "no frame")         # what the call returned or raised is not this property's subject
    return out


def expected(cases, impl_views):
    ex = []
    for c, v in zip(cases, impl_views):
        if not oc.has_session(c): ex.append("-"); continue
        ex.append(v.replace(":bad", ":ok"))       # same shape, every frame accepted by the Spec
    return ex


def run_stream(out, stream, cases, impl_texts):
    model_texts = lib.run_model([world.model_line(c) for c in cases])
    iv = views(impl_texts); mv = views(model_texts)
    lib.differential(out, stream, cases, iv, mv, expected(cases, iv), oc.describe,
                     nontrivial=lambda c: oc.has_session(c), sample=lambda c: oc.describe(c)[:300],
                     classify=lambda c, i: "%s/%d-frames" % (world.KIND_NAMES[c["kind"]], i.count(":")))


def boundary_cases(rnd):
    cs = []
    for _ in range(40):
        c = world.rand_op_case(rnd, 12); irset = world.gen_irset(rnd, long_codes=True)
        c["args"] = world.rand_breeze_args(rnd, irset); c["args"][6] = False
        cs.append(c)
    for name in ["ab", "a" * 32, "שלום עולם", "א" * 16, "é" * 16, "😀" * 8, "😀a", "a" * 33, "א" * 17, "x"]:
        c = world.rand_op_case(rnd, 3); c["args"] = [name]; cs.append(c)
    return cs


def fault_cases(rnd, reps):
    """every operation kind with an empty reply injected at every step in turn (thermostat control: both flavours)"""
    cs = []
    for _ in range(reps):
        for k in range(1, 13):
            base = world.rand_op_case(rnd, k, "valid", True)
            if k == 12:
                irset = world.gen_irset(rnd); base["args"] = world.rand_breeze_args(rnd, irset)
                base["args"][1] = rnd.random() < .5; base["args"][2] = rnd.choice(world.MODE_NAMES)
            for i in range(len(base["replies"])):
                c = dict(base, replies=list(base["replies"])); c["replies"][i] = ""; cs.append(c)
    return cs


def spec_sig(prefixes):
    """signature the Spec gives each hex prefix (last 8 hex characters of the signed text)"""
    return [t[-8:] for t in lib.run_model([lib.req("sign_spec", p) for p in prefixes])]


def printable(sig): return all(0x20 <= b <= 0x7e and b != 0x7c for b in bytes.fromhex(sig))


def self_signed_cases(rnd, n):
    """arguments chosen so that the last four payload bytes of the command frame equal the signature of everything before
    them: the timer of control_device, the tail of a 32-byte name, the tail of an IR code text"""
    cand = []
    for _ in range(n):
        c = world.rand_op_case(rnd, 1, "valid", True); c["args"] = [rnd.random() < .5, 1]; cand.append(c)
        c = world.rand_op_case(rnd, 3, "valid", True); c["args"] = ["n" * 28 + "tail"]; cand.append(c)
        c = world.rand_op_case(rnd, 12, "valid", True); irset = world.gen_irset(rnd)
        stem = "".join(rnd.choice("0123456789ABCDEF") for _ in range(rnd.choice([4, 30, 243, 251, 600])))
        for w in irset["IRWaveList"]: w["Para"] = "P"; w["HexCode"] = stem + "tail"
        c["args"] = world.rand_breeze_args(rnd, irset); c["args"][1] = True; c["args"][2] = rnd.choice(world.MODE_NAMES); c["args"][6] = False
        cand.append(c)
    texts = lib.run_model([world.model_line(c) for c in cand])
    cmd = []
    for c, t in zip(cand, texts):
        fs, _ = oc.split_text(t); k = 1 if c["kind"] != 12 else 2
        cmd.append(fs[k][:-16] if len(fs) > k and len(fs[k]) > 100 else "")
    sigs = spec_sig(cmd); out = []
    for c, pre, sg in zip(cand, cmd, sigs):
        if not pre: continue
        if c["kind"] == 1:
            t = int.from_bytes(bytes.fromhex(sg), "little")
            if t % 60 == 0 and t > 0: c["args"][1] = t // 60; out.append(c)
        elif printable(sg):
            tail = bytes.fromhex(sg).decode("ascii")
            if c["kind"] == 3: c["args"] = ["n" * 28 + tail]
            else:
                for w in c["args"][0]["IRWaveList"]: w["HexCode"] = w["HexCode"][:-4] + tail
            out.append(c)
    return out


def run(tier, rnd, out):
    n = 40 if tier == "quick" else 600
    corpus = lib.load_corpus("C01")
    if corpus: run_stream(out, "corpus", corpus, world.run_cases_fresh(corpus))
    cs = oc.mixed_cases(rnd, n) + boundary_cases(rnd)
    run_stream(out, "operations", cs, world.run_cases_fresh(cs))
    cs = oc.mixed_cases(rnd, max(4, n // 10), reply_mode="faulty")
    run_stream(out, "operations-faulty-replies", cs, world.run_cases_fresh(cs))
    from props import c02
    cs, texts = c02.run_on_one_object(rnd, 25 if tier == "quick" else 600, list(range(1, 13)))
    run_stream(out, "sequences-on-one-object", cs, texts)
    cs = fault_cases(rnd, 2 if tier == "quick" else 40)
    run_stream(out, "empty-reply-at-each-step", cs, world.run_cases_fresh(cs))
    cs = self_signed_cases(rnd, 150 if tier == "quick" else 3000)
    run_stream(out, "payload-tail-equals-its-own-signature", cs, world.run_cases_fresh(cs))
    cs = oc.mixed_cases(rnd, n)          # a device that takes its time (virtual clock): however late a reply, the frames are the same
    run_stream(out, "operations-with-slow-replies", cs, world.run_cases_fresh(world.with_delays(rnd, cs)))
    tcp = [c for c in oc.mixed_cases(rnd, 3 if tier == "quick" else 25) if all(len(r) > 0 for r in c["replies"])]
    run_stream(out, "operations-over-tcp", tcp, asyncio.run(oc.run_tcp(tcp)))
    # the same thermostat request made twice on one object while the air conditioner reports another power state the second time (for a
    # toggle remote the code sent is another one, of another length): each frame is stamped with ITS length
    import copy
    async def twice():
        cs = []; texts = []
        for _ in range(30 if tier == "quick" else 400):
            a = world.rand_op_case(rnd, 12, "valid", True)
            for _t in range(20):
                if a["args"][0].get("OnOffType") == 1: break
                a = world.rand_op_case(rnd, 12, "valid", True)
            b = world.rand_op_case(rnd, 12, "valid", True); b["args"] = copy.deepcopy(a["args"]); b["id"], b["key"] = a["id"], a["key"]; b["now"] = a["now"] + rnd.choice([1, 60, 3600])
            if rnd.random() < .8:          # mostly: the power state asked for explicitly, the infra-red path (not the state-update path)
                for c in (a, b):
                    if c["args"][1] is None: c["args"][1] = True
                    c["args"][6] = False
            rb = bytearray.fromhex(a["replies"][1]); rb[78] = 1 - (rb[78] & 1); b["replies"][1] = bytes(rb).hex()          # the same report, the power bit the other way
            api = world.ScriptedApi(True, a["id"], a["key"])
            for c in (a, b):
                texts.append(await api.run(12, c["args"], [bytes.fromhex(r) for r in c["replies"]], c["now"])); cs.append(c)
        return cs, texts
    cs, texts = asyncio.run(twice())
    run_stream(out, "the-same-thermostat-request-twice-on-one-object-the-reported-power-state-changed", cs, texts)
    seqs = oc.odd_length_sequences(rnd, 6 if tier == "quick" else 80)
    texts = asyncio.run(oc.run_tcp_sequences(seqs))
    run_stream(out, "sequences-on-one-tcp-connection-replies-with-odd-length-fields", [c for s_ in seqs for c in s_], texts)
    out.notes.append("frames are observed at writer.write (in-process stream) and, for the tcp stream, as received by a fake device")


def replay(rp, out):
    if rp.get("stream", "").startswith("the-same-thermostat-request-twice"):
        import random
        return run("quick", random.Random(int(rp.get("seed", 1))), out)
    if "one-tcp-connection" in rp.get("stream", ""):
        import random
        seqs = oc.odd_length_sequences(random.Random(int(rp.get("seed", 1))), 40)
        return run_stream(out, rp["stream"], [c for s_ in seqs for c in s_], asyncio.run(oc.run_tcp_sequences(seqs)))
    c = rp["input"]; run_stream(out, rp.get("stream", "replay"), [c], world.run_cases_fresh([c]))
