#!/bin/sh
# seedtest.sh <dir with patch.diff [demo.py]> <Cxx> [more checks...] : apply the change to /repo, run the checks, undo.
d=$1; shift
cd /repo && git status --short | grep -q . && { echo "/repo not clean"; exit 2; }
git -C /repo apply "$d/patch.diff" || { echo "patch does not apply"; exit 2; }
trap 'git -C /repo checkout -- . ; git -C /repo status --short' EXIT
if [ -f "$d/demo.py" ]; then (cd "$d" && PYTHONPATH=/repo/src TZ=UTC timeout 300 /venv/bin/python demo.py >/dev/null 2>&1; echo "demo exit with change: $?"); fi
for c in "$@"; do
  (cd /verif && timeout 3000 ./check $c 2>&1 | tail -6; )
done
