"""./check <property> [--tier quick|thorough] [--replay file]  — one property, one verdict."""
import argparse, importlib, json, os, random, sys, time
sys.path.insert(0, os.path.dirname(os.path.abspath(__file__)))
import lib
sys.path.insert(0, lib.REPO_SRC)

def main():
    ap = argparse.ArgumentParser(); ap.add_argument("prop"); ap.add_argument("--tier", default=os.environ.get("VERIF_TIER", "quick"))
    ap.add_argument("--replay")
    a = ap.parse_args()
    seed = int(os.environ.get("VERIF_SEED", "1")); t0 = time.time()
    P = importlib.import_module("props." + a.prop.lower())
    trusted = ["Coq 8.16.1 kernel, vm_compute", "harness/extract_consts.py (constants regenerated from /repo/src)",
               "extraction: ExtrOcamlBasic, ExtrOCamlInt63, ExtrOCamlFloats; ocaml/driver.ml", "correspondence harness (this run)"] + P.TRUSTED
    unproved = None; assumptions = {}; names = []
    try:
        assumptions, names = lib.build(P.COQ_TARGET)
    except lib.BuildError as e:
        unproved = e.what
        # the model may still be usable for the failing-input search
    rnd = random.Random(seed)
    cases = P.corpus() + P.cases(a.tier, rnd) if not a.replay else [json.load(open(a.replay))["input"]]
    impl_out = [P.impl(c) for c in cases]
    disagreements = []; failing = []
    model_ok = os.path.exists(lib.MODEL)
    if model_ok:
        try:
            model_out = [P.parse_model(l) for l in lib.run_model([P.model_line(c) for c in cases])]
            disagreements = [(c, i, m) for c, i, m in zip(cases, impl_out, model_out) if P.view(i) != P.view(m)]
            if unproved or disagreements:
                # search for a concrete failing input with the extracted Spec checker
                verdicts = lib.run_model([P.check_line(c, i) for c, i in zip(cases, impl_out)])
                failing = [(c, i) for c, i, v in zip(cases, impl_out, verdicts) if v != "true"]
        except lib.BuildError as e:
            unproved = unproved or e.what
    else:
        failing = [(c, i) for c, i in zip(cases, impl_out) if not P.python_oracle(c, i)]
    known = lib.load_known_findings(a.prop)
    new_failing = []
    for c, i in failing:
        k = next((txt for rx, txt in known if rx.search(P.describe(c))), None)
        if k: print(f"KNOWN-FINDING: property={a.prop} {k}")
        else: new_failing.append((c, i))
    nontrivial = len({P.describe(c) for c in cases if P.nontrivial(c)})
    coverage = {"obligations": max(1, len(names)), "discharged": 0 if unproved else max(1, len(names)),
                "checker_cmd": f"make -C coq theories/Props/{P.COQ_TARGET}.vo", "trusted_base": trusted,
                "assumptions_printed": assumptions, "theorems": names,
                "evaluations": len(cases), "distinct_nontrivial": nontrivial, "rule": P.RULE,
                "samples": [P.sample(c, i) for c, i in list(zip(cases, impl_out))[:3]],
                "input_distribution": P.distribution(cases), "disagreements": len(disagreements),
                "exhaustive": P.exhaustive(a.tier)}
    if new_failing:
        c, i = new_failing[0]
        path = lib.write_replay(a.prop, {"property": a.prop, "kind": "failing-input", "input": c, "impl_output": P.sample(c, i),
                                         "spec_requirement": P.REQUIREMENT, "replay_cmd": f"./check {a.prop} --replay <this file>"})
        lib.finish(a.prop, a.tier, seed, t0, coverage, P.ASSUMPTIONS, len(new_failing), path)
    if unproved or disagreements:
        what = unproved or f"correspondence: model and implementation differ on {len(disagreements)} inputs (first: {P.describe(disagreements[0][0])})"
        path = lib.write_replay(a.prop, {"property": a.prop, "kind": "unproved", "what_no_longer_checks": what,
                                         "first_disagreement": P.sample(*disagreements[0][:2]) if disagreements else None})
        lib.finish(a.prop, a.tier, seed, t0, coverage, P.ASSUMPTIONS, 1, path, unproved=True)
    lib.finish(a.prop, a.tier, seed, t0, coverage, P.ASSUMPTIONS, 0)
main()
