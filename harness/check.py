"""./check <property> [--tier quick|thorough] [--replay file]  — one property, one verdict.

1. regenerate Gen/Extracted.v from /repo, re-check the property's theorems (full .vo build), read Print Assumptions;
2. rebuild the extracted model when needed; 3. run the property's streams: implementation vs model (correspondence,
through the property's view) and implementation vs Spec (the extracted definitions the theorems are about);
4. verdict: exit 0, or VIOLATION with a concrete failing input when one was found, else `no-failing-input-found`."""
import argparse, importlib, json, os, random, sys, time, traceback
sys.path.insert(0, os.path.dirname(os.path.abspath(__file__)))
import lib
sys.path.insert(0, lib.REPO_SRC)


def main():
    ap = argparse.ArgumentParser(); ap.add_argument("prop")
    ap.add_argument("--tier", default=os.environ.get("VERIF_TIER") or "quick", choices=["quick", "thorough"])
    ap.add_argument("--replay")
    a = ap.parse_args()
    prop = a.prop.upper()
    if a.replay and not sys.flags.optimize:
        try: under_o = "-O" in (json.load(open(a.replay)).get("interpreter") or "")
        except Exception: under_o = False
        if under_o: os.execv(sys.executable, [sys.executable, "-b", "-O", os.path.abspath(__file__)] + sys.argv[1:])
    try: seed = int(os.environ.get("VERIF_SEED") or "1")
    except ValueError: seed = 1
    t0 = time.time()
    # properties that do not speak about the host's zone are checked under a zone with an odd offset and DST, so that code which
    # starts to depend on local time shows; the zone-dependent ones (C10 C11 C13 C14) pick their zones themselves, C02 states UTC
    HOST_ZONE = {"C05": "Pacific/Chatham", "C07": "Pacific/Chatham", "C08": "Pacific/Chatham", "C09": "Asia/Kathmandu", "C06": "America/St_Johns",
                 "C15": "Asia/Kathmandu", "C16": "Australia/Lord_Howe", "C01": "America/St_Johns", "C03": "Pacific/Chatham"}
    if prop in HOST_ZONE and os.path.exists("/usr/share/zoneinfo/" + HOST_ZONE[prop]):
        os.environ["TZ"] = HOST_ZONE[prop]; time.tzset()
    if prop != "C06":          # the library's loggers at DEBUG (discarding handler): code that only runs while someone is debugging runs here too; C06 runs both ways
        import logging
        logging.getLogger("aioswitcher").addHandler(lib.FormattingSink()); logging.getLogger("aioswitcher").setLevel(logging.DEBUG)
    P = importlib.import_module("props." + prop.lower())
    trusted = ["Coq 8.16.1 kernel and coqc; vm_compute is used in proofs, native_compute is not",
               "harness/extract_consts.py: the translator that regenerates coq/theories/Gen/Extracted.v (packet templates, enum "
               "tables, port tables, class-acceptance table) from /repo/src on every run",
               "extraction to OCaml: " + lib.EXTRACT_DIRECTIVES,
               "ocaml/driver.ml (line protocol glue), OCaml 4.13.1, the correspondence harness under harness/ (this run)",
               "hand-written model of the function bodies (coq/theories/Model), tied to the code only by the correspondence streams of this run"] + P.TRUSTED
    assumptions, names, errors = lib.build(P.COQ_TARGET)
    rnd = random.Random(seed)
    out = lib.Outcome()
    # watchdog: the streams of a quick run take one to two minutes, of a thorough run up to half an hour.  A run that is still going
    # after many times that is not going to end (a library call that never returns, a loop that never yields): the correspondence
    # no longer checks, and that is reported instead of hanging
    import threading
    budget = float(os.environ.get("VERIF_BUDGET_S") or (900 if a.tier == "quick" or a.replay else 5 * 3600))
    def expired():
        fr = sys._current_frames().get(threading.main_thread().ident)
        where = "".join(traceback.format_stack(fr)[-12:]) if fr else "?"
        what = ("correspondence: the streams of this run did not finish within %d s (a call into the library that never returns, or never "
                "yields to the event loop); the main thread was at:\n%s" % (budget, where))
        path = lib.write_replay(prop, {"property": prop, "kind": "unproved", "what_no_longer_checks": what, "theorems": names, "input": None, "stream": None})
        try:
            lib.write_evidence(prop, a.tier, seed, t0, {"obligations": max(1, len(names)), "discharged": max(1, len(names)), "theorems": names,
                               "evaluations": out.evaluations, "distinct_nontrivial": len(out.nontrivial), "streams": out.streams, "build_errors": [what[:300]], "rule": P.RULE,
                               "checker_cmd": f"make -C coq theories/Props/{P.COQ_TARGET}.vo", "exhaustive": False,
                               "samples": out.samples[:8] or [{"note": "the run did not finish"}], "trusted_base": trusted, "assumptions_printed": assumptions}, P.ASSUMPTIONS, 1)
        except Exception: pass
        print(f"{prop}: no longer shown to hold: {what[:400]}")
        print(f"VIOLATION property={prop} replay={path} no-failing-input-found", flush=True)
        os._exit(1)
    dog = threading.Timer(budget, expired); dog.daemon = True; dog.start()
    try:
        if a.replay:
            rp = lib.unjson(json.load(open(a.replay)))
            if rp.get("input") is None:
                print(f"{prop}: replay file names no input ({rp.get('what_no_longer_checks')}); re-running the quick tier instead")
                P.run("quick", rnd, out)
            else: P.replay(rp, out)
        else:
            P.run(a.tier, rnd, out)
    except lib.BuildError as e:
        errors.append("model: " + e.what)
    except SystemExit: raise
    except BaseException as e:      # a harness stream that cannot run (cancellations escaping the event loop included) is "no longer shown", never silence or a bare crash
        errors.append("harness stream failed: " + "".join(traceback.format_exception_only(type(e), e)).strip()[:300])
        lib.save_log("harness-" + prop, traceback.format_exc())
    for n in lib.TRANSLATOR_NOTES: out.notes.append("translator: " + n + " (placeholder emitted; what depends on it no longer checks)")
    known = lib.load_known_findings(prop)
    new_failing = []; n_fail = len(out.failing); n_dis = len(out.disagreements)
    for f in [f for f in out.failing if f]:
        k = next((txt for rx, txt in known if rx.search(f["describe"])), None)
        if k: print(f"KNOWN-FINDING: property={prop} {k}")
        else: new_failing.append(f)
    coverage = {"obligations": max(1, len(names)), "discharged": 0 if [e for e in errors if not e.startswith(("model:", "harness"))] else max(1, len(names)),
                "checker_cmd": f"make -C coq theories/Props/{P.COQ_TARGET}.vo   (coqc 8.16.1, full .vo build; Print Assumptions read from its output)",
                "trusted_base": trusted, "assumptions_printed": assumptions, "theorems": names,
                "evaluations": out.evaluations, "distinct_nontrivial": len(out.nontrivial), "rule": P.RULE,
                "samples": out.samples[:8] or [{"note": "no case was run"}], "input_distribution": out.distribution, "streams": out.streams,
                "disagreements": n_dis, "spec_failures": n_fail, "judged_by_spec": out.judged, "exhaustive": bool(out.exhaustive),
                "build_errors": errors, "notes": out.notes, "requirement": P.REQUIREMENT}
    dis = [d for d in out.disagreements if d]
    if new_failing:
        f = new_failing[0]
        path = lib.write_replay(prop, {"property": prop, "kind": "failing-input", "stream": f["stream"], "describe": f["describe"],
                                       "input": f["input"], "impl_output": f["impl"], "spec_requires": f["expected"],
                                       "requirement": P.REQUIREMENT, "also_broken": errors, "failing_inputs_found": len(new_failing),
                                       "seed": seed, "tier": a.tier})
        lib.write_evidence(prop, a.tier, seed, t0, coverage, P.ASSUMPTIONS, len(new_failing))
        print(f"{prop}: {f['describe']}\n   implementation: {lib.clip(f['impl'], 300)}\n   Spec requires:  {lib.clip(f['expected'], 300)}")
        print(f"VIOLATION property={prop} replay={path}"); sys.exit(1)
    if errors or dis:
        what = "; ".join(errors) if errors else ""
        if dis: what += ("; " if what else "") + (f"correspondence: model and implementation differ on {n_dis} cases of this run "
                                                  f"(first: stream {dis[0]['stream']}, {dis[0]['describe']})")
        path = lib.write_replay(prop, {"property": prop, "kind": "unproved", "what_no_longer_checks": what,
                                       "theorems": names, "first_disagreement": dis[0] if dis else None,
                                       "input": dis[0]["input"] if dis else None, "stream": dis[0]["stream"] if dis else None})
        lib.write_evidence(prop, a.tier, seed, t0, coverage, P.ASSUMPTIONS, 1)
        print(f"{prop}: no longer shown to hold: {what}")
        print(f"VIOLATION property={prop} replay={path} no-failing-input-found"); sys.exit(1)
    # a second pass under `python -O` for the properties that say what is REFUSED (arguments, strings, replies, types): under -O an
    # `assert` is no statement at all, so a refusal that has become an assert is visible only there.  Quick tier, same seed; its own verdict
    OPTIMIZED = {"C02", "C04", "C09", "C12", "C14", "C15", "C19"}
    if prop in OPTIMIZED and not sys.flags.optimize and not a.replay and not os.environ.get("VERIF_NO_OPT_PASS"):
        import subprocess, tempfile
        with tempfile.TemporaryDirectory(prefix="verif-opt-") as tmp:
            r = subprocess.run([sys.executable, "-b", "-O", os.path.abspath(__file__), prop, "--tier", "quick"], capture_output=True, text=True,
                               env=dict(os.environ, VERIF_EVIDENCE_DIR=tmp, VERIF_BUDGET_S=str(int(budget))))
        tail = [l for l in r.stdout.strip().split("\n") if l][-4:]
        if r.returncode != 0:
            coverage["notes"] = out.notes + ["second pass under python -O: " + " / ".join(tail)[:600]]
            lib.write_evidence(prop, a.tier, seed, t0, coverage, P.ASSUMPTIONS, 1)
            print(f"{prop}: under python -O (assert statements removed):")
            print("\n".join(tail) if any(l.startswith("VIOLATION") for l in tail) else f"VIOLATION property={prop} replay={lib.write_replay(prop, {'property': prop, 'kind': 'unproved', 'what_no_longer_checks': 'the second pass under python -O ended with exit code %d: %s' % (r.returncode, (r.stderr or r.stdout)[-400:]), 'theorems': names, 'input': None, 'stream': None})} no-failing-input-found")
            sys.exit(1)
        out.notes.append("second pass under python -O (quick tier): " + (tail[-1] if tail else "held"))
        coverage["notes"] = out.notes
    lib.write_evidence(prop, a.tier, seed, t0, coverage, P.ASSUMPTIONS, 0)
    print(f"{prop} {a.tier}: held on everything explored ({out.evaluations} cases in {len(out.streams)} streams, "
          f"{coverage['discharged']}/{coverage['obligations']} theorems re-checked, {time.time() - t0:.1f} s)")
    sys.exit(0)


main()
