"""The implementation side of the correspondence: run operations of the real API classes against a scripted
device (in-process reader/writer, or a fake device on loopback TCP), render what happened canonically, and the
generators shared by the frame properties (C01 C02 C03 C09 C16)."""
import asyncio, heapq, math, binascii, datetime as D, logging, os, random, struct, sys
from unittest.mock import MagicMock
import time_machine
import lib
# nothing the library or asyncio logs is printed; levels stay effective (logging.disable would make isEnabledFor false everywhere)
logging.getLogger("aioswitcher").addHandler(lib.FormattingSink()); logging.getLogger("aioswitcher").propagate = False
# an application that runs with warnings as errors (-W error, pytest's filterwarnings = error): a deprecation warning attributed to the
# LIBRARY's own modules - the library itself calling something deprecated while serving an ordinary call - is an exception there
import warnings as _w
for _c in (DeprecationWarning, PendingDeprecationWarning, FutureWarning): _w.filterwarnings("error", category=_c, module=r"aioswitcher(\..*)?$")
logging.getLogger("asyncio").addHandler(logging.NullHandler()); logging.getLogger("asyncio").propagate = False
logging.getLogger().addHandler(logging.NullHandler()); logging.lastResort = None
from aioswitcher.api import SwitcherType1Api, SwitcherType2Api, Command
from aioswitcher.api.remotes import SwitcherBreezeRemote
from aioswitcher.device import DeviceState, ThermostatMode, ThermostatFanLevel, ThermostatSwing
from aioswitcher.schedule import Days

DAYS = list(Days)
KIND_NAMES = {1: "control_device", 2: "set_auto_shutdown", 3: "set_device_name", 4: "get_schedules", 5: "delete_schedule",
              6: "create_schedule", 7: "stop", 8: "set_position", 9: "get_shutter_state", 10: "get_breeze_state",
              11: "get_state", 12: "control_breeze_device"}
TYPE2_KINDS = {7, 8, 9, 10, 12}
STATE_KINDS = {9, 10, 11}


def exc_name(e):
    if isinstance(e, RuntimeError): return "RuntimeError"
    if isinstance(e, binascii.Error): return "BinasciiError"
    if isinstance(e, UnicodeDecodeError): return "UnicodeDecodeError"
    if isinstance(e, struct.error): return "StructError"
    for c in (KeyError, IndexError, OverflowError, TypeError, ValueError, OSError):
        if isinstance(e, c): return c.__name__
    return "Other:" + type(e).__name__


def comma(xs): return "".join(x + "," for x in xs)
def onoff(v): return "1" if v == DeviceState.ON else "0"


def tenths(x):
    """a float that is meant to be a number of tenths: the count when x is exactly that count / 10, else the float itself"""
    try:
        t = round(x * 10)
        return str(t) if x == t / 10 else "%r(not a whole number of tenths)" % x
    except Exception: return repr(x)


def show_response(kind, r):
    s = "1" if r.successful else "0"
    if kind == 11:
        return "state:" + comma([s, onoff(r.state), r.time_left, r.time_on, r.auto_shutdown, str(r.power_consumption),
                                 tenths(r.electric_current)])
    if kind == 9: return "state:" + comma([s, str(r.position), r.direction.name])
    if kind == 10:
        return "state:" + comma([s, onoff(r.state), r.mode.name, r.fan_level.name, tenths(r.temperature),
                                 str(r.target_temperature), "1" if r.swing == ThermostatSwing.ON else "0",
                                 r.remote_id.encode().hex()])
    return "ok:" + s


def utc_midnight(now): return now - now % 86400


async def call_op(api, kind, a):
    """a = the operation's python-level arguments (JSON-able)"""
    if kind == 1:
        if a[1] % 3 == 1: return await api.control_device(minutes=a[1], command=Command.ON if a[0] else Command.OFF)
        return await api.control_device(Command.ON if a[0] else Command.OFF, a[1])
    if kind == 2: return await api.set_auto_shutdown(D.timedelta(seconds=a[0], microseconds=a[1]))
    if kind == 3: return await api.set_device_name(a[0])
    if kind == 4: return await api.get_schedules()
    if kind == 5: return await api.delete_schedule(a[0])
    if kind == 6:
        days = [DAYS[i] for i in a[2]]
        form = {"set": set, "list": list, "tuple": tuple, "frozenset": frozenset}[a[3]]
        k = (len(a[0]) + len(a[1]) + len(days)) % 4              # the same call in several spellings (positional, keywords in either order)
        if k == 1: return await api.create_schedule(start_time=a[0], end_time=a[1], days=form(days))
        if k == 2: return await api.create_schedule(days=form(days), end_time=a[1], start_time=a[0])
        if k == 3: return await api.create_schedule(a[0], days=form(days), end_time=a[1])
        return await api.create_schedule(a[0], a[1], form(days))
    if kind == 7: return await api.stop()
    if kind == 8: return await api.set_position(a[0])
    if kind == 9: return await api.get_shutter_state()
    if kind == 10: return await api.get_breeze_state()
    if kind == 11: return await api.get_state()
    if kind == 12:
        irset, st, md, tg, fn, sw, upd = a
        remote = REMOTES.get(id(irset)) or SwitcherBreezeRemote(irset)       # REMOTES: remote objects shared between calls by a stream
        kw = {}
        if st is not None: kw["state"] = DeviceState.ON if st else DeviceState.OFF
        if md is not None: kw["mode"] = ThermostatMode[md]
        if tg: kw["target_temp"] = tg
        if fn is not None: kw["fan_level"] = ThermostatFanLevel[fn]
        if sw is not None: kw["swing"] = ThermostatSwing.ON if sw else ThermostatSwing.OFF
        if upd: kw["update_state"] = True
        # the same request in other spellings: every parameter named with its documented default (None / 0 / False), or all positional
        full = [kw.get("state"), kw.get("mode"), kw.get("target_temp", 0), kw.get("fan_level"), kw.get("swing"), bool(upd)]
        variant = (len(kw) + len(irset.get("IRWaveList", ()))) % 3
        if variant == 1: return await api.control_breeze_device(remote, state=full[0], mode=full[1], target_temp=full[2], fan_level=full[3], swing=full[4], update_state=full[5])
        if variant == 2: return await api.control_breeze_device(remote, *full)
        return await api.control_breeze_device(remote, **kw)
    raise AssertionError(kind)


REMOTES = {}


def model_op_args(kind, a, now):
    if kind == 1: return [1 if a[0] else 0, a[1]]
    if kind == 2: return [a[0]]
    if kind == 3: return [a[0]]
    if kind == 5: return [a[0]]
    if kind == 6: return [utc_midnight(now), a[0], a[1], list(a[2]), 0 if a[3] in ("set", "frozenset") else 1]
    if kind == 8: return [a[0]]
    if kind == 12:
        irset, st, md, tg, fn, sw, upd = a
        tri = lambda v: 0 if v is None else (2 if v else 1)
        return [irset["IRSetID"], irset["OnOffType"], waves_arg(irset), tri(st), md or "", tg, fn or "", tri(sw), 1 if upd else 0]
    return []


def waves_arg(irset): return [[w["Key"], w["Para"], w["HexCode"]] for w in irset["IRWaveList"]]


def clock_after_login(case):
    """what is computed after the login reply (today's midnight of create_schedule) sees the clock as it is then"""
    return case["now"] + (int(case["delays"][0]) if case.get("clock_moves") and case.get("delays") else 0)


def model_line(case):
    later = clock_after_login(case)
    return lib.req("op", case["kind"], case["id"], case["key"], case["now"], model_op_args(case["kind"], case["args"], later),
                   [bytes.fromhex(r) for r in case["replies"]])


class ScriptedApi:
    """A real API object whose stream is replaced by a scripted reader and a recording writer."""
    def __init__(self, type2, dev_id, key):
        self.api = (SwitcherType2Api if type2 else SwitcherType1Api)("127.0.0.1", dev_id, key)
        self.frames = []; self.script = []; self.hung = False
        self.patience = 20          # seconds (real, or virtual under VirtualLoop) after which a call on scripted streams counts as never returning
        w = MagicMock(); r = MagicMock()
        w.write = lambda b: self.frames.append(bytes(b).hex())
        self.pending = b""
        self.silent = False; self.reads = 0; self.starved = False
        async def read(n):
            # a byte stream: what a read(n) does not take stays for the next read; each scripted reply arrives as one chunk.
            # After its last scripted reply the device either closes (end of stream, the default) or, with `silent`, just says nothing more
            self.reads += 1
            if not self.pending:
                if not self.script:
                    self.starved = True
                    if self.silent: await asyncio.Event().wait()
                self.pending = self.script.pop(0) if self.script else b""
            out, self.pending = self.pending[:n], self.pending[n:]
            return out
        r.read = read
        self.api._writer = w; self.api._reader = r

    async def run(self, kind, args, replies, now):
        """-> canonical text: every written frame in hex followed by '|', then the outcome"""
        self.frames.clear(); self.script[:] = list(replies); self.pending = b""
        try:
            if self.hung: raise asyncio.TimeoutError()          # an earlier call on this object never returned: no point in waiting again
            with time_machine.travel(float(now) + (int(now) % 997) / 2000.0, tick=False) as trav:       # never a whole second; below the half, since the timestamp of a frame is the ROUNDED clock
                self.trav = trav
                r = await asyncio.wait_for(call_op(self.api, kind, args), self.patience)
            out = show_response(kind, r)
        except asyncio.TimeoutError:
            self.hung = True; out = "exc:NeverReturned"
        except Exception as e:
            out = "exc:" + exc_name(e)
        return "".join(f + "|" for f in self.frames) + out

    async def run_on(self, kind, args, now):
        """one more operation on the connection as it is: the script loaded earlier goes on, nothing is reset -> the outcome only
        (the frames accumulate in self.frames)"""
        try:
            if self.hung: raise asyncio.TimeoutError()
            with time_machine.travel(float(now) + (int(now) % 997) / 2000.0, tick=False):       # never a whole second; below the half, since the timestamp of a frame is the ROUNDED clock
                r = await asyncio.wait_for(call_op(self.api, kind, args), self.patience)
            return show_response(kind, r)
        except asyncio.TimeoutError:
            self.hung = True; return "exc:NeverReturned"
        except Exception as e:
            return "exc:" + exc_name(e)


class VirtualLoop(asyncio.SelectorEventLoop):
    """Event loop on a virtual clock: when nothing is ready the clock jumps to the next timer, so a scripted device may take
    minutes or hours to answer at no cost.  Only for in-process scripted streams (no real sockets)."""
    def __init__(self):
        super().__init__(); self._vnow = 0.0
    def time(self): return self._vnow
    def _run_once(self):
        while self._scheduled and self._scheduled[0]._cancelled:       # as BaseEventLoop._run_once does, before looking at the head
            h = heapq.heappop(self._scheduled); h._scheduled = False; self._timer_cancelled_count -= 1
        if not self._ready and self._scheduled:
            w = self._scheduled[0]._when
            # strictly past the timer: BaseEventLoop runs handles with when < time() + clock_resolution, and at large clock values the
            # resolution is below one unit in the last place
            if w >= self._vnow: self._vnow = math.nextafter(w, math.inf)
        super()._run_once()


def run_virtual(coro):
    loop = VirtualLoop()
    try: return loop.run_until_complete(coro)
    finally: loop.close()


class SlowApi(ScriptedApi):
    """scripted stream whose every reply arrives after a scripted (virtual) delay"""
    def __init__(self, *a):
        super().__init__(*a); self.delays = []; self.moving = False; self.patience = 10 ** 7        # virtual seconds: far beyond every scripted delay
        async def read(n):
            d = self.delays.pop(0) if self.delays else 0
            if d:
                await asyncio.sleep(d)
                if self.moving and getattr(self, "trav", None) is not None: self.trav.shift(d)      # the wall clock moves while the device takes its time
            if not self.pending: self.pending = self.script.pop(0) if self.script else b""
            out, self.pending = self.pending[:n], self.pending[n:]
            return out
        self.api._reader.read = read


def run_cases_second(cases, rnd):
    """each case as the SECOND operation on an api object: first another operation of the same class (a command, fully answered and
    acknowledged) - what the object did or saw before is not a source for this one"""
    async def go():
        res = []
        for c in cases:
            t2 = c["kind"] in TYPE2_KINDS
            first = rand_op_case(rnd, rnd.choice([7, 8]) if t2 else rnd.choice([1, 1, 3, 5]), "valid", True)
            s = ScriptedApi(t2, c["id"], c["key"])
            await s.run(first["kind"], first["args"], [bytes.fromhex(r) for r in first["replies"]], c["now"] - 30)
            res.append(await s.run(c["kind"], c["args"], [bytes.fromhex(r) for r in c["replies"]], c["now"]))
        return res
    return asyncio.run(go())


SLOW_DELAYS = [0, 0.2, 1.9, 2.1, 4.9, 5.1, 9.9, 10.1, 29, 31, 59, 61, 125, 601, 3700, 90000]
def run_cases_slow(cases, rnd):
    """each case on a fresh API instance whose device takes from a fraction of a second to a day (virtual clock) to answer each read;
    the delays chosen are recorded in the case ("delays") so that it replays"""
    async def go():
        res = []
        for c in cases:
            if "delays" not in c: c["delays"] = [rnd.choice(SLOW_DELAYS) for _ in c["replies"]]
            api = SlowApi(c["kind"] in TYPE2_KINDS, c["id"], c["key"]); api.delays[:] = list(c["delays"]); api.moving = bool(c.get("clock_moves"))
            res.append(await api.run(c["kind"], c["args"], [bytes.fromhex(r) for r in c["replies"]], c["now"]))
        return res
    return run_virtual(go())


def with_delays(rnd, cases):
    """... and for every other case the wall clock moves along with the device's delays (otherwise it stands still during the exchange)"""
    for k, c in enumerate(cases):
        c["delays"] = [rnd.choice(SLOW_DELAYS) for _ in c["replies"]]; c["clock_moves"] = k % 2 == 0
    return cases


def run_cases_fresh(cases):
    """each case on a fresh API instance; returns the canonical texts.  Cases that carry "delays" run against a slow device on the virtual clock"""
    run_cases_fresh.stuck = getattr(run_cases_fresh, "stuck", 0)
    if any("delays" in c for c in cases):
        slow = [c for c in cases if "delays" in c]; fast = [c for c in cases if "delays" not in c]
        rs = iter(run_cases_slow(slow, None)); rf = iter(run_cases_fresh(fast) if fast else [])
        return [next(rs) if "delays" in c else next(rf) for c in cases]
    async def go():
        res = []
        for c in cases:
            s = ScriptedApi(c["kind"] in TYPE2_KINDS, c["id"], c["key"])
            if c.get("device_after_last_reply"): s.silent = True; s.patience = 3           # a replayed case of the kind found below
            t = await s.run(c["kind"], c["args"], [bytes.fromhex(r) for r in c["replies"]], c["now"])
            if not s.silent and t.count("|") <= len(c["replies"]) and len(res) % 2 == 0 and run_cases_fresh.stuck < 3:
                # the script has a reply for every frame written: the same exchange against a device that stays silent (connection open) after its last
                # reply instead of closing must be the same - an operation reads one reply per frame and no more
                s2 = ScriptedApi(c["kind"] in TYPE2_KINDS, c["id"], c["key"]); s2.silent = True; s2.patience = 3
                t2 = await s2.run(c["kind"], c["args"], [bytes.fromhex(r) for r in c["replies"]], c["now"])
                if t2 != t:
                    c["device_after_last_reply"] = "stays silent, connection open (the outcome is %s when it closes instead)" % t.split("|")[-1][:60]
                    t = t2
                    if "NeverReturned" in t2: run_cases_fresh.stuck += 1
            res.append(t)
        return res
    return asyncio.run(go())


# ---------------------------------------------------------------- generators
def rand_bytes(rnd, n): return bytes(rnd.randrange(256) for _ in range(n))


def login_reply(rnd, session=None):
    sess = session if session is not None else rnd.choice([rand_bytes(rnd, 4)] * 6 + [b"\x12\xfe\xf0\x34", b"\xfe\xf0\xfe\xf0", b"\0\0\0\0", b"\0" + rand_bytes(rnd, 3)])
    tail = bytearray(rand_bytes(rnd, rnd.choice([0, 12, 20, rnd.randrange(0, 60), rnd.randrange(0, 60), rnd.choice([52, 53, 116, 117, 500, 1012])])))     # up to one read of 1024 bytes
    if len(tail) >= 2 and rnd.random() < .2:         # the frame magic may occur anywhere in a reply (a signature, a counter)
        k = rnd.randrange(len(tail) - 1); tail[k:k + 2] = b"\xfe\xf0"
    head = rnd.choice([rand_bytes(rnd, 8)] * 3 + [b"\xfe\xf0" + rand_bytes(rnd, 6)])
    return head + sess + bytes(tail)


NAME_ALPHABETS = {"ascii": "abcXYZ 019_-", "heb": "אבגדהוזחטי ", "acc": "éàüñøß", "emoji": "😀🚀𝄞", "mixed": "aé😀א",
                  "not-nfc": "e\u0301a\u0308\u2126\u212b\ufb01", "marks": "\u200e\u00a0~\u3000x", "nul-inside": "ab\0 c"}
def rand_name(rnd):
    k = rnd.choice(list(NAME_ALPHABETS)); n = rnd.choice([0, 1, 2, 3, 8, 10, 11, 16, 17, 31, 32, 33, 40, rnd.randrange(41)])
    s = "".join(rnd.choice(NAME_ALPHABETS[k]) for _ in range(n))
    return s.rstrip("\x00")


BAD_CLOCKS = ["1:5", "7:05", "21:00:30", " 21:00", "21:00 ", "2100", "24:00", "23:60", "", "ab:cd", "21:", "::", "21:0x",
              "-1:00", "9:9", "09:9 ", "\t3:07", "23:59", "00:00", "021:00", "21:000", "٢١:٠٠", "21;00", ":30", "12:60", "25:00"]
# decorated clock readings: a valid H:M with something before or after it (seconds, fractions, zone designators, am/pm, blanks,
# separators).  Whether one is inside the grammar is decided by the judge, not here
_SUF = [":00", ":0", ":30", ":59", ":00:00", ":00.000", ".0", ".5", " ", "\n", "\x00", "Z", "z", "+00:00", "+0000", " AM", " PM", "am", "h", ":", "'", " UTC", "\u200b", "0", "00"]
_PRE = [" ", "\n", "T", "t", "+", "-", "0", "00", "\ufeff", ":", "1970-01-01 ", "1970-01-01T"]
BAD_CLOCKS += sorted({b + x for b in ("21:00", "7:05", "00:00", "9:9", "23:59") for x in _SUF} | {x + b for b in ("21:00", "7:05", "0:00", "9:9") for x in _PRE}
                     | {b.replace(":", x) for b in ("21:00", "7:05") for x in (".", "-", " ", "：", "h", "::", ": ", " :", ":\u200b")})
def rand_clock(rnd, bad=0.3):
    if rnd.random() >= bad: return "%02d:%02d" % (rnd.randrange(24), rnd.randrange(60))
    return rnd.choice(BAD_CLOCKS)


def rand_args(rnd, kind):
    if kind == 1:
        return [rnd.random() < .5, rnd.choice([0, 0, 1, 15, 90, -3, 71582788, 71582789, 2 ** 33 // 60, rnd.randrange(0, 10 ** 6), rnd.randrange(1, 1440)])]
    if kind == 2:
        return [rnd.choice([3599, 3600, 3601, 3659, 3660, 86339, 86340, 86341, 86399, 86400, 86401, 0, 59, rnd.randrange(0, 100000),
                            rnd.randrange(3600, 86400)]), rnd.choice([0, 0, 1, 999999])]
    if kind == 3: return [rand_name(rnd)]
    if kind == 5: return [str(rnd.randrange(8))]
    if kind == 6:
        k = rnd.random(); form = "set"
        if k < .7: ds = rnd.sample(range(7), rnd.randrange(0, 8))
        elif k < .85: ds = rnd.sample(range(7), rnd.randrange(1, 8)); form = "list"
        else: ds = [rnd.randrange(7) for _ in range(rnd.randrange(2, 5))]; form = "list"
        if form == "set": ds = sorted(set(ds))
        a_ = rand_clock(rnd, .25)
        return [a_, a_ if rnd.random() < .12 else rand_clock(rnd, .15), ds, form]          # now and then a slot that ends in the minute it starts in
    if kind == 8: return [rnd.choice([0, 1, 50, 99, 100, rnd.randrange(101), rnd.randrange(101), 101, 255, 256, 4095, 4096, 40000, 65535, 65536])]
    if kind == 12: return rand_breeze_args(rnd)
    return []


def rand_args_accepted(rnd, kind):
    """arguments inside every encoder's accepted domain (for the properties that are about replies, not about arguments)"""
    if kind == 1: return [rnd.random() < .5, rnd.choice([0, 1, 15, 90, rnd.randrange(1, 10 ** 6)])]
    if kind == 2: return [rnd.randrange(3600, 86400), rnd.choice([0, 0, 1, 999999])]
    if kind == 3: return ["".join(rnd.choice("abcXYZ 019_-") for _ in range(rnd.randrange(2, 33))).strip() or "ab"]
    if kind == 6: return ["%02d:%02d" % (rnd.randrange(24), rnd.randrange(60)), "%02d:%02d" % (rnd.randrange(24), rnd.randrange(60)),
                          sorted(rnd.sample(range(7), rnd.randrange(0, 8))), "set"]
    return rand_args(rnd, kind)


def rand_op_case(rnd, kind, reply_mode="valid", accepted_args=False):
    now = rnd.choice([rnd.randrange(1_600_000_000, 2_000_000_000), rnd.randrange(1, 2 ** 32)])
    login = login_reply(rnd)
    args = rand_args_accepted(rnd, kind) if accepted_args else rand_args(rnd, kind)
    if accepted_args and kind == 3 and len(args[0]) < 2: args = ["ab"]
    if kind in STATE_KINDS: second = state_reply_for(rnd, kind)
    elif kind == 4: second = schedules_reply(rnd, now)
    else: second = rnd.choice([b"\x01", rand_bytes(rnd, 20), rand_bytes(rnd, rnd.randrange(1, 60)), b"\x00", bytes(rnd.randrange(1, 40))])
    replies = [login, second]
    if kind == 12:
        replies = [login, thermostat_reply(rnd), rnd.choice([b"\x01\x02", rand_bytes(rnd, 12), b"\x00", bytes(12)]), rnd.choice([b"\x03", b"\x00"])]
    if reply_mode == "faulty":
        k = rnd.random(); i = rnd.randrange(len(replies))
        if k < .45: replies[i] = b""
        elif k < .7: replies[i] = replies[i][:rnd.randrange(len(replies[i]) + 1)]
        elif k < .85: replies[i] = rand_bytes(rnd, rnd.randrange(1, 200))
        else:
            b = bytearray(replies[i]); b[rnd.randrange(len(b))] = rnd.randrange(256); replies[i] = bytes(b)
    dev_id = "%06x" % rnd.choice([rnd.randrange(1 << 24)] * 5 + [rnd.randrange(1 << 16), rnd.randrange(256), 0])      # leading zero bytes included
    if rnd.random() < .15: dev_id = dev_id.upper()                                                                  # the id is hex text: its case is the caller's
    return {"kind": kind, "args": args, "id": dev_id, "key": "%02x" % rnd.randrange(256),
            "now": now, "replies": [r.hex() for r in replies]}


# ---- replies of a device (python transcriptions used only to make inputs; the Spec encoders live in Coq) ----
def state_reply_for(rnd, kind):
    if kind == 11: return type1_state_reply(rnd)
    if kind == 9: return shutter_reply(rnd)
    return thermostat_reply(rnd)


def type1_state_reply(rnd):
    b = bytearray(rand_bytes(rnd, rnd.choice([101, 120, 133])))
    b[75] = rnd.choice([0, 1, 1, rnd.randrange(256)])
    b[77:79] = struct.pack("<H", rnd.choice([rnd.randrange(65536), rnd.randrange(65536), 0, 0, 1, 65535]))          # an idle plug that is on draws 0 W
    for o in (89, 93, 97): b[o:o + 4] = struct.pack("<I", rnd.choice([rnd.randrange(86400), rnd.randrange(86400), rnd.randrange(2 ** 32), 0]))
    if rnd.random() < .1: b[89:101] = bytes(12)          # just switched on by hand: no timer, nothing elapsed yet
    return bytes(b)


def shutter_reply(rnd):
    b = bytearray(rand_bytes(rnd, rnd.choice([80, 96, 109])))
    b[76] = rnd.randrange(101); b[78:80] = rnd.choice([b"\0\0", b"\1\0", b"\0\1", b"\0\0", rand_bytes(rnd, 2)])
    return bytes(b)


def thermostat_reply(rnd, on=None, mode=None, target=None, fan=None, swing=None, remote=b"ELEC7022"):
    b = bytearray(rand_bytes(rnd, rnd.choice([96, 109, 120])))
    b[76:78] = struct.pack("<H", rnd.choice([rnd.randrange(0, 500)] * 4 + [0, 500, 501, 999, 0xfff1, 0xffff]))          # the room may be freezing, or the sensor absent
    b[78] = (rnd.randrange(2) if on is None else int(on))
    b[79] = rnd.choice([1, 2, 3, 4, 5, 4, 5, 9]) if mode is None else mode
    b[80] = rnd.randrange(16, 31) if target is None else target
    b[81] = ((rnd.randrange(4) if fan is None else fan) << 4) | (rnd.randrange(2) if swing is None else swing)
    b[84:92] = remote.ljust(8, b"\0")
    return bytes(b)


def schedules_reply(rnd, now):
    recs = b""
    for i in range(rnd.randrange(0, 5)):
        mask = rnd.choice([0, rnd.randrange(1, 128) * 2])
        st = now + rnd.randrange(-100000, 100000); en = st + rnd.randrange(0, 90000)
        recs += bytes([i, 1, mask, 1]) + struct.pack("<II", st % 2 ** 32, en % 2 ** 32) + rand_bytes(rnd, 4)
    return rand_bytes(rnd, 45) + recs + rand_bytes(rnd, 4)


# ---- IR sets ----
MODES = {"AUTO": "aa", "DRY": "ad", "FAN": "aw", "COOL": "ar", "HEAT": "ah"}
def gen_irset(rnd, long_codes=False):
    toggle = rnd.random() < 0.5
    rid = rnd.choice(["ELEC7022", "ZM079055", "ZM079049", "ZM079065"]) if rnd.random() < 0.4 else rnd.choice(["DLK65863", "ELEC7001", "X1"])
    keys = []; dens = rnd.choice([0.15, 0.5, 0.95])
    temps = sorted(rnd.sample(range(16, 31), rnd.randrange(1, 8))); odd_keys = rnd.random() < .2
    for mname, mc in MODES.items():
        if rnd.random() < 0.2: continue
        for pre in [""] + (["on_"] if toggle else []):
            if mname in ("AUTO", "DRY", "FAN"):
                cands = [mc] + [f"{mc}_f{f}" for f in range(4)] + [f"{mc}_f{f}_d1" for f in range(4)]
                if odd_keys: cands += [f"{mc}{t}" for t in temps[:2]] + [f"{mc}{t}_f{f}" for t in temps[:2] for f in (1, 3)]      # a set may hold temperature entries under these modes too: requests for them never use one
            else:
                cands = [mc] + [f"{mc}{t}" for t in temps] + [f"{mc}{t}_f{f}" for t in temps for f in range(4)] + \
                        [f"{mc}{t}_f{f}_d1" for t in temps for f in range(4)]
            keys += [pre + k for k in cands if rnd.random() < dens]
    if (not toggle and rnd.random() < 0.9) or (toggle and rnd.random() < 0.35): keys.append("off")       # a toggle set may list an "off" code too
    if rnd.random() < 0.7: keys += ["FUN_d0", "FUN_d1"][:rnd.randrange(1, 3)]
    if toggle and rnd.random() < 0.3: keys.append("on_")
    rnd.shuffle(keys)
    if rnd.random() < 0.3 and keys: keys.append(rnd.choice(keys))          # duplicate key: the later entry wins
    waves = []
    for i, k in enumerate(keys):
        n = rnd.choice([1, 5, 20, 60, rnd.randrange(1, 400)]) if not long_codes else rnd.choice([1, 7, 8, 9, 240, 247, 248, 249, 400, 1990])
        code = (k.upper().encode().hex() + "%04d" % i).upper()
        code = (code * (n // len(code) + 1))[:max(1, n)] if long_codes else code[:max(len(code) if rnd.random() < .7 else 1, n)]
        if rnd.random() < .08: code = rnd.choice([" " + code, code + " ", code + "\n", "\t" + code, " ", "\n"])          # the stored text is carried as it is, blanks at its ends included
        waves.append({"Key": k, "Para": rnd.choice(["P", "NECX|26|32|15,15|15,40|15|T00BE|30|01|ABAB[30]", "R" * rnd.randrange(1, 30), " P", "P ", "P\r\n"]),
                      "HexCode": code})
    return {"IRSetID": rid, "OnOffType": 1 if toggle else rnd.choice([0, 0, 2]), "IRWaveList": waves}


MODE_NAMES = list(MODES); FAN_NAMES = ["LOW", "MEDIUM", "HIGH", "AUTO"]
def rand_breeze_args(rnd, irset=None):
    irset = irset or gen_irset(rnd)
    pick = lambda xs, p=.5: (rnd.choice(xs) if rnd.random() < p else None)
    return [irset, pick([True, False]), pick(MODE_NAMES), rnd.choice([0, 0, rnd.randrange(0, 61), rnd.randrange(16, 31)]),
            pick(FAN_NAMES), pick([True, False]), rnd.random() < .3]


# ---------------------------------------------------------------- fake device on loopback TCP
def loopback_ip(k=7):
    pid = os.getpid(); return "127.%d.%d.%d" % ((pid >> 8) & 255 or 1, pid & 255, k)


HALF_CLOSE = "half-close"        # a reply value: the device ends its sending direction and keeps reading
ABORT = "abort"                  # a reply value: the device aborts the connection (a reboot, a watchdog): the client's next read fails with a reset


class FakeDevice:
    """Scripted device: logs every received chunk per connection; answers from a per-connection script or by a policy."""
    def __init__(self, ip, port):
        self.ip = ip; self.port = port; self.srv = None; self.open = 0; self.eofs = 0
        self.log = []        # (connection number, bytes)
        self.conns = 0; self.script = []; self.policy = None
        self.resets = 0; self.delay = 0; self.sent = []          # seconds before each reply; (connection number, reply bytes)

    async def handle(self, r, w):
        self.conns += 1; n = self.conns; self.open += 1; half = False; reset = False
        try:
            while True:
                d = await r.read(4096)
                if not d: break
                if len(d) >= 4 and d[:2] == b"\xfe\xf0":          # a frame that announces more bytes than this chunk holds may have been cut by the transport (a busy machine):
                    want = int.from_bytes(d[2:4], "little")      # the rest is given half a second to arrive before the chunk is taken as it is (FA16)
                    while len(d) < want <= 8192:
                        try: more = await asyncio.wait_for(r.read(want - len(d)), 0.5)
                        except asyncio.TimeoutError: break
                        if not more: break
                        d += more
                self.log.append((n, d))
                if half: continue               # the sending direction is closed: whatever else arrives is read and not answered
                if self.script: reply = self.script.pop(0)
                elif self.policy: reply = self.policy(n, d)
                else: reply = b"\x01"
                if reply is None: continue
                if reply is ABORT:
                    import socket as _s, struct as _st
                    w.get_extra_info("socket").setsockopt(_s.SOL_SOCKET, _s.SO_LINGER, _st.pack("ii", 1, 0)); break
                if reply is HALF_CLOSE:
                    if w.can_write_eof(): w.write_eof()
                    half = True; continue
                if reply == b"":            # an empty reply = the device closes the stream
                    break
                if self.delay: await asyncio.sleep(self.delay)
                self.sent.append((n, reply)); w.write(reply); await w.drain()
        except ConnectionError:
            reset = True; self.resets += 1          # the peer aborted the connection (RST): that is not an end of stream
        finally:
            self.open -= 1
            if not reset: self.eofs += 1
            w.close()

    async def listen(self, on=True):
        if on and not self.srv: self.srv = await asyncio.start_server(self.handle, self.ip, self.port)
        if not on and self.srv:
            self.srv.close(); self.srv = None; await asyncio.sleep(0)


# ---------------------------------------------------------------- a running bridge fed over loopback UDP
_PORT_DIR = os.path.join("/dev/shm" if os.path.isdir("/dev/shm") else __import__("tempfile").gettempdir(), "aioswitcher-verif-ports")
_MINE = []          # ports reserved by this process (lock files naming our pid), handed out round-robin
_NEXT = [0]


def _reserve(p):
    """system-wide reservation of a UDP port number among all running checks (they may run in parallel, also from other copies of
    /verif): an O_EXCL lock file naming the owner's pid; the file of a dead owner is taken over"""
    os.makedirs(_PORT_DIR, exist_ok=True); path = os.path.join(_PORT_DIR, str(p))
    for _ in range(2):
        try:
            fd = os.open(path, os.O_CREAT | os.O_EXCL | os.O_WRONLY); os.write(fd, str(os.getpid()).encode()); os.close(fd); return True
        except FileExistsError:
            try: owner = int(open(path).read() or "0")
            except (OSError, ValueError): return False
            try:
                if owner: os.kill(owner, 0)
                return False                      # the owner is alive (or the file is being written)
            except ProcessLookupError:
                try: os.unlink(path)
                except OSError: return False
            except PermissionError: return False
    return False


def _release_all():
    for p in _MINE:
        try: os.unlink(os.path.join(_PORT_DIR, str(p)))
        except OSError: pass
    _MINE.clear()
__import__("atexit").register(_release_all)


def _bindable(p):
    import socket
    s = socket.socket(socket.AF_INET, socket.SOCK_DGRAM)
    try: s.bind(("0.0.0.0", p)); return True
    except OSError: return False
    finally: s.close()


WELL_KNOWN_PORTS = [20002, 10002, 20003, 10003]
def well_known_ports():
    """the library's default broadcast ports, if this process can have them all (free and reserved among the running checks)"""
    import time as _t
    for attempt in range(30):            # another check may be using them right now: wait for up to about a minute, holding nothing in between
        new = []
        for p in WELL_KNOWN_PORTS:
            if p in _MINE: continue
            if _bindable(p) and _reserve(p): new.append(p)
            else: break
        if all(p in _MINE or p in new for p in WELL_KNOWN_PORTS):
            for p in new: _MINE.insert(0, p)
            if all(_bindable(p) for p in WELL_KNOWN_PORTS): return list(WELL_KNOWN_PORTS)
            return None                  # reserved, but something outside the checks holds one of them
        for p in new:                    # not all four: give back what this attempt took
            try: os.unlink(os.path.join(_PORT_DIR, str(p)))
            except OSError: pass
        _t.sleep(1.5 + (os.getpid() % 7) / 10.0)
    return None


def release_well_known_ports():
    """give the default ports back as soon as the stream that needed them is over (other checks wait for them)"""
    for p in WELL_KNOWN_PORTS:
        if p in _MINE:
            _MINE.remove(p)
            try: os.unlink(os.path.join(_PORT_DIR, str(p)))
            except OSError: pass


def free_udp_ports(n):
    """n UDP ports that are free now, below the kernel's ephemeral range (32768+) so that no outgoing socket lands on them, and
    reserved for this process among all running checks: a probe bind that fails on one of them is then the bridge under test (or
    the harness's own foreign socket), not a neighbour"""
    sysrnd = random.SystemRandom()
    def grow():
        for _ in range(2000):
            p = sysrnd.randrange(21000, 32000)
            if p not in _MINE and _bindable(p) and _reserve(p): _MINE.append(p); return
        raise lib.BuildError("no free UDP port could be reserved")
    while len(_MINE) < 32: grow()
    out = []; scanned = 0
    while len(out) < n:
        if scanned >= len(_MINE):             # the whole block was looked at (a bridge under test may have left sockets open): extend it
            if len(_MINE) >= 1024: raise lib.BuildError("no free UDP port among %d reserved ones" % len(_MINE))
            grow(); _NEXT[0] = len(_MINE) - 1
        p = _MINE[_NEXT[0] % len(_MINE)]; _NEXT[0] += 1; scanned += 1
        if p not in out and p not in WELL_KNOWN_PORTS and _bindable(p): out.append(p)
    return out


def scribble(obj):
    """what the library hands to the application belongs to the application: it overwrites every public field of the object it got
    (a later delivery or a later result must not show any of it)"""
    for name in list(vars(obj)) if hasattr(obj, "__dict__") else []:
        if name.startswith("_"): continue
        try: setattr(obj, name, "scribbled" if isinstance(getattr(obj, name), str) else None)
        except Exception: pass


LOCAL_DESTINATIONS = ["127.0.0.1", "127.0.0.1", "127.0.0.2", "127.7.7.7"]
async def feed_bridge(n_ports, events, raising=(), show=None, sentinel=None, serial=False, restarts=0, ports=None, during_start=None, occupy=None, clock_steps=None):
    """events: [(port index, datagram bytes)] sent in order from one socket in paced bursts, then one sentinel per port as
    delivery barrier.  Returns (callback log [rendered device], loop-exception-handler calls, warnings).
    `raising`: indices of callback invocations (global count) on which the user's callback raises."""
    import socket, warnings
    from aioswitcher.bridge import SwitcherBridge
    ports = list(ports) if ports else free_udp_ports(n_ports); log = []; handler = []; seen_sentinel = set()
    feed_bridge.calls = getattr(feed_bridge, "calls", 0) + 1; keep = feed_bridge.calls % 2 == 0; kept = []          # every other bridge: objects kept instead of overwritten
    loop = asyncio.get_running_loop()
    old = loop.get_exception_handler()
    loop.set_exception_handler(lambda l, ctx: handler.append(type(ctx.get("exception")).__name__))
    def cb(dev):
        if dev.name.startswith("SENTINEL"):
            seen_sentinel.add(dev.name); return
        k = len(log); log.append(show(dev))
        if keep: kept.append((k, dev))          # this consumer queues the objects it is handed and reads them later: each still says what it said on arrival
        else: scribble(dev)
        if k not in raising and k % 5: return [None, True, False, 1, "done", dev][k % 6]          # what a callback returns is its own business (a registry's `is_new`, a count)
        if k in raising: raise [KeyError, ConnectionRefusedError, TimeoutError, ValueError, BrokenPipeError, OSError, RuntimeError][k % 7]("user callback failure %d" % k)
    bridge = SwitcherBridge(cb, list(ports)) if ports != WELL_KNOWN_PORTS else SwitcherBridge(cb)        # the default port list of the library (else: a list of its own)
    tx = socket.socket(socket.AF_INET, socket.SOCK_DGRAM)
    with warnings.catch_warnings(record=True) as w:
        warnings.simplefilter("always")
        if during_start:
            # a device keeps broadcasting while the bridge is still opening its ports: from the moment a port is bound (a probe bind
            # fails) every datagram sent to it counts.  `during_start` = list of datagrams; the sender runs in this loop, between the
            # bridge's own awaits
            sent_early = []
            async def early():
                k = 0
                while k < len(during_start) and not bridge.is_running:
                    if not _bindable(ports[0]):
                        tx.sendto(during_start[k], ("127.0.0.1", ports[0])); sent_early.append(k); k += 1
                    await asyncio.sleep(0)
            task = loop.create_task(early())
            await asyncio.sleep(0)
            await bridge.start()
            await task
            feed_bridge.sent_early = sent_early
        else:
            taken = None
            if occupy is not None:          # another program holds one of the configured ports when the bridge is started: start() refuses (C17) -
                taken = socket.socket(socket.AF_INET, socket.SOCK_DGRAM); taken.bind(("0.0.0.0", ports[occupy]))      # or, if it does not, what it listens on must work
            try: await bridge.start()
            except OSError:
                if taken is None: raise
                taken.close(); tx.close(); loop.set_exception_handler(old)
                for t in list(getattr(bridge, "_transports", {}).values()):
                    if t and not t.is_closing(): t.close()
                await asyncio.sleep(0)
                return None, 0, 0, True
            finally:
                if taken is not None: taken.close()
        try:
            for _ in range(restarts):               # the same bridge object stopped and started again before anything is sent
                await bridge.stop()
                for _ in range(5): await asyncio.sleep(0.001)
                await bridge.start()
            for i, (p, d) in enumerate(events):
                if clock_steps is not None: clock_steps[0].shift(clock_steps[1][i % len(clock_steps[1])])      # the wall clock steps (also backwards: DST, NTP) between broadcasts
                tx.sendto(d, (LOCAL_DESTINATIONS[i % len(LOCAL_DESTINATIONS)], ports[p]))       # the bridge listens on every local address, not on one
                if serial:                      # nothing else in flight: let the loop take this datagram before the next is sent
                    for _ in range(4): await asyncio.sleep(0.001)
                elif i % 8 == 7: await asyncio.sleep(0)
            for p in range(n_ports): tx.sendto(sentinel(p), ("127.0.0.1", ports[p]))
            # a barrier that does not come back costs 3 s; when that has happened several times in this process the bridge under test
            # evidently drops the barrier frame itself: no point in waiting long again (the run is failing already)
            for _ in range(3000 if getattr(feed_bridge, "lost", 0) < 4 else 150):
                if len(seen_sentinel) == n_ports: break
                await asyncio.sleep(0.001)
            complete = len(seen_sentinel) == n_ports
            if not complete: feed_bridge.lost = getattr(feed_bridge, "lost", 0) + 1
        finally:
            await bridge.stop(); tx.close(); await asyncio.sleep(0)
            loop.set_exception_handler(old)
        for k, dev in kept:
            try: later = show(dev)
            except Exception as e: later = "unreadable: " + type(e).__name__
            if later != log[k]: log[k] += " (the object, read again after later broadcasts, says: %s)" % later
        nwarn = len([x for x in w if "unknown" in str(x.message)])
        feed_bridge.other_warnings = [str(x.message)[:120] for x in w if "unknown" not in str(x.message) and not issubclass(x.category, ResourceWarning)]      # any other warning raised while the bridge ran
    return log, len(handler), nwarn, complete


# ---------------------------------------------------------------- zones
def tzif(zone):
    """(default offset, [(utc transition second, offset)]) from the TZif v2+ 64-bit block of /usr/share/zoneinfo"""
    d = open("/usr/share/zoneinfo/" + zone, "rb").read()
    def hdr(o):
        assert d[o:o + 4] == b"TZif"; return d[o + 4], struct.unpack(">6l", d[o + 20:o + 44])
    v, (isut, isstd, leap, timecnt, typecnt, charcnt) = hdr(0)
    o = 44 + timecnt * 4 + timecnt + typecnt * 6 + charcnt + leap * 8 + isstd + isut
    v, (isut, isstd, leap, timecnt, typecnt, charcnt) = hdr(o); o += 44
    times = struct.unpack(">%dq" % timecnt, d[o:o + 8 * timecnt]); o += 8 * timecnt
    idx = d[o:o + timecnt]; o += timecnt
    types = [struct.unpack(">lBB", d[o + 6 * i:o + 6 * i + 6]) for i in range(typecnt)]
    default = next((t[0] for t in types if not t[1]), types[0][0])
    return default, [(t, types[i][0]) for t, i in zip(times, idx)]


def has_rule_after_table(zone):
    """does the zone keep changing its offset after the last explicit transition of its table (POSIX rule in the TZif footer)?
    The model takes the table as its input, so instants beyond the table are only used for zones without such a rule"""
    d = open("/usr/share/zoneinfo/" + zone, "rb").read()
    footer = d.rstrip(b"\n").rsplit(b"\n", 1)[-1]
    return b"," in footer


def zone_args(zone):
    zd, tr = tzif(zone)
    return zd, [[a, b] for a, b in tr]


def zone_job(zone, job, cases, timeout=600):
    """run harness/zonework.py under TZ=zone"""
    import json, subprocess
    env = dict(os.environ, TZ=zone, PYTHONPATH=lib.REPO_SRC, PYTHONHASHSEED="0")
    p = subprocess.run([sys.executable] + lib.PYFLAGS + [os.path.join(lib.ROOT, "harness", "zonework.py")], input=json.dumps({"job": job, "cases": cases}),
                       capture_output=True, text=True, timeout=timeout, env=env)
    if p.returncode != 0: raise lib.BuildError("zone worker failed under TZ=%s: %s" % (zone, p.stderr.strip()[-300:]))
    return json.loads(p.stdout)


def run_threads(out, stream, module, fn, calls, expected, describe, startups=64, threads=8, rounds=2, spread=True, timeout=300, now=None, zone=None):
    """harness/threadwork.py in `startups` fresh interpreters: `threads` OS threads make `calls` (the first calls of the process, then
    `rounds` more passes, every call twice in a row); every result is compared with `expected` inside the thread that got it"""
    import json, subprocess
    from concurrent.futures import ThreadPoolExecutor
    env = dict(os.environ, PYTHONPATH=lib.REPO_SRC, PYTHONHASHSEED="0")
    if zone: env["TZ"] = zone
    job = {"module": module, "fn": fn, "calls": calls, "expected": expected, "threads": threads, "rounds": rounds, "spread": spread, "now": now}
    # every other start-up runs with a thread switch offered after EVERY line of the library's code (and fewer repetitions: it is slow)
    payloads = [json.dumps(job), json.dumps(dict(job, yield_lines=True, rounds=min(rounds, 20)))]
    def one(k):
        try:
            p = subprocess.run([sys.executable] + lib.PYFLAGS + [os.path.join(lib.ROOT, "harness", "threadwork.py")], input=payloads[k % 2], capture_output=True, text=True, timeout=timeout, env=env)
        except subprocess.TimeoutExpired:
            return {"bad": [{"call": None, "index": 0, "got": "never-returned (%d s)" % timeout, "expected": "an answer", "thread": -1, "round": 0, "repeat": 0}], "done": 0}
        if p.returncode != 0: raise lib.BuildError("thread worker failed: %s" % p.stderr.strip()[-300:])
        return json.loads(p.stdout)
    with ThreadPoolExecutor(max_workers=min(12, os.cpu_count() or 4)) as ex: res = list(ex.map(one, range(startups)))
    out.stream(stream, sum(r["done"] for r in res)); out.count("threads/start-ups", startups)
    for k, r in enumerate(res):
        for b in r["bad"]:
            c = {"call": b["call"], "start_up": k, "thread": b["thread"], "of_threads": threads, "pass": b["round"], "repeat": b["repeat"]}
            if len(out.failing) < 50:
                out.failing.append({"stream": stream, "describe": describe(b["call"]) + " in thread %d of %d (pass %d of a fresh interpreter)" % (b["thread"], threads, b["round"]),
                                    "input": dict(c, switch_offered_after_every_line=bool(k % 2)), "impl": lib.clip(b["got"]), "expected": lib.clip(b["expected"])})
    out.judged += sum(r["done"] for r in res)


def transitions_in(zone, lo, hi):
    return [t for t, _ in tzif(zone)[1] if lo < t < hi]


ZONES_QUICK = ["UTC", "Asia/Jerusalem", "America/New_York", "Australia/Lord_Howe", "Asia/Kathmandu", "Pacific/Kiritimati",
               "Pacific/Pago_Pago", "America/St_Johns"]
ZONES_MORE = ["Europe/London", "Europe/Berlin", "Asia/Tokyo", "Asia/Kolkata", "Australia/Sydney", "America/Sao_Paulo", "Africa/Casablanca",
              "Pacific/Chatham", "America/Los_Angeles", "Asia/Tehran", "Atlantic/Azores", "Pacific/Apia"]


def interesting_instants(rnd, zone, n, lo=1_000_000_000, hi=2_100_000_000):
    tr = transitions_in(zone, lo, hi); out = []
    for _ in range(n):
        if tr and rnd.random() < .45: out.append(rnd.choice(tr) + rnd.randrange(-90000, 90000))
        else: out.append(rnd.randrange(lo, hi))
    return out
