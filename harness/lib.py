"""Shared machinery of the property checks: build, model runner, evidence, verdicts."""
import fcntl, hashlib, json, os, random, re, subprocess, sys, time

ROOT = os.path.dirname(os.path.dirname(os.path.abspath(__file__)))
COQ = os.path.join(ROOT, "coq")
BUILD = os.path.join(ROOT, "build")
REPO = os.environ.get("AS_REPO", "/repo")
REPO_SRC = os.environ.get("AS_SRC", os.path.join(REPO, "src"))
PY = sys.executable
PYFLAGS = (["-b"] if sys.flags.bytes_warning else []) + (["-O"] if sys.flags.optimize else [])          # the worker subprocesses run as this process does
MODEL = os.path.join(BUILD, "model")
ALLOWED_ASSUMPTIONS = re.compile(r"^(PrimInt63\.|PrimFloat\.|Uint63\.|Float64\.)")   # kernel primitives only
FORBIDDEN = re.compile(r"\b(Admitted|admit|Axiom|Axioms|Parameter|Parameters|Conjecture|Hypothesis|Hypotheses|Variable|Variables"
                       r"|Unset\s+Guard|bypass_check|Admit\s+Obligations|type-in-type|Unset\s+Universe\s+Checking"
                       r"|Unset\s+Positivity|Unset\s+Guard\s+Checking|native_compute)\b")
SECTION_OK = re.compile(r"\b(Variable|Variables|Hypothesis|Hypotheses)\b")
EXTRACT_DIRECTIVES = (
    "ExtrOcamlBasic: Extract Inductive bool => bool [true false]; option => option [Some None]; unit => unit [()]; "
    "list => list [[] (::)]; prod => (*) [(,)]; sumbool => bool [true false]; sumor => option [Some None]; "
    "Extract Inlined Constant andb/orb/negb/fst/snd => OCaml natives.  ExtrOCamlInt63: Uint63.int => Uint63.t and its "
    "operations (coq-core.kernel).  ExtrOCamlFloats: PrimFloat.float => Float64.t and its operations (coq-core.kernel).  "
    "No hand-written Extract directive; N, Z, positive, nat, string, ascii stay Coq datatypes.")


class BuildError(Exception):
    def __init__(self, what, log=""):
        super().__init__(what); self.what = what; self.log = log


def sh(cmd, cwd=None, timeout=3000, env=None):
    p = subprocess.run(cmd, cwd=cwd, shell=isinstance(cmd, str), capture_output=True, text=True, timeout=timeout, env=env)
    return p.returncode, p.stdout + p.stderr


def v_files():
    return sorted(os.path.join(dp, f) for dp, _, fs in os.walk(os.path.join(COQ, "theories")) for f in fs if f.endswith(".v"))


def audit_sources():
    """No axiom-declaring or check-disabling construct anywhere in the development (comments stripped).
    Variable/Hypothesis are allowed only between `Section` and `End` (they become premises of the theorems)."""
    for path in v_files():
        if "/Gen/" in path: continue
        txt = open(path).read()
        txt = re.sub(r"\(\*.*?\*\)", " ", txt, flags=re.S)
        txt = re.sub(r'"(?:[^"]|"")*"', '""', txt)
        depth = 0
        for sentence in re.split(r"\.\s", txt):
            s = sentence.strip()
            if re.match(r"Section\s+\w+", s): depth += 1
            elif re.match(r"End\s+\w+", s) and depth > 0: depth -= 1
            m = FORBIDDEN.search(s)
            if m and not (depth > 0 and SECTION_OK.fullmatch(m.group(1))):
                raise BuildError(f"forbidden construct {m.group(0)!r} in {os.path.relpath(path, ROOT)}")


TRANSLATOR_NOTES = []
def regenerate_constants():
    dest = os.path.join(COQ, "theories", "Gen", "Extracted.v")
    rc, out = sh([PY, os.path.join(ROOT, "harness", "extract_consts.py"), dest],
                 env=dict(os.environ, AS_SRC=REPO_SRC, PYTHONPATH=REPO_SRC, PYTHONHASHSEED="0"))
    TRANSLATOR_NOTES[:] = [l for l in out.split("\n") if l.startswith("UNTRANSLATED")]
    if rc != 0:
        raise BuildError("translator: harness/extract_consts.py could not regenerate Gen/Extracted.v from the sources "
                         "(the constants the model is built from are no longer what the translator understands): "
                         + " ".join(out.strip().split("\n")[-1:])[:300], out)


def ensure_makefile():
    mk = os.path.join(COQ, "Makefile")
    cp = os.path.join(COQ, "_CoqProject")
    if not os.path.exists(mk) or os.path.getmtime(mk) < os.path.getmtime(cp):
        rc, out = sh("coq_makefile -f _CoqProject -o Makefile", cwd=COQ)
        if rc != 0: raise BuildError("coq_makefile failed", out)


def make(target, timeout=2400):
    rc, out = sh(f"timeout {timeout} make -j16 {target}", cwd=COQ, timeout=timeout + 60)
    if rc != 0:
        m = re.search(r'File "\./([^"]+)", line (\d+), characters [\d-]+:\s*\nError:(.*?)(?:\n\n|\nmake|\Z)', out, re.S)
        where = f"{m.group(1)}:{m.group(2)}: {' '.join(m.group(3).split())[:240]}" if m else "make failed: " + " ".join(out.split())[-300:]
        raise BuildError(f"proof obligation no longer checks: {where}", out[-6000:])
    return out


def read_assumptions(prop_target, out):
    vfile = os.path.join(COQ, "theories", "Props", prop_target + ".v")
    src = open(vfile).read()
    names = re.findall(r"^(?:Theorem|Corollary)\s+(\w+)", src, re.M)
    printed = re.findall(r"^Print Assumptions\s+(\w+)", src, re.M)
    blocks = re.findall(r"(Closed under the global context|Axioms:\n(?:.+\n?)+?)(?=\n*(?:Closed under|Axioms:|\Z|COQC|COQDEP|make))", out)
    assumptions = {}
    for n, b in zip(printed, blocks):
        if b.startswith("Closed"): assumptions[n] = "closed under the global context"
        else:
            axs = [l.split(":")[0].strip() for l in b.split("\n")[1:] if ":" in l and not l.startswith(" ")]
            bad = [a for a in axs if not ALLOWED_ASSUMPTIONS.match(a)]
            if bad: raise BuildError(f"theorem {n} depends on axioms {bad}", b)
            assumptions[n] = "kernel primitives only: " + ", ".join(sorted(axs))
    if len(assumptions) != len(printed) or set(printed) != set(names):
        raise BuildError(f"Print Assumptions output of Props/{prop_target}.v incomplete "
                         f"({len(blocks)} blocks for {len(printed)} commands, {len(names)} theorems)", out[-3000:])
    return assumptions, names


def build_model():
    """(Re)build the extracted model binary when any input changed.  Raises BuildError."""
    srcs = [f for f in v_files() if "/Props/" not in f and "/Proofs/" not in f and "/Legacy/" not in f]
    srcs.append(os.path.join(ROOT, "ocaml", "driver.ml"))
    h = hashlib.sha256()
    for f in srcs: h.update(f.encode()); h.update(open(f, "rb").read())
    stamp = os.path.join(BUILD, ".model.sha")
    if os.path.exists(MODEL) and os.path.exists(stamp) and open(stamp).read() == h.hexdigest(): return
    make("theories/Extract/Entry.vo")
    tmp = os.path.join(BUILD, "extract"); os.makedirs(tmp, exist_ok=True)
    rc, out = sh(f"timeout 900 coqc -Q {COQ}/theories AS -o {tmp}/Extract.vo {COQ}/theories/Extract/Extract.v && cp {ROOT}/ocaml/driver.ml . && "
                 "timeout 900 ocamlfind ocamlopt -O2 -w -a -rectypes -thread -package coq-core.kernel -linkpkg model.mli model.ml driver.ml -o model.new",
                 cwd=tmp)
    if rc != 0 or not os.path.exists(os.path.join(tmp, "model.new")):
        raise BuildError("extraction / OCaml build of the model failed", out[-3000:])
    os.replace(os.path.join(tmp, "model.new"), MODEL)
    open(stamp, "w").write(h.hexdigest())


def build(prop_target):
    """Regenerate the constants from the sources, re-check the property's proof chain, rebuild the model binary.
    Returns (assumptions: {theorem: text}, obligations: [names], errors: [what broke])."""
    os.makedirs(BUILD, exist_ok=True)
    errors = []; assumptions = {}; names = []
    with open(os.path.join(BUILD, ".lock"), "w") as lock:
        fcntl.flock(lock, fcntl.LOCK_EX)
        try:
            audit_sources()
            regenerate_constants()
            ensure_makefile()
            vfile = os.path.join(COQ, "theories", "Props", prop_target + ".v")
            for ext in (".vo", ".vos", ".vok", ".glob"):      # always re-run the property file: Print Assumptions is read from it
                try: os.remove(vfile[:-2] + ext)
                except OSError: pass
            out = make(f"theories/Props/{prop_target}.vo")
            assumptions, names = read_assumptions(prop_target, out)
        except BuildError as e:
            errors.append(e.what); save_log("build-" + prop_target, e.log)
        try:
            build_model()
        except BuildError as e:
            errors.append("model: " + e.what); save_log("model-" + prop_target, e.log)
    return assumptions, names, errors


def save_log(name, text):
    os.makedirs(os.path.join(BUILD, "logs"), exist_ok=True)
    open(os.path.join(BUILD, "logs", name + ".log"), "w").write(text or "")


def run_model(lines, shards=16, per_shard=150):
    """Evaluate request lines with the extracted model; one decoded reply (text) each."""
    if not lines: return []
    if not os.path.exists(MODEL): raise BuildError("no model binary")
    n = min(shards, max(1, len(lines) // per_shard))
    parts = [lines[i::n] for i in range(n)]
    procs = []
    for part in parts:
        p = subprocess.Popen([MODEL], stdin=subprocess.PIPE, stdout=subprocess.PIPE, text=True)
        procs.append(p)
    import threading
    outs = [None] * n
    def feed(k):
        o, _ = procs[k].communicate("\n".join(parts[k]) + "\n", timeout=3000)
        outs[k] = o.split("\n")[:-1]
    ths = [threading.Thread(target=feed, args=(k,)) for k in range(n)]
    for t in ths: t.start()
    for t in ths: t.join()
    res = [None] * len(lines)
    for k in range(n):
        if outs[k] is None or len(outs[k]) != len(parts[k]):
            raise BuildError("model binary returned a wrong number of replies")
        res[k::n] = outs[k]
    bad = [(l, r) for l, r in zip(lines, res) if r.startswith("error")]
    if bad: raise BuildError("model binary rejected a request: " + bad[0][0][:200] + " -> " + bad[0][1])
    return [unhex_text(r) for r in res]


def unhex_text(r):
    """replies are `ok <hex of the model's own rendering>` / `true` / `false`"""
    if r.startswith("ok "): return bytes.fromhex(r[3:]).decode("utf-8", "surrogateescape")
    if r == "ok": return ""
    return r


def H(x):
    """argument encoding of the line protocol: hex of the UTF-8 bytes, '-' for empty"""
    if isinstance(x, str): x = x.encode("utf-8", "surrogatepass")
    return bytes(x).hex() or "-"


def A(x):
    """generic argument encoding: bytes/str -> hex, int/bool -> #n, list/tuple -> [a,b,...], None -> '-'"""
    if x is None: return "-"
    if isinstance(x, bool): return "#1" if x else "#0"
    if isinstance(x, int): return "#%d" % x
    if isinstance(x, (list, tuple)): return "[" + ",".join(A(y) for y in x) + "]"
    return H(x)


def req(fn, *args):
    return fn + " " + " ".join(A(a) for a in args) if args else fn


def load_known_findings(prop):
    path = os.path.join(ROOT, "known_findings.txt"); out = []
    if os.path.exists(path):
        for l in open(path):
            l = l.strip()
            if l.startswith("finding:") and f"property={prop} " in l + " ":
                m = re.search(r"match=(\S+)\s+(.*)", l)
                if m: out.append((re.compile(m.group(1)), m.group(2)))
    return out


class Outcome:
    """What one run of a property's streams produced."""
    def __init__(self):
        self.evaluations = 0; self.nontrivial = set(); self.samples = []; self.distribution = {}
        self.disagreements = []   # {describe, input, impl, model, stream}
        self.failing = []         # {describe, input, impl, expected, stream}
        self.streams = {}; self.exhaustive = False; self.notes = []; self.judged = 0
    def count(self, key, n=1): self.distribution[key] = self.distribution.get(key, 0) + n
    def stream(self, name, n): self.streams[name] = self.streams.get(name, 0) + n; self.evaluations += n


def differential(out, stream, cases, impl_out, model_out, expected, describe, nontrivial=None, sample=None, classify=None,
                 unspecified="-", impl_spec=None):
    """Compare implementation, model and Spec on one stream of cases.
    impl_out / model_out / expected are lists of canonical strings (views); expected may hold `unspecified`."""
    out.stream(stream, len(cases))
    for k, c in enumerate(cases):
        i = impl_out[k]; m = model_out[k] if model_out is not None else None; e = expected[k] if expected is not None else unspecified
        d = describe(c)
        if nontrivial is None or nontrivial(c): out.nontrivial.add(stream + ":" + d)
        if classify: out.count(classify(c, i))
        if m is not None and i != m and len(out.disagreements) < 50:
            out.disagreements.append({"stream": stream, "describe": d, "input": c, "impl": clip(i), "model": clip(m)})
        elif m is not None and i != m: out.disagreements.append(None)
        if e != unspecified: out.judged += 1
        j = impl_spec[k] if impl_spec is not None else i      # the projection the Spec speaks about, when it differs from the view
        if e != unspecified and j != e:
            if len(out.failing) < 50:
                out.failing.append({"stream": stream, "describe": d, "input": c, "impl": clip(j), "expected": clip(e)})
            else: out.failing.append(None)
        if sample is not None and len([s for s in out.samples if s.get("stream") == stream]) < 2:
            out.samples.append({"stream": stream, "case": clip(sample(c) if callable(sample) else c), "impl": clip(i)})


import logging
class FormattingSink(logging.Handler):
    """what a real handler does with a record and a discarding one does not: it renders the message (so objects handed to the logger are
    formatted: their __str__ / __repr__ run), then drops it; a formatting error is swallowed as logging does in production"""
    def emit(self, record):
        try: record.getMessage()
        except Exception: pass


SLOW = [0, 0.0]
def bounded(fn):
    """calls into the library that normally take microseconds: after three calls that took more than a second each, the remaining
    calls of the run are not made (their outcome says so) - a run over tens of thousands of cases must end"""
    import functools
    @functools.wraps(fn)
    def wrapper(*a, **k):
        if SLOW[0] >= 3: return "not run: three earlier calls took more than a second each (the last %.1f s)" % SLOW[1]
        t = time.time(); r = fn(*a, **k); dt = time.time() - t
        if dt > 1.0: SLOW[0] += 1; SLOW[1] = dt
        return r
    return wrapper


def ok(x):
    """the canonical text of a result: a result that is not the text it should be (None from a function that fell off its end) is shown as
    it is, not mistaken for a refusal by a TypeError inside the harness"""
    return "ok " + (x if isinstance(x, str) else repr(x))


def clip(x, n=400):
    if isinstance(x, str) and len(x) > n: return x[:n] + "...(%d chars)" % len(x)
    if isinstance(x, (list, tuple)): return [clip(y, n) for y in x][:40]
    if isinstance(x, dict): return {k: clip(v, n) for k, v in list(x.items())[:40]}
    if isinstance(x, bytes): return clip(x.hex(), n)
    return x


def jsonable(x):
    if isinstance(x, bytes): return {"hex": x.hex()}
    if isinstance(x, (list, tuple)): return [jsonable(y) for y in x]
    if isinstance(x, dict): return {str(k): jsonable(v) for k, v in x.items()}
    if isinstance(x, (str, int, float, bool)) or x is None: return x
    return repr(x)


def unjson(x):
    if isinstance(x, dict) and set(x) == {"hex"}: return bytes.fromhex(x["hex"])
    if isinstance(x, list): return [unjson(y) for y in x]
    if isinstance(x, dict): return {k: unjson(v) for k, v in x.items()}
    return x


def write_replay(prop, payload):
    os.makedirs(os.path.join(ROOT, "replays"), exist_ok=True)
    payload = jsonable(payload)
    h = hashlib.sha256(json.dumps(payload, sort_keys=True).encode()).hexdigest()[:12]
    path = os.path.join(ROOT, "replays", f"{prop}-{h}.json")
    if sys.flags.optimize: payload["interpreter"] = "python -b -O"          # found by the second pass (check.py): the replay re-executes itself under the same flags
    payload["replay_cmd"] = f"./check {prop} --replay {path}"
    json.dump(payload, open(path, "w"), indent=1, sort_keys=True)
    return path


def write_evidence(prop, tier, seed, t0, coverage, assumptions_note, violations):
    ev = {"property_id": prop, "tier": tier, "seed": seed, "level": "proof", "coverage": jsonable(coverage),
          "assumptions": assumptions_note, "wall_s": round(time.time() - t0, 2), "violations": violations}
    d = os.environ.get("VERIF_EVIDENCE_DIR") or os.path.join(ROOT, "evidence")     # seeding tools point this elsewhere: evidence/ describes the unchanged tree
    os.makedirs(d, exist_ok=True)
    tmp = os.path.join(d, prop + ".json.tmp")
    json.dump(ev, open(tmp, "w"), indent=1, sort_keys=True)
    os.replace(tmp, os.path.join(d, prop + ".json"))


def load_corpus(prop):
    """regression corpus: corpus/<prop>/*.json, each {"input": <case>, "note": ...}; runs first in every check"""
    d = os.path.join(ROOT, "corpus", prop); out = []
    if os.path.isdir(d):
        for f in sorted(os.listdir(d)):
            if f.endswith(".json"): out.append(unjson(json.load(open(os.path.join(d, f)))["input"]))
    return out
