"""Shared machinery of the property checks: build, model runner, evidence, verdicts."""
import fcntl, hashlib, json, os, random, re, subprocess, sys, time

ROOT = os.path.dirname(os.path.dirname(os.path.abspath(__file__)))
COQ = os.path.join(ROOT, "coq")
BUILD = os.path.join(ROOT, "build")
REPO_SRC = os.environ.get("AS_SRC", "/repo/src")
PY = sys.executable
MODEL = os.path.join(BUILD, "model")
ALLOWED_ASSUMPTIONS = re.compile(r"^(PrimInt63\.|PrimFloat\.|Uint63\.)")   # kernel primitives only
FORBIDDEN = re.compile(r"\b(Admitted|admit|Axiom|Parameter|Conjecture|Unset Guard|bypass_check)\b")

class BuildError(Exception):
    def __init__(self, what, log): super().__init__(what); self.what = what; self.log = log

def sh(cmd, cwd=None, timeout=1800, env=None):
    p = subprocess.run(cmd, cwd=cwd, shell=isinstance(cmd, str), capture_output=True, text=True, timeout=timeout, env=env)
    return p.returncode, p.stdout + p.stderr

def build(prop_target):
    """Regenerate the constants from the sources, re-check the property's proof chain, rebuild the model binary.
    Returns (assumptions: {theorem: text}, obligations: [names]).  Raises BuildError naming what broke."""
    os.makedirs(BUILD, exist_ok=True)
    with open(os.path.join(BUILD, ".lock"), "w") as lock:
        fcntl.flock(lock, fcntl.LOCK_EX)
        rc, out = sh([PY, os.path.join(ROOT, "harness", "extract_consts.py"), os.path.join(COQ, "theories", "Gen", "Extracted.v")],
                     env=dict(os.environ, AS_SRC=REPO_SRC, PYTHONHASHSEED="0"))
        if rc != 0: raise BuildError("translator: extract_consts.py failed (constants could not be regenerated)", out)
        if not os.path.exists(os.path.join(COQ, "Makefile")):
            rc, out = sh("coq_makefile -f _CoqProject -o Makefile", cwd=COQ)
            if rc != 0: raise BuildError("coq_makefile", out)
        # audit the sources of the development
        for dp, _, fs in os.walk(os.path.join(COQ, "theories")):
            for f in fs:
                if f.endswith(".v"):
                    txt = re.sub(r"\(\*.*?\*\)", "", open(os.path.join(dp, f)).read(), flags=re.S)
                    m = FORBIDDEN.search(txt)
                    if m: raise BuildError(f"forbidden construct {m.group(0)!r} in {f}", "")
        target = f"theories/Props/{prop_target}.vo"
        vfile = os.path.join(COQ, "theories", "Props", prop_target + ".v")
        os.utime(vfile)            # always re-run the property file itself so that Print Assumptions is captured
        rc, out = sh(f"timeout 1500 make -j16 {target}", cwd=COQ)
        if rc != 0:
            m = re.search(r'File "\./([^"]+)", line (\d+).*?\nError:(.*?)(?:\n\n|\Z)', out, re.S)
            where = f"{m.group(1)}:{m.group(2)}:{' '.join(m.group(3).split())[:200]}" if m else "make failed"
            raise BuildError(f"proof obligation no longer checks: {where}", out[-4000:])
        # Print Assumptions output, in order of the theorems of the property file
        names = re.findall(r"^Theorem\s+(\w+)", open(vfile).read(), re.M)
        printed = re.findall(r"^Print Assumptions\s+(\w+)", open(vfile).read(), re.M)
        blocks = re.findall(r"(Closed under the global context|Axioms:\n(?:.+\n?)+?)(?=\n*(?:Closed under|Axioms:|\Z|COQC|make))", out)
        assumptions = {}
        for n, b in zip(printed, blocks):
            if b.startswith("Closed"): assumptions[n] = "closed"
            else:
                axs = [l.split(":")[0].strip() for l in b.split("\n")[1:] if ":" in l and not l.startswith(" ")]
                bad = [a for a in axs if not ALLOWED_ASSUMPTIONS.match(a)]
                if bad: raise BuildError(f"theorem {n} depends on axioms {bad}", b)
                assumptions[n] = axs
        if len(assumptions) != len(printed):
            raise BuildError("could not read the Print Assumptions output of " + prop_target, out[-2000:])
        # model binary (rebuilt when any input changed)
        srcs = sorted(os.path.join(dp, f) for dp, _, fs in os.walk(os.path.join(COQ, "theories")) for f in fs if f.endswith(".v"))
        srcs.append(os.path.join(ROOT, "ocaml", "driver.ml"))
        h = hashlib.sha256()
        for f in srcs: h.update(open(f, "rb").read())
        stamp = os.path.join(BUILD, ".model.sha")
        if not (os.path.exists(MODEL) and os.path.exists(stamp) and open(stamp).read() == h.hexdigest()):
            rc, out = sh("timeout 600 make -j16 theories/Extract/Entry.vo", cwd=COQ)
            if rc != 0: raise BuildError("model no longer builds", out[-3000:])
            rc, out = sh(f"coqc -Q {COQ}/theories AS {COQ}/theories/Extract/Extract.v && cp {ROOT}/ocaml/driver.ml . && "
                         "ocamlfind ocamlopt -O2 -rectypes -thread -package coq-core.kernel -linkpkg model.mli model.ml driver.ml -o model",
                         cwd=BUILD)
            for ext in ("vo", "glob", "vok", "vos"):
                try: os.remove(os.path.join(COQ, "theories", "Extract", "Extract." + ext))
                except OSError: pass
            if rc != 0 or not os.path.exists(MODEL): raise BuildError("extraction / OCaml build failed", out[-3000:])
            open(stamp, "w").write(h.hexdigest())
        return assumptions, names

def run_model(lines, shards=16):
    """Evaluate request lines with the extracted model; one reply line each."""
    if not lines: return []
    n = min(shards, max(1, len(lines) // 200))
    parts = [lines[i::n] for i in range(n)]
    procs = [subprocess.Popen([MODEL], stdin=subprocess.PIPE, stdout=subprocess.PIPE, text=True) for _ in parts]
    outs = []
    for p, part in zip(procs, parts):
        o, _ = p.communicate("\n".join(part) + "\n", timeout=1500)
        o = o.split("\n")[:-1]
        if len(o) != len(part): raise BuildError("model binary returned a wrong number of replies", "")
        outs.append(o)
    res = [None] * len(lines)
    for k, o in enumerate(outs): res[k::n] = o
    return res

def H(x): return (x.encode().hex() if isinstance(x, str) else bytes(x).hex()) or "-"

def load_known_findings(prop):
    path = os.path.join(ROOT, "known_findings.txt"); out = []
    if os.path.exists(path):
        for l in open(path):
            l = l.strip()
            if l.startswith("finding:") and f"property={prop} " in l + " ":
                m = re.search(r"match=(\S+)\s+(.*)", l)
                if m: out.append((re.compile(m.group(1)), m.group(2)))
    return out

def finish(prop, tier, seed, t0, coverage, assumptions_note, violations, replay=None, unproved=None):
    ev = {"property_id": prop, "tier": tier, "seed": seed, "level": "proof", "coverage": coverage,
          "assumptions": assumptions_note, "wall_s": round(time.time() - t0, 2), "violations": violations}
    os.makedirs(os.path.join(ROOT, "evidence"), exist_ok=True)
    json.dump(ev, open(os.path.join(ROOT, "evidence", prop + ".json"), "w"), indent=1, sort_keys=True)
    if violations:
        print(f"VIOLATION property={prop} replay={replay}" + (" no-failing-input-found" if unproved else ""))
        sys.exit(1)
    print(f"{prop} {tier}: held on everything explored ({coverage.get('evaluations', 0)} cases, "
          f"{coverage.get('discharged', 0)}/{coverage.get('obligations', 0)} obligations)")
    sys.exit(0)

def write_replay(prop, payload):
    os.makedirs(os.path.join(ROOT, "replays"), exist_ok=True)
    h = hashlib.sha256(json.dumps(payload, sort_keys=True).encode()).hexdigest()[:12]
    path = os.path.join(ROOT, "replays", f"{prop}-{h}.json")
    json.dump(payload, open(path, "w"), indent=1, sort_keys=True)
    return path
