import sys, os, random, subprocess, time, warnings, collections
sys.path.insert(0, "/repo/src")
from aioswitcher.bridge import _parse_device_from_datagram
from aioswitcher.device import *
MODEL="/root/scratch/pipeline/build/model"
def run_model(lines):
    p=subprocess.run([MODEL], input="\n".join(lines)+"\n", capture_output=True, text=True, check=True)
    out=p.stdout.split("\n")[:-1]; assert len(out)==len(lines); return out
def show(dev):
    b=lambda x: "1" if x==DeviceState.ON else "0"
    common=[dev.device_id, dev.device_key, dev.ip_address, dev.mac_address, dev.name.encode().hex()]
    t=dev.device_type.name
    if isinstance(dev, SwitcherWaterHeater): f=["WH",t,b(dev.device_state)]+common+[str(dev.power_consumption), str(round(dev.electric_current*10)), dev.remaining_time, dev.auto_shutdown]
    elif isinstance(dev, SwitcherPowerPlug): f=["PP",t,b(dev.device_state)]+common+[str(dev.power_consumption), str(round(dev.electric_current*10))]
    elif isinstance(dev, SwitcherShutter): f=["SH",t]+common+[str(dev.position), dev.direction.name]
    else: f=["TH",t,b(dev.device_state)]+common+[dev.mode.name, str(round(dev.temperature*10)), str(dev.target_temperature), dev.fan_level.name, "1" if dev.swing==ThermostatSwing.ON else "0", dev.remote_id.encode().hex()]
    return "".join(x+"|" for x in f)
def impl(d):
    out=[]
    with warnings.catch_warnings(record=True) as w:
        warnings.simplefilter("always")
        try: _parse_device_from_datagram(out.append, d)
        except Exception as e: return "raised"
    if w: return "warned"
    if not out: return "ignored"
    assert len(out)==1
    return show(out[0])
rnd=random.Random(int(os.environ.get("VERIF_SEED","1")))
caps=[bytes.fromhex(open(os.path.join(dp,f)).read().strip()) for dp,_,fs in os.walk("/repo/tests/testresources") for f in fs if ("datagram" in f or "bridge" in f) and f.endswith(".txt")]
caps=[c for c in caps if len(c) in (159,165,168)]
types=[bytes.fromhex(t.hex_rep) for t in DeviceType]
cases=[]
N=int(sys.argv[1]) if len(sys.argv)>1 else 20000
for _ in range(N):
    c=bytearray(rnd.choice(caps)); k=rnd.random()
    if k<0.55:   # structured: random valid-ish fields everywhere
        L=rnd.choice([159,165,168]) if rnd.random()<0.3 else len(c)
        c=bytearray(rnd.randrange(256) for _ in range(L)); c[0:2]=b"\xfe\xf0"
        c[74:76]=rnd.choice(types) if rnd.random()<0.95 else bytes([rnd.randrange(256),rnd.randrange(256)])
        nm="".join(rnd.choice("abcXYZ 09אבגéü😀") for _ in range(rnd.randrange(1,12))).encode()[:32]
        if rnd.random()<0.9:
            try: nm.decode(); c[42:74]=nm+b"\0"*(32-len(nm))
            except UnicodeDecodeError: pass
        c[133]=rnd.choice([0,1,1,2]); c[137]=rnd.choice([0,1,1,2]) if rnd.random()<0.7 else c[137]
        if rnd.random()<0.8: c[147:151]=rnd.randrange(90000).to_bytes(4,"little"); c[155:159]=rnd.randrange(90000).to_bytes(4,"little")
        if rnd.random()<0.8: c[135]=rnd.randrange(101); c[136]=rnd.choice([0,0,0,9,10,0x10]); c[137:139]=rnd.choice([b"\0\0",b"\1\0",b"\0\1",b"\1\1"]) if rnd.random()<0.5 else c[137:139]
        if rnd.random()<0.8: c[138]=rnd.randrange(8); c[140]=(rnd.randrange(5)<<4)|rnd.randrange(3); c[143:151]=bytes(rnd.choice(b"ABCELZ0123456789") for _ in range(8))
    elif k<0.75:  # bit flips / byte mutations of captures
        for _ in range(rnd.randrange(1,6)): c[rnd.randrange(len(c))]=rnd.randrange(256)
    elif k<0.9:   # truncation / extension / wrong magic
        m=rnd.choice(["trunc","ext","magic","empty","len"])
        if m=="trunc": c=c[:rnd.randrange(len(c))]
        elif m=="ext": c+=bytes(rnd.randrange(256) for _ in range(rnd.randrange(1,4)))
        elif m=="magic": c[rnd.randrange(2)]^=1<<rnd.randrange(8)
        elif m=="empty": c=bytearray()
        else: c=bytearray(b"\xfe\xf0"+bytes(rnd.randrange(256) for _ in range(rnd.randrange(0,400))))
    else: c=bytearray(rnd.randrange(256) for _ in range(rnd.randrange(0,200)))
    cases.append(bytes(c))
cases+=caps
t0=time.time(); io=[impl(c) for c in cases]; t1=time.time()
mo=[bytes.fromhex(l[3:]).decode() for l in run_model(["bcast 1 1 h:"+c.hex() for c in cases])]; t2=time.time()
dis=[(c.hex(),i,m) for c,i,m in zip(cases,io,mo) if i!=m]
kinds=collections.Counter(x.split("|")[0] if "|" in x else x for x in mo)
print(f"cases={len(cases)} impl={t1-t0:.2f}s model={t2-t1:.2f}s disagreements={len(dis)} kinds={dict(kinds)}")
for d in dis[:5]: print(d)
