(* Generic line protocol between the harness and the extracted model.
   request : <function> <arg> <arg> ...          (one per line, blank separated)
   arg     : <hex digits>   bytes        |  -          empty bytes
           | #<decimal>     integer (Z)  |  [a,b,...]  list (nestable, [] empty)
   reply   : ok <hex of the bytes the Coq function [Entry.dispatch] returned>  |  error bad-request
   All interpretation of requests and all rendering of results is done in Coq (Extract/Entry.v);
   this file only converts between text and the Coq datatypes N, Z, list. *)
module M = Model

let rec pos_of_int n = if n = 1 then M.XH else if n land 1 = 0 then M.XO (pos_of_int (n lsr 1)) else M.XI (pos_of_int (n lsr 1))
let n_of_int n = if n = 0 then M.N0 else M.Npos (pos_of_int n)
let rec int_of_pos = function M.XH -> 1 | M.XO p -> 2 * int_of_pos p | M.XI p -> 2 * int_of_pos p + 1
let int_of_n = function M.N0 -> 0 | M.Npos p -> int_of_pos p
let z_of_int n = if n = 0 then M.Z0 else if n > 0 then M.Zpos (pos_of_int n) else M.Zneg (pos_of_int (-n))

let hexval c = match c with
  | '0'..'9' -> Char.code c - 48 | 'a'..'f' -> Char.code c - 87 | 'A'..'F' -> Char.code c - 55
  | _ -> failwith "hex"
let bytes_of_hex (s : string) : M.n list =
  if String.length s mod 2 <> 0 then failwith "odd hex";
  List.init (String.length s / 2) (fun i -> n_of_int (16 * hexval s.[2*i] + hexval s.[2*i+1]))
let hex_of_bytes (l : M.n list) : string =
  let b = Buffer.create 256 in
  List.iter (fun x -> Buffer.add_string b (Printf.sprintf "%02x" (int_of_n x land 255))) l; Buffer.contents b

(* recursive-descent parser of one argument starting at position i; returns (arg, next position) *)
let rec parse_arg (s : string) (i : int) : M.arg * int =
  let n = String.length s in
  if i < n && s.[i] = '[' then begin
    if i + 1 < n && s.[i+1] = ']' then (M.AL [], i + 2) else
    let rec items j acc =
      let (a, j') = parse_arg s j in
      if j' < n && s.[j'] = ',' then items (j' + 1) (a :: acc)
      else if j' < n && s.[j'] = ']' then (M.AL (List.rev (a :: acc)), j' + 1)
      else failwith "list" in
    items (i + 1) []
  end else begin
    let j = ref i in
    while !j < n && s.[!j] <> ',' && s.[!j] <> ']' do incr j done;
    let tok = String.sub s i (!j - i) in
    if tok = "-" then (M.AB [], !j)
    else if tok <> "" && tok.[0] = '#' then (M.AZ (z_of_int (int_of_string (String.sub tok 1 (String.length tok - 1)))), !j)
    else (M.AB (bytes_of_hex tok), !j)
  end

let handle line =
  match List.filter (fun s -> s <> "") (String.split_on_char ' ' line) with
  | [] -> "error empty"
  | fn :: args ->
    (try
      let args = List.map (fun a -> let (v, j) = parse_arg a 0 in if j <> String.length a then failwith "trailing" else v) args in
      let name = List.init (String.length fn) (fun i -> n_of_int (Char.code fn.[i])) in
      (match M.dispatch name args with
       | Some out -> "ok " ^ hex_of_bytes out
       | None -> "error bad-request")
    with Failure m -> "error parse " ^ m | Not_found -> "error parse" | Invalid_argument m -> "error parse " ^ m)

let () =
  try while true do print_endline (handle (input_line stdin)) done with End_of_file -> ()
