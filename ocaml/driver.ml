(* line protocol: <fn> <arg>...   args: h:<hex bytes>  n:<decimal>  ; output one line *)
module M = Model
let rec pos_of_int n = if n = 1 then M.XH else if n land 1 = 0 then M.XO (pos_of_int (n lsr 1)) else M.XI (pos_of_int (n lsr 1))
let n_of_int n = if n = 0 then M.N0 else M.Npos (pos_of_int n)
let rec int_of_pos = function M.XH -> 1 | M.XO p -> 2 * int_of_pos p | M.XI p -> 2 * int_of_pos p + 1
let int_of_n = function M.N0 -> 0 | M.Npos p -> int_of_pos p
let bytes_of_hex (s : string) : M.n list =
  let l = String.length s / 2 in
  List.init l (fun i -> n_of_int (int_of_string ("0x" ^ String.sub s (2*i) 2)))
let hex_of_bytes (l : M.n list) : string =
  String.concat "" (List.map (fun b -> Printf.sprintf "%02x" (int_of_n b)) l)
let exn_name = function
  | M.ValueError -> "ValueError" | M.KeyError -> "KeyError" | M.IndexError -> "IndexError"
  | M.RuntimeError -> "RuntimeError" | M.StructError -> "StructError" | M.BinasciiError -> "BinasciiError"
  | M.UnicodeDecodeError -> "UnicodeDecodeError" | M.OverflowError -> "OverflowError"
  | M.TypeError -> "TypeError" | M.OSError -> "OSError"
let z_of_int n = if n = 0 then M.Z0 else if n > 0 then M.Zpos (pos_of_int n) else M.Zneg (pos_of_int (-n))
let split c s = if s = "" || s = "-" then [] else String.split_on_char c s
let waves_of s = List.map (fun w -> match String.split_on_char ':' w with
  | [k; p; h] -> (bytes_of_hex k, (bytes_of_hex p, bytes_of_hex h)) | _ -> failwith "wave") (split ',' s)
let opt_name s = if s = "-" then [] else bytes_of_hex s
let tri s = n_of_int (match s with "-" -> 0 | "0" -> 1 | _ -> 2)
let arg_bytes a = bytes_of_hex (String.sub a 2 (String.length a - 2))
let res_bytes = function M.Ok b -> "ok " ^ hex_of_bytes b | M.Exc e -> "exc " ^ exn_name e
let dispatch = function
  | ["sign"; p] -> res_bytes (M.sign_packet_with_crc_key (arg_bytes p))
  | ["bcast"; lm; lt; m] -> "ok " ^ hex_of_bytes (M.parse_datagram_show (lm = "1") (lt = "1") (arg_bytes m))
  | ["calc_duration"; a; b] -> res_bytes (M.calc_duration (arg_bytes a) (arg_bytes b))
  | ["breeze"; lg; devid; key; now; rid; onoff; waves; st; md; tg; fn; sw; up; reps] ->
      "ok " ^ hex_of_bytes (M.entry_breeze (lg = "1") (bytes_of_hex devid) (bytes_of_hex key) (n_of_int (int_of_string now))
        (bytes_of_hex rid) (z_of_int (int_of_string onoff)) (waves_of waves) (tri st) (opt_name md) (z_of_int (int_of_string tg))
        (opt_name fn) (tri sw) (up = "1") (List.map bytes_of_hex (split ',' reps)))
  | ["op"; lg; op; devid; key; now; a; b; z1; z2; days; reps] ->
      "ok " ^ hex_of_bytes (M.entry_op (lg = "1") (n_of_int (int_of_string op)) (bytes_of_hex devid) (bytes_of_hex key)
        (n_of_int (int_of_string now)) (opt_name a) (opt_name b) (z_of_int (int_of_string z1)) (z_of_int (int_of_string z2))
        (List.map (fun d -> n_of_int (int_of_string d)) (split ',' days)) (List.map bytes_of_hex (split ',' reps)))
  | ["sched"; lu; ln; zd; trans; now; msg] ->
      let tr = List.map (fun x -> match String.split_on_char ':' x with [a; b] -> (z_of_int (int_of_string a), z_of_int (int_of_string b)) | _ -> failwith "trans") (split ',' trans) in
      "ok " ^ hex_of_bytes (M.entry_schedules (lu = "1") (ln = "1") (z_of_int (int_of_string zd)) tr (z_of_int (int_of_string now)) (arg_bytes msg))
  | ["bridge"; lg; ports; acts] ->
      let ps = List.map (fun x -> n_of_int (int_of_string x)) (split ',' ports) in
      let ac = List.map (fun x -> match String.split_on_char ':' x with [a; b] -> (n_of_int (int_of_string a), n_of_int (int_of_string b)) | _ -> failwith "act") (split ',' acts) in
      "ok " ^ hex_of_bytes (M.entry_bridge (lg = "1") ps ac)
  | ["client"; acts] ->
      let ac = List.map (fun x -> match String.split_on_char ':' x with [a; b] -> (n_of_int (int_of_string a), n_of_int (int_of_string b)) | _ -> failwith "act") (split ',' acts) in
      "ok " ^ hex_of_bytes (M.entry_client ac)
  | ["caps"; rid; onoff; waves] -> "ok " ^ hex_of_bytes (M.entry_caps (bytes_of_hex rid) (z_of_int (int_of_string onoff)) (waves_of waves))
  | ["check_duration"; a; b; o] -> if M.check_duration (arg_bytes a) (arg_bytes b) (arg_bytes o) then "true" else "false"
  | ["check_sign_rejects"; p] -> (match M.unhexlify (arg_bytes p) with None -> "true" | Some _ -> "false")
  | ["check_sign"; p; o] -> if M.check_sign (arg_bytes p) (arg_bytes o) then "true" else "false"
  | _ -> "error bad-request"
let () =
  try while true do
    let line = input_line stdin in
    let parts = List.filter (fun s -> s <> "") (String.split_on_char ' ' line) in
    print_endline (dispatch parts)
  done with End_of_file -> ()
