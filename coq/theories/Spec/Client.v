(* C18: the property's own reading of a history of the TCP client, independent of the model's socket bookkeeping *)
Require Import AS.Base.Prelude AS.Model.Lifecycle.

(* connected exactly between a successful connect and the next disconnect; leaving an async context is a disconnect;
   a refused connect and an operation (successful or failing) change nothing *)
Definition spec_connected_step (c : bool) (a : caction) : bool :=
  match a with
  | CConnect l => if l then true else c
  | CDisconnect => false
  | COperation _ => c
  | CWith l _ => if l then false else c
  end.
Definition spec_connected (acts : list caction) : bool := fold_left spec_connected_step acts false.

(* connections the device accepted over the history *)
Definition accepted (a : caction) : nat :=
  match a with CConnect l => if l then 1 else 0 | CWith l _ => if l then 1 else 0 | _ => 0 end.
Definition spec_accepted (acts : list caction) : nat := fold_left (fun n a => n + accepted a) acts 0.
