(* C17: the property's own reading of a bridge's history - two facts are remembered: is it running, and which ports a foreign
   socket holds.  Independent of the model's transports and OS table. *)
Require Import AS.Base.Prelude AS.Model.Lifecycle.

Record astate := { a_run : bool; a_foreign : nat -> bool }.
Definition a_init : astate := {| a_run := false; a_foreign := fun _ => false |}.
Definition mem (p : nat) (ports : list nat) : bool := existsb (Nat.eqb p) ports.
Definition a_set (f : nat -> bool) (p : nat) (v : bool) : nat -> bool := fun q => if Nat.eqb q p then v else f q.

Definition a_step (ports : list nat) (s : astate) (a : action) : astate * obs :=
  match a with
  | AStart =>
      (* start raises, and changes nothing, when the bridge is running already or a configured port is taken; otherwise it runs *)
      if (a_run s || existsb (a_foreign s) ports)%bool then (s, ORaised)
      else ({| a_run := true; a_foreign := a_foreign s |}, OStarted)
  | AStop => ({| a_run := false; a_foreign := a_foreign s |}, ONone)          (* safe at any time, repeated or before start *)
  | AOccupy p =>
      (* a foreign socket gets a port unless the running bridge (or another foreign socket) has it *)
      if ((a_run s && mem p ports) || a_foreign s p)%bool then (s, ONone)
      else ({| a_run := a_run s; a_foreign := a_set (a_foreign s) p true |}, ONone)
  | ARelease p => ({| a_run := a_run s; a_foreign := a_set (a_foreign s) p false |}, ONone)
  | ASend p => (s, if (a_run s && mem p ports)%bool then ODelivered else ODropped)
  end.

(* who holds port p according to the history *)
Definition a_owner (ports : list nat) (s : astate) (p : nat) : owner :=
  if (a_run s && mem p ports)%bool then Bridge else if a_foreign s p then Foreign else Free.

Fixpoint a_trace (ports : list nat) (s : astate) (acts : list action) : astate * list obs :=
  match acts with
  | [] => (s, [])
  | a :: rest => let '(s1, o) := a_step ports s a in let '(s2, os) := a_trace ports s1 rest in (s2, o :: os)
  end.
