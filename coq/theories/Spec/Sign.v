(* Spec of the signing scheme: double CRC-16/CCITT, bit-serial definition *)
Require Import AS.Base.Prelude AS.Base.Hex AS.Base.Crc.
Open Scope N_scope.

Definition crc16 (bs : bytes) : N := crc_spec 4129 bs.
Definition key_block (c : N) : bytes := le16 c ++ repeat 48 32.
Definition sig (bs : bytes) : bytes := le16 (crc16 bs) ++ le16 (crc16 (key_block (crc16 bs))).

(* checker used on implementation output: out = p ++ hexlify (sig (unhex p)) *)
Definition list_eqb (a b : bytes) : bool :=
  (length a =? length b)%nat && forallb (fun '(x, y) => N.eqb x y) (combine a b).
Definition check_sign (p out : bytes) : bool :=
  match unhexlify p with
  | None => false
  | Some bs => list_eqb out (p ++ hexlify (sig bs))
  end.
