(* Spec checkers for C19 over the regenerated tables *)
Require Import AS.Base.Prelude AS.Base.Hex AS.Gen.Extracted.
Local Open Scope string_scope.
Open Scope N_scope.

Definition dt_name (t : string * string * string * N * string) := let '(n, _, _, _, _) := t in n.
Definition dt_hex  (t : string * string * string * N * string) := let '(_, _, h, _, _) := t in h.
Definition dt_proto (t : string * string * string * N * string) := let '(_, _, _, p, _) := t in p.
Definition dt_cat  (t : string * string * string * N * string) := let '(_, _, _, _, c) := t in c.

Fixpoint nodup_str (l : list string) : bool :=
  match l with [] => true | x :: r => negb (existsb (String.eqb x) r) && nodup_str r end.
Fixpoint assoc {B} (k : string) (l : list (string * B)) : option B :=
  match l with [] => None | (k', v) :: r => if String.eqb k k' then Some v else assoc k r end.

Definition class_category (cls : string) : option string :=
  assoc cls [("SwitcherPowerPlug", "POWER_PLUG"); ("SwitcherWaterHeater", "WATER_HEATER");
             ("SwitcherThermostat", "THERMOSTAT"); ("SwitcherShutter", "SHUTTER")].

Definition hex4 (s : string) : bool :=
  let l := s2l s in (length l =? 4)%nat && forallb is_hexchar l.

Definition types_ok : bool :=
  nodup_str (map dt_hex device_types) && nodup_str (map dt_name device_types) &&
  forallb (fun t => hex4 (dt_hex t) && ((dt_proto t =? 1) || (dt_proto t =? 2)) &&
                    existsb (String.eqb (dt_cat t)) device_categories) device_types.

Definition ports_ok : bool :=
  forallb (fun t =>
    match assoc (dt_cat t) tcp_port_of_category, assoc (dt_cat t) udp_port_of_category with
    | Some tp, Some up =>
        if dt_proto t =? 1 then (tp =? 9957) && (up =? 20002) else (tp =? 10000) && (up =? 20003)
    | _, _ => false
    end) device_types
  && forallb (fun c => match assoc c tcp_port_of_category, assoc c udp_port_of_category with
                       | Some _, Some _ => true | _, _ => false end) device_categories.

Definition class_table_ok (tbl : list (string * string * bool)) : bool :=
  (length tbl =? 4 * length device_types)%nat &&
  forallb (fun '(cls, ty, acc) =>
    match class_category cls, find (fun t => String.eqb (dt_name t) ty) device_types with
    | Some cc, Some t => Bool.eqb acc (String.eqb (dt_cat t) cc)
    | _, _ => false
    end) tbl &&
  forallb (fun cls => forallb (fun t =>
      existsb (fun '(c, ty, _) => String.eqb c cls && String.eqb ty (dt_name t)) tbl) device_types)
    ["SwitcherPowerPlug"; "SwitcherWaterHeater"; "SwitcherThermostat"; "SwitcherShutter"].

(* class_accepts: the constructor accepted the type under every variation of the other fields tried by the translator;
   class_accepts_some: under at least one.  Both must be the category relation, so acceptance cannot depend on another field. *)
Definition classes_ok : bool := class_table_ok class_accepts && class_table_ok class_accepts_some.
