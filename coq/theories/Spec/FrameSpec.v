(* Spec of C02 / C03 / C16: the exact bytes each operation must put on the wire, built from the independent
   layouts of Spec/FrameLayout.v, the declarative meaning of each argument, and the signature of Spec/Sign.v.
   Definitions only; nothing here mentions api/packets.py or the encoders of the model. *)
Require Import AS.Base.Prelude AS.Base.Hex AS.Base.Dec AS.Base.Template AS.Base.Utf8 AS.Gen.Extracted
  AS.Spec.FrameLayout AS.Spec.Sign AS.Spec.Frame AS.Spec.Encoders.
Open Scope N_scope.

(* render a layout: every argument is given as bytes and spelled in hex; SX arguments are one byte *)
Definition arg_of_bytes (b : bytes) : farg := AStr (hexlify b).
Definition render_layout (l : list sfield) (args : list farg) : option bytes :=
  match format (spec_template l) args with
  | Ok hex => unhexlify hex
  | Exc _ => None
  end.
(* total length in bytes 2-3, then the signature *)
Definition seal (body : bytes) : bytes :=
  let n := N.of_nat (length body + 4) in
  let b := firstn 2 body ++ le16 n ++ skipn 4 body in
  b ++ sig b.

Definition hdr_args (session : bytes) (now : N) (id : bytes) : list farg :=
  [arg_of_bytes session; arg_of_bytes (le32 now); arg_of_bytes id].

Inductive verdict := Frame (bs : bytes) | MustRaise | Unspecified.

Definition frame_of (l : list sfield) (args : list farg) : verdict :=
  match render_layout l args with Some b => Frame (seal b) | None => Unspecified end.

(* login frames: (timestamp, credential) *)
Definition spec_login (type2 : bool) (id key : bytes) (now : N) : verdict :=
  if type2 then frame_of L_login2 [arg_of_bytes (le32 now); arg_of_bytes id]
  else frame_of L_login1 [arg_of_bytes (le32 now); arg_of_bytes key].

Definition nibble (c : N) : farg := AStr [c].     (* a single hex character argument *)

(* number of code points of valid UTF-8 *)
Definition cp_len (s : bytes) : nat := length (filter (fun b => negb (cont b)) s).

Definition spec_control (h : list farg) (on : bool) (minutes : Z) : verdict :=
  let secs := if (0 <? minutes)%Z then Z.to_N minutes * 60 else 0 in
  if 4294967296 <=? secs then MustRaise
  else frame_of L_control (h ++ [nibble (if on then 49 else 48); arg_of_bytes (le32 secs)]).

Definition spec_auto_shutdown (h : list farg) (S : Z) : verdict :=
  if ((3600 <=? S) && (S <=? 86399))%Z then frame_of L_auto_off (h ++ [arg_of_bytes (le32 (Z.to_N (S / 60 * 60)))])
  else MustRaise.

Definition spec_set_name (h : list farg) (name : bytes) : verdict :=
  if negb (utf8_valid name) then Unspecified
  else if (32 <? length name)%nat then MustRaise
  else if (2 <=? cp_len name)%nat then frame_of L_set_name (h ++ [arg_of_bytes (pad0 32 name)])
  else if (length name <? 2)%nat then MustRaise       (* empty or one ASCII character *)
  else Unspecified.                                   (* a single multi-byte character *)

Definition spec_delete (h : list farg) (slot : bytes) : verdict :=
  match slot with
  | [c] => if (48 <=? c) && (c <=? 55) then frame_of L_delete (h ++ [nibble c]) else Unspecified
  | _ => Unspecified
  end.

(* clock strings: 1-2 ASCII digits ':' 1-2 ASCII digits, h < 24, m < 60 *)
Definition digits2 (s : bytes) : option N :=
  match s with
  | [a] => if is_digit a then Some (dval a) else None
  | [a; b] => if is_digit a && is_digit b then Some (10 * dval a + dval b) else None
  | _ => None
  end.
Fixpoint split_at_colon (s acc : bytes) : option (bytes * bytes) :=
  match s with [] => None | c :: r => if c =? 58 then Some (rev acc, r) else split_at_colon r (c :: acc) end.
Definition clock_minutes (s : bytes) : option N :=
  match split_at_colon s [] with
  | Some (a, b) => match digits2 a, digits2 b with
                   | Some h, Some m => if (h <? 24) && (m <? 60) then Some (60 * h + m) else None
                   | _, _ => None end
  | None => None
  end.

Fixpoint nodup_nat (l : list nat) : bool :=
  match l with [] => true | x :: r => negb (existsb (Nat.eqb x) r) && nodup_nat r end.
Definition day_bit (d : nat) : N := match nth_error days d with Some (_, _, _, b, _) => b | None => 0 end.
Definition mask_of (l : list nat) : N := fold_right (fun d a => day_bit d + a) 0 l.

(* create_schedule under a zone without transitions today: day_base = epoch second of local midnight *)
Definition spec_create (h : list farg) (day_base : Z) (st en : bytes) (days_ : list nat) : verdict :=
  match clock_minutes st, clock_minutes en with
  | Some s, Some e =>
      if negb (nodup_nat days_) then MustRaise else
      let ts := (day_base + Z.of_N (60 * s))%Z in let te := (day_base + Z.of_N (60 * e))%Z in
      if ((0 <=? ts) && (ts <? 4294967296) && (0 <=? te) && (te <? 4294967296))%Z then
        match render_layout L_schedule_record
                [arg_of_bytes [mask_of days_]; arg_of_bytes (le32 (Z.to_N ts)); arg_of_bytes (le32 (Z.to_N te))] with
        | Some rec => frame_of L_create (h ++ [arg_of_bytes rec])
        | None => Unspecified
        end
      else MustRaise
  | _, _ => MustRaise
  end.

Definition spec_set_position (h : list farg) (p : N) : verdict :=
  if p <=? 100 then frame_of L_set_position (h ++ [arg_of_bytes [p]]) else Unspecified.

(* thermostat status frame: state, mode, target, fan nibble, swing nibble *)
Definition spec_breeze_status (h : list farg) (on : bool) (mode target fan : N) (swing : bool) : verdict :=
  frame_of L_breeze_status (h ++ [arg_of_bytes [if on then 1 else 0]; arg_of_bytes [mode]; AInt target;
                                  nibble (hexdigit fan); nibble (if swing then 49 else 48)]).
(* thermostat IR frame: payload = 00 00 00 00 ++ text, preceded by its LE16 byte count *)
Definition spec_breeze_command (h : list farg) (text : bytes) : verdict :=
  let payload := [0; 0; 0; 0] ++ text in
  if 65536 <=? N.of_nat (length payload) then Unspecified
  else frame_of L_breeze_command (h ++ [arg_of_bytes (le16 (N.of_nat (length payload))); arg_of_bytes payload]).

Definition show_verdict (v : verdict) : bytes :=
  match v with Frame b => s2l "frame:" ++ hexlify b | MustRaise => s2l "raise" | Unspecified => s2l "-" end.

(* C03: shape of one operation's exchange, checked on the frames the implementation wrote *)
Definition c03_check (type2 : bool) (id key : bytes) (now : N) (reply0 : bytes) (minc maxc : nat) (frames : list bytes) : bytes :=
  match frames with
  | [] => s2l "no login frame"
  | lg :: cmds =>
      match spec_login type2 id key now with
      | Frame want =>
          (* length field and signature are C01's: the login frame is compared on bytes 4 .. |frame| - 4 *)
          if negb (bytes_eqb (pyslice 4 (length want - 4) lg) (pyslice 4 (length want - 4) want))
          then s2l "first frame is not the login frame of this API for this clock reading"
          else if negb ((minc <=? length cmds) && (length cmds <=? maxc))%nat then s2l "wrong number of command frames"
          else if negb (forallb (fun f => bytes_eqb (pyslice 8 12 f) (pyslice 8 12 reply0)) cmds)
               then s2l "a command frame does not carry the session id of this login reply"
          else if negb (forallb (fun f => bytes_eqb (pyslice 24 28 f) (le32 now)) cmds)
               then s2l "a command frame does not carry the timestamp of this operation"
          else if negb (forallb (fun f => bytes_eqb (pyslice 40 43 f) id) cmds)
               then s2l "a command frame does not carry the configured device id"
          else s2l "ok"
      | _ => s2l "-"
      end
  end.
