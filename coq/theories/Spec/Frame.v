(* Spec of a well-formed written frame (C01) *)
Require Import AS.Base.Prelude AS.Base.Hex AS.Base.Crc AS.Spec.Sign.
Open Scope N_scope.

Definition bytes_eqb (a b : bytes) : bool :=
  (length a =? length b)%nat && forallb (fun '(x, y) => N.eqb x y) (combine a b).

(* bs = the whole byte string handed to writer.write *)
Definition frame_okb (bs : bytes) : bool :=
  let n := length bs in
  (44 <=? n)%nat &&
  bytes_eqb (pyslice 0 2 bs) [254; 240] &&
  bytes_eqb (pyslice 2 4 bs) (le16 (N.of_nat n)) &&
  bytes_eqb (pyslice 38 40 bs) [240; 254] &&
  bytes_eqb (pyslice (n - 4) n bs) (sig (pyslice 0 (n - 4) bs)).
