(* Spec of the key choice (C15): the most specific stored key, else the bare first part *)
Require Import AS.Base.Prelude.

Definition is_choice (present : bytes -> bool) (key : list bytes) (n : nat) : Prop :=
  (1 <= n <= length key)%nat /\
  ((2 <= n)%nat -> present (concat (firstn n key)) = true) /\
  (forall n', (n < n' <= length key)%nat -> present (concat (firstn n' key)) = false).
