(* Spec of C13: earliest future occurrence *)
Require Import AS.Base.Prelude AS.Model.NextRun.
Open Scope nat_scope.

(* days ahead of weekday d seen from weekday w; 0 becomes 7 when today's start has passed *)
Definition ahead (w : nat) (now_lt_start : bool) (d : nat) : nat :=
  let k := (d + 7 - w) mod 7 in if (k =? 0) && negb now_lt_start then 7 else k.
Definition min_list (l : list nat) : nat := fold_right Nat.min 7 l.
Definition next_run_spec (w : nat) (now_lt_start : bool) (ds : list nat) : next_run :=
  match ds with
  | [] => Today
  | _ => let k := min_list (map (ahead w now_lt_start) ds) in
         match k with 0 => Today | 1 => Tomorrow | _ => NextDay ((w + k) mod 7) end
  end.
