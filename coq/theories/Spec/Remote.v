(* Spec of C15: capabilities present in an IR set and the code a request must carry, stated over the list of
   stored waves (declaratively: searches over the set, no loop with pops).  Only the data types irset / wave are
   shared with the model.  Definitions only. *)
Require Import AS.Base.Prelude AS.Base.Hex AS.Base.Dec AS.Gen.Extracted AS.Model.Remotes.
Open Scope Z_scope.

Definition beq (a b : bytes) : bool := if bytes_eq_dec a b then true else false.
(* the code stored under a key: a later entry replaces an earlier one *)
Definition stored (s : irset) (k : bytes) : option wave := find (fun w => beq (w_key w) k) (rev (ir_waves s)).

Definition mode_of_code (c : bytes) : option string :=
  match find (fun '(code, _) => beq c (s2l code)) command_to_mode with Some (_, m) => Some m | None => None end.
Definition code_of_mode (m : string) : bytes :=
  match find (fun '(m', _) => String.eqb m m') mode_to_command with Some (_, c) => s2l c | None => [] end.
Definition code_of_fan (f : string) : bytes :=
  match find (fun '(f', _) => String.eqb f f') fan_to_command with Some (_, c) => s2l c | None => [] end.

Fixpoint nodup_s (l : list string) : list string :=
  match l with [] => [] | x :: r => x :: filter (fun y => negb (String.eqb x y)) (nodup_s r) end.
Definition two_digit_temp (k : bytes) : option Z :=
  match firstn 2 (skipn 2 k) with
  | [a; b] => if (is_digit a && is_digit b)%bool then Some (Z.of_N (10 * dval a + dval b)) else None
  | [a] => if is_digit a then Some (Z.of_N (dval a)) else None     (* a three-character key such as "ar5" *)
  | _ => None
  end.
Fixpoint filter_map {A B} (f : A -> option B) (l : list A) : list B :=
  match l with [] => [] | x :: r => match f x with Some y => y :: filter_map f r | None => filter_map f r end end.

(* (supported modes in first-appearance order, min, max, toggle, separate swing) *)
(* the remote ids whose swing is a command of its own: a fact of the protocol, written down here and not read from the sources *)
Definition separate_swing_ids : list string := ["ELEC7022"; "ZM079055"; "ZM079065"; "ZM079049"]%string.

Definition spec_capabilities (s : irset) : list string * Z * Z * bool * bool :=
  let keys := map w_key (ir_waves s) in
  let sup := nodup_s (filter_map (fun k => mode_of_code (firstn 2 k)) keys) in
  let temps := filter_map two_digit_temp keys in
  (sup, fold_right Z.min 100 temps, fold_right Z.max (-100) temps, ir_onoff s =? 1,
   existsb (fun x => beq (ir_id s) (s2l x)) separate_swing_ids).

Inductive spec_cmd := Code (text : bytes) | Refused | Silent.

Definition temp_mode (m : string) : bool := (String.eqb m "COOL" || String.eqb m "HEAT")%bool.

Definition spec_build (s : irset) (on : bool) (mode : string) (target : Z) (fan : string) (swing : bool)
    (current : option bool) : spec_cmd :=
  let '(sup, mn, mx, toggle, _) := spec_capabilities s in
  let t := if mx <? target then mx else if target <? mn then mn else target in
  if negb (existsb (String.eqb mode) sup) then Refused else
  let text w := Code (w_para w ++ [124%N] ++ w_hex w) in
  if (negb toggle && negb on)%bool then
    match stored s (s2l "off") with Some w => text w | None => Silent end
  else
    let pre := if (toggle && match current with Some c => negb (Bool.eqb c on) | None => false end)%bool then s2l "on_" else [] in
    let base := pre ++ code_of_mode mode ++ (if temp_mode mode then str_Z t else []) in
    let with_fan := base ++ [95%N] ++ code_of_fan fan in
    let exact := if swing then with_fan ++ s2l "_d1" else with_fan in
    (* most specific first: exact, without swing, without fan level *)
    match filter_map (stored s) [exact; with_fan; base] with
    | w :: _ => text w
    | [] => Silent       (* nothing stored for this mode (and temperature): the property does not say *)
    end.

(* the separate swing command of a remote whose swing is its own button *)
Definition spec_swing (s : irset) (on : bool) : spec_cmd :=
  match stored s (s2l (if on then "FUN_d1" else "FUN_d0")) with
  | Some w => Code (w_para w ++ [124%N] ++ w_hex w)
  | None => Refused
  end.

Definition show_spec_cmd (c : spec_cmd) : bytes :=
  match c with
  | Code text =>
      let payload := [0; 0; 0; 0]%N ++ text in
      if (65536 <=? N.of_nat (length payload))%N then s2l "-"
      else s2l "ok " ++ hexlify (le16 (N.of_nat (length payload))) ++ [124%N] ++ hexlify payload
  | Refused => s2l "exc:RuntimeError"
  | Silent => s2l "-"
  end.
