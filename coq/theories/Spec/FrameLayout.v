(* Spec of C02: the byte layout of every frame, written independently of api/packets.py
   (transcribed from the protocol table in DESIGN.md appendix A) *)
Require Import AS.Base.Prelude AS.Base.Hex AS.Base.Template.
Open Scope N_scope.

Inductive sfield :=
| SB (bs : bytes)        (* fixed bytes *)
| SH (hex : string)      (* fixed hex characters, for a field that starts or ends inside a byte *)
| SA (i : nat)           (* caller-supplied argument i (hex text) *)
| SX (i : nat).          (* integer argument i rendered as two hex digits *)

Definition spec_template (l : list sfield) : template :=
  map (fun f => match f with SB bs => Lit (hexlify bs) | SH h => Lit (s2l h) | SA i => Hole i | SX i => HoleHex2 i end) l.

Definition zeros (n : nat) : bytes := repeat 0 n.

(* 40-byte header: magic, length, protocol word, command code, [session], sub-code, 01 00, 8 zero,
   [timestamp], 10 zero, f0 fe.  Arguments: 0 = session, 1 = timestamp *)
Definition header (len : N) (proto cmd sub : bytes) : list sfield :=
  [SB ([254; 240] ++ le16 len ++ proto ++ cmd); SA 0; SB (sub ++ [1; 0] ++ zeros 8); SA 1; SB (zeros 10 ++ [240; 254])].
(* the two login frames carry a zero session and take (timestamp, credential) *)
Definition login_header (len : N) (proto cmd sub : bytes) : list sfield :=
  [SB ([254; 240] ++ le16 len ++ proto ++ cmd ++ zeros 4 ++ sub ++ [1; 0] ++ zeros 8); SA 0; SB (zeros 10 ++ [240; 254])].

Definition T1 : bytes := [2; 50].     (* 02 32 *)
Definition T2 : bytes := [3; 5].      (* 03 05 *)

Definition L_login1 := login_header 82 T1 [161; 0] [52; 0] ++ [SA 1; SB (zeros 37)].
Definition L_login2 := login_header 48 T2 [166; 0] [255; 3] ++ [SA 1; SB [0]].
Definition L_get_state1 := header 48 T1 [1; 3] [52; 0] ++ [SA 2; SB [0]].
Definition L_get_state2 := header 48 T2 [1; 3] [57; 0] ++ [SA 2; SB [0]].
Definition L_control := header 93 T1 [1; 2] [52; 0] ++ [SA 2; SB (zeros 36 ++ [0; 1; 6; 0]); SH "0"; SA 3; SB [0]; SA 4].
Definition L_auto_off := header 91 T1 [1; 2] [52; 0] ++ [SA 2; SB (zeros 36 ++ [0; 4; 4; 0]); SA 3].
Definition L_set_name := header 116 T1 [2; 2] [52; 0] ++ [SA 2; SB (zeros 36 ++ [0]); SA 3].
Definition L_get_schedules := header 87 T1 [1; 2] [52; 0] ++ [SA 2; SB (zeros 36 ++ [0; 6; 0; 0])].
Definition L_delete := header 88 T1 [1; 2] [52; 0] ++ [SA 2; SB (zeros 36 ++ [0; 8; 1; 0]); SH "0"; SA 3].
Definition L_create := header 99 T1 [1; 2] [52; 0] ++ [SA 2; SB (zeros 36 ++ [0; 3; 12; 0; 255]); SA 3].
Definition L_schedule_record := [SB [1]; SA 0; SB [1]; SA 1; SA 2].
(* type-2 command frames leave the length field zero in the template; set_message_length fills it *)
Definition L_breeze_command := header 0 T2 [1; 2] [0; 0] ++ [SA 2; SB (zeros 36 ++ [55; 1]); SA 3; SA 4].
Definition L_breeze_status := header 0 T2 [1; 14] [0; 0] ++
  [SA 2; SB (zeros 36 ++ [55; 1; 0; 3; 11; 4; 0]); SA 3; SA 4; SX 5; SA 6; SA 7].
Definition L_runner_stop := header 89 T2 [1; 2] [35; 35] ++ [SA 2; SB (zeros 36 ++ [55; 2; 2; 0; 0; 0])].
Definition L_set_position := header 88 T2 [1; 2] [41; 4] ++ [SA 2; SB (zeros 36 ++ [55; 1; 1; 0]); SA 3].
