(* C03: what "every operation is its own exchange" means for a sequence, stated without the threaded connection state *)
Require Import AS.Base.Prelude AS.Base.Exchange AS.Model.Api AS.Model.Ops.
Open Scope N_scope.

(* each operation run ALONE on a fresh connection whose device answers with the part of the script the earlier
   operations have not consumed, one reply per frame they wrote *)
Fixpoint alone (c : cfg) (ops : list (N * op)) (script : list bytes) : list (list bytes * result bytes) :=
  match ops with
  | [] => []
  | (now, o) :: rest =>
      let x := Exchange.run (run_op c now o) script in
      x :: alone c rest (skipn (length (fst x)) script)
  end.

(* the operations of object k in a schedule, in order *)
Definition mine (k : nat) (sched : list (nat * (N * op))) : list (N * op) :=
  map snd (filter (fun x => Nat.eqb (fst x) k) sched).
Definition results_of (k : nat) (rs : list (nat * result bytes)) : list (result bytes) :=
  map snd (filter (fun x => Nat.eqb (fst x) k) rs).
