(* Spec: reference encoders of what a device sends (broadcasts, state replies, schedule lists), written
   from the byte layouts of DESIGN.md section 5 (C05, C08, C10), independently of the parsers.
   Definitions only.  [f*] arguments are arbitrary filler bytes the properties do not speak about. *)
Require Import AS.Base.Prelude AS.Base.Hex AS.Base.Dec AS.Base.Utf8 AS.Base.Float AS.Gen.Extracted.
Open Scope N_scope.

Definition pad0 (w : nat) (s : bytes) : bytes := s ++ repeat 0 (w - length s).
Definition take (n : nat) (filler : bytes) : bytes := firstn n (filler ++ repeat 0 n).

(* ---- type-1 state reply: state @75, power LE16 @77, time left @89, time on @93, auto shutdown @97 ---- *)
Definition state_segs (f0 f1 f2 f3 : bytes) (st pw tl ton au : N) : list bytes :=
  [f0; [st]; f1; le16 pw ++ [0; 0]; f2; le32 tl; le32 ton; le32 au; f3].
Definition encode_state_reply (f0 f1 f2 f3 : bytes) (st pw tl ton au : N) : bytes :=
  concat (state_segs f0 f1 f2 f3 st pw tl ton au).

(* ---- shutter state reply: position @76, direction (two bytes) @78 ---- *)
Definition shutter_reply_segs (f0 f1 f2 : bytes) (pos : N) (dir : bytes) : list bytes := [f0; [pos]; f1; dir; f2].
Definition encode_shutter_reply (f0 f1 f2 : bytes) (pos : N) (dir : bytes) : bytes :=
  concat (shutter_reply_segs f0 f1 f2 pos dir).

(* ---- thermostat state reply: temp LE16 @76, state @78, mode @79, target @80, fan|swing nibbles @81,
        remote id (8 bytes, NUL padded) @84 ---- *)
Definition thermostat_reply_segs (f0 f1 f2 : bytes) (temp10 st mode target fanswing : N) (remote8 : bytes) : list bytes :=
  [f0; le16 temp10; [st]; [mode]; [target]; [fanswing]; f1; remote8; f2].
Definition encode_thermostat_reply (f0 f1 f2 : bytes) (temp10 st mode target fanswing : N) (remote8 : bytes) : bytes :=
  concat (thermostat_reply_segs f0 f1 f2 temp10 st mode target fanswing remote8).

(* ---- login reply: four session bytes @8 ---- *)
Definition encode_login_reply (f0 session f1 : bytes) : bytes := f0 ++ session ++ f1.

(* ---- a 16-byte schedule record as the device lists it, and a whole get-schedules reply ---- *)
Definition record (id enabled mask state start_ end_ : N) (t0 t1 t2 t3 : N) : bytes :=
  [id; enabled; mask; state] ++ le32 start_ ++ le32 end_ ++ [t0; t1; t2; t3].
Definition encode_schedules_reply (hdr45 : bytes) (records : list bytes) (tail4 : bytes) : bytes :=
  hdr45 ++ concat records ++ tail4.

(* ---- status broadcasts ---- *)
(* Breeze, 168 bytes *)
Definition breeze_segs (f1 id f2 : bytes) (key : N) (f3 name32 f4 ip mac f5 : bytes) (temp10 : N)
    (state mode target fanswing : N) (f6 remote f7 : bytes) : list bytes :=
  [[254; 240]; f1; id; f2; [key]; f3; name32; [14; 1]; f4; ip; mac; f5; le16 temp10;
   [state]; [mode]; [target]; [fanswing]; f6; remote; f7].
(* water heater / power plug, 165 bytes: model @74, ip @76, mac @80, state @133, power LE16 @135,
   remaining LE32 @147, auto shutdown LE32 @155 *)
Definition type1_segs (f1 id f2 : bytes) (key : N) (f3 name32 model ip mac f5 : bytes) (state : N) (f6 : bytes)
    (power : N) (f7 : bytes) (remaining : N) (f8 : bytes) (auto : N) (f9 : bytes) : list bytes :=
  [[254; 240]; f1; id; f2; [key]; f3; name32; model; ip; mac; f5; [state]; f6; le16 power; f7;
   le32 remaining; f8; le32 auto; f9].
(* Runner / Runner Mini, 159 bytes: model @74, ip @77, mac @81, position @135 (@136 = 0), direction @137 *)
Definition runner_segs (f1 id f2 : bytes) (key : N) (f3 name32 model f4 ip mac f5 : bytes) (position : N)
    (direction f6 : bytes) : list bytes :=
  [[254; 240]; f1; id; f2; [key]; f3; name32; model; f4; ip; mac; f5; [position]; [0]; direction; f6].

(* a device description as the sender means it; the filler stream supplies every other byte *)
Record bdesc := {
  b_type : string;          (* DeviceType member name *)
  b_on : bool; b_id : bytes (* 3 *); b_key : N; b_name : bytes (* UTF-8, <= 32 *); b_ip : bytes (* 4 *); b_mac : bytes (* 6 *);
  b_power : N; b_remaining : N; b_auto : N;                       (* type 1 *)
  b_position : N; b_direction : string;                           (* shutter: direction member name *)
  b_mode : string; b_temp10 : N; b_target : N; b_fan : string; b_swing : bool; b_remote : bytes (* 8 *) }.

Fixpoint type_row (n : string) (l : list (string * string * string * N * string)) : option (string * N * string) :=
  match l with [] => None | (n', _, hx, p, c) :: r => if String.eqb n n' then Some (hx, p, c) else type_row n r end.
Fixpoint value_of3 (n : string) (l : list (string * string * string)) : option string :=
  match l with [] => None | (n', v, _) :: r => if String.eqb n n' then Some v else value_of3 n r end.
Definition unhex_str (s : string) : bytes := match unhexlify (s2l s) with Some b => b | None => [] end.
Definition nib_str (s : string) : N := match s2l s with [c] => match nib_of_char c with Some x => x | None => 0 end | _ => 0 end.

Fixpoint cut (ws : list nat) (filler : bytes) : list bytes :=
  match ws with [] => [] | w :: r => take w filler :: cut r (skipn w filler) end.

Definition encode_bcast (d : bdesc) (filler : bytes) : option bytes :=
  match type_row (b_type d) device_types with
  | None => None
  | Some (hx, _, cat) =>
    let model := unhex_str hx in
    let name32 := pad0 32 (b_name d) in
    let st := if b_on d then 1 else 0 in
    if (String.eqb cat "WATER_HEATER" || String.eqb cat "POWER_PLUG")%bool then
      match cut [16; 19; 1; 47; 1; 10; 4; 6]%nat filler with
      | [f1; f2; f3; f5; f6; f7; f8; f9] =>
          Some (concat (type1_segs f1 (b_id d) f2 (b_key d) f3 name32 model (b_ip d) (b_mac d) f5 st f6
                          (b_power d) f7 (b_remaining d) f8 (b_auto d) f9))
      | _ => None end
    else if String.eqb cat "SHUTTER" then
      match cut [16; 19; 1; 1; 48; 20]%nat filler, value_of3 (b_direction d) shutter_directions with
      | [f1; f2; f3; f4; f5; f6], Some dv =>
          Some (concat (runner_segs f1 (b_id d) f2 (b_key d) f3 name32 model f4 (b_ip d) (b_mac d) f5
                          (b_position d) (unhex_str dv) f6))
      | _, _ => None end
    else if String.eqb cat "THERMOSTAT" then
      match cut [16; 19; 1; 1; 48; 2; 17]%nat filler, value_of3 (b_mode d) thermostat_modes, value_of3 (b_fan d) fan_levels with
      | [f1; f2; f3; f4; f5; f6; f7], Some mv, Some fv =>
          Some (concat (breeze_segs f1 (b_id d) f2 (b_key d) f3 name32 f4 (b_ip d) (b_mac d) f5 (b_temp10 d) st
                          (match unhex_str mv with [m] => m | _ => 0 end) (b_target d)
                          (16 * nib_str fv + (if b_swing d then 1 else 0)) f6 (b_remote d) f7))
      | _, _, _ => None end
    else None
  end.

(* what the callback must receive, rendered as the harness renders a device object *)
Definition bar_ (l : list bytes) : bytes := concat (map (fun x => x ++ [124]) l).
Definition sb_ (b : bool) : bytes := if b then s2l "1" else s2l "0".
Definition dotted_ (bs : bytes) : bytes :=
  match bs with [a; b; c; d] => str_N a ++ [46] ++ str_N b ++ [46] ++ str_N c ++ [46] ++ str_N d | _ => [] end.
Definition upper_ (c : N) : N := if (97 <=? c) && (c <=? 122) then c - 32 else c.
Fixpoint mac_text (bs : bytes) : bytes :=
  match bs with [] => [] | [b] => map upper_ (hexbyte b) | b :: r => map upper_ (hexbyte b) ++ [58] ++ mac_text r end.

Definition expected_bcast (d : bdesc) : bytes :=
  match type_row (b_type d) device_types with
  | None => s2l "?"
  | Some (_, _, cat) =>
    let common := [hexlify (b_id d); hexbyte (b_key d); dotted_ (b_ip d); mac_text (b_mac d); hexlify (b_name d)] in
    let power := if b_on d then b_power d else 0 in
    if String.eqb cat "WATER_HEATER" then
      bar_ ([s2l "WH"; s2l (b_type d); sb_ (b_on d)] ++ common ++
            [str_N power; str_Z (amps_tenths (Z.of_N power));
             (if b_on d then fmt_hhmmss (b_remaining d) else s2l "00:00:00"); fmt_hhmmss (b_auto d)])
    else if String.eqb cat "POWER_PLUG" then
      bar_ ([s2l "PP"; s2l (b_type d); sb_ (b_on d)] ++ common ++ [str_N power; str_Z (amps_tenths (Z.of_N power))])
    else if String.eqb cat "SHUTTER" then
      bar_ ([s2l "SH"; s2l (b_type d)] ++ common ++ [str_N (b_position d); s2l (b_direction d)])
    else
      bar_ ([s2l "TH"; s2l (b_type d); sb_ (b_on d)] ++ common ++
            [s2l (b_mode d); str_N (b_temp10 d); str_N (b_target d); s2l (b_fan d); sb_ (b_swing d); hexlify (b_remote d)])
  end.
