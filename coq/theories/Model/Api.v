(* Model of api/__init__.py: login and a first set of operations — definitions only *)
Require Import AS.Base.Prelude AS.Base.Hex AS.Base.Template AS.Base.Exchange AS.Gen.Extracted
  AS.Model.DeviceTools AS.Model.Messages AS.Model.Remotes AS.Model.ScheduleTools.
Open Scope N_scope.

Record cfg := { device_id : bytes; device_key : bytes }.
Inductive api_kind := Type1 | Type2.

(* current_timestamp_to_hexadecimal with the clock reading [now] (whole seconds) *)
Definition timestamp_hex (now : N) : result bytes :=
  if now <? 4294967296 then Ok (hexlify (le32 now)) else Exc StructError.
(* minutes_to_hexadecimal_seconds *)
Definition minutes_to_hexadecimal_seconds (minutes : N) : result bytes :=
  if minutes * 60 <? 4294967296 then Ok (hexlify (le32 (minutes * 60))) else Exc StructError.

Record login_result := { lr_timestamp : bytes; lr_response : bytes; lr_session : bytes }.
Definition successful (response : bytes) : bool := match response with [] => false | _ => true end.

(* _login: type-2 login for BREEZE / RUNNER / RUNNER_MINI, type-1 otherwise *)
Definition login (c : cfg) (type2 : bool) (now : N) : M login_result :=
  perform ts <- lift (timestamp_hex now) ;;
  perform packet <- lift (if type2 then format T_LOGIN2_PACKET_TYPE2 [AStr ts; AStr (device_id c)]
                          else format T_LOGIN_PACKET_TYPE1 [AStr ts; AStr (device_key c)]) ;;
  perform signed <- lift (sign_packet_with_crc_key packet) ;;
  perform response <- send signed ;;
  ret {| lr_timestamp := ts; lr_response := response;
         lr_session := pyslice 16 24 (hexlify response) |}.

Definition send_template_gen (legacy : bool) (t : template) (args : list farg) (fix_length : bool) : M bytes :=
  perform packet <- lift (format t args) ;;
  perform packet' <- lift (if fix_length then set_message_length legacy packet else Ok packet) ;;
  perform signed <- lift (sign_packet_with_crc_key packet') ;;
  send signed.

Definition send_template := send_template_gen false.

(* SwitcherType1Api.control_device(command, minutes); command_value is "1" / "0" *)
Definition control_device (c : cfg) (now : N) (command_value : bytes) (minutes : Z) : M bytes :=
  perform l <- login c false now ;;
  perform timer <- lift (if (0 <? minutes)%Z then minutes_to_hexadecimal_seconds (Z.to_N minutes)
                         else Ok NO_TIMER_REQUESTED) ;;
  send_template T_SEND_CONTROL_PACKET
    [AStr (lr_session l); AStr (lr_timestamp l); AStr (device_id c); AStr command_value; AStr timer] false.

(* SwitcherType1Api.get_state *)
Definition get_state (c : cfg) (now : N) : M state_fields :=
  perform l <- login c false now ;;
  if successful (lr_response l) then
    perform state_resp <- send_template T_GET_STATE_PACKET_TYPE1
      [AStr (lr_session l); AStr (lr_timestamp l); AStr (device_id c)] false ;;
    match parse_state_reply state_resp with
    | Ok r => if successful state_resp then ret r else raise RuntimeError
    | Exc e => if is_key_error e || is_value_error e then raise RuntimeError else raise e
    end
  else raise RuntimeError.

(* SwitcherApi.stop (shutter) *)
Definition stop_shutter (c : cfg) (now : N) : M bytes :=
  perform l <- login c true now ;;
  if successful (lr_response l) then
    send_template T_RUNNER_STOP_COMMAND
      [AStr (lr_session l); AStr (lr_timestamp l); AStr (device_id c)] true
  else raise RuntimeError.

(* SwitcherType2Api.control_breeze_device; [legacy] = length setters before the F1/F2 repair *)
Definition is_some {A} (o : option A) : bool := match o with Some _ => true | None => false end.
Definition or_else {A} (o : option A) (d : A) : A := match o with Some a => a | None => d end.

Definition control_breeze_device (legacy : bool) (c : cfg) (now : N) (r : remote)
    (state : option bool) (mode : option string) (target : Z) (fan : option string)
    (swing : option bool) (update_state : bool) : M bytes :=
  perform l <- login c true now ;;
  if negb (successful (lr_response l)) then raise RuntimeError else
  let sess := AStr (lr_session l) in let ts := AStr (lr_timestamp l) in let id := AStr (device_id c) in
  let main_needed := (is_some state || is_some mode || negb (target =? 0)%Z || is_some fan
                      || (is_some swing && negb (r_sep r)))%bool in
  perform cmd_response <-
    (if main_needed then
       perform state_resp <- send_template_gen legacy T_GET_STATE_PACKET2_TYPE2 [sess; ts; id] false ;;
       match parse_thermostat_reply state_resp with
       | Exc e => if (is_key_error e || is_value_error e)%bool then raise RuntimeError else raise e
       | Ok cur =>
         if negb (successful state_resp) then raise RuntimeError else
         let st := or_else state (tf_on cur) in
         let md := or_else mode (tf_mode cur) in
         let tg := if (target =? 0)%Z then Z.of_N (tf_target cur) else target in
         let fn := or_else fan (tf_fan cur) in
         let set_swing := if r_sep r then false else or_else swing (tf_swing_on cur) in
         perform resp <-
           (if update_state then
              send_template_gen legacy T_BREEZE_UPDATE_STATUS_PACKET
                [sess; ts; id; AStr (s2l (if st then "01" else "00")); AStr (value_of md thermostat_modes);
                 AInt (Z.to_N tg); AStr (value_of fn fan_levels); AStr (s2l (if set_swing then "1" else "0"))] true
            else
              perform cl <- lift (build_command legacy r st md tg fn set_swing (Some (tf_on cur))) ;;
              send_template_gen legacy T_BREEZE_COMMAND_PACKET [sess; ts; id; AStr (snd cl); AStr (fst cl)] true) ;;
         if successful resp then ret (Some resp) else raise RuntimeError
       end
     else ret None) ;;
  perform final <-
    (if (r_sep r && is_some swing && negb update_state)%bool then
       perform cl <- lift (build_swing_command legacy r (or_else swing false)) ;;
       perform resp <- send_template_gen legacy T_BREEZE_COMMAND_PACKET [sess; ts; id; AStr (snd cl); AStr (fst cl)] true ;;
       ret (Some resp)
     else ret cmd_response) ;;
  match final with Some resp => ret resp | None => raise RuntimeError end.

(* ---- the remaining operations; [lg] selects the pre-repair encoders ---- *)
Definition type1_op (lg : bool) (c : cfg) (now : N) (t : template) (extra : result (list farg)) : M bytes :=
  perform l <- login c false now ;;
  perform args <- lift extra ;;
  send_template_gen lg t ([AStr (lr_session l); AStr (lr_timestamp l); AStr (device_id c)] ++ args) false.

Definition control_device_op lg c now (command_value : bytes) (minutes : Z) :=
  type1_op lg c now T_SEND_CONTROL_PACKET
    (do timer <- (if (0 <? minutes)%Z then minutes_to_hexadecimal_seconds (Z.to_N minutes) else Ok NO_TIMER_REQUESTED) ;;
     Ok [AStr command_value; AStr timer]).
Definition set_auto_shutdown_op lg c now (S : Z) :=
  type1_op lg c now T_SET_AUTO_OFF_SET_PACKET (do a <- timedelta_to_hexadecimal_seconds S ;; Ok [AStr a]).
Definition set_device_name_op lg c now (name : bytes) :=
  type1_op lg c now T_UPDATE_DEVICE_NAME_PACKET (do n <- string_to_hexadecimale_device_name lg name ;; Ok [AStr n]).
Definition get_schedules_op lg c now := type1_op lg c now T_GET_SCHEDULES_PACKET (Ok []).
Definition delete_schedule_op lg c now (schedule_id : bytes) :=
  type1_op lg c now T_DELETE_SCHEDULE_PACKET (Ok [AStr schedule_id]).
Definition create_schedule_op lg c now (day_base : Z) (start_time end_time : bytes) (days : days_arg) :=
  type1_op lg c now T_CREATE_SCHEDULE_PACKET
    (do st <- time_to_hexadecimal_timestamp lg day_base start_time ;;
     do en <- time_to_hexadecimal_timestamp lg day_base end_time ;;
     do wd <- (match days with ASet [] | ASeq [] => Ok NON_RECURRING_SCHEDULE | _ => weekdays_to_hexadecimal days end) ;;   (* len(days) > 0 *)
     do rec <- format T_SCHEDULE_CREATE_DATA_FORMAT [AStr wd; AStr st; AStr en] ;;
     Ok [AStr rec]).

Definition type2_op (lg : bool) (c : cfg) (now : N) (t : template) (extra : list farg) (fix_len : bool) : M bytes :=
  perform l <- login c true now ;;
  if successful (lr_response l) then
    send_template_gen lg t ([AStr (lr_session l); AStr (lr_timestamp l); AStr (device_id c)] ++ extra) fix_len
  else raise RuntimeError.
Definition stop_op lg c now := type2_op lg c now T_RUNNER_STOP_COMMAND [] true.
Definition set_position_op lg c now (position : N) := type2_op lg c now T_RUNNER_SET_POSITION [AStr (fmt_02x position)] true.
Definition get_state2_op lg c now := type2_op lg c now T_GET_STATE_PACKET2_TYPE2 [] false.   (* frames of get_shutter/breeze_state *)

(* ---- state queries ---- *)
Definition wrap_parse {A} (r : result A) : M A :=
  match r with
  | Ok a => ret a
  | Exc e => if (is_key_error e || is_value_error e)%bool then raise RuntimeError else raise e
  end.
(* SwitcherType2Api.get_breeze_state / _get_breeze_state *)
Definition get_breeze_state (c : cfg) (now : N) : M (bytes * thermostat_fields) :=
  perform l <- login c true now ;;
  if successful (lr_response l) then
    perform state_resp <- send_template T_GET_STATE_PACKET2_TYPE2
      [AStr (lr_session l); AStr (lr_timestamp l); AStr (device_id c)] false ;;
    perform r <- wrap_parse (parse_thermostat_reply state_resp) ;; ret (state_resp, r)
  else raise RuntimeError.
(* SwitcherType2Api.get_shutter_state *)
Definition get_shutter_state (c : cfg) (now : N) : M (bytes * shutter_fields) :=
  perform l <- login c true now ;;
  if successful (lr_response l) then
    perform state_resp <- send_template T_GET_STATE_PACKET2_TYPE2
      [AStr (lr_session l); AStr (lr_timestamp l); AStr (device_id c)] false ;;
    perform r <- wrap_parse (parse_shutter_reply state_resp) ;; ret (state_resp, r)
  else raise RuntimeError.

(* canonical rendering of a whole exchange for the harness: frames then outcome *)
Definition show_exchange (x : list bytes * result bytes) : bytes :=
  let '(fs, r) := x in
  concat (map (fun f => hexlify f ++ [124]) fs) ++
  match r with
  | Ok resp => s2l (if successful resp then "ok-successful" else "ok-unsuccessful")
  | Exc RuntimeError => s2l "RuntimeError"
  | Exc _ => s2l "other-exception"
  end.

(* frames plus "ok" / "raised" — the view for operations whose reply is not interpreted *)
Definition show_exchange_frames (x : list bytes * result bytes) : bytes :=
  let '(fs, r) := x in
  concat (map (fun f => hexlify f ++ [124]) fs) ++ s2l (match r with Ok _ => "ok" | Exc _ => "raised" end).
