(* Model of SwitcherBridge start/stop bookkeeping against an abstract OS port table *)
Require Import AS.Base.Prelude.

Inductive owner := Free | Foreign | Bridge.
Inductive tstate := TNone | TOpen | TClosed.

Record bstate := { running : bool; os : nat -> owner; trans : nat -> tstate }.

Definition upd {A} (f : nat -> A) (p : nat) (v : A) : nat -> A := fun q => if Nat.eqb q p then v else f q.

Arguments upd : simpl never.

Definition init : bstate := {| running := false; os := fun _ => Free; trans := fun _ => TNone |}.

Definition close_port (s : bstate) (p : nat) : bstate :=
  match trans s p with
  | TOpen => {| running := running s; os := upd (os s) p Free; trans := upd (trans s) p TClosed |}
  | _ => s
  end.

(* start: bind ports in order; [legacy = true] is the code before the F8 repair (no cleanup) *)
Fixpoint start_loop (legacy : bool) (ports opened : list nat) (s : bstate) : bstate * bool :=
  match ports with
  | [] => ({| running := true; os := os s; trans := trans s |}, true)
  | p :: rest =>
      match os s p with
      | Free => start_loop legacy rest (p :: opened)
                  {| running := running s; os := upd (os s) p Bridge; trans := upd (trans s) p TOpen |}
      | _ => ((if legacy then s else fold_left close_port opened s), false)     (* OSError *)
      end
  end.
Definition start (legacy : bool) (ports : list nat) (s : bstate) : bstate * bool := start_loop legacy ports [] s.

Definition stop (ports : list nat) (s : bstate) : bstate :=
  let s' := fold_left close_port ports s in
  {| running := false; os := os s'; trans := trans s' |}.

Inductive action := AStart | AStop | AOccupy (p : nat) | ARelease (p : nat) | ASend (p : nat).

(* observation of one step: did start raise / was the datagram delivered *)
Inductive obs := ONone | OStarted | ORaised | ODelivered | ODropped.

Definition step (legacy : bool) (ports : list nat) (s : bstate) (a : action) : bstate * obs :=
  match a with
  | AStart => let '(s', ok) := start legacy ports s in (s', if ok then OStarted else ORaised)
  | AStop => (stop ports s, ONone)
  | AOccupy p => match os s p with
                 | Free => ({| running := running s; os := upd (os s) p Foreign; trans := trans s |}, ONone)
                 | _ => (s, ONone) end
  | ARelease p => match os s p with
                  | Foreign => ({| running := running s; os := upd (os s) p Free; trans := trans s |}, ONone)
                  | _ => (s, ONone) end
  | ASend p => (s, match os s p with Bridge => ODelivered | _ => ODropped end)
  end.

Definition run (legacy : bool) (ports : list nat) (acts : list action) : bstate :=
  fold_left (fun s a => fst (step legacy ports s a)) acts init.

(* ---- TCP client lifecycle (SwitcherApi.connect / disconnect / async with) ---- *)
Record cstate := { connected : bool; csock : tstate; dev_open : nat; dev_eofs : nat }.
Definition cinit : cstate := {| connected := false; csock := TNone; dev_open := 0; dev_eofs := 0 |}.
Inductive caction := CConnect (listening : bool) | CDisconnect | COperation (raises : bool)
                   | CWith (listening : bool) (body_raises : bool).
Inductive cobs := CDone | CRaised.

Definition c_connect (listening : bool) (s : cstate) : cstate * cobs :=
  if listening then
    (* a socket still open from an earlier connect is abandoned; CPython's reference counting
       closes it at once (modelled runtime behaviour, outside the property's claim) *)
    let '(o, e) := match csock s with TOpen => (dev_open s - 1, dev_eofs s + 1) | _ => (dev_open s, dev_eofs s) end in
    ({| connected := true; csock := TOpen; dev_open := o + 1; dev_eofs := e |}, CDone)
  else (s, CRaised).
Definition c_disconnect (s : cstate) : cstate :=
  match csock s with
  | TOpen => {| connected := false; csock := TClosed; dev_open := dev_open s - 1; dev_eofs := dev_eofs s + 1 |}
  | _ => {| connected := false; csock := csock s; dev_open := dev_open s; dev_eofs := dev_eofs s |}
  end.
Definition cstep (s : cstate) (a : caction) : cstate * cobs :=
  match a with
  | CConnect l => c_connect l s
  | CDisconnect => (c_disconnect s, CDone)
  | COperation r => (s, if r then CRaised else CDone)
  | CWith l body_raises =>
      let '(s1, o) := c_connect l s in
      match o with
      | CRaised => (s1, CRaised)                      (* __aenter__ failed: body and __aexit__ skipped *)
      | CDone => (c_disconnect s1, if body_raises then CRaised else CDone)
      end
  end.
