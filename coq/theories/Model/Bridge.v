(* Model of bridge.py: DatagramParser and _parse_device_from_datagram — definitions only *)
Require Import AS.Base.Prelude AS.Base.Hex AS.Base.Dec AS.Base.Utf8 AS.Base.Float AS.Gen.Extracted AS.Model.Messages.
Open Scope N_scope.

Definition eqs (a : bytes) (s : string) : bool := if bytes_eq_dec a (s2l s) then true else false.

Definition is_switcher_originator (m : bytes) : bool :=
  eqs (pyslice 0 4 (hexlify m)) "fef0" &&
  ((length m =? 165) || (length m =? 168) || (length m =? 159))%nat.

Definition dotted (bs : bytes) : bytes :=
  match bs with
  | [a; b; c; d] => str_N a ++ [46] ++ str_N b ++ [46] ++ str_N c ++ [46] ++ str_N d
  | _ => []
  end.
Definition upper (c : N) : N := if (97 <=? c) && (c <=? 122) then c - 32 else c.
Definition mac_of (bs : bytes) : bytes :=   (* six bytes -> "AA:BB:.." *)
  let h := map upper (hexlify bs) in
  pyslice 0 2 h ++ [58] ++ pyslice 2 4 h ++ [58] ++ pyslice 4 6 h ++ [58] ++
  pyslice 6 8 h ++ [58] ++ pyslice 8 10 h ++ [58] ++ pyslice 10 12 h.

Definition decode_str (bs : bytes) : result bytes := if utf8_valid bs then Ok bs else Exc UnicodeDecodeError.

(* enum lookups in the regenerated tables; the result is the member name *)
Fixpoint lookup3 (v : bytes) (l : list (string * string * string)) : option string :=
  match l with [] => None | (n, value, _) :: r => if eqs v value then Some n else lookup3 v r end.
Definition dt_by_hex (h : bytes) : option (string * N * string) :=
  (fix go (l : list (string * string * string * N * string)) :=
     match l with [] => None
     | (n, _, hx, p, c) :: r => if eqs h hx then Some (n, p, c) else go r end) device_types.

Inductive device :=
| DWaterHeater (ty : string) (on : bool) (id key ip mac name : bytes) (power : N) (remaining auto : bytes)
| DPowerPlug (ty : string) (on : bool) (id key ip mac name : bytes) (power : N)
| DShutter (ty : string) (id key ip mac name : bytes) (position : N) (direction : string)
| DThermostat (ty : string) (on : bool) (id key ip mac name : bytes) (mode : string) (temp10 target : N)
              (fan : string) (swing_on : bool) (remote : bytes).
Inductive outcome := Ignored | Warned | Raised (e : exn) | Delivered (d : device).

Definition le_time (m : bytes) (lo : nat) : result bytes :=
  do secs <- int16r (swap4 (pyslice lo (lo + 8) (hexlify m))) ;; seconds_to_iso_time secs.

(* legacy_mac: F4 (type-1 MAC offset for every family); legacy_type: F5 (KeyError for unknown codes) *)
Definition parse_datagram (legacy_mac legacy_type : bool) (m : bytes) : outcome :=
  if negb (is_switcher_originator m) then Ignored else
  let hex := hexlify m in
  match dt_by_hex (hexlify (pyslice 74 76 m)), legacy_type with
  | None, true => Raised KeyError
  | dt, _ =>
    let is_breeze := match dt with Some (n, _, _) => String.eqb n "BREEZE" | None => false end in
    let on := if is_breeze then eqs (hexlify (pyslice 137 138 m)) "01" else eqs (pyslice 266 268 hex) "01" in
    let power_r := if on then int16r (swap2 (pyslice 270 278 hex)) else Ok 0 in
    match power_r with Exc e => Raised e | Ok power =>
    let id := pyslice 36 42 hex in
    let key := pyslice 80 82 hex in
    let mac1 := mac_of (pyslice 80 86 m) in
    let mac2 := if legacy_mac then mac1 else mac_of (pyslice 81 87 m) in
    let name_r := do s <- decode_str (pyslice 42 74 m) ;; Ok (rstrip0 s) in
    match dt with
    | None => Warned
    | Some (ty, _, cat) =>
      if String.eqb cat "WATER_HEATER" then
        match name_r with Exc e => Raised e | Ok name =>
        match (if on then le_time m 294 else Ok (s2l "00:00:00")) with Exc e => Raised e | Ok rem =>
        match le_time m 310 with Exc e => Raised e | Ok auto =>
        Delivered (DWaterHeater ty on id key (dotted (pyslice 76 80 m)) mac1 name power rem auto) end end end
      else if String.eqb cat "POWER_PLUG" then
        match name_r with Exc e => Raised e | Ok name =>
        Delivered (DPowerPlug ty on id key (dotted (pyslice 76 80 m)) mac1 name power) end
      else if String.eqb cat "SHUTTER" then
        match name_r with Exc e => Raised e | Ok name =>
        let hp := hexlify (pyslice 135 137 m) in
        match int10 (pyslice 2 4 hp), int16 (pyslice 0 2 hp) with
        | Some a, Some b =>
            match lookup3 (hexlify (pyslice 137 139 m)) shutter_directions with
            | None => Raised KeyError
            | Some dir => Delivered (DShutter ty id key (dotted (pyslice 77 81 m)) mac2 name (a + b) dir)
            end
        | _, _ => Raised ValueError
        end end
      else if String.eqb cat "THERMOSTAT" then
        match name_r with Exc e => Raised e | Ok name =>
        let mode := match lookup3 (hexlify (pyslice 138 139 m)) thermostat_modes with Some x => x | None => "COOL"%string end in
        match int16 (swap2 (hexlify (pyslice 135 137 m))), int16 (hexlify (pyslice 139 140 m)) with
        | Some t10, Some target =>
          let fs := hexlify (pyslice 140 141 m) in
          match lookup3 (pyslice 0 1 fs) fan_levels with
          | None => Raised KeyError
          | Some fan =>
            let swing_on := negb (eqs (pyslice 1 2 fs) "0") in
            match decode_str (pyslice 143 151 m) with
            | Exc e => Raised e
            | Ok remote => Delivered (DThermostat ty on id key (dotted (pyslice 77 81 m)) mac2 name mode t10 target fan swing_on remote)
            end
          end
        | _, _ => Raised ValueError
        end end
      else Warned
    end end
  end.

(* canonical rendering for the correspondence harness: fields joined by '|' *)
Definition bar (l : list bytes) : bytes := concat (map (fun x => x ++ [124]) l).
Definition sb (b : bool) : bytes := if b then s2l "1" else s2l "0".
Definition show_outcome (o : outcome) : bytes :=
  match o with
  | Ignored => s2l "ignored"
  | Warned => s2l "warned"
  | Raised _ => s2l "raised"
  | Delivered (DWaterHeater ty on id key ip mac name power rem auto) =>
      bar [s2l "WH"; s2l ty; sb on; id; key; ip; mac; hexlify name; str_N power; str_Z (amps_tenths (Z.of_N power)); rem; auto]
  | Delivered (DPowerPlug ty on id key ip mac name power) =>
      bar [s2l "PP"; s2l ty; sb on; id; key; ip; mac; hexlify name; str_N power; str_Z (amps_tenths (Z.of_N power))]
  | Delivered (DShutter ty id key ip mac name pos dir) =>
      bar [s2l "SH"; s2l ty; id; key; ip; mac; hexlify name; str_N pos; s2l dir]
  | Delivered (DThermostat ty on id key ip mac name mode t10 target fan swing remote) =>
      bar [s2l "TH"; s2l ty; sb on; id; key; ip; mac; hexlify name; s2l mode; str_N t10; str_N target; s2l fan; sb swing; hexlify remote]
  end.
Definition parse_datagram_show (legacy_mac legacy_type : bool) (m : bytes) : bytes :=
  show_outcome (parse_datagram legacy_mac legacy_type m).

(* ---- dispatch: one protocol object per port, each datagram handed to the parser synchronously ---- *)
Definition delivered (lm lt : bool) (d : bytes) : option device :=
  match parse_datagram lm lt d with Delivered x => Some x | _ => None end.

(* the event loop: [raises k] says whether the user's callback raises on its k-th invocation; an exception
   leaving datagram_received (from the parser or from the callback) is recorded by the loop's handler and
   the next datagram is processed (assumption named loop_isolates in DESIGN.md) *)
Record loop_state := { calls : list (nat * device); handler_calls : nat }.
Definition loop_step (lm lt : bool) (raises : nat -> bool) (s : loop_state) (ev : nat * bytes) : loop_state :=
  let '(port, d) := ev in
  match parse_datagram lm lt d with
  | Delivered x =>
      {| calls := calls s ++ [(port, x)];
         handler_calls := if raises (length (calls s)) then S (handler_calls s) else handler_calls s |}
  | Raised _ => {| calls := calls s; handler_calls := S (handler_calls s) |}
  | _ => s
  end.
Definition loop_run (lm lt : bool) (raises : nat -> bool) (events : list (nat * bytes)) : loop_state :=
  fold_left (loop_step lm lt raises) events {| calls := []; handler_calls := 0 |}.
