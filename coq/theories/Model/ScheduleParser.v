(* Model of schedule/parser.py and the clock-dependent schedule tools — definitions only *)
Require Import AS.Base.Prelude AS.Base.Hex AS.Base.Dec AS.Gen.Extracted AS.Model.ScheduleTools AS.Model.NextRun.
Open Scope Z_scope.

(* a zone is a default offset and a list of (utc transition second, offset in force from then on), ascending *)
Record zone := { z_default : Z; z_trans : list (Z * Z) }.
Definition offset_at (z : zone) (t : Z) : Z :=
  fold_left (fun acc '(at_, off) => if at_ <=? t then off else acc) (z_trans z) (z_default z).
Definition local_secs (z : zone) (t : Z) : Z := t + offset_at z t.
Definition hm_of (z : zone) (t : Z) : N * N :=
  let s := (local_secs z t) mod 86400 in (Z.to_N (s / 3600), Z.to_N (s mod 3600 / 60)).
Definition weekday_of (z : zone) (t : Z) : nat := Z.to_nat (((local_secs z t) / 86400 + 3) mod 7).   (* Monday = 0 *)
Definition utc : zone := {| z_default := 0; z_trans := [] |}.

(* "%H:%M" of the local time of instant t *)
Definition fmt_hm (z : zone) (t : N) : bytes := let '(h, m) := hm_of z (Z.of_N t) in two_digits h ++ [58%N] ++ two_digits m.

(* hexadecimale_timestamp_to_localtime *)
Definition hexadecimale_timestamp_to_localtime (z : zone) (hex_timestamp : bytes) : result bytes :=
  let swapped := pyslice 6 8 hex_timestamp ++ pyslice 4 6 hex_timestamp ++ pyslice 2 4 hex_timestamp ++ pyslice 0 2 hex_timestamp in
  match int16 swapped with
  | None => Exc ValueError
  | Some t => let '(h, m) := hm_of z (Z.of_N t) in Ok (two_digits h ++ [58%N] ++ two_digits m)
  end.

Definition weekday_value (wd : nat) : bytes :=
  match find (fun '(_, _, _, _, w) => (w =? N.of_nat wd)%N) days with
  | Some (_, v, _, _, _) => s2l v | None => [] end.

(* pretty_next_run(start_time, days) at instant [now]; [legacy_utc] = F6, [legacy_next] = F7 *)
Definition pretty_next_run (legacy_utc legacy_next : bool) (z : zone) (now : Z) (start_time : bytes) (ds : list day) : result bytes :=
  match ds with
  | [] => Ok (s2l "Due today at " ++ start_time)
  | _ =>
    let zz := if legacy_utc then utc else z in
    let cur := hm_of zz now in
    do st <- strptime_HM start_time ;;
    let lt := ((60 * fst cur + snd cur) <? (60 * fst st + snd st))%N in
    match pretty_next_run_core legacy_next (weekday_of zz now) lt (map (fun d => N.to_nat (day_weekday d)) ds) with
    | Today => Ok (s2l "Due today at " ++ start_time)
    | Tomorrow => Ok (s2l "Due tomorrow at " ++ start_time)
    | NextDay w => Ok (s2l "Due next " ++ weekday_value w ++ s2l " at " ++ start_time)
    | NREx e => Exc e
    end
  end.

Fixpoint chunks (fuel n : nat) (s : bytes) : list bytes :=
  match fuel with O => [] | S k => match s with [] => [] | _ => firstn n s :: chunks k n (skipn n s) end end.

Record schedule := { sc_id : bytes; sc_recurring : bool; sc_days : list day; sc_start : bytes; sc_end : bytes;
                     sc_duration : bytes; sc_display : bytes }.

Definition parse_schedule (lu ln : bool) (z : zone) (now : Z) (c : bytes) : result schedule :=
  do idn <- of_option ValueError (int16 (pyslice 0 2 c)) ;;
  let recurring := if bytes_eq_dec (pyslice 4 6 c) (s2l "00") then false else true in
  do ds <- (if recurring then do m <- of_option ValueError (int16 (pyslice 4 6 c)) ;; bit_summary_to_days m else Ok []) ;;
  do st <- hexadecimale_timestamp_to_localtime z (pyslice 8 16 c) ;;
  do en <- hexadecimale_timestamp_to_localtime z (pyslice 16 24 c) ;;
  do dur <- calc_duration st en ;;
  do disp <- pretty_next_run lu ln z now st ds ;;
  Ok {| sc_id := str_N idn; sc_recurring := recurring; sc_days := ds; sc_start := st; sc_end := en;
        sc_duration := dur; sc_display := disp |}.

(* get_schedules(message): a set keyed by schedule_id — the first record with an id wins *)
Definition get_schedules (lu ln : bool) (z : zone) (now : Z) (message : bytes) : result (list schedule) :=
  let hex := hexlify message in
  let hex_data := pyslice 90 (length hex - 8) hex in
  fold_left (fun acc c =>
      do l <- acc ;; do s <- parse_schedule lu ln z now c ;;
      if existsb (fun s' => if bytes_eq_dec (sc_id s') (sc_id s) then true else false) l then Ok l else Ok (l ++ [s]))
    (chunks (length hex_data) 32 hex_data) (Ok []).

Definition show_schedules (r : result (list schedule)) : bytes :=
  match r with
  | Exc _ => s2l "raised"
  | Ok l => concat (map (fun s => sc_id s ++ [44%N] ++ s2l (if sc_recurring s then "1" else "0") ++ [44%N]
                          ++ concat (map (fun d => str_N (N.of_nat d)) (NextRun.sort (sc_days s))) ++ [44%N]
                          ++ sc_start s ++ [44%N] ++ sc_end s ++ [44%N] ++ sc_duration s ++ [44%N] ++ sc_display s ++ [124%N]) l)
  end.
