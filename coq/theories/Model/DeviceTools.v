(* Model of src/aioswitcher/device/tools.py — definitions only *)
Require Import AS.Base.Prelude AS.Base.Hex AS.Base.Crc.
Open Scope N_scope.

(* sign_packet_with_crc_key(hex_packet) *)
Definition crc_slice (hex_crc : bytes) : bytes := pyslice 6 8 hex_crc ++ pyslice 4 6 hex_crc.

Definition sign_packet_with_crc_key (hex_packet : bytes) : result bytes :=
  do binary_packet <- of_option BinasciiError (unhexlify hex_packet) ;;
  let hex_packet_crc := hexlify (be32 (crc_hqx binary_packet 4129)) in
  let hex_packet_crc_sliced := crc_slice hex_packet_crc in
  do binary_key <- of_option BinasciiError
       (unhexlify (hex_packet_crc_sliced ++ concat (repeat (s2l "30") 32))) ;;
  let hex_key_crc := hexlify (be32 (crc_hqx binary_key 4129)) in
  let hex_key_crc_sliced := crc_slice hex_key_crc in
  Ok (hex_packet ++ hex_packet_crc_sliced ++ hex_key_crc_sliced).

(* set_message_length(message): [legacy = true] is the code before the F1 repair *)
Definition set_message_length (legacy : bool) (message : bytes) : result bytes :=
  do bin <- of_option BinasciiError (unhexlify (message ++ s2l "00000000")) ;;
  let n := N.of_nat (length bin) in
  let len_hex := if legacy then ljust 4 48 (fmt_x n)
                 else hexlify (le16 n) in              (* hexlify(pack("<H", n)); n < 65536 else struct.error *)
  if (negb legacy) && (65536 <=? n)%N then Exc StructError
  else Ok (s2l "fef0" ++ len_hex ++ skipn 8 message).

(* SwitcherBreezeCommand(command).length *)
Definition breeze_command_length (legacy : bool) (command : bytes) : result bytes :=
  let n := N.of_nat (length command / 2) in
  if legacy then Ok (ljust 4 48 (fmt_x n))
  else if (65536 <=? n)%N then Exc StructError else Ok (hexlify (le16 n)).

(* ---- argument encoders ---- *)
Require Import AS.Base.Utf8.
(* number of code points of valid UTF-8 text = number of non-continuation bytes *)
Definition cp_count (s : bytes) : nat := length (filter (fun b => negb (cont b)) s).

(* string_to_hexadecimale_device_name; [legacy] pads by character count (before the F3 repair) *)
Definition string_to_hexadecimale_device_name (legacy : bool) (name : bytes) : result bytes :=
  let len := if legacy then cp_count name else length name in
  if ((1 <? len) && (len <? 33))%nat
  then Ok (hexlify name ++ concat (repeat (s2l "00") (32 - len)))
  else Exc ValueError.

(* timedelta_to_hexadecimal_seconds on the whole seconds S = floor(total_seconds()) *)
Definition timedelta_to_hexadecimal_seconds (S : Z) : result bytes :=
  let seconds := (S / 60 * 60)%Z in      (* int(hours)*3600 + int(minutes)*60 with floor semantics *)
  if ((3599 <? seconds) && (seconds <? 86341))%Z then Ok (hexlify (le32 (Z.to_N seconds))) else Exc ValueError.
