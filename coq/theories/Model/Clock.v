(* Model of the clock codec over an explicit zone table — definitions only *)
Require Import AS.Base.Prelude AS.Base.Hex AS.Base.Dec AS.Model.ScheduleTools AS.Model.ScheduleParser.
Open Scope Z_scope.

Definition offsets (z : zone) : list Z := z_default z :: map snd (z_trans z).

(* time.mktime on a local wall-clock second count L (tm_isdst = -1): a pre-image if one exists *)
Definition mktime_model (z : zone) (L : Z) : Z :=
  match find (fun o => local_secs z (L - o) =? L) (offsets z) with
  | Some o => L - o
  | None => L - z_default z            (* non-existent local time: normalised somehow; not specified *)
  end.

Definition today (z : zone) (now : Z) : Z := local_secs z now / 86400.

(* time_to_hexadecimal_timestamp with the real composition: today's local day + parsed time *)
Definition time_to_hexadecimal_timestamp_z (legacy : bool) (z : zone) (now : Z) (time_value : bytes) : result bytes :=
  match split_colon time_value with
  | t0 :: t1 :: _ =>
      do hm <- strptime_HM (lstrip t0 ++ [58%N] ++ t1) ;;
      do _ <- (if legacy then Ok (0%N, 0%N) else strptime_HM time_value) ;;
      let t := mktime_model z (86400 * today z now + Z.of_N (3600 * fst hm + 60 * snd hm)) in
      if (0 <=? t) && (t <? 4294967296) then Ok (hexlify (le32 (Z.to_N t))) else Exc StructError
  | _ => Exc IndexError
  end.
