(* Model of api/messages.py StateMessageParser for the type-1 state reply — definitions only *)
Require Import AS.Base.Prelude AS.Base.Hex AS.Base.Dec.
Open Scope N_scope.

Definition int16r (s : bytes) : result N := of_option ValueError (int16 s).

(* seconds_to_iso_time: datetime.time(hour=..).isoformat() *)
Definition seconds_to_iso_time (secs : N) : result bytes :=
  let hours := secs / 3600 in
  if hours <? 24 then Ok (fmt_hhmmss secs)
  else if hours <? 2147483648 then Exc ValueError else Exc OverflowError.

Definition swap4 (h : bytes) : bytes := pyslice 6 8 h ++ pyslice 4 6 h ++ pyslice 2 4 h ++ pyslice 0 2 h.
Definition swap2 (h : bytes) : bytes := pyslice 2 4 h ++ pyslice 0 2 h.

Record state_fields := { sf_state : N; sf_time_left : bytes; sf_time_on : bytes; sf_auto : bytes; sf_power : N }.

Definition get_time (hex : bytes) (lo hi : nat) : result bytes :=
  do secs <- int16r (swap4 (pyslice lo hi hex)) ;; seconds_to_iso_time secs.

Definition parse_state_reply (response : bytes) : result state_fields :=
  let hex := hexlify response in
  (* get_state: dict lookup on "00"/"01" *)
  let hs := pyslice 150 152 hex in
  do st <- (if bytes_eq_dec hs (s2l "01") then Ok 1 else if bytes_eq_dec hs (s2l "00") then Ok 0 else Exc KeyError) ;;
  do tl <- get_time hex 178 186 ;;
  do ton <- get_time hex 186 194 ;;
  do au <- get_time hex 194 202 ;;
  do pw <- int16r (swap2 (pyslice 154 162 hex)) ;;
  Ok {| sf_state := st; sf_time_left := tl; sf_time_on := ton; sf_auto := au; sf_power := pw |}.

(* ---- thermostat state reply (SwitcherThermostatStateResponse) ---- *)
Require Import AS.Base.Utf8 AS.Gen.Extracted.
Fixpoint lookup_value (v : bytes) (l : list (string * string * string)) : option string :=
  match l with [] => None | (n, value, _) :: r => if bytes_eq_dec v (s2l value) then Some n else lookup_value v r end.
Fixpoint value_of (n : string) (l : list (string * string * string)) : bytes :=
  match l with [] => [] | (n', value, _) :: r => if String.eqb n n' then s2l value else value_of n r end.

Record thermostat_fields := { tf_on : bool; tf_mode : string; tf_fan : string; tf_temp10 : N;
                              tf_target : N; tf_swing_on : bool; tf_remote : bytes }.

Definition parse_thermostat_reply (response : bytes) : result thermostat_fields :=
  let hex := hexlify response in
  let on := if bytes_eq_dec (pyslice 156 158 hex) (s2l "00") then false else true in
  let mode := match lookup_value (pyslice 158 160 hex) thermostat_modes with Some m => m | None => "COOL"%string end in
  let fan := match lookup_value (pyslice 162 163 hex) fan_levels with Some f => f | None => "LOW"%string end in
  do t10 <- int16r (pyslice 154 156 hex ++ pyslice 152 154 hex) ;;
  do target <- int16r (pyslice 160 162 hex) ;;
  let swing_on := if bytes_eq_dec (pyslice 163 164 hex) (s2l "0") then false else true in
  do remote <- (if utf8_valid (pyslice 84 92 response) then Ok (rstrip0 (pyslice 84 92 response)) else Exc UnicodeDecodeError) ;;
  Ok {| tf_on := on; tf_mode := mode; tf_fan := fan; tf_temp10 := t10; tf_target := target;
        tf_swing_on := swing_on; tf_remote := remote |}.

(* ---- shutter state reply (SwitcherShutterStateResponse): direction first, then position ---- *)
Record shutter_fields := { sh_position : N; sh_direction : string }.
Definition parse_shutter_reply (response : bytes) : result shutter_fields :=
  let hex := hexlify response in
  do dir <- (match lookup_value (pyslice 156 160 hex) shutter_directions with Some d => Ok d | None => Exc KeyError end) ;;
  do pos <- int16r (pyslice 152 154 hex) ;;
  Ok {| sh_position := pos; sh_direction := dir |}.

(* SwitcherLoginResponse.session_id *)
Definition login_session (response : bytes) : bytes := pyslice 16 24 (hexlify response).
