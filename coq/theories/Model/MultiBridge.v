(* Several SwitcherBridge objects in one process against one abstract OS port table: each object keeps its own
   transports (SwitcherBridge._transports is an instance attribute) and its own running flag.  Definitions only. *)
Require Import AS.Base.Prelude AS.Model.Lifecycle.

Inductive mowner := MFree | MForeign | MBridge (i : nat).
Record bobj := { m_running : bool; m_trans : nat -> tstate }.
Record mstate := { m_os : nat -> mowner; m_objs : nat -> bobj }.

Definition minit : mstate := {| m_os := fun _ => MFree; m_objs := fun _ => {| m_running := false; m_trans := fun _ => TNone |} |}.

Definition set_obj (s : mstate) (i : nat) (o : bobj) : mstate := {| m_os := m_os s; m_objs := upd (m_objs s) i o |}.

Definition mclose_port (i : nat) (s : mstate) (p : nat) : mstate :=
  let o := m_objs s i in
  match m_trans o p with
  | TOpen => {| m_os := upd (m_os s) p MFree;
                m_objs := upd (m_objs s) i {| m_running := m_running o; m_trans := upd (m_trans o) p TClosed |} |}
  | _ => s
  end.

Fixpoint mstart_loop (i : nat) (ports opened : list nat) (s : mstate) : mstate * bool :=
  match ports with
  | [] => (set_obj s i {| m_running := true; m_trans := m_trans (m_objs s i) |}, true)
  | p :: rest =>
      match m_os s p with
      | MFree => mstart_loop i rest (p :: opened)
                   {| m_os := upd (m_os s) p (MBridge i);
                      m_objs := upd (m_objs s) i {| m_running := m_running (m_objs s i); m_trans := upd (m_trans (m_objs s i)) p TOpen |} |}
      | _ => (fold_left (mclose_port i) opened s, false)     (* OSError: what this call opened is closed again *)
      end
  end.
Definition mstart (i : nat) (ports : list nat) (s : mstate) : mstate * bool := mstart_loop i ports [] s.

Definition mstop (i : nat) (ports : list nat) (s : mstate) : mstate :=
  let s' := fold_left (mclose_port i) ports s in
  set_obj s' i {| m_running := false; m_trans := m_trans (m_objs s' i) |}.

Inductive maction := MStart (i : nat) | MStop (i : nat) | MOccupy (p : nat) | MRelease (p : nat).

(* [cfg i] = the port list object i was constructed with *)
Definition mstep (cfg : nat -> list nat) (s : mstate) (a : maction) : mstate :=
  match a with
  | MStart i => fst (mstart i (cfg i) s)
  | MStop i => mstop i (cfg i) s
  | MOccupy p => match m_os s p with MFree => {| m_os := upd (m_os s) p MForeign; m_objs := m_objs s |} | _ => s end
  | MRelease p => match m_os s p with MForeign => {| m_os := upd (m_os s) p MFree; m_objs := m_objs s |} | _ => s end
  end.
Definition mrun (cfg : nat -> list nat) (acts : list maction) : mstate := fold_left (mstep cfg) acts minit.

(* a broadcast sent to port p reaches the callback of object i iff i holds p *)
Definition delivered_to (s : mstate) (p i : nat) : bool := match m_os s p with MBridge j => Nat.eqb i j | _ => false end.
