(* One datatype for every operation of both API classes, and the canonical text of an exchange
   (frames written, then the outcome) that the correspondence harness compares.  Definitions only. *)
Require Import AS.Base.Prelude AS.Base.Hex AS.Base.Dec AS.Base.Template AS.Base.Exchange AS.Base.Float AS.Gen.Extracted
  AS.Model.DeviceTools AS.Model.Messages AS.Model.Remotes AS.Model.ScheduleTools AS.Model.NextRun AS.Model.ScheduleParser
  AS.Model.Api.
Open Scope N_scope.

Inductive op :=
| OControl (on : bool) (minutes : Z)
| OAutoShutdown (secs : Z)
| OSetName (name : bytes)
| OGetSchedules
| ODelete (slot : bytes)
| OCreate (day_base : Z) (start_time end_time : bytes) (days : days_arg)
| OStop
| OSetPosition (position : N)
| OGetShutterState
| OGetBreezeState
| OGetState
| OBreeze (r : remote) (state : option bool) (mode : option string) (target : Z) (fan : option string)
          (swing : option bool) (update_state : bool).

Definition is_type2 (o : op) : bool :=
  match o with OStop | OSetPosition _ | OGetShutterState | OGetBreezeState | OBreeze _ _ _ _ _ _ _ => true | _ => false end.

Definition exn_name (e : exn) : string :=
  match e with
  | ValueError => "ValueError" | KeyError => "KeyError" | IndexError => "IndexError" | RuntimeError => "RuntimeError"
  | StructError => "StructError" | BinasciiError => "BinasciiError" | UnicodeDecodeError => "UnicodeDecodeError"
  | OverflowError => "OverflowError" | TypeError => "TypeError" | OSError => "OSError"
  end.

Definition comma (l : list bytes) : bytes := concat (map (fun x => x ++ [44]) l).
Definition show_base (resp : bytes) : bytes := s2l (if successful resp then "ok:1" else "ok:0").
Definition show_state_fields (resp : bytes) (s : state_fields) : bytes :=
  s2l "state:" ++ comma [s2l (if successful resp then "1" else "0"); str_N (sf_state s); sf_time_left s; sf_time_on s; sf_auto s;
                         str_N (sf_power s); str_Z (amps_tenths (Z.of_N (sf_power s)))].
Definition show_shutter_fields (resp : bytes) (s : shutter_fields) : bytes :=
  s2l "state:" ++ comma [s2l (if successful resp then "1" else "0"); str_N (sh_position s); s2l (sh_direction s)].
Definition show_thermostat_fields (resp : bytes) (s : thermostat_fields) : bytes :=
  s2l "state:" ++ comma [s2l (if successful resp then "1" else "0"); s2l (if tf_on s then "1" else "0"); s2l (tf_mode s);
                         s2l (tf_fan s); str_N (tf_temp10 s); str_N (tf_target s); s2l (if tf_swing_on s then "1" else "0");
                         hexlify (tf_remote s)].

(* get_state of the type-1 API, returning the raw reply with the parsed fields *)
Definition get_state_full (c : cfg) (now : N) : M (bytes * state_fields) :=
  perform l <- login c false now ;;
  if successful (lr_response l) then
    perform state_resp <- send_template T_GET_STATE_PACKET_TYPE1
      [AStr (lr_session l); AStr (lr_timestamp l); AStr (device_id c)] false ;;
    match parse_state_reply state_resp with
    | Ok r => if successful state_resp then ret (state_resp, r) else raise RuntimeError
    | Exc e => if (is_key_error e || is_value_error e)%bool then raise RuntimeError else raise e
    end
  else raise RuntimeError.

(* SwitcherGetSchedulesResponse(response): the list parser runs in the constructor (host zone = UTC here) *)
Definition get_schedules_full (c : cfg) (now : N) : M bytes :=
  perform resp <- get_schedules_op false c now ;;
  match get_schedules false false utc (Z.of_N now) resp with
  | Ok _ => ret resp
  | Exc e => raise e
  end.

Definition mapM {A B} (f : A -> B) (m : M A) : M B := perform a <- m ;; ret (f a).

Definition run_op (c : cfg) (now : N) (o : op) : M bytes :=
  match o with
  | OControl on minutes => mapM show_base (control_device_op false c now (s2l (if on then "1" else "0")) minutes)
  | OAutoShutdown secs => mapM show_base (set_auto_shutdown_op false c now secs)
  | OSetName name => mapM show_base (set_device_name_op false c now name)
  | OGetSchedules => mapM show_base (get_schedules_full c now)
  | ODelete slot => mapM show_base (delete_schedule_op false c now slot)
  | OCreate day_base st en days => mapM show_base (create_schedule_op false c now day_base st en days)
  | OStop => mapM show_base (stop_op false c now)
  | OSetPosition p => mapM show_base (set_position_op false c now p)
  | OGetShutterState => mapM (fun '(resp, s) => show_shutter_fields resp s) (get_shutter_state c now)
  | OGetBreezeState => mapM (fun '(resp, s) => show_thermostat_fields resp s) (get_breeze_state c now)
  | OGetState => mapM (fun '(resp, s) => show_state_fields resp s) (get_state_full c now)
  | OBreeze r state mode target fan swing update =>
      mapM show_base (control_breeze_device false c now r state mode target fan swing update)
  end.

(* frames (hex, each followed by '|') then the outcome *)
Definition show_run (x : list bytes * result bytes) : bytes :=
  let '(fs, r) := x in
  concat (map (fun f => hexlify f ++ [124]) fs) ++
  match r with Ok t => t | Exc e => s2l "exc:" ++ s2l (exn_name e) end.

Definition exchange_text (c : cfg) (now : N) (o : op) (replies : list bytes) : bytes :=
  show_run (Exchange.run (run_op c now o) replies).
