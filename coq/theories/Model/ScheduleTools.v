(* Model of src/aioswitcher/schedule/tools.py — definitions only *)
Require Import AS.Base.Prelude AS.Base.Hex AS.Base.Dec.
Open Scope N_scope.

(* datetime.strptime(s, "%H:%M"): regex (2[0-3]|[0-1]\d|\d):([0-5]\d|\d), then
   "unconverted data remains" unless the whole string was consumed *)
Definition parse_hour (s : bytes) : option (N * bytes) :=
  match s with
  | a :: b :: 58 :: r =>
      if is_digit a && is_digit b && (((a =? 50) && (b <=? 51)) || (a <=? 49))
      then Some (10 * dval a + dval b, r) else None
  | a :: 58 :: r => if is_digit a then Some (dval a, r) else None
  | _ => None
  end.
Definition parse_minute (r : bytes) : option N :=
  match r with
  | [a] => if is_digit a then Some (dval a) else None
  | [a; b] => if is_digit a && (a <=? 53) && is_digit b then Some (10 * dval a + dval b) else None
  | _ => None   (* empty: no match; longer: unconverted data remains *)
  end.
Definition strptime_HM (s : bytes) : result (N * N) :=
  match parse_hour s with
  | None => Exc ValueError
  | Some (h, r) => match parse_minute r with None => Exc ValueError | Some m => Ok (h, m) end
  end.

(* str(timedelta(seconds=t)) for 0 <= t *)
Definition timedelta_str (t : N) : bytes :=
  let d := t / 86400 in
  let rest := fmt_hmmss (t mod 86400) in
  if d =? 0 then rest
  else str_N d ++ s2l (if d =? 1 then " day, " else " days, ") ++ rest.

Definition calc_duration (start_time end_time : bytes) : result bytes :=
  do s <- strptime_HM start_time ;;
  do e <- strptime_HM end_time ;;
  let smin := 60 * fst s + snd s in
  let emin := 60 * fst e + snd e in
  let emin' := if emin <? smin then emin + 1440 else emin in
  Ok (timedelta_str ((emin' - smin) * 60)).

(* ---- weekdays ---- *)
Require Import AS.Gen.Extracted.
From Coq Require Import Permutation.

(* a Days member is its index in the enum (definition order) *)
Definition day := nat.
Definition n_days : nat := length days.
Definition day_bit_rep (d : day) : N := match nth_error days d with Some (_, _, _, b, _) => b | None => 0 end.
Definition day_hex_rep (d : day) : N := match nth_error days d with Some (_, _, h, _, _) => h | None => 0 end.
Definition day_weekday (d : day) : N := match nth_error days d with Some (_, _, _, _, w) => w | None => 0 end.
Definition all_days : list day := seq 0 n_days.

Inductive days_arg := ADay (d : day) | ASet (l : list day) | ASeq (l : list day).

Fixpoint nodupb (l : list day) : bool :=
  match l with [] => true | x :: r => negb (existsb (Nat.eqb x) r) && nodupb r end.

Definition sum_bits (l : list day) : N := fold_left (fun a d => a + day_bit_rep d) l 0.

Definition weekdays_to_hexadecimal (a : days_arg) : result bytes :=
  match a with
  | ADay d => Ok (fmt_02x (day_bit_rep d))
  | ASet [] | ASeq [] => Exc ValueError
  | ASet l => Ok (fmt_02x (sum_bits l))
  | ASeq l => if nodupb l then Ok (fmt_02x (sum_bits l)) else Exc ValueError
  end.

Definition bit_summary_to_days (n : N) : result (list day) :=
  if (1 <? n) && (n <? 255)
  then Ok (filter (fun d => negb (N.land (day_hex_rep d) n =? 0)) all_days)
  else Exc ValueError.

(* ---- time_to_hexadecimal_timestamp ---- *)
Definition is_space (c : N) : bool := (c =? 32) || ((9 <=? c) && (c <=? 13)).
Fixpoint lstrip (s : bytes) : bytes := match s with c :: r => if is_space c then lstrip r else s | [] => [] end.
Fixpoint split_colon_aux (s cur : bytes) : list bytes :=
  match s with
  | [] => [rev cur]
  | c :: r => if c =? 58 then rev cur :: split_colon_aux r [] else split_colon_aux r (c :: cur)
  end.
Definition split_colon (s : bytes) : list bytes := split_colon_aux s [].

(* [day_base] = epoch second of today's local midnight (no zone transition today);
   [legacy] = before the F9 repair (no validation of the whole argument) *)
Definition time_to_hexadecimal_timestamp (legacy : bool) (day_base : Z) (time_value : bytes) : result bytes :=
  match split_colon time_value with
  | t0 :: t1 :: _ =>
      do hm <- strptime_HM (lstrip t0 ++ [58] ++ t1) ;;
      do _ <- (if legacy then Ok (0, 0) else strptime_HM time_value) ;;
      let t := (day_base + Z.of_N (3600 * fst hm + 60 * snd hm))%Z in
      if ((0 <=? t) && (t <? 4294967296))%Z then Ok (hexlify (le32 (Z.to_N t))) else Exc StructError
  | _ => Exc IndexError
  end.
