(* Model of api/remotes.py key fallback — definitions only *)
Require Import AS.Base.Prelude.

(* _lookup_key_in_irset, on the reversed key list (key.pop() drops the head of the reversed list) *)
Fixpoint lookup (present : bytes -> bool) (rkey : list bytes) : list bytes :=
  match rkey with
  | [] => []                       (* python: IndexError from pop(); unreachable from build_command *)
  | [x] => [x]
  | x :: rest => if present (concat (rev rkey)) then rkey else lookup present rest
  end.
Definition lookup_key (present : bytes -> bool) (key : list bytes) : list bytes :=
  rev (lookup present (rev key)).

(* ---- SwitcherBreezeRemote: capabilities and build_command ---- *)
Require Import AS.Base.Hex AS.Base.Dec AS.Gen.Extracted AS.Model.DeviceTools.
Open Scope Z_scope.

Record wave := { w_key : bytes; w_para : bytes; w_hex : bytes }.
Record irset := { ir_id : bytes; ir_onoff : Z; ir_waves : list wave }.
Record remote := { r_id : bytes; r_min : Z; r_max : Z; r_toggle : bool; r_sep : bool;
                   r_supported : list string; r_map : list (bytes * (bytes * bytes)) }.

Fixpoint assoc_s (k : bytes) (l : list (string * string)) : option string :=
  match l with [] => None | (a, b) :: r => if bytes_eq_dec k (s2l a) then Some b else assoc_s k r end.
Fixpoint assoc_n (k : string) (l : list (string * string)) : bytes :=
  match l with [] => [] | (a, b) :: r => if String.eqb k a then s2l b else assoc_n k r end.
(* dict semantics: the last binding of a key wins *)
Fixpoint map_get (k : bytes) (m : list (bytes * (bytes * bytes))) : option (bytes * bytes) :=
  match m with
  | [] => None
  | (k', v) :: r => match map_get k r with Some v' => Some v' | None => if bytes_eq_dec k k' then Some v else None end
  end.
Definition all_digits (s : bytes) : bool := match s with [] => false | _ => forallb is_digit s end.
Definition digits_val (s : bytes) : Z := Z.of_N (fold_left (fun a c => (10 * a + dval c)%N) s 0%N).

Definition resolve_step (r : remote) (w : wave) : remote :=
  let key := w_key w in
  let sup := match assoc_s (pyslice 0 2 key) command_to_mode with
             | Some m => if existsb (String.eqb m) (r_supported r) then r_supported r else r_supported r ++ [m]
             | None => r_supported r end in
  let t := pyslice 2 4 key in
  let '(mn, mx) := if all_digits t then
                     let v := digits_val t in
                     let mx := if r_max r <? v then v else r_max r in
                     let mn := if v <? r_min r then v else r_min r in (mn, mx)
                   else (r_min r, r_max r) in
  {| r_id := r_id r; r_min := mn; r_max := mx; r_toggle := r_toggle r; r_sep := r_sep r;
     r_supported := sup; r_map := r_map r ++ [(key, (w_para w, w_hex w))] |}.

Definition make_remote (s : irset) : remote :=
  fold_left resolve_step (ir_waves s)
    {| r_id := ir_id s; r_min := 100; r_max := -100; r_toggle := (ir_onoff s =? 1);
       r_sep := existsb (fun x => if bytes_eq_dec (ir_id s) (s2l x) then true else false) special_swing_ids;
       r_supported := []; r_map := [] |}.

Definition is_fan_mode (m : string) : bool := (String.eqb m "AUTO" || String.eqb m "DRY" || String.eqb m "FAN")%bool.
Definition is_temp_mode (m : string) : bool := (String.eqb m "COOL" || String.eqb m "HEAT")%bool.

Definition command_of (r : remote) (key : list bytes) : result bytes :=
  match map_get (concat key) (r_map r) with
  | None => Exc KeyError
  | Some (para, hx) => Ok (s2l "00000000" ++ hexlify (para ++ [124%N] ++ hx))
  end.

(* build_command(state, mode, target_temp, fan_level, swing, current_state) -> (command, length) *)
Definition build_command (legacy_len : bool) (r : remote) (state_on : bool) (mode : string) (target : Z)
    (fan : string) (swing_on : bool) (current : option bool) : result (bytes * bytes) :=
  let target := if r_max r <? target then r_max r else if target <? r_min r then r_min r else target in
  if negb (existsb (String.eqb mode) (r_supported r)) then Exc RuntimeError else
  let present k := match map_get k (r_map r) with Some _ => true | None => false end in
  let key :=
    if negb (r_toggle r) && negb state_on then [s2l "off"] else
    let pre := if r_toggle r && match current with Some c => negb (Bool.eqb c state_on) | None => false end
               then [s2l "on_"] else [] in
    let fanp := 95%N :: assoc_n fan fan_to_command in
    let sw := if swing_on then [s2l "_d1"] else [] in
    if is_fan_mode mode then lookup_key present (pre ++ [assoc_n mode mode_to_command; fanp] ++ sw)
    else if is_temp_mode mode then lookup_key present (pre ++ [assoc_n mode mode_to_command; str_Z target; fanp] ++ sw)
    else pre in
  do cmd <- command_of r key ;;
  do len <- breeze_command_length legacy_len cmd ;;
  Ok (cmd, len).

Definition build_swing_command (legacy_len : bool) (r : remote) (swing_on : bool) : result (bytes * bytes) :=
  match map_get (s2l (if swing_on then "FUN_d1" else "FUN_d0")) (r_map r) with
  | None => Exc RuntimeError
  | Some (para, hx) =>
      let cmd := s2l "00000000" ++ hexlify (para ++ [124%N] ++ hx) in
      do len <- breeze_command_length legacy_len cmd ;; Ok (cmd, len)
  end.
