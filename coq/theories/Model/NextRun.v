(* Model of schedule.tools.pretty_next_run — definitions only *)
Require Import AS.Base.Prelude AS.Base.Dec AS.Gen.Extracted AS.Model.ScheduleTools.
Open Scope nat_scope.

Fixpoint insert (x : nat) (l : list nat) : list nat :=
  match l with [] => [x] | y :: r => if x <=? y then x :: l else y :: insert x r end.
Definition sort (l : list nat) : list nat := fold_right insert [] l.

Inductive next_run := Today | Tomorrow | NextDay (weekday : nat) | NREx (e : exn).

(* legacy = true models the code before the F7 repair *)
Definition pretty_next_run_core (legacy : bool) (current_weekday : nat) (now_lt_start : bool)
    (execution_days0 : list nat) : next_run :=
  match execution_days0 with
  | [] => Today
  | _ =>
    if existsb (Nat.eqb current_weekday) execution_days0 && now_lt_start then Today else
    let execution_days := sort execution_days0 in
    let last_day := last execution_days 0 in
    let wrap := if legacy then last_day <? current_weekday else last_day <=? current_weekday in
    let next_exc_day :=
      if wrap then Ok (hd 0 execution_days)
      else match filter (fun d => if legacy then current_weekday <=? d else current_weekday <? d) execution_days with
           | [] => Exc IndexError | d :: _ => Ok d end in
    match next_exc_day with
    | Exc e => NREx e
    | Ok n =>
      if (n - 1 =? current_weekday) && negb (n =? 0)   (* python: next_exc_day - 1 == current_weekday over int *)
         || ((n =? 0) && (current_weekday =? 6))
      then Tomorrow else NextDay n
    end
  end.
