(* Sequences of operations: on one connected API object, and on several API objects with their own connections.
   Definitions only. *)
Require Import AS.Base.Prelude AS.Base.Exchange AS.Model.Api AS.Model.Ops.
Open Scope N_scope.

(* operations awaited one after another on one connection: the frames written so far and the device's remaining replies are
   threaded through; an operation that raises does not end the sequence (the caller catches and goes on) *)
Fixpoint seq_ops (c : cfg) (ops : list (N * op)) (st : io) : io * list (result bytes) :=
  match ops with
  | [] => (st, [])
  | (now, o) :: rest =>
      let '(st1, r) := run_op c now o st in
      let '(st2, rs) := seq_ops c rest st1 in (st2, r :: rs)
  end.
Definition run_seq (c : cfg) (ops : list (N * op)) (script : list bytes) : list bytes * list (result bytes) :=
  let '(st, rs) := seq_ops c ops {| frames := []; replies := script |} in (frames st, rs).

(* several API objects (numbered), each with its own configuration and its own connection; a schedule says which object
   performs which operation next *)
Definition world := nat -> io.
Definition wupd (w : world) (k : nat) (st : io) : world := fun j => if Nat.eqb j k then st else w j.
Fixpoint run_world (cfgs : nat -> cfg) (sched : list (nat * (N * op))) (w : world) : world * list (nat * result bytes) :=
  match sched with
  | [] => (w, [])
  | (k, (now, o)) :: rest =>
      let '(st, r) := run_op (cfgs k) now o (w k) in
      let '(w', rs) := run_world cfgs rest (wupd w k st) in (w', (k, r) :: rs)
  end.
