(* strict UTF-8 validity as bytes.decode() checks it (Unicode table 3-7), as a byte-at-a-time automaton *)
Require Import AS.Base.Prelude.
Open Scope N_scope.

Definition between (lo hi b : N) : bool := (lo <=? b) && (b <=? hi).
Definition cont (b : N) : bool := between 128 191 b.

(* U0: between characters; UC n lo hi: the next byte must lie in [lo, hi], then n more continuation bytes *)
Inductive ustate := U0 | UC (n : nat) (lo hi : N).

Definition ustep (s : ustate) (b : N) : option ustate :=
  match s with
  | U0 =>
      if b <? 128 then Some U0
      else if between 194 223 b then Some (UC 0 128 191)
      else if b =? 224 then Some (UC 1 160 191)
      else if b =? 237 then Some (UC 1 128 159)
      else if between 225 239 b then Some (UC 1 128 191)
      else if b =? 240 then Some (UC 2 144 191)
      else if b =? 244 then Some (UC 2 128 143)
      else if between 241 243 b then Some (UC 2 128 191)
      else None
  | UC n lo hi =>
      if between lo hi b then Some (match n with O => U0 | S k => UC k 128 191 end) else None
  end.

Fixpoint urun (s : ustate) (bs : bytes) : option ustate :=
  match bs with
  | [] => Some s
  | b :: r => match ustep s b with Some s' => urun s' r | None => None end
  end.

Definition utf8_valid (bs : bytes) : bool := match urun U0 bs with Some U0 => true | _ => false end.

(* s.rstrip("\x00") on the UTF-8 bytes *)
Fixpoint drop0 (l : bytes) : bytes := match l with 0 :: r => drop0 r | _ => l end.
Definition rstrip0 (bs : bytes) : bytes := rev (drop0 (rev bs)).

(* ---- lemmas ---- *)
Lemma urun_app s a : forall b, urun s (a ++ b) = match urun s a with Some s' => urun s' b | None => None end.
Proof.
  revert s. induction a as [|x a IH]; intros s b; [reflexivity|]. cbn [app urun].
  destruct (ustep s x); [apply IH|reflexivity].
Qed.
Lemma urun_zeros n : urun U0 (repeat 0 n) = Some U0.
Proof. induction n as [|n IH]; [reflexivity|]. cbn [repeat urun ustep]. exact IH. Qed.
Lemma utf8_valid_pad a n : utf8_valid a = true -> utf8_valid (a ++ repeat 0 n) = true.
Proof.
  unfold utf8_valid. rewrite urun_app. destruct (urun U0 a) as [[|k lo hi]|]; try discriminate.
  intros _. rewrite urun_zeros. reflexivity.
Qed.

Lemma rev_repeat0 n : rev (repeat 0 n) = repeat 0 n.
Proof.
  induction n as [|n IH]; [reflexivity|]. cbn [repeat rev]. rewrite IH. clear.
  induction n as [|n IH]; [reflexivity|]. cbn [repeat app]. rewrite IH. reflexivity.
Qed.
Lemma drop0_zeros n l : drop0 (repeat 0 n ++ l) = drop0 l.
Proof. induction n as [|n IH]; [reflexivity|]. cbn [repeat app drop0]. exact IH. Qed.
Lemma rstrip0_pad name n : last name 1 <> 0 -> rstrip0 (name ++ repeat 0 n) = name.
Proof.
  intros Hl. unfold rstrip0. rewrite rev_app_distr, rev_repeat0, drop0_zeros.
  assert (Hn : drop0 (rev name) = rev name).
  { destruct name as [|y name']; [reflexivity|].
    destruct (@exists_last _ (y :: name') ltac:(discriminate)) as [l [x E]]. rewrite E in *.
    rewrite rev_app_distr. cbn [rev app]. rewrite last_last in Hl. destruct x; [contradiction|reflexivity]. }
  rewrite Hn. apply rev_involutive.
Qed.
