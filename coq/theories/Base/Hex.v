Require Import AS.Base.Prelude.
Open Scope N_scope.

Definition hexdigit (n : N) : N := if n <? 10 then 48 + n else 87 + n.
Definition nib_of_char (c : N) : option N :=
  if (48 <=? c) && (c <=? 57) then Some (c - 48)
  else if (97 <=? c) && (c <=? 102) then Some (c - 87)
  else if (65 <=? c) && (c <=? 70) then Some (c - 55)
  else None.
Definition is_hexchar (c : N) : bool := match nib_of_char c with Some _ => true | None => false end.

Definition hexbyte (b : N) : bytes := [hexdigit (b / 16); hexdigit (b mod 16)].
Definition hexlify (bs : bytes) : bytes := flat_map hexbyte bs.

Fixpoint unhexlify (s : bytes) : option bytes :=
  match s with
  | [] => Some []
  | [_] => None
  | a :: b :: r =>
      match nib_of_char a, nib_of_char b, unhexlify r with
      | Some x, Some y, Some bs => Some (16 * x + y :: bs)
      | _, _, _ => None
      end
  end.

(* int(s, 16) on a string of hex digits; None = ValueError *)
Definition int16 (s : bytes) : option N :=
  match s with
  | [] => None
  | _ => fold_left (fun acc c => match acc, nib_of_char c with
                                 | Some a, Some d => Some (16 * a + d) | _, _ => None end) s (Some 0)
  end.

Definition le16 (n : N) : bytes := [n mod 256; n / 256 mod 256].
Definition le32 (n : N) : bytes := [n mod 256; n / 256 mod 256; n / 65536 mod 256; n / 16777216 mod 256].
Definition be32 (n : N) : bytes := [n / 16777216 mod 256; n / 65536 mod 256; n / 256 mod 256; n mod 256].
Definition of_le (bs : bytes) : N := fold_right (fun b acc => b + 256 * acc) 0 bs.

(* "{:02x}".format(n) for n < 256 is hexbyte; general "{:x}" *)
Fixpoint hex_digits_fuel (fuel : nat) (n : N) (acc : bytes) : bytes :=
  match fuel with
  | O => acc
  | S k => if n <? 16 then hexdigit n :: acc else hex_digits_fuel k (n / 16) (hexdigit (n mod 16) :: acc)
  end.
Definition fmt_x (n : N) : bytes := hex_digits_fuel (S (N.to_nat (N.log2 n))) n [].
Definition fmt_02x (n : N) : bytes := let d := fmt_x n in if (length d <? 2)%nat then 48 :: d else d.
Definition ljust (w : nat) (fill : N) (s : bytes) : bytes := s ++ repeat fill (w - length s).

(* ---- lemmas ---- *)
Lemma nib_hexdigit n : n < 16 -> nib_of_char (hexdigit n) = Some n.
Proof.
  intros H. unfold hexdigit, nib_of_char.
  destruct (N.ltb_spec n 10).
  - replace ((48 <=? 48 + n) && (48 + n <=? 57)) with true.
    + f_equal. lia.
    + symmetry. apply andb_true_intro. split; apply N.leb_le; lia.
  - replace ((48 <=? 87 + n) && (87 + n <=? 57)) with false.
    + replace ((97 <=? 87 + n) && (87 + n <=? 102)) with true.
      * f_equal. lia.
      * symmetry. apply andb_true_intro. split; apply N.leb_le; lia.
    + symmetry. apply andb_false_intro2. apply N.leb_gt. lia.
Qed.

Lemma unhexlify_hexlify bs : Forall (fun b => b < 256) bs -> unhexlify (hexlify bs) = Some bs.
Proof.
  induction 1 as [|b bs Hb _ IH]; [reflexivity|].
  cbn [hexlify flat_map hexbyte app unhexlify]. fold (hexlify bs).
  rewrite !nib_hexdigit, IH.
  - f_equal. f_equal. pose proof (N.div_mod b 16). lia.
  - apply N.mod_lt. discriminate.
  - apply N.div_lt_upper_bound; lia.
Qed.

Lemma hexlify_length bs : length (hexlify bs) = (2 * length bs)%nat.
Proof. induction bs as [|b bs IH]; [reflexivity|]. cbn [hexlify flat_map hexbyte app length] in *. fold (hexlify bs). lia. Qed.

Lemma hexlify_app a b : hexlify (a ++ b) = hexlify a ++ hexlify b.
Proof. unfold hexlify. apply flat_map_app. Qed.

Lemma hexlify_skipn n : forall bs, skipn (2*n) (hexlify bs) = hexlify (skipn n bs).
Proof.
  induction n as [|n IH]; intros bs; [reflexivity|].
  destruct bs as [|b bs]; [reflexivity|].
  replace (2 * S n)%nat with (S (S (2*n))) by lia.
  cbn [hexlify flat_map hexbyte app skipn]. fold (hexlify bs). apply IH.
Qed.

Lemma hexlify_firstn n : forall bs, firstn (2*n) (hexlify bs) = hexlify (firstn n bs).
Proof.
  induction n as [|n IH]; intros bs; [reflexivity|].
  destruct bs as [|b bs]; [reflexivity|].
  replace (2 * S n)%nat with (S (S (2*n))) by lia.
  cbn [hexlify flat_map hexbyte app firstn]. fold (hexlify bs). f_equal. f_equal. apply IH.
Qed.

Lemma hexlify_slice a b bs : pyslice (2*a) (2*b) (hexlify bs) = hexlify (pyslice a b bs).
Proof.
  unfold pyslice. rewrite hexlify_skipn. replace (2*b - 2*a)%nat with (2*(b-a))%nat by lia.
  apply hexlify_firstn.
Qed.

Lemma unhexlify_app_aux n : forall a x b y, (length a <= n)%nat ->
  unhexlify a = Some x -> unhexlify b = Some y -> unhexlify (a ++ b) = Some (x ++ y).
Proof.
  induction n as [|n IH]; intros a x b y Hl Ha Hb.
  - destruct a; [|cbn in Hl; lia]. inversion Ha; subst. exact Hb.
  - destruct a as [|c [|d r]].
    + inversion Ha; subst. exact Hb.
    + discriminate.
    + cbn [app unhexlify] in *. destruct (nib_of_char c), (nib_of_char d); try discriminate.
      destruct (unhexlify r) as [bs|] eqn:E; [|discriminate]. inversion Ha; subst.
      rewrite (IH r bs b y ltac:(cbn in Hl; lia) E Hb). reflexivity.
Qed.
Lemma unhexlify_app a x b y : unhexlify a = Some x -> unhexlify b = Some y ->
  unhexlify (a ++ b) = Some (x ++ y).
Proof. apply (unhexlify_app_aux (length a)). lia. Qed.

Lemma unhexlify_bytes s : forall bs, unhexlify s = Some bs -> Forall (fun b => b < 256) bs.
Proof.
  assert (Hn : forall c x, nib_of_char c = Some x -> x < 16).
  { intros c x. unfold nib_of_char.
    destruct ((48 <=? c) && (c <=? 57)) eqn:E1.
    - apply andb_prop in E1. destruct E1 as [A B]. apply N.leb_le in A, B. intros H; inversion H; lia.
    - destruct ((97 <=? c) && (c <=? 102)) eqn:E2.
      + apply andb_prop in E2. destruct E2 as [A B]. apply N.leb_le in A, B. intros H; inversion H; lia.
      + destruct ((65 <=? c) && (c <=? 70)) eqn:E3; [|discriminate].
        apply andb_prop in E3. destruct E3 as [A B]. apply N.leb_le in A, B. intros H; inversion H; lia. }
  assert (Haux : forall n s bs, (length s <= n)%nat -> unhexlify s = Some bs -> Forall (fun b => b < 256) bs).
  { induction n as [|n IH]; intros s' bs Hl H.
    - destruct s'; [|cbn in Hl; lia]. inversion H. constructor.
    - destruct s' as [|c [|d r]]; [inversion H; constructor|discriminate|].
      cbn [unhexlify] in H. destruct (nib_of_char c) eqn:Ec, (nib_of_char d) eqn:Ed; try discriminate.
      destruct (unhexlify r) eqn:Er; [|discriminate].
      replace bs with (16 * n0 + n1 :: b) by congruence. constructor.
      + pose proof (Hn _ _ Ec). pose proof (Hn _ _ Ed). cbv beta. lia.
      + apply (IH r); [cbn in Hl; lia|exact Er]. }
  intros bs. apply (Haux (length s)). lia.
Qed.
