(* byte layouts as concatenations of segments; slicing one segment back out *)
Require Import AS.Base.Prelude.

Fixpoint offset (segs : list bytes) (k : nat) : nat :=
  match k, segs with
  | O, _ => O
  | S k', [] => O
  | S k', s :: r => (length s + offset r k')%nat
  end.

Lemma pyslice_concat : forall (segs : list bytes) k, (k < length segs)%nat ->
  pyslice (offset segs k) (offset segs k + length (nth k segs [])) (concat segs) = nth k segs [].
Proof.
  induction segs as [|s r IH]; intros k Hk; [cbn in Hk; lia|].
  destruct k as [|k]; cbn [offset nth concat].
  - unfold pyslice. cbn [skipn]. rewrite Nat.add_0_l, Nat.sub_0_r.
    rewrite firstn_app, Nat.sub_diag, firstn_all. cbn [firstn]. apply app_nil_r.
  - cbn [length] in Hk. specialize (IH k ltac:(lia)). unfold pyslice in *.
    rewrite skipn_app. rewrite skipn_all2 by lia. cbn [app].
    replace (length s + offset r k - length s)%nat with (offset r k) by lia.
    replace (length s + offset r k + length (nth k r []) - (length s + offset r k))%nat
      with (offset r k + length (nth k r []) - offset r k)%nat by lia.
    exact IH.
Qed.

(* the form used in proofs: explicit bounds *)
Lemma slice_segment (segs : list bytes) k lo hi : (k < length segs)%nat ->
  lo = offset segs k -> hi = (lo + length (nth k segs []))%nat ->
  pyslice lo hi (concat segs) = nth k segs [].
Proof. intros Hk -> ->. apply pyslice_concat. exact Hk. Qed.

(* a slice covering j consecutive whole segments *)
Lemma pyslice_concat_range : forall (segs : list bytes) k j, (k + j <= length segs)%nat ->
  pyslice (offset segs k) (offset segs (k + j)) (concat segs) = concat (firstn j (skipn k segs)).
Proof.
  induction segs as [|s r IH]; intros k j Hk.
  - cbn in Hk. assert (k = 0 /\ j = 0)%nat as [-> ->] by lia. reflexivity.
  - destruct k as [|k].
    + cbn [offset Nat.add skipn]. clear IH. revert s r Hk. induction j as [|j IHj]; intros s r Hk.
      * cbn [offset firstn concat]. unfold pyslice. reflexivity.
      * cbn [offset firstn concat]. unfold pyslice. cbn [skipn]. rewrite Nat.sub_0_r.
        rewrite firstn_app. rewrite firstn_all2 by lia.
        replace (length s + offset r j - length s)%nat with (offset r j) by lia. f_equal.
        destruct r as [|s' r'].
        -- cbn in Hk. assert (j = 0)%nat by lia. subst. reflexivity.
        -- specialize (IHj s' r' ltac:(cbn in *; lia)). unfold pyslice in IHj. cbn [skipn] in IHj.
           rewrite Nat.sub_0_r in IHj. exact IHj.
    + cbn [Nat.add offset skipn concat]. cbn [length] in Hk. specialize (IH k j ltac:(lia)).
      unfold pyslice in *. rewrite skipn_app. rewrite skipn_all2 by lia. cbn [app].
      replace (length s + offset r k - length s)%nat with (offset r k) by lia.
      replace (length s + offset r (k + j) - (length s + offset r k))%nat with (offset r (k + j) - offset r k)%nat by lia.
      exact IH.
Qed.

Lemma slice_range (segs : list bytes) k j lo hi : (k + j <= length segs)%nat ->
  lo = offset segs k -> hi = offset segs (k + j) ->
  pyslice lo hi (concat segs) = concat (firstn j (skipn k segs)).
Proof. intros Hk -> ->. apply pyslice_concat_range. exact Hk. Qed.
