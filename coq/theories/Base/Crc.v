Require Import AS.Base.Prelude.
Open Scope N_scope.

Fixpoint iter {A} (n : nat) (f : A -> A) (x : A) : A :=
  match n with O => x | S k => iter k f (f x) end.

(* Spec: bit-serial CRC-16/CCITT, MSB first, polynomial 0x1021 *)
Definition crc_bit (c : N) : N :=
  let s := N.shiftl c 1 in
  if N.testbit c 15 then N.lxor (N.land s 65535) 4129 else N.land s 65535.
Definition crc_byte_spec (c b : N) : N := iter 8 crc_bit (N.lxor c (N.shiftl b 8)).
Definition crc_spec (init : N) (bs : bytes) : N := fold_left crc_byte_spec bs init.

(* Model of binascii.crc_hqx: table driven *)
Definition tab_entry (i : N) : N := iter 8 crc_bit (N.shiftl i 8).
Definition crc_byte_tab (c b : N) : N :=
  N.lxor (N.land (N.shiftl c 8) 65280) (tab_entry (N.lxor (N.shiftr c 8) b)).
Definition crc_hqx (bs : bytes) (init : N) : N := fold_left crc_byte_tab bs init.

Definition step8_ok (x : N) : bool :=
  N.eqb (iter 8 crc_bit x) (N.lxor (N.shiftl (N.land x 255) 8) (tab_entry (N.shiftr x 8))).
Lemma step8_all : sweep step8_ok 16 0 = true.
Proof. vm_compute. reflexivity. Qed.
Lemma step8 x : x < 65536 ->
  iter 8 crc_bit x = N.lxor (N.shiftl (N.land x 255) 8) (tab_entry (N.shiftr x 8)).
Proof. intros H. apply N.eqb_eq. change (step8_ok x = true). apply (sweep_all step8_ok 16); [exact step8_all|exact H]. Qed.

Lemma lxor_lt a b n : a < 2^n -> b < 2^n -> N.lxor a b < 2^n.
Proof.
  intros Ha Hb.
  destruct (N.eq_dec (N.lxor a b) 0) as [E|E]; [rewrite E; apply N.neq_0_lt_0, N.pow_nonzero; lia|].
  apply N.log2_lt_pow2; [lia|].
  eapply N.le_lt_trans; [apply N.log2_lxor|].
  destruct (N.eq_dec a 0) as [->|Ha0]; destruct (N.eq_dec b 0) as [->|Hb0]; cbn.
  - rewrite N.lxor_0_l in E. lia.
  - rewrite N.max_r by lia. apply N.log2_lt_pow2; lia.
  - rewrite N.max_l by lia. apply N.log2_lt_pow2; lia.
  - apply N.max_lub_lt; apply N.log2_lt_pow2; lia.
Qed.

Lemma land_low8_lxor_shl c b : N.land (N.lxor c (N.shiftl b 8)) 255 = N.land c 255.
Proof.
  apply N.bits_inj; intros n. rewrite !N.land_spec, N.lxor_spec.
  destruct (N.lt_ge_cases n 8) as [Hn|Hn].
  - rewrite N.shiftl_spec_low by lia. rewrite xorb_false_r. reflexivity.
  - change 255 with (N.ones 8). rewrite N.ones_spec_high by lia. rewrite !andb_false_r. reflexivity.
Qed.
Lemma shr8_lxor_shl c b : N.shiftr (N.lxor c (N.shiftl b 8)) 8 = N.lxor (N.shiftr c 8) b.
Proof. rewrite N.shiftr_lxor, N.shiftr_shiftl_l by lia. rewrite N.sub_diag, N.shiftl_0_r. reflexivity. Qed.
Lemma shl8_low c : N.shiftl (N.land c 255) 8 = N.land (N.shiftl c 8) 65280.
Proof.
  apply N.bits_inj; intros n. rewrite N.land_spec.
  destruct (N.lt_ge_cases n 8) as [Hn|Hn].
  - rewrite !N.shiftl_spec_low by lia. reflexivity.
  - rewrite !N.shiftl_spec_high' by lia. rewrite N.land_spec.
    change 255 with (N.ones 8). change 65280 with (N.shiftl (N.ones 8) 8).
    rewrite (N.shiftl_spec_high' (N.ones 8)) by lia. reflexivity.
Qed.

Lemma byte_step_eq c b : c < 65536 -> b < 256 -> crc_byte_spec c b = crc_byte_tab c b.
Proof.
  intros Hc Hb. unfold crc_byte_spec, crc_byte_tab.
  assert (Hs : N.shiftl b 8 < 65536) by (rewrite N.shiftl_mul_pow2; change (2^8) with 256; lia).
  rewrite step8 by (apply (lxor_lt _ _ 16); assumption).
  rewrite land_low8_lxor_shl, shr8_lxor_shl, shl8_low. reflexivity.
Qed.

Lemma crc_bit_lt c : crc_bit c < 65536.
Proof.
  unfold crc_bit. assert (H : N.land (N.shiftl c 1) 65535 < 65536).
  { change 65535 with (N.ones 16). rewrite N.land_ones. apply N.mod_lt. discriminate. }
  destruct (N.testbit c 15); [|exact H].
  apply (lxor_lt _ _ 16); [exact H|reflexivity].
Qed.
Lemma crc_byte_spec_lt c b : crc_byte_spec c b < 65536.
Proof. unfold crc_byte_spec. cbn [iter]. apply crc_bit_lt. Qed.

Lemma crc_spec_lt bs : forall init, init < 65536 -> crc_spec init bs < 65536.
Proof.
  induction bs as [|b bs IH]; intros init Hi; [exact Hi|].
  unfold crc_spec in *. cbn [fold_left]. apply IH, crc_byte_spec_lt.
Qed.

Theorem crc_hqx_eq_spec bs : forall init, init < 65536 -> Forall (fun b => b < 256) bs ->
  crc_hqx bs init = crc_spec init bs.
Proof.
  induction bs as [|b bs IH]; intros init Hi Hf; [reflexivity|].
  inversion Hf as [|? ? Hb Hf']; subst. unfold crc_hqx, crc_spec in *. cbn [fold_left].
  rewrite <- (byte_step_eq init b Hi Hb). apply IH; [apply crc_byte_spec_lt|exact Hf'].
Qed.
