(* watts_to_amps: round(watts / float(220), 1), bit-exact on primitive floats; result in tenths *)
From Coq Require Import ZArith Uint63 PrimFloat FloatOps.
Open Scope Z_scope.

Definition amps_tenths (w : Z) : Z :=
  let q := PrimFloat.div (PrimFloat.of_uint63 (Uint63.of_Z w)) (PrimFloat.of_uint63 220%uint63) in
  let '(m, e) := PrimFloat.frshiftexp q in
  let mi := Uint63.to_Z (PrimFloat.normfr_mantissa m) in
  let ex := Uint63.to_Z e - FloatOps.shift - 53 in         (* q = mi * 2^ex exactly *)
  let num := mi * 10 in
  if 0 <=? ex then num * 2 ^ ex else
  let d := 2 ^ (- ex) in
  let fl := num / d in
  let r := num mod d in
  (* Python rounds the exact binary value half-to-even at one decimal *)
  if 2 * r <? d then fl else if d <? 2 * r then fl + 1 else if Z.even fl then fl else fl + 1.
