(* str.format on templates whose replacement fields are positional: {} / {n} / {:02x} *)
Require Import AS.Base.Prelude AS.Base.Hex.

Inductive piece := Lit (s : bytes) | Hole (i : nat) | HoleHex2 (i : nat).
Definition template := list piece.

(* arguments: strings, or integers rendered by a format spec *)
Inductive farg := AStr (s : bytes) | AInt (n : N).

Definition render_piece (args : list farg) (p : piece) : result bytes :=
  match p with
  | Lit s => Ok s
  | Hole i => match nth_error args i with
              | Some (AStr s) => Ok s
              | Some (AInt _) => Exc TypeError      (* not used by the code base *)
              | None => Exc IndexError
              end
  | HoleHex2 i => match nth_error args i with
                  | Some (AInt n) => Ok (fmt_02x n)
                  | Some (AStr _) => Exc ValueError (* "{:02x}".format("..") *)
                  | None => Exc IndexError
                  end
  end.

Fixpoint format (t : template) (args : list farg) : result bytes :=
  match t with
  | [] => Ok []
  | p :: t' => do a <- render_piece args p ;; do b <- format t' args ;; Ok (a ++ b)
  end.

(* symbolic rendering: every argument i is a string of known width ws[i] *)
Inductive cell := K (c : N) | U (i k : nat).
Definition sym_piece (ws : list nat) (p : piece) : list cell :=
  match p with
  | Lit s => map K s
  | Hole i | HoleHex2 i => map (U i) (seq 0 (nth i ws 0%nat))
  end.
Definition sym (t : template) (ws : list nat) : list cell := flat_map (sym_piece ws) t.
Definition denote (rs : list bytes) (c : cell) : N :=
  match c with K x => x | U i k => nth k (nth i rs []) 0%N end.

(* rendered text of each argument *)
Definition rendered (t : template) (args : list farg) (rs : list bytes) : Prop :=
  forall p, In p t ->
    match p with
    | Lit _ => True
    | Hole i => exists s, nth_error args i = Some (AStr s) /\ nth i rs [] = s
    | HoleHex2 i => exists n, nth_error args i = Some (AInt n) /\ nth i rs [] = fmt_02x n
    end.

Lemma map_nth_seq {A} (l : list A) d : map (fun k => nth k l d) (seq 0 (length l)) = l.
Proof.
  induction l as [|x xs IH]; [reflexivity|].
  cbn [length seq map nth]. f_equal. rewrite <- seq_shift, map_map. exact IH.
Qed.

Lemma sym_sound t : forall args rs ws,
  rendered t args rs ->
  (forall p i, In p t -> (p = Hole i \/ p = HoleHex2 i) -> length (nth i rs []) = nth i ws 0%nat) ->
  format t args = Ok (map (denote rs) (sym t ws)).
Proof.
  induction t as [|p t IH]; intros args rs ws Hr Hw; [reflexivity|].
  cbn [format sym flat_map]. rewrite map_app.
  rewrite (IH args rs ws); [| intros q Hq; apply Hr; right; exact Hq
                            | intros q i Hq; apply Hw; right; exact Hq ].
  fold (sym t ws).
  assert (Hp : render_piece args p = Ok (map (denote rs) (sym_piece ws p))).
  { pose proof (Hr p (or_introl eq_refl)) as H. destruct p as [s|i|i]; cbn [render_piece sym_piece].
    - rewrite map_map. cbn [denote]. rewrite map_id. reflexivity.
    - destruct H as [s [Ha Hs]]. rewrite Ha. rewrite map_map. cbn [denote].
      rewrite <- (Hw (Hole i) i (or_introl eq_refl) (or_introl eq_refl)), map_nth_seq, Hs. reflexivity.
    - destruct H as [n [Ha Hs]]. rewrite Ha. rewrite map_map. cbn [denote].
      rewrite <- (Hw (HoleHex2 i) i (or_introl eq_refl) (or_intror eq_refl)), map_nth_seq, Hs. reflexivity. }
  rewrite Hp. reflexivity.
Qed.
