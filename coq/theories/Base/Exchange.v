(* The request/reply exchange monad: frames written to the socket, scripted replies read back *)
Require Import AS.Base.Prelude AS.Base.Hex.

Record io := { frames : list bytes; replies : list bytes }.
Definition M (A : Type) := io -> io * result A.
Definition ret {A} (a : A) : M A := fun st => (st, Ok a).
Definition raise {A} (e : exn) : M A := fun st => (st, Exc e).
Definition bindM {A B} (m : M A) (f : A -> M B) : M B :=
  fun st => match m st with (st', Ok a) => f a st' | (st', Exc e) => (st', Exc e) end.
Definition lift {A} (r : result A) : M A := fun st => (st, r).
Notation "'perform' x <- m ;; k" := (bindM m (fun x => k)) (at level 200, x pattern, m at level 100, k at level 200).

(* self._writer.write(unhexlify(signed_packet)); response = await self._reader.read(1024)
   an exhausted script reads as b"" (end of stream) *)
Definition send (signed_hex : bytes) : M bytes :=
  fun st => match unhexlify signed_hex with
            | None => (st, Exc BinasciiError)
            | Some bs =>
                let '(r, rest) := match replies st with [] => ([], []) | r :: rest => (r, rest) end in
                ({| frames := frames st ++ [bs]; replies := rest |}, Ok r)
            end.

Definition run {A} (m : M A) (script : list bytes) : list bytes * result A :=
  let '(st, r) := m {| frames := []; replies := script |} in (frames st, r).
