(* decimal rendering and parsing as Python does it *)
Require Import AS.Base.Prelude.
Open Scope N_scope.

Definition is_digit (c : N) : bool := (48 <=? c) && (c <=? 57).
Definition dval (c : N) : N := c - 48.
Definition dchar (d : N) : N := 48 + d.

Fixpoint dec_fuel (fuel : nat) (n : N) (acc : bytes) : bytes :=
  match fuel with
  | O => acc
  | S k => if n <? 10 then dchar n :: acc else dec_fuel k (n / 10) (dchar (n mod 10) :: acc)
  end.
(* str(n) for n >= 0 *)
Definition str_N (n : N) : bytes := dec_fuel (S (N.to_nat (N.log2 n))) n [].
Definition str_Z (z : Z) : bytes :=
  match z with Zneg p => 45 :: str_N (Npos p) | _ => str_N (Z.to_N z) end.
(* "%02d" % n *)
Definition two_digits (n : N) : bytes := if n <? 10 then [48; dchar n] else str_N n.

(* "HH:MM" of a minute of the day *)
Definition hhmm (m : N) : bytes := two_digits (m / 60) ++ [58] ++ two_digits (m mod 60).
(* "%d:%02d:%02d", str(timedelta) below one day *)
Definition fmt_hmmss (secs : N) : bytes :=
  str_N (secs / 3600) ++ [58] ++ two_digits (secs / 60 mod 60) ++ [58] ++ two_digits (secs mod 60).
(* "%H:%M:%S" of datetime.time.isoformat() *)
Definition fmt_hhmmss (secs : N) : bytes :=
  two_digits (secs / 3600) ++ [58] ++ two_digits (secs / 60 mod 60) ++ [58] ++ two_digits (secs mod 60).

(* int(s) on a short digit string; None = ValueError (signs, blanks, underscores never occur here) *)
Definition int10 (s : bytes) : option N :=
  match s with
  | [] => None
  | _ => fold_left (fun acc c => match acc with
                                 | Some a => if is_digit c then Some (10 * a + dval c) else None
                                 | None => None end) s (Some 0)
  end.
