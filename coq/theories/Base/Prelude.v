(* Shared imports, string literals as list N, result type with Python exception classes *)
From Coq Require Export String Ascii.
From Coq Require Export NArith ZArith Bool Lia Arith List.
Export ListNotations.

Definition bytes := list N.

Definition bytes_eq_dec (a b : bytes) : {a = b} + {a <> b} := list_eq_dec N.eq_dec a b.

Definition s2l (s : string) : bytes := map N_of_ascii (list_ascii_of_string s).

Inductive exn :=
| ValueError | KeyError | IndexError | RuntimeError | StructError | BinasciiError
| UnicodeDecodeError | OverflowError | TypeError | OSError.

Definition is_value_error (e : exn) : bool :=
  match e with ValueError | BinasciiError | UnicodeDecodeError => true | _ => false end.
Definition is_key_error (e : exn) : bool :=
  match e with KeyError => true | _ => false end.

Inductive result (A : Type) := Ok (a : A) | Exc (e : exn).
Arguments Ok {A} a.
Arguments Exc {A} e.

Definition bind {A B} (r : result A) (f : A -> result B) : result B :=
  match r with Ok a => f a | Exc e => Exc e end.
Notation "'do' x <- r ;; k" := (bind r (fun x => k)) (at level 200, x pattern, r at level 100, k at level 200).

Definition of_option {A} (e : exn) (o : option A) : result A :=
  match o with Some a => Ok a | None => Exc e end.

(* python slicing with non-negative bounds: l[lo:hi] *)
Definition pyslice {A} (lo hi : nat) (l : list A) : list A := firstn (hi - lo) (skipn lo l).

(* exhaustive sweep over [0, 2^depth) *)
Fixpoint sweep (f : N -> bool) (depth : nat) (base : N) : bool :=
  match depth with
  | O => f base
  | S d => sweep f d (2*base) && sweep f d (2*base+1)
  end.

Lemma sweep_sound f : forall depth base x,
  sweep f depth base = true ->
  (base * 2^(N.of_nat depth) <= x < (base+1) * 2^(N.of_nat depth))%N -> f x = true.
Proof.
  induction depth as [|d IH]; intros base x Hs Hx.
  - cbn in Hx. assert (x = base) by lia. subst. exact Hs.
  - cbn [sweep] in Hs. apply andb_prop in Hs. destruct Hs as [H0 H1].
    rewrite Nat2N.inj_succ, N.pow_succ_r' in Hx.
    destruct (N.lt_ge_cases x ((2*base+1) * 2^(N.of_nat d))) as [Hlt|Hge].
    + apply (IH (2*base)%N); [exact H0|lia].
    + apply (IH (2*base+1)%N); [exact H1|lia].
Qed.

Lemma sweep_all f depth x : sweep f depth 0 = true -> (x < 2^(N.of_nat depth))%N -> f x = true.
Proof. intros H Hx. apply (sweep_sound f depth 0%N); [exact H|lia]. Qed.
