(* Entry points of the extracted model: the whole request/reply interpretation lives here, in Coq.
   A request is a function name and a list of generic arguments; the reply is the canonical text
   (bytes) the harness compares with the implementation's view.  Definitions only. *)
Require Import AS.Base.Prelude AS.Base.Hex AS.Base.Dec AS.Base.Crc AS.Base.Exchange AS.Base.Utf8 AS.Base.Float AS.Gen.Extracted
  AS.Model.DeviceTools AS.Model.ScheduleTools AS.Model.Remotes AS.Model.Messages AS.Model.Api AS.Model.NextRun AS.Model.ScheduleParser
  AS.Model.Clock AS.Model.Bridge AS.Model.Lifecycle AS.Model.MultiBridge AS.Model.Ops AS.Model.Session AS.Spec.Session AS.Spec.Client AS.Spec.BridgeHistory
  AS.Spec.Sign AS.Spec.Frame AS.Spec.FrameLayout AS.Spec.Encoders AS.Spec.FrameSpec AS.Spec.NextRun AS.Spec.Remote.
Local Open Scope string_scope.
Local Open Scope list_scope.

Inductive arg := AB (b : bytes) | AZ (z : Z) | AL (l : list arg).

Definition gb (a : arg) : bytes := match a with AB b => b | _ => [] end.
Definition gz (a : arg) : Z := match a with AZ z => z | _ => 0%Z end.
Definition gn (a : arg) : N := Z.to_N (gz a).
Definition gnat (a : arg) : nat := Z.to_nat (gz a).
Definition gbool (a : arg) : bool := negb (Z.eqb (gz a) 0).
Definition gl (a : arg) : list arg := match a with AL l => l | _ => [] end.
Definition glb (a : arg) : list bytes := map gb (gl a).
Definition glnat (a : arg) : list nat := map gnat (gl a).
Definition nth_arg (l : list arg) (i : nat) : arg := nth i l (AB []).

Definition str_of (b : bytes) : string := string_of_list_ascii (map ascii_of_N b).
Definition is_fn (f : bytes) (s : string) : bool := if bytes_eq_dec f (s2l s) then true else false.
Definition raised : bytes := s2l "raised".
Definition show_res (r : result bytes) : bytes := match r with Ok b => s2l "ok " ++ b | Exc _ => raised end.
Definition show_res_cls (r : result bytes) : bytes :=
  match r with Ok b => s2l "ok " ++ b | Exc e => s2l "exc:" ++ s2l (exn_name e) end.
(* tri-state: 0 = omitted, 1 = false/OFF, 2 = true/ON *)
Definition opt_bool (a : arg) : option bool := match gz a with 0%Z => None | 1%Z => Some false | _ => Some true end.
Definition opt_str (a : arg) : option string := match gb a with [] => None | b => Some (str_of b) end.

(* ---- C04 ---- *)
Definition e_sign (p : bytes) : bytes := show_res (sign_packet_with_crc_key p).
Definition e_sign_spec (p : bytes) : bytes :=
  match unhexlify p with Some bs => s2l "ok " ++ p ++ hexlify (sig bs) | None => raised end.
Definition e_crc (init : N) (bs : bytes) : bytes := str_N (crc_hqx bs init).

(* ---- C14 ---- *)
Definition e_duration (a b : bytes) : bytes := show_res (calc_duration a b).
(* Spec: canonical HH:MM arguments must yield H:MM:SS of ((e - s) mod 1440) minutes; other spellings unspecified *)
Definition canon_minutes (s : bytes) : option N :=
  match s with
  | [a; b; 58%N; c; d] =>
      if (is_digit a && is_digit b && is_digit c && is_digit d)%bool then
        let h := (10 * dval a + dval b)%N in let m := (10 * dval c + dval d)%N in
        if ((h <? 24) && (m <? 60))%N%bool then Some (60 * h + m)%N else None
      else None
  | _ => None
  end.
Definition e_duration_spec (st en : bytes) : bytes :=
  match canon_minutes st, canon_minutes en with
  | Some s, Some e => s2l "ok " ++ fmt_hmmss (((e + 1440 - s) mod 1440) * 60)%N
  | _, _ => s2l "-"
  end.

(* ---- operations (C01 C02 C03 C09 C16) ---- *)
Definition mk_waves (a : arg) : list wave :=
  map (fun w => let l := glb w in {| w_key := nth 0 l []; w_para := nth 1 l []; w_hex := nth 2 l [] |}) (gl a).
Definition mk_remote (rid onoff waves : arg) : remote :=
  make_remote {| ir_id := gb rid; ir_onoff := gz onoff; ir_waves := mk_waves waves |}.

(* op kind and its arguments: a b (bytes) z1 z2 (integers) days (list) *)
Definition mk_op (kind : N) (x : list arg) : option op :=
  match kind with
  | 1 => Some (OControl (gbool (nth_arg x 0)) (gz (nth_arg x 1)))
  | 2 => Some (OAutoShutdown (gz (nth_arg x 0)))
  | 3 => Some (OSetName (gb (nth_arg x 0)))
  | 4 => Some OGetSchedules
  | 5 => Some (ODelete (gb (nth_arg x 0)))
  | 6 => Some (OCreate (gz (nth_arg x 0)) (gb (nth_arg x 1)) (gb (nth_arg x 2))
                       (if gbool (nth_arg x 4) then ASeq (glnat (nth_arg x 3)) else ASet (glnat (nth_arg x 3))))
  | 7 => Some OStop
  | 8 => Some (OSetPosition (gn (nth_arg x 0)))
  | 9 => Some OGetShutterState
  | 10 => Some OGetBreezeState
  | 11 => Some OGetState
  | 12 => Some (OBreeze (mk_remote (nth_arg x 0) (nth_arg x 1) (nth_arg x 2)) (opt_bool (nth_arg x 3)) (opt_str (nth_arg x 4))
                        (gz (nth_arg x 5)) (opt_str (nth_arg x 6)) (opt_bool (nth_arg x 7)) (gbool (nth_arg x 8)))
  | _ => None
  end%N.

(* op <kind> <id-hex-text> <key-hex-text> <now> [op args] [replies] *)
Definition e_op (kind : N) (id key : bytes) (now : N) (x : list arg) (replies : list bytes) : option bytes :=
  match mk_op kind x with
  | Some o => Some (exchange_text {| device_id := id; device_key := key |} now o replies)
  | None => None
  end.

(* seq <id-hex-text> <key-hex-text> [[kind now [op args]] ...] [replies]: operations awaited one after another on ONE connection
   whose device sends the replies in this order; the text is every frame, then every outcome.  seq_spec: the same through the
   Spec's reading (each operation alone on the replies the earlier ones left) *)
Definition mk_ops (l : list arg) : option (list (N * op)) :=
  fold_right (fun a acc => match acc, mk_op (gn (nth_arg (gl a) 0)) (gl (nth_arg (gl a) 2)) with
                           | Some t, Some o => Some ((gn (nth_arg (gl a) 1), o) :: t)
                           | _, _ => None end) (Some []) l.
Definition show_seq (x : list bytes * list (result bytes)) : bytes :=
  let '(fs, rs) := x in
  concat (map (fun f => hexlify f ++ [124%N]) fs) ++
  concat (map (fun r => match r with Ok t => t | Exc e => s2l "exc:" ++ s2l (exn_name e) end ++ [59%N]) rs).
Definition e_seq (id key : bytes) (ops : list arg) (replies : list bytes) : option bytes :=
  match mk_ops ops with
  | Some l => Some (show_seq (run_seq {| device_id := id; device_key := key |} l replies))
  | None => None
  end.
Definition e_seq_spec (id key : bytes) (ops : list arg) (replies : list bytes) : option bytes :=
  match mk_ops ops with
  | Some l => let a := alone {| device_id := id; device_key := key |} l replies in
              Some (show_seq (concat (map fst a), map snd a))
  | None => None
  end.

(* Spec: the frame the operation must write after the login (C02), "raise", or "-" (unspecified) *)
Definition e_spec_frame (kind : N) (idb session : bytes) (now : N) (x : list arg) : option bytes :=
  let h := hdr_args session now idb in
  match kind with
  | 1 => Some (show_verdict (spec_control h (gbool (nth_arg x 0)) (gz (nth_arg x 1))))
  | 2 => Some (show_verdict (spec_auto_shutdown h (gz (nth_arg x 0))))
  | 3 => Some (show_verdict (spec_set_name h (gb (nth_arg x 0))))
  | 4 => Some (show_verdict (frame_of L_get_schedules h))
  | 5 => Some (show_verdict (spec_delete h (gb (nth_arg x 0))))
  | 6 => Some (show_verdict (spec_create h (gz (nth_arg x 0)) (gb (nth_arg x 1)) (gb (nth_arg x 2)) (glnat (nth_arg x 3))))
  | 7 => Some (show_verdict (frame_of L_runner_stop h))
  | 8 => Some (show_verdict (spec_set_position h (gn (nth_arg x 0))))
  | 9 | 10 => Some (show_verdict (frame_of L_get_state2 h))
  | 11 => Some (show_verdict (frame_of L_get_state1 h))
  | 13 => Some (show_verdict (spec_breeze_status h (gbool (nth_arg x 0)) (gn (nth_arg x 1)) (gn (nth_arg x 2)) (gn (nth_arg x 3)) (gbool (nth_arg x 4))))
  | 14 => Some (show_verdict (spec_breeze_command h (gb (nth_arg x 0))))
  | _ => None
  end%N.
Definition e_spec_login (type2 : bool) (idb keyb : bytes) (now : N) : bytes := show_verdict (spec_login type2 idb keyb now).
Definition e_frame_ok (f : bytes) : bytes := s2l (if frame_okb f then "ok" else "bad").
Definition e_c03 (type2 : bool) (idb keyb : bytes) (now : N) (reply0 : bytes) (minc maxc : nat) (frames : list bytes) : bytes :=
  c03_check type2 idb keyb now reply0 minc maxc frames.

(* ---- C05 C06 C07 ---- *)
Definition e_bcast (m : bytes) : bytes := parse_datagram_show false false m.
Definition mk_bdesc (x : list arg) : bdesc :=
  {| b_type := str_of (gb (nth_arg x 0)); b_on := gbool (nth_arg x 1); b_id := gb (nth_arg x 2); b_key := gn (nth_arg x 3);
     b_name := gb (nth_arg x 4); b_ip := gb (nth_arg x 5); b_mac := gb (nth_arg x 6); b_power := gn (nth_arg x 7);
     b_remaining := gn (nth_arg x 8); b_auto := gn (nth_arg x 9); b_position := gn (nth_arg x 10);
     b_direction := str_of (gb (nth_arg x 11)); b_mode := str_of (gb (nth_arg x 12)); b_temp10 := gn (nth_arg x 13);
     b_target := gn (nth_arg x 14); b_fan := str_of (gb (nth_arg x 15)); b_swing := gbool (nth_arg x 16);
     b_remote := gb (nth_arg x 17) |}.
(* Spec encoder and the device the callback must receive: "<datagram hex>|<expected text>" *)
Definition e_bcast_encode (x : list arg) (filler : bytes) : bytes :=
  let d := mk_bdesc x in
  match encode_bcast d filler with
  | Some m => hexlify m ++ [59%N] ++ expected_bcast d
  | None => s2l "-"
  end.
Definition e_gate_spec (m : bytes) : bytes :=
  s2l (if (match m with 254%N :: 240%N :: _ => true | _ => false end
           && ((length m =? 165) || (length m =? 168) || (length m =? 159))%nat)%bool then "gate" else "ignored").
(* events: [[port, datagram]...]; raises: indices of callback invocations that raise *)
Definition e_dispatch (events : list arg) (raising : list nat) : bytes :=
  let evs := map (fun e => (gnat (nth_arg (gl e) 0), gb (nth_arg (gl e) 1))) events in
  let s := loop_run false false (fun k => existsb (Nat.eqb k) raising) evs in
  concat (map (fun '(p, d) => str_N (N.of_nat p) ++ [58%N] ++ show_outcome (Delivered d) ++ [10%N]) (calls s))
  ++ s2l "handler=" ++ str_N (N.of_nat (handler_calls s)).

(* amps in tenths for a list of wattages *)
Definition e_amps (ws : list arg) : bytes := concat (map (fun a => str_Z (amps_tenths (gz a)) ++ [44%N]) ws).

(* ---- C08 ---- *)
Definition e_parse_state (kind : N) (resp : bytes) : bytes :=
  match kind with
  | 0 => match parse_state_reply resp with Ok s => show_state_fields resp s | Exc e => s2l "exc:" ++ s2l (exn_name e) end
  | 1 => match parse_shutter_reply resp with Ok s => show_shutter_fields resp s | Exc e => s2l "exc:" ++ s2l (exn_name e) end
  | 2 => match parse_thermostat_reply resp with Ok s => show_thermostat_fields resp s | Exc e => s2l "exc:" ++ s2l (exn_name e) end
  | _ => s2l "session:" ++ login_session resp
  end%N.
(* Spec encoders of the replies: fields then filler; returns "<reply hex>;<expected text>" *)
Definition e_reply_encode (kind : N) (x : list arg) (filler : bytes) : bytes :=
  match kind with
  | 0 =>
      let st := gn (nth_arg x 0) in let pw := gn (nth_arg x 1) in let tl := gn (nth_arg x 2) in
      let ton := gn (nth_arg x 3) in let au := gn (nth_arg x 4) in
      match cut [75; 1; 8; gnat (nth_arg x 5)]%nat filler with
      | [f0; f1; f2; f3] =>
          hexlify (encode_state_reply f0 f1 f2 f3 st pw tl ton au) ++ [59%N] ++ s2l "state:" ++
          comma [s2l "1"; str_N st; fmt_hhmmss tl; fmt_hhmmss ton; fmt_hhmmss au; str_N pw; str_Z (amps_tenths (Z.of_N pw))]
      | _ => s2l "-" end
  | 1 =>
      let pos := gn (nth_arg x 0) in let dir := str_of (gb (nth_arg x 1)) in
      match cut [76; 1; gnat (nth_arg x 2)]%nat filler, value_of3 dir shutter_directions with
      | [f0; f1; f2], Some dv =>
          hexlify (encode_shutter_reply f0 f1 f2 pos (unhex_str dv)) ++ [59%N] ++ s2l "state:" ++ comma [s2l "1"; str_N pos; s2l dir]
      | _, _ => s2l "-" end
  | 2 =>
      let t10 := gn (nth_arg x 0) in let on := gbool (nth_arg x 1) in let mode := str_of (gb (nth_arg x 2)) in
      let target := gn (nth_arg x 3) in let fan := str_of (gb (nth_arg x 4)) in let swing := gbool (nth_arg x 5) in
      let remote := gb (nth_arg x 6) in
      match cut [76; 2; gnat (nth_arg x 7)]%nat filler, value_of3 mode thermostat_modes, value_of3 fan fan_levels with
      | [f0; f1; f2], Some mv, Some fv =>
          hexlify (encode_thermostat_reply f0 f1 f2 t10 (if on then 1 else 0) (match unhex_str mv with [m] => m | _ => 0 end) target
                     (16 * nib_str fv + (if swing then 1 else 0)) (pad0 8 remote)) ++ [59%N] ++ s2l "state:" ++
          comma [s2l "1"; s2l (if on then "1" else "0"); s2l mode; s2l fan; str_N t10; str_N target; s2l (if swing then "1" else "0"); hexlify remote]
      | _, _, _ => s2l "-" end
  | _ =>
      match cut [8; gnat (nth_arg x 1)]%nat filler with
      | [f0; f1] => hexlify (encode_login_reply f0 (gb (nth_arg x 0)) f1) ++ [59%N] ++ s2l "session:" ++ hexlify (gb (nth_arg x 0))
      | _ => s2l "-" end
  end%N.

(* ---- zones: default offset and [[at, offset]...] ---- *)
Definition mk_zone (d : arg) (tr : arg) : zone :=
  {| z_default := gz d; z_trans := map (fun p => (gz (nth_arg (gl p) 0), gz (nth_arg (gl p) 1))) (gl tr) |}.

(* ---- C10 ---- *)
Definition e_schedules (z : zone) (now : Z) (message : bytes) : bytes := show_schedules (get_schedules false false z now message).
(* Spec: whole records; each [id, enabled, mask, state, start, end, [t0..t3]] *)
Definition e_schedules_encode (hdr : bytes) (recs : list arg) (tail : bytes) : bytes :=
  hexlify (encode_schedules_reply (take 45 hdr)
             (map (fun r => let l := gl r in let t := glnat (nth_arg l 6) in
                            record (gn (nth_arg l 0)) (gn (nth_arg l 1)) (gn (nth_arg l 2)) (gn (nth_arg l 3)) (gn (nth_arg l 4)) (gn (nth_arg l 5))
                                   (N.of_nat (nth 0 t 0%nat)) (N.of_nat (nth 1 t 0%nat)) (N.of_nat (nth 2 t 0%nat)) (N.of_nat (nth 3 t 0%nat))) recs)
             (take 4 tail)).

(* ---- C11 ---- *)
Definition e_clock_encode (z : zone) (now : Z) (s : bytes) : bytes := show_res (time_to_hexadecimal_timestamp_z false z now s).
Definition e_clock_decode (z : zone) (hex : bytes) : bytes := show_res (hexadecimale_timestamp_to_localtime z hex).
(* Spec: is t a pre-image of (today, minute m) — "1"/"0"; and the number of pre-images among the zone's offsets *)
Definition e_clock_check (z : zone) (now : Z) (m : N) (t : Z) : bytes :=
  let L := (86400 * today z now + 60 * Z.of_N m)%Z in
  let pre := filter (fun o => (local_secs z (L - o) =? L)%Z) (nodup Z.eq_dec (offsets z)) in
  s2l (if (local_secs z t =? L)%Z then "1" else "0") ++ [44%N] ++ str_N (N.of_nat (length pre)) ++ [44%N] ++ fmt_hm z (Z.to_N t).
Definition e_local (z : zone) (t : Z) : bytes :=
  let '(h, m) := hm_of z t in str_N h ++ [58%N] ++ str_N m ++ [44%N] ++ str_N (N.of_nat (weekday_of z t)) ++ [44%N] ++ str_Z (today z t).

(* ---- C12 ---- *)
Definition e_weekdays (form : N) (l : list nat) : bytes :=
  show_res (weekdays_to_hexadecimal (match form with 0%N => ADay (hd 0%nat l) | 1%N => ASet l | _ => ASeq l end)).
Definition e_bitsum (n : N) : bytes :=
  match bit_summary_to_days n with Ok l => s2l "ok " ++ concat (map (fun d => str_N (N.of_nat d)) l) | Exc _ => raised end.
(* Spec: mask = sum of 2^(weekday+1); rejected: empty, duplicates *)
Definition e_weekdays_spec (form : N) (l : list nat) : bytes :=
  match form, l with
  | _, [] => raised
  | 0%N, d :: _ => s2l "ok " ++ hexbyte (2 ^ (N.of_nat d + 1))
  | _, _ => if negb (nodup_nat l) then (if (form =? 1)%N then s2l "-" else raised)
            else s2l "ok " ++ hexbyte (fold_right (fun d a => (2 ^ (N.of_nat d + 1) + a)%N) 0%N l)
  end.
Definition e_bitsum_spec (n : N) : bytes :=
  if ((n <? 2) || (254 <? n))%N%bool then raised
  else if N.odd n then s2l "-"
  else s2l "ok " ++ concat (map (fun d => str_N (N.of_nat d)) (filter (fun d => N.testbit n (N.of_nat d + 1)) (seq 0 7))).

(* ---- C13 ---- *)
Definition e_next_run (z : zone) (now : Z) (start : bytes) (ds : list nat) : bytes :=
  show_res (pretty_next_run false false z now start ds).
(* Spec text from local weekday w, local minute c, start minute s, weekday set (Monday = 0) *)
Definition e_next_run_spec (w : nat) (c s : N) (start : bytes) (wds : list nat) : bytes :=
  match next_run_spec w (c <? s)%N wds with
  | Today => s2l "ok Due today at " ++ start
  | Tomorrow => s2l "ok Due tomorrow at " ++ start
  | NextDay d => s2l "ok Due next " ++ weekday_value d ++ s2l " at " ++ start
  | NREx _ => raised
  end.

(* ---- C15 ---- *)
Definition e_caps (r : remote) : bytes :=
  concat (map (fun m => s2l m ++ [44%N]) (r_supported r)) ++ [124%N] ++ str_Z (r_min r) ++ [124%N] ++ str_Z (r_max r)
  ++ [124%N] ++ s2l (if r_toggle r then "1" else "0") ++ [124%N] ++ s2l (if r_sep r then "1" else "0").
Definition e_caps_spec (s : irset) : bytes :=
  let '(sup, mn, mx, tg, sp) := spec_capabilities s in
  concat (map (fun m => s2l m ++ [44%N]) sup) ++ [124%N] ++ str_Z mn ++ [124%N] ++ str_Z mx
  ++ [124%N] ++ s2l (if tg then "1" else "0") ++ [124%N] ++ s2l (if sp then "1" else "0").
Definition show_cmd (r : result (bytes * bytes)) : bytes :=
  match r with Ok (cmd, len) => s2l "ok " ++ len ++ [124%N] ++ cmd | Exc e => s2l "exc:" ++ s2l (exn_name e) end.
Definition e_build (r : remote) (x : list arg) : bytes :=
  show_cmd (build_command false r (gbool (nth_arg x 0)) (str_of (gb (nth_arg x 1))) (gz (nth_arg x 2)) (str_of (gb (nth_arg x 3)))
              (gbool (nth_arg x 4)) (opt_bool (nth_arg x 5))).
Definition e_build_spec (s : irset) (x : list arg) : bytes :=
  show_spec_cmd (spec_build s (gbool (nth_arg x 0)) (str_of (gb (nth_arg x 1))) (gz (nth_arg x 2)) (str_of (gb (nth_arg x 3)))
                   (gbool (nth_arg x 4)) (opt_bool (nth_arg x 5))).
Definition e_build_swing (r : remote) (on : bool) : bytes := show_cmd (build_swing_command false r on).

(* ---- C17 / C18 ---- *)
(* bridge lifecycle: actions coded as [kind, port]: 0 start, 1 stop, 2 occupy, 3 release, 4 send;
   after every action: running flag, owner of each configured port, observation *)
Definition e_bridge (ports : list nat) (acts : list arg) : bytes :=
  let step_show (acc : bstate * bytes) (a : arg) :=
    let '(s, out) := acc in
    let k := gn (nth_arg (gl a) 0) in let p := gnat (nth_arg (gl a) 1) in
    let act := match k with 0%N => AStart | 1%N => AStop | 2%N => AOccupy p | 3%N => ARelease p | _ => ASend p end in
    let '(s', o) := step false ports s act in
    (s', out ++ s2l (if running s' then "R" else "r")
             ++ concat (map (fun q => s2l (match os s' q with Bridge => "B" | Foreign => "F" | Free => "-" end)) ports)
             ++ s2l (match o with ONone => "." | OStarted => "s" | ORaised => "!" | ODelivered => "d" | ODropped => "x" end)
             ++ [124%N]) in
  snd (fold_left step_show acts (init, [])).
(* the Spec's reading of the same history (Spec/BridgeHistory.v), rendered like e_bridge; actions on OTHER bridge objects (kinds 6, 7)
   are no part of this object's history: the step shows the unchanged state *)
Definition e_bridge_spec (ports : list nat) (acts : list arg) : bytes :=
  let step_show (acc : astate * bytes) (a : arg) :=
    let '(s, out) := acc in
    let k := gn (nth_arg (gl a) 0) in let p := gnat (nth_arg (gl a) 1) in
    let '(s', o) := match k with
                    | 0%N => a_step ports s AStart | 1%N => a_step ports s AStop | 2%N => a_step ports s (AOccupy p)
                    | 3%N => a_step ports s (ARelease p) | 4%N => a_step ports s (ASend p) | _ => (s, ONone) end in
    (s', out ++ s2l (if a_run s' then "R" else "r")
             ++ concat (map (fun q => s2l (match a_owner ports s' q with Bridge => "B" | Foreign => "F" | Free => "-" end)) ports)
             ++ s2l (match o with ONone => "." | OStarted => "s" | ORaised => "!" | ODelivered => "d" | ODropped => "x" end)
             ++ [124%N]) in
  snd (fold_left step_show acts (a_init, [])).
(* the same with several bridge objects in the process (Model/MultiBridge.v): object 0 is the bridge under observation, objects 1 and 2
   are configured with the same ports, object 3 with one port of its own (number 999).  Actions [kind, arg]: 0 start, 1 stop (object 0),
   2 occupy, 3 release, 4 send, 6 stop object 1 + arg mod 2, 7 object 3 fails to start (its port is held by a foreign socket meanwhile) *)
Definition e_bridge2 (ports : list nat) (acts : list arg) : bytes :=
  let cfg (i : nat) : list nat := match i with 3%nat => [999%nat] | _ => ports end in
  let step_show (acc : mstate * bytes) (a : arg) :=
    let '(s, out) := acc in
    let k := gn (nth_arg (gl a) 0) in let p := gnat (nth_arg (gl a) 1) in
    let '(s', o) :=
      match k with
      | 0%N => let '(s1, ok) := mstart 0 (cfg 0%nat) s in (s1, if ok then "s" else "!")
      | 1%N => (mstep cfg s (MStop 0), ".")
      | 2%N => (mstep cfg s (MOccupy p), ".")
      | 3%N => (mstep cfg s (MRelease p), ".")
      | 6%N => (mstep cfg s (MStop (1 + Nat.modulo p 2)), ".")
      | 7%N => (fold_left (mstep cfg) [MOccupy 999; MStart 3; MRelease 999] s, ".")
      | _ => (s, if delivered_to s p 0 then "d" else "x")
      end%string in
    (s', out ++ s2l (if m_running (m_objs s' 0%nat) then "R" else "r")
             ++ concat (map (fun q => s2l (match m_os s' q with MBridge 0 => "B" | MBridge _ => "O" | MForeign => "F" | MFree => "-" end)) ports)
             ++ s2l o ++ [124%N]) in
  snd (fold_left step_show acts (minit, [])).
(* TCP client lifecycle: [kind, flag]: 0 connect(listening), 1 disconnect, 2 operation(raises),
   3 with(listening, body ok), 4 with(listening, body raises) *)
Definition e_client (acts : list arg) : bytes :=
  let show (acc : cstate * bytes) (a : arg) :=
    let '(s, out) := acc in
    let k := gn (nth_arg (gl a) 0) in let f := gbool (nth_arg (gl a) 1) in
    let act := match k with 0%N => CConnect f | 1%N => CDisconnect | 2%N => COperation f | 3%N => CWith f false | _ => CWith f true end in
    let '(s', o) := cstep s act in
    (s', out ++ s2l (if connected s' then "C" else "c") ++ str_N (N.of_nat (dev_open s')) ++ [44%N]
             ++ str_N (N.of_nat (dev_eofs s')) ++ s2l (match o with CDone => "." | CRaised => "!" end) ++ [124%N]) in
  snd (fold_left show acts (cinit, [])).

(* the Spec's reading of the same history (Spec/Client.v): the flag after every action, and the connections accepted so far *)
Definition e_client_spec (acts : list arg) : bytes :=
  let mk (a : arg) :=
    let k := gn (nth_arg (gl a) 0) in let f := gbool (nth_arg (gl a) 1) in
    match k with 0%N => CConnect f | 1%N => CDisconnect | 2%N => COperation f | 3%N => CWith f false | _ => CWith f true end in
  let show (acc : list caction * bytes) (a : arg) :=
    let '(h, out) := acc in let h' := h ++ [mk a] in
    (h', out ++ s2l (if spec_connected h' then "C" else "c") ++ str_N (N.of_nat (spec_accepted h')) ++ [124%N]) in
  snd (fold_left show acts ([], [])).

Definition mk_irset (rid onoff waves : arg) : irset := {| ir_id := gb rid; ir_onoff := gz onoff; ir_waves := mk_waves waves |}.

Definition dispatch (f : bytes) (a : list arg) : option bytes :=
  let x := nth_arg a in
  if is_fn f "sign" then Some (e_sign (gb (x 0%nat)))
  else if is_fn f "sign_spec" then Some (e_sign_spec (gb (x 0%nat)))
  else if is_fn f "crc" then Some (e_crc (gn (x 0%nat)) (gb (x 1%nat)))
  else if is_fn f "duration" then Some (e_duration (gb (x 0%nat)) (gb (x 1%nat)))
  else if is_fn f "duration_spec" then Some (e_duration_spec (gb (x 0%nat)) (gb (x 1%nat)))
  else if is_fn f "op" then e_op (gn (x 0%nat)) (gb (x 1%nat)) (gb (x 2%nat)) (gn (x 3%nat)) (gl (x 4%nat)) (glb (x 5%nat))
  else if is_fn f "seq" then e_seq (gb (x 0%nat)) (gb (x 1%nat)) (gl (x 2%nat)) (glb (x 3%nat))
  else if is_fn f "seq_spec" then e_seq_spec (gb (x 0%nat)) (gb (x 1%nat)) (gl (x 2%nat)) (glb (x 3%nat))
  else if is_fn f "spec_frame" then e_spec_frame (gn (x 0%nat)) (gb (x 1%nat)) (gb (x 2%nat)) (gn (x 3%nat)) (gl (x 4%nat))
  else if is_fn f "spec_login" then Some (e_spec_login (gbool (x 0%nat)) (gb (x 1%nat)) (gb (x 2%nat)) (gn (x 3%nat)))
  else if is_fn f "frame_ok" then Some (e_frame_ok (gb (x 0%nat)))
  else if is_fn f "c03" then Some (e_c03 (gbool (x 0%nat)) (gb (x 1%nat)) (gb (x 2%nat)) (gn (x 3%nat)) (gb (x 4%nat))
                                         (gnat (x 5%nat)) (gnat (x 6%nat)) (glb (x 7%nat)))
  else if is_fn f "bcast" then Some (e_bcast (gb (x 0%nat)))
  else if is_fn f "bcast_encode" then Some (e_bcast_encode (gl (x 0%nat)) (gb (x 1%nat)))
  else if is_fn f "gate_spec" then Some (e_gate_spec (gb (x 0%nat)))
  else if is_fn f "dispatch" then Some (e_dispatch (gl (x 0%nat)) (glnat (x 1%nat)))
  else if is_fn f "amps" then Some (e_amps (gl (x 0%nat)))
  else if is_fn f "parse_state" then Some (e_parse_state (gn (x 0%nat)) (gb (x 1%nat)))
  else if is_fn f "reply_encode" then Some (e_reply_encode (gn (x 0%nat)) (gl (x 1%nat)) (gb (x 2%nat)))
  else if is_fn f "schedules" then Some (e_schedules (mk_zone (x 0%nat) (x 1%nat)) (gz (x 2%nat)) (gb (x 3%nat)))
  else if is_fn f "schedules_encode" then Some (e_schedules_encode (gb (x 0%nat)) (gl (x 1%nat)) (gb (x 2%nat)))
  else if is_fn f "clock_encode" then Some (e_clock_encode (mk_zone (x 0%nat) (x 1%nat)) (gz (x 2%nat)) (gb (x 3%nat)))
  else if is_fn f "clock_decode" then Some (e_clock_decode (mk_zone (x 0%nat) (x 1%nat)) (gb (x 2%nat)))
  else if is_fn f "clock_check" then Some (e_clock_check (mk_zone (x 0%nat) (x 1%nat)) (gz (x 2%nat)) (gn (x 3%nat)) (gz (x 4%nat)))
  else if is_fn f "local" then Some (e_local (mk_zone (x 0%nat) (x 1%nat)) (gz (x 2%nat)))
  else if is_fn f "weekdays" then Some (e_weekdays (gn (x 0%nat)) (glnat (x 1%nat)))
  else if is_fn f "weekdays_spec" then Some (e_weekdays_spec (gn (x 0%nat)) (glnat (x 1%nat)))
  else if is_fn f "bitsum" then Some (e_bitsum (gn (x 0%nat)))
  else if is_fn f "bitsum_spec" then Some (e_bitsum_spec (gn (x 0%nat)))
  else if is_fn f "next_run" then Some (e_next_run (mk_zone (x 0%nat) (x 1%nat)) (gz (x 2%nat)) (gb (x 3%nat)) (glnat (x 4%nat)))
  else if is_fn f "next_run_spec" then Some (e_next_run_spec (gnat (x 0%nat)) (gn (x 1%nat)) (gn (x 2%nat)) (gb (x 3%nat)) (glnat (x 4%nat)))
  else if is_fn f "caps" then Some (e_caps (mk_remote (x 0%nat) (x 1%nat) (x 2%nat)))
  else if is_fn f "caps_spec" then Some (e_caps_spec (mk_irset (x 0%nat) (x 1%nat) (x 2%nat)))
  else if is_fn f "build" then Some (e_build (mk_remote (x 0%nat) (x 1%nat) (x 2%nat)) (gl (x 3%nat)))
  else if is_fn f "build_spec" then Some (e_build_spec (mk_irset (x 0%nat) (x 1%nat) (x 2%nat)) (gl (x 3%nat)))
  else if is_fn f "build_swing" then Some (e_build_swing (mk_remote (x 0%nat) (x 1%nat) (x 2%nat)) (gbool (x 3%nat)))
  else if is_fn f "client_spec" then Some (e_client_spec (gl (x 0%nat)))
  else if is_fn f "bridge_spec" then Some (e_bridge_spec (glnat (x 0%nat)) (gl (x 1%nat)))
  else if is_fn f "bridge" then Some (e_bridge (glnat (x 0%nat)) (gl (x 1%nat)))
  else if is_fn f "bridge2" then Some (e_bridge2 (glnat (x 0%nat)) (gl (x 1%nat)))
  else if is_fn f "client" then Some (e_client (gl (x 0%nat)))
  else None.
