(* entry points for the OCaml driver: only bytes, numbers, booleans, lists and pairs cross the boundary *)
Require Import AS.Base.Prelude AS.Base.Hex AS.Base.Dec AS.Base.Exchange AS.Gen.Extracted AS.Model.Remotes AS.Model.Api AS.Model.ScheduleParser AS.Model.Lifecycle.
Definition str_of (b : bytes) : string := string_of_list_ascii (map ascii_of_N b).
Definition opt_bool (n : N) : option bool := match n with 0%N => None | 1%N => Some false | _ => Some true end.
Definition opt_str (b : bytes) : option string := match b with [] => None | _ => Some (str_of b) end.

Definition entry_breeze (legacy : bool) (devid key : bytes) (now : N) (rid : bytes) (onoff : Z)
    (waves : list (bytes * (bytes * bytes))) (state : N) (mode : bytes) (target : Z) (fan : bytes)
    (swing : N) (update : bool) (replies : list bytes) : bytes :=
  let r := make_remote {| ir_id := rid; ir_onoff := onoff;
                          ir_waves := map (fun '(k, (p, h)) => {| w_key := k; w_para := p; w_hex := h |}) waves |} in
  show_exchange (Exchange.run (control_breeze_device legacy {| device_id := devid; device_key := key |} now r
                        (opt_bool state) (opt_str mode) target (opt_str fan) (opt_bool swing) update) replies).

Definition entry_caps (rid : bytes) (onoff : Z) (waves : list (bytes * (bytes * bytes))) : bytes :=
  let r := make_remote {| ir_id := rid; ir_onoff := onoff;
                          ir_waves := map (fun '(k, (p, h)) => {| w_key := k; w_para := p; w_hex := h |}) waves |} in
  concat (map (fun m => s2l m ++ [44%N]) (r_supported r)) ++ [124%N] ++ Dec.str_Z (r_min r) ++ [124%N] ++ Dec.str_Z (r_max r)
  ++ [124%N] ++ s2l (if r_toggle r then "1" else "0") ++ [124%N] ++ s2l (if r_sep r then "1" else "0").

(* generic operation entry: op selects the method; unused arguments are ignored *)
Definition entry_op (lg : bool) (op : N) (devid key : bytes) (now : N) (a b : bytes) (z1 z2 : Z)
    (days : list N) (replies : list bytes) : bytes :=
  let c := {| device_id := devid; device_key := key |} in
  let m : M bytes :=
    match op with
    | 1 => control_device_op lg c now a z1
    | 2 => set_auto_shutdown_op lg c now z1
    | 3 => set_device_name_op lg c now a
    | 4 => get_schedules_op lg c now
    | 5 => delete_schedule_op lg c now a
    | 6 => create_schedule_op lg c now z2 a b (map N.to_nat days)
    | 7 => stop_op lg c now
    | 8 => set_position_op lg c now (Z.to_N z1)
    | 9 => get_state2_op lg c now
    | _ => type1_op lg c now Extracted.T_GET_STATE_PACKET_TYPE1 (Ok [])
    end%N in
  show_exchange_frames (Exchange.run m replies).

Definition entry_schedules (lu ln : bool) (zdefault : Z) (trans : list (Z * Z)) (now : Z) (message : bytes) : bytes :=
  show_schedules (get_schedules lu ln {| z_default := zdefault; z_trans := trans |} now message).

(* bridge lifecycle: actions coded as (kind, port): 0 start, 1 stop, 2 occupy, 3 release, 4 send;
   after every action: running flag, which configured ports the bridge holds, and the observation *)
Definition entry_bridge (legacy : bool) (ports : list N) (acts : list (N * N)) : bytes :=
  let ps := map N.to_nat ports in
  let step_show (acc : bstate * bytes) (a : N * N) :=
    let '(s, out) := acc in
    let act := match fst a with 0%N => AStart | 1%N => AStop | 2%N => AOccupy (N.to_nat (snd a))
               | 3%N => ARelease (N.to_nat (snd a)) | _ => ASend (N.to_nat (snd a)) end in
    let '(s', o) := step legacy ps s act in
    (s', out ++ s2l (if running s' then "R" else "r")
             ++ concat (map (fun p => s2l (match os s' p with Bridge => "B" | Foreign => "F" | Free => "-" end)) ps)
             ++ s2l (match o with ONone => "." | OStarted => "s" | ORaised => "!" | ODelivered => "d" | ODropped => "x" end)
             ++ [124%N]) in
  snd (fold_left step_show acts (init, [])).

(* TCP client lifecycle: (kind, flag): 0 connect(listening), 1 disconnect, 2 operation(raises),
   3 with(listening, body ok), 4 with(listening, body raises) *)
Definition entry_client (acts : list (N * N)) : bytes :=
  let show (acc : cstate * bytes) (a : N * N) :=
    let '(s, out) := acc in
    let f := negb (N.eqb (snd a) 0) in
    let act := match fst a with 0%N => CConnect f | 1%N => CDisconnect | 2%N => COperation f
               | 3%N => CWith f false | _ => CWith f true end in
    let '(s', o) := cstep s act in
    (s', out ++ s2l (if connected s' then "C" else "c") ++ Dec.str_N (N.of_nat (dev_open s')) ++ [44%N]
             ++ Dec.str_N (N.of_nat (dev_eofs s')) ++ s2l (match o with CDone => "." | CRaised => "!" end) ++ [124%N]) in
  snd (fold_left show acts (cinit, [])).

(* Spec checker of C14 on an implementation result [out] ("!" stands for "raised"):
   canonical HH:MM arguments must yield fmt_hmmss (((e - s) mod 1440) * 60); anything else must raise *)
Definition canon_minutes (s : bytes) : option N :=
  match s with
  | [a; b; 58%N; c; d] =>
      if (is_digit a && is_digit b && is_digit c && is_digit d)%bool then
        let h := (10 * dval a + dval b)%N in let m := (10 * dval c + dval d)%N in
        if ((h <? 24) && (m <? 60))%N%bool then Some (60 * h + m)%N else None
      else None
  | _ => None
  end.
Definition check_duration (st en out : bytes) : bool :=
  match canon_minutes st, canon_minutes en with
  | Some s, Some e => if bytes_eq_dec out (fmt_hmmss (((e + 1440 - s) mod 1440) * 60)%N) then true else false
  | _, _ => true      (* non-canonical spellings are outside the property's domain *)
  end.
