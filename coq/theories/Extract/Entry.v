(* Entry points of the extracted model: the whole request/reply interpretation lives here, in Coq.
   A request is a function name and a list of generic arguments; the reply is the canonical text
   (bytes) the harness compares with the implementation's view.  Definitions only. *)
Require Import AS.Base.Prelude AS.Base.Hex AS.Base.Dec AS.Base.Crc AS.Base.Exchange AS.Gen.Extracted
  AS.Model.DeviceTools AS.Model.ScheduleTools AS.Model.Remotes AS.Model.Api AS.Model.ScheduleParser
  AS.Model.Bridge AS.Model.Lifecycle AS.Spec.Sign.
Local Open Scope string_scope.
Local Open Scope list_scope.

Inductive arg := AB (b : bytes) | AZ (z : Z) | AL (l : list arg).

Definition gb (a : arg) : bytes := match a with AB b => b | _ => [] end.
Definition gz (a : arg) : Z := match a with AZ z => z | _ => 0%Z end.
Definition gn (a : arg) : N := Z.to_N (gz a).
Definition gnat (a : arg) : nat := Z.to_nat (gz a).
Definition gbool (a : arg) : bool := negb (Z.eqb (gz a) 0).
Definition gl (a : arg) : list arg := match a with AL l => l | _ => [] end.
Definition glb (a : arg) : list bytes := map gb (gl a).

Definition str_of (b : bytes) : string := string_of_list_ascii (map ascii_of_N b).
Definition is_fn (f : bytes) (s : string) : bool := if bytes_eq_dec f (s2l s) then true else false.
Definition raised : bytes := s2l "raised".
Definition show_res (r : result bytes) : bytes := match r with Ok b => s2l "ok " ++ b | Exc _ => raised end.

(* ---- C04 ---- *)
Definition e_sign (p : bytes) : bytes := show_res (sign_packet_with_crc_key p).
Definition e_sign_spec (p : bytes) : bytes :=
  match unhexlify p with Some bs => s2l "ok " ++ p ++ hexlify (sig bs) | None => raised end.
Definition e_crc (init : N) (bs : bytes) : bytes := str_N (crc_hqx bs init).

(* ---- C14 ---- *)
Definition e_duration (a b : bytes) : bytes := show_res (calc_duration a b).
(* Spec: canonical HH:MM arguments must yield H:MM:SS of ((e - s) mod 1440) minutes; other spellings unspecified *)
Definition canon_minutes (s : bytes) : option N :=
  match s with
  | [a; b; 58%N; c; d] =>
      if (is_digit a && is_digit b && is_digit c && is_digit d)%bool then
        let h := (10 * dval a + dval b)%N in let m := (10 * dval c + dval d)%N in
        if ((h <? 24) && (m <? 60))%N%bool then Some (60 * h + m)%N else None
      else None
  | _ => None
  end.
Definition e_duration_spec (st en : bytes) : bytes :=
  match canon_minutes st, canon_minutes en with
  | Some s, Some e => s2l "ok " ++ fmt_hmmss (((e + 1440 - s) mod 1440) * 60)%N
  | _, _ => s2l "-"
  end.

Definition dispatch (f : bytes) (a : list arg) : option bytes :=
  match a with
  | [x] =>
      if is_fn f "sign" then Some (e_sign (gb x))
      else if is_fn f "sign_spec" then Some (e_sign_spec (gb x))
      else None
  | [x; y] =>
      if is_fn f "crc" then Some (e_crc (gn x) (gb y))
      else if is_fn f "duration" then Some (e_duration (gb x) (gb y))
      else if is_fn f "duration_spec" then Some (e_duration_spec (gb x) (gb y))
      else None
  | _ => None
  end.
