From Coq Require Import ExtrOcamlBasic ExtrOCamlInt63 ExtrOCamlFloats.
Require Import AS.Base.Prelude AS.Base.Hex AS.Model.DeviceTools AS.Spec.Sign AS.Model.Bridge AS.Model.ScheduleTools AS.Extract.Entry.
Extraction "model.ml" unhexlify sign_packet_with_crc_key check_sign parse_datagram_show calc_duration entry_breeze entry_caps entry_op entry_schedules entry_bridge entry_client check_duration.
