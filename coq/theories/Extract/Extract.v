(* Extraction of the model and of the Spec definitions used as oracle.  The only directives are those of
   ExtrOcamlBasic, ExtrOCamlInt63 and ExtrOCamlFloats (listed in DESIGN.md, section 8). *)
From Coq Require Import ExtrOcamlBasic ExtrOCamlInt63 ExtrOCamlFloats.
Require Import AS.Extract.Entry.
Extraction "model.ml" dispatch.
