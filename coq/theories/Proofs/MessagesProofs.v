Require Import AS.Base.Prelude AS.Base.Hex AS.Base.Dec AS.Base.Layout AS.Model.Messages AS.Spec.Encoders.
Open Scope N_scope.
Ltac Zify.zify_post_hook ::= Z.to_euclidean_division_equations.

Definition of_be (bs : bytes) : N := fold_left (fun a b => 256 * a + b) bs 0.

Lemma int16_fold s : forall a,
  fold_left (fun acc c => match acc, nib_of_char c with
                          | Some a, Some d => Some (16 * a + d) | _, _ => None end) (hexlify s) (Some a)
  = Some (fold_left (fun a b => 256 * a + b) s a) \/ ~ Forall (fun b => b < 256) s.
Proof.
  induction s as [|b s IH]; intros a; [left; reflexivity|].
  destruct (N.lt_ge_cases b 256) as [Hb|Hb].
  - cbn [hexlify flat_map hexbyte app fold_left]. fold (hexlify s).
    rewrite !nib_hexdigit by (try (apply N.mod_lt; discriminate); apply N.div_lt_upper_bound; lia).
    destruct (IH (16 * (16 * a + b / 16) + b mod 16)) as [H|H].
    + left. rewrite H. f_equal. f_equal. lia.
    + right. intros Hf. inversion Hf; subst. contradiction.
  - right. intros Hf. inversion Hf; subst. lia.
Qed.

Lemma int16_hexlify s : s <> [] -> Forall (fun b => b < 256) s -> int16 (hexlify s) = Some (of_be s).
Proof.
  intros Hne Hf. unfold int16, of_be.
  destruct s as [|b s]; [contradiction|].
  destruct (int16_fold (b :: s) 0) as [H|H]; [|contradiction].
  cbn [hexlify flat_map hexbyte app] in *. exact H.
Qed.

Lemma swap4_le32 x : swap4 (hexlify (le32 x)) = hexlify (be32 x).
Proof. reflexivity. Qed.
Lemma swap2_le16_pad x f : length f = 2%nat -> swap2 (hexlify (le16 x ++ f)) = hexlify [x / 256 mod 256; x mod 256].
Proof. intros H. destruct f as [|a [|b [|c f]]]; try discriminate. reflexivity. Qed.

Lemma of_be_be32 x : x < 4294967296 -> of_be (be32 x) = x.
Proof. intros H. unfold of_be, be32. cbn [fold_left]. lia. Qed.
Lemma of_be_16 x : x < 65536 -> of_be [x / 256 mod 256; x mod 256] = x.
Proof. intros H. unfold of_be. cbn [fold_left]. lia. Qed.

Lemma be32_bytes x : Forall (fun b => b < 256) (be32 x).
Proof. unfold be32. repeat constructor; apply N.mod_lt; discriminate. Qed.

Lemma get_time_field hex lo hi x : pyslice lo hi hex = hexlify (le32 x) -> x < 86400 ->
  get_time hex lo hi = Ok (fmt_hhmmss x).
Proof.
  intros Hs Hx. unfold get_time. rewrite Hs, swap4_le32. unfold int16r.
  rewrite int16_hexlify by (try apply be32_bytes; discriminate).
  rewrite of_be_be32 by lia. cbn [of_option bind]. unfold seconds_to_iso_time.
  replace (x / 3600 <? 24) with true; [reflexivity|].
  symmetry. apply N.ltb_lt. apply N.div_lt_upper_bound; lia.
Qed.

(* ---- reference encoder (Spec) and the round trip ---- *)
Theorem state_reply_roundtrip f0 f1 f2 f3 st pw tl ton au :
  length f0 = 75%nat -> length f1 = 1%nat -> length f2 = 8%nat ->
  (st = 0 \/ st = 1) -> pw < 65536 -> tl < 86400 -> ton < 86400 -> au < 86400 ->
  parse_state_reply (encode_state_reply f0 f1 f2 f3 st pw tl ton au) =
  Ok {| sf_state := st; sf_time_left := fmt_hhmmss tl; sf_time_on := fmt_hhmmss ton;
        sf_auto := fmt_hhmmss au; sf_power := pw |}.
Proof.
  intros L0 L1 L2 Hst Hpw Htl Hton Hau. unfold parse_state_reply, encode_state_reply. cbv zeta.
  set (segs := state_segs f0 f1 f2 f3 st pw tl ton au).
  assert (S : forall k lo hi lo2 hi2, (k < 9)%nat -> lo2 = (2*lo)%nat -> hi2 = (2*hi)%nat ->
              lo = offset segs k -> hi = (lo + length (nth k segs []))%nat ->
              pyslice lo2 hi2 (hexlify (concat segs)) = hexlify (nth k segs [])).
  { intros k lo hi lo2 hi2 Hk -> -> Hlo Hhi. rewrite hexlify_slice. f_equal. apply slice_segment; assumption. }
  rewrite (S 1%nat 75%nat 76%nat 150%nat 152%nat) by (cbn; lia).
  rewrite (get_time_field _ _ _ tl) by (try exact Htl; apply (S 5%nat 89%nat 93%nat); cbn; lia).
  rewrite (get_time_field _ _ _ ton) by (try exact Hton; apply (S 6%nat 93%nat 97%nat); cbn; lia).
  rewrite (get_time_field _ _ _ au) by (try exact Hau; apply (S 7%nat 97%nat 101%nat); cbn; lia).
  rewrite (S 3%nat 77%nat 81%nat 154%nat 162%nat) by (cbn; lia).
  unfold segs, state_segs. cbn [nth bind]. rewrite swap2_le16_pad by reflexivity. unfold int16r.
  rewrite int16_hexlify by (try discriminate; repeat constructor; apply N.mod_lt; discriminate).
  rewrite of_be_16 by exact Hpw. cbn [of_option bind].
  destruct Hst as [-> | ->]; reflexivity.
Qed.
Print Assumptions state_reply_roundtrip.
