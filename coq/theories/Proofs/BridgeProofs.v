Require Import AS.Base.Prelude AS.Base.Hex AS.Base.Dec AS.Gen.Extracted AS.Model.Messages AS.Model.Bridge
  AS.Proofs.HexSlices AS.Proofs.MessagesProofs.
Open Scope N_scope.

Definition wf_bytes (m : bytes) : Prop := Forall (fun b => b < 256) m.

Lemma eqs_true a s : eqs a s = true <-> a = s2l s.
Proof. unfold eqs. destruct (bytes_eq_dec a (s2l s)); split; congruence. Qed.

Lemma firstn_wf n m : wf_bytes m -> wf_bytes (firstn n m).
Proof.
  intros H. apply Forall_forall. intros x Hx.
  assert (Hin : In x m) by (rewrite <- (firstn_skipn n m); apply in_or_app; left; exact Hx).
  unfold wf_bytes in H. rewrite Forall_forall in H. apply H, Hin.
Qed.
Lemma pyslice_wf lo hi m : wf_bytes m -> wf_bytes (pyslice lo hi m).
Proof.
  intros H. unfold pyslice. apply firstn_wf. apply Forall_forall. intros x Hx.
  assert (Hin : In x m) by (rewrite <- (firstn_skipn lo m); apply in_or_app; right; exact Hx).
  unfold wf_bytes in H. rewrite Forall_forall in H. apply H, Hin.
Qed.

Lemma magic_iff m : wf_bytes m ->
  (pyslice 0 4 (hexlify m) = s2l "fef0" <-> firstn 2 m = [254; 240]).
Proof.
  intros Hw. change (pyslice 0 4 (hexlify m)) with (pyslice (2*0) (2*2) (hexlify m)).
  rewrite hexlify_slice. unfold pyslice at 1. cbn [skipn Nat.sub]. split; intros H.
  - assert (Hu : unhexlify (hexlify (firstn 2 m)) = unhexlify (s2l "fef0")) by (rewrite H; reflexivity).
    rewrite unhexlify_hexlify in Hu by (apply firstn_wf, Hw).
    assert (Hk : unhexlify (s2l "fef0") = Some [254; 240]) by reflexivity. congruence.
  - rewrite H. reflexivity.
Qed.

(* C06, the gate *)
Theorem originator_iff m : wf_bytes m ->
  (is_switcher_originator m = true <->
   firstn 2 m = [254; 240] /\ (length m = 165 \/ length m = 168 \/ length m = 159)%nat).
Proof.
  intros Hw. unfold is_switcher_originator. rewrite andb_true_iff, eqs_true, (magic_iff m Hw).
  rewrite !orb_true_iff, !Nat.eqb_eq. tauto.
Qed.

Theorem not_originator_ignored lm lt m : is_switcher_originator m = false -> parse_datagram lm lt m = Ignored.
Proof. intros H. unfold parse_datagram. rewrite H. reflexivity. Qed.

(* power field of an accepted frame always parses: the frame is long enough *)
Lemma power_parses m : wf_bytes m -> (139 <= length m)%nat ->
  exists p, int16r (swap2 (pyslice 270 278 (hexlify m))) = Ok p.
Proof.
  intros Hw Hl. change (pyslice 270 278 (hexlify m)) with (pyslice (2*135) (2*139) (hexlify m)).
  rewrite hexlify_slice.
  assert (Hlen : length (pyslice 135 139 m) = 4%nat).
  { unfold pyslice. rewrite firstn_length, skipn_length. lia. }
  pose proof (pyslice_wf 135 139 m Hw) as Hs.
  destruct (pyslice 135 139 m) as [|a [|b [|c [|d [|e r]]]]]; try discriminate.
  inversion Hs as [|? ? Ha Hs1]; subst. inversion Hs1 as [|? ? Hb _]; subst.
  exists (of_be [b; a]). unfold int16r.
  change (swap2 (hexlify [a; b; c; d])) with (hexlify [b; a]).
  rewrite int16_hexlify; [reflexivity|discriminate|repeat constructor; assumption].
Qed.

(* C06, unknown model code in an accepted frame: repaired code warns, delivers nothing, raises nothing *)
Theorem unknown_model_warned lm m : wf_bytes m -> is_switcher_originator m = true ->
  dt_by_hex (hexlify (pyslice 74 76 m)) = None -> parse_datagram lm false m = Warned.
Proof.
  intros Hw Ho Hd. unfold parse_datagram. rewrite Ho, Hd. cbn [negb].
  assert (Hl : (139 <= length m)%nat).
  { apply originator_iff in Ho; [|exact Hw]. destruct Ho as [_ [H|[H|H]]]; lia. }
  destruct (eqs (pyslice 266 268 (hexlify m)) "01").
  - destruct (power_parses m Hw Hl) as [p Hp]. rewrite Hp. reflexivity.
  - reflexivity.
Qed.
(* ... while the code before the F5 repair raises KeyError for every unknown code *)
Theorem unknown_model_legacy_raises lm m : is_switcher_originator m = true ->
  dt_by_hex (hexlify (pyslice 74 76 m)) = None -> parse_datagram lm true m = Raised KeyError.
Proof. intros Ho Hd. unfold parse_datagram. rewrite Ho, Hd. reflexivity. Qed.
Print Assumptions unknown_model_warned.
