(* The frame rule of the exchange model: an operation started on a connection that already carried traffic appends to the
   frames written so far exactly the frames it would write on a fresh connection, consumes exactly one reply of the
   script per frame, and returns the same result.  Proved for the primitives, preserved by bind, hence for every operation. *)
Require Import AS.Base.Prelude AS.Base.Hex AS.Base.Template AS.Base.Exchange AS.Gen.Extracted
  AS.Model.DeviceTools AS.Model.Messages AS.Model.Remotes AS.Model.ScheduleTools AS.Model.NextRun AS.Model.ScheduleParser AS.Model.Api AS.Model.Ops AS.Proofs.FrameAll.
Open Scope N_scope.

Definition mk (F R : list bytes) : io := {| frames := F; replies := R |}.

Definition uniform {A} (m : M A) : Prop :=
  forall R, exists fs r, forall F, m (mk F R) = (mk (F ++ fs) (skipn (length fs) R), r).

Lemma uniform_ret {A} (a : A) : uniform (ret a).
Proof. intros R. exists [], (Ok a). intros F. unfold ret, mk. rewrite app_nil_r. reflexivity. Qed.
Lemma uniform_raise {A} e : uniform (@raise A e).
Proof. intros R. exists [], (Exc e). intros F. unfold raise, mk. rewrite app_nil_r. reflexivity. Qed.
Lemma uniform_lift {A} (r : result A) : uniform (lift r).
Proof. intros R. exists [], r. intros F. unfold lift, mk. rewrite app_nil_r. reflexivity. Qed.
Lemma uniform_send signed : uniform (send signed).
Proof.
  intros R. unfold send. destruct (unhexlify signed) as [bs|].
  - exists [bs], (Ok (hd [] R)). intros F. unfold mk. cbn [replies frames length]. destruct R as [|x rest]; reflexivity.
  - exists [], (Exc BinasciiError). intros F. unfold mk. rewrite app_nil_r. reflexivity.
Qed.
Lemma uniform_bind {A B} (m : M A) (f : A -> M B) : uniform m -> (forall a, uniform (f a)) -> uniform (bindM m f).
Proof.
  intros Hm Hf R. destruct (Hm R) as [fs1 [r1 H1]]. destruct r1 as [a|e].
  - destruct (Hf a (skipn (length fs1) R)) as [fs2 [r2 H2]]. exists (fs1 ++ fs2), r2. intros F.
    unfold bindM. rewrite H1. fold (mk (F ++ fs1) (skipn (length fs1) R)). rewrite H2.
    rewrite app_assoc, app_length, skipn_skipn'. reflexivity.
  - exists fs1, (Exc e). intros F. unfold bindM. rewrite H1. reflexivity.
Qed.
Lemma uniform_mapM {A B} (g : A -> B) (m : M A) : uniform m -> uniform (mapM g m).
Proof. intros H. unfold mapM. apply uniform_bind; [exact H|intros a; apply uniform_ret]. Qed.

Ltac uni :=
  repeat first
    [ apply uniform_ret | apply uniform_raise | apply uniform_lift | apply uniform_send | assumption
    | apply uniform_bind; [|intros ?]
    | match goal with
      | |- uniform (if ?b then _ else _) => destruct b
      | |- uniform (match ?x with _ => _ end) => destruct x
      | |- uniform (let _ := _ in _) => cbv zeta
      end ].

Lemma uniform_login c t2 now : uniform (login c t2 now).
Proof. unfold login. uni. Qed.
Lemma uniform_send_template_gen lg t args fl : uniform (send_template_gen lg t args fl).
Proof. unfold send_template_gen. uni. Qed.
Lemma uniform_type1_op lg c now t extra : uniform (type1_op lg c now t extra).
Proof. unfold type1_op. apply uniform_bind; [apply uniform_login|intros l]. apply uniform_bind; [apply uniform_lift|intros a]. apply uniform_send_template_gen. Qed.
Lemma uniform_type2_op lg c now t extra fl : uniform (type2_op lg c now t extra fl).
Proof. unfold type2_op. apply uniform_bind; [apply uniform_login|intros l]. destruct (successful _); [apply uniform_send_template_gen|apply uniform_raise]. Qed.
Lemma uniform_wrap_parse {A} (r : result A) : uniform (wrap_parse r).
Proof. unfold wrap_parse. uni. Qed.
Lemma uniform_get_state_full c now : uniform (get_state_full c now).
Proof.
  unfold get_state_full. apply uniform_bind; [apply uniform_login|intros l]. destruct (successful _); [|apply uniform_raise].
  apply uniform_bind; [apply uniform_send_template_gen|intros s]. uni.
Qed.
Lemma uniform_get_breeze_state c now : uniform (get_breeze_state c now).
Proof.
  unfold get_breeze_state. apply uniform_bind; [apply uniform_login|intros l]. destruct (successful _); [|apply uniform_raise].
  apply uniform_bind; [apply uniform_send_template_gen|intros s]. apply uniform_bind; [apply uniform_wrap_parse|intros r]. apply uniform_ret.
Qed.
Lemma uniform_get_shutter_state c now : uniform (get_shutter_state c now).
Proof.
  unfold get_shutter_state. apply uniform_bind; [apply uniform_login|intros l]. destruct (successful _); [|apply uniform_raise].
  apply uniform_bind; [apply uniform_send_template_gen|intros s]. apply uniform_bind; [apply uniform_wrap_parse|intros r]. apply uniform_ret.
Qed.
Lemma uniform_get_schedules_full c now : uniform (get_schedules_full c now).
Proof.
  unfold get_schedules_full, get_schedules_op. apply uniform_bind; [apply uniform_type1_op|intros resp].
  destruct (get_schedules _ _ _ _ _); [apply uniform_ret|apply uniform_raise].
Qed.
Lemma uniform_control_breeze lg c now r state mode target fan swing update :
  uniform (control_breeze_device lg c now r state mode target fan swing update).
Proof.
  unfold control_breeze_device. apply uniform_bind; [apply uniform_login|intros l].
  destruct (negb (successful (lr_response l))); [apply uniform_raise|]. cbv zeta.
  apply uniform_bind; [|intros cmd; apply uniform_bind; [|intros fin; destruct fin; [apply uniform_ret|apply uniform_raise]]].
  - destruct (_ || _ || _ || _ || _)%bool; [|apply uniform_ret].
    apply uniform_bind; [apply uniform_send_template_gen|intros sresp].
    destruct (parse_thermostat_reply sresp) as [cur|e]; [|destruct (_ || _)%bool; apply uniform_raise].
    destruct (negb (successful sresp)); [apply uniform_raise|]. cbv zeta.
    apply uniform_bind; [|intros resp; destruct (successful resp); [apply uniform_ret|apply uniform_raise]].
    destruct update; [apply uniform_send_template_gen|].
    apply uniform_bind; [apply uniform_lift|intros cl; apply uniform_send_template_gen].
  - destruct (_ && _ && _)%bool; [|apply uniform_ret].
    apply uniform_bind; [apply uniform_lift|intros cl]. apply uniform_bind; [apply uniform_send_template_gen|intros resp; apply uniform_ret].
Qed.

Theorem uniform_run_op c now o : uniform (run_op c now o).
Proof.
  destruct o; cbn [run_op]; apply uniform_mapM.
  - unfold control_device_op. apply uniform_type1_op.
  - unfold set_auto_shutdown_op. apply uniform_type1_op.
  - unfold set_device_name_op. apply uniform_type1_op.
  - apply uniform_get_schedules_full.
  - unfold delete_schedule_op. apply uniform_type1_op.
  - unfold create_schedule_op. apply uniform_type1_op.
  - unfold stop_op. apply uniform_type2_op.
  - unfold set_position_op. apply uniform_type2_op.
  - apply uniform_get_shutter_state.
  - apply uniform_get_breeze_state.
  - apply uniform_get_state_full.
  - apply uniform_control_breeze.
Qed.
