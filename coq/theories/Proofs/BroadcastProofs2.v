(* C05: parse o encode = identity for the water-heater / power-plug and the runner broadcasts *)
Require Import AS.Base.Prelude AS.Base.Hex AS.Base.Dec AS.Base.Utf8 AS.Base.Layout AS.Gen.Extracted AS.Model.Messages
  AS.Model.Bridge AS.Spec.Frame AS.Spec.Encoders AS.Proofs.HexSlices AS.Proofs.MessagesProofs AS.Proofs.BridgeProofs
  AS.Proofs.BroadcastProofs AS.Proofs.FrameProofs AS.Proofs.RepliesProofs.
Open Scope N_scope.
Ltac Zify.zify_post_hook ::= Z.to_euclidean_division_equations.

(* every row of the DeviceType table: the model code is two bytes whose hex spelling finds the row back *)
Definition type_rows_okb : bool :=
  forallb (fun '(n, _, hx, p, cat) =>
    bytes_eqb (hexlify (unhex_str hx)) (s2l hx) && (length (unhex_str hx) =? 2)%nat &&
    match dt_by_hex (s2l hx) with Some (n', p', c') => String.eqb n n' && N.eqb p p' && String.eqb cat c' | None => false end)
    device_types.
Lemma type_rows_ok : type_rows_okb = true. Proof. vm_compute. reflexivity. Qed.
Lemma type_row n v hx p cat : In (n, v, hx, p, cat) device_types ->
  hexlify (unhex_str hx) = s2l hx /\ length (unhex_str hx) = 2%nat /\ dt_by_hex (s2l hx) = Some (n, p, cat).
Proof.
  intros Hin. pose proof type_rows_ok as H. unfold type_rows_okb in H. rewrite forallb_forall in H.
  specialize (H _ Hin). cbv beta iota in H.
  apply andb_prop in H. destruct H as [H H3]. apply andb_prop in H. destruct H as [H1 H2].
  split; [apply bytes_eqb_eq; exact H1|]. split; [apply Nat.eqb_eq; exact H2|].
  destruct (dt_by_hex (s2l hx)) as [[[n' p'] c']|]; [|discriminate].
  apply andb_prop in H3. destruct H3 as [H3 H5]. apply andb_prop in H3. destruct H3 as [H3 H4].
  apply String.eqb_eq in H3, H5. apply N.eqb_eq in H4. congruence.
Qed.

Lemma le_time_field m lo x : pyslice lo (lo + 8) (hexlify m) = hexlify (le32 x) -> x < 86400 ->
  le_time m lo = Ok (fmt_hhmmss x).
Proof. intros Hs Hx. exact (get_time_field (hexlify m) lo (lo + 8) x Hs Hx). Qed.

Section Type1.
Variables (f1 id f2 : bytes) (key : N) (f3 name ip mac f5 : bytes) (on : bool) (f6 : bytes) (power : N) (f7a f7b : bytes)
          (remaining : N) (f8 : bytes) (auto : N) (f9 : bytes).
Variables (tname tvalue thex : string) (proto : N) (cat : string).
Hypothesis Hrow : In (tname, tvalue, thex, proto, cat) device_types.
Hypothesis L1 : length f1 = 16%nat.  Hypothesis Lid : length id = 3%nat.  Hypothesis L2 : length f2 = 19%nat.
Hypothesis L3 : length f3 = 1%nat.   Hypothesis Lip : length ip = 4%nat.  Hypothesis Lmac : length mac = 6%nat.
Hypothesis L5 : length f5 = 47%nat.  Hypothesis L6 : length f6 = 1%nat.   Hypothesis L7a : length f7a = 2%nat.
Hypothesis L7b : length f7b = 8%nat. Hypothesis L8 : length f8 = 4%nat.   Hypothesis L9 : length f9 = 6%nat.
Hypothesis Lname : (length name <= 32)%nat.  Hypothesis Vname : utf8_valid name = true.  Hypothesis Nname : last name 1 <> 0.
Hypothesis Hpower : power < 65536.  Hypothesis Hrem : remaining < 86400.  Hypothesis Hauto : auto < 86400.

Let segs := type1_segs f1 id f2 key f3 (pad0 32 name) (unhex_str thex) ip mac f5 (if on then 1 else 0) f6 power (f7a ++ f7b)
                       remaining f8 auto f9.
Let m := concat segs.
Hypothesis Hwf : wf_bytes m.

Lemma type1_common :
  length (pad0 32 name) = 32%nat /\ length (unhex_str thex) = 2%nat /\ length m = 165%nat /\ is_switcher_originator m = true.
Proof.
  destruct (type_row _ _ _ _ _ Hrow) as [_ [Lm _]].
  assert (Ln : length (pad0 32 name) = 32%nat) by (unfold pad0; rewrite app_length, repeat_length; lia).
  assert (Hlen : length m = 165%nat).
  { unfold m, segs, type1_segs. cbn [concat]. rewrite !app_length. cbn [length le16 le32].
    rewrite Ln, Lm, L1, Lid, L2, L3, Lip, Lmac, L5, L6, L7a, L7b, L8, L9. reflexivity. }
  split; [exact Ln|]. split; [exact Lm|]. split; [exact Hlen|].
  apply originator_iff; [exact Hwf|]. split; [reflexivity|left; exact Hlen].
Qed.

Ltac offs := cbn [offset segs type1_segs nth length le16 le32]; rewrite ?app_length;
  rewrite ?L1, ?Lid, ?L2, ?L3, ?(proj1 type1_common), ?(proj1 (proj2 type1_common)), ?Lip, ?Lmac, ?L5, ?L6, ?L7a, ?L7b, ?L8, ?L9; lia.

Theorem type1_roundtrip : cat = "WATER_HEATER"%string \/ cat = "POWER_PLUG"%string ->
  parse_datagram false false m =
  Delivered (if String.eqb cat "WATER_HEATER"
             then DWaterHeater tname on (hexlify id) (hexlify [key]) (dotted ip) (mac_of mac) name (if on then power else 0)
                               (if on then fmt_hhmmss remaining else s2l "00:00:00") (fmt_hhmmss auto)
             else DPowerPlug tname on (hexlify id) (hexlify [key]) (dotted ip) (mac_of mac) name (if on then power else 0)).
Proof.
  intros Hcat. destruct type1_common as [Ln [Lm [Hlen Horig]]].
  destruct (type_row _ _ _ _ _ Hrow) as [Mhex [_ Mrow]].
  assert (S1 : forall k lo hi, (k < 19)%nat -> lo = offset segs k -> hi = (lo + length (nth k segs []))%nat ->
               pyslice lo hi m = nth k segs []).
  { intros k lo hi Hk Hlo Hhi. apply slice_segment; assumption. }
  assert (H1 : forall k lo hi lo2 hi2, (k < 19)%nat -> lo2 = (2*lo)%nat -> hi2 = (2*hi)%nat ->
               lo = offset segs k -> hi = (lo + length (nth k segs []))%nat ->
               pyslice lo2 hi2 (hexlify m) = hexlify (nth k segs [])).
  { intros k lo hi lo2 hi2 Hk -> -> Hlo Hhi. rewrite hexlify_slice. f_equal. apply S1; assumption. }
  unfold parse_datagram. rewrite Horig. cbn [negb].
  rewrite (S1 7%nat 74%nat 76%nat) by offs. cbn [nth segs type1_segs]. rewrite Mhex, Mrow. cbv iota beta.
  assert (Hnb : String.eqb tname "BREEZE" = false).
  { assert (Hb : forallb (fun '(n, _, _, _, c) => negb (String.eqb n "BREEZE") || String.eqb c "THERMOSTAT")%bool device_types = true)
      by (vm_compute; reflexivity).
    rewrite forallb_forall in Hb. specialize (Hb _ Hrow). cbv beta iota in Hb.
    destruct (String.eqb tname "BREEZE"); [|reflexivity]. cbn [negb orb] in Hb. apply String.eqb_eq in Hb.
    destruct Hcat as [Hc|Hc]; rewrite Hc in Hb; discriminate. }
  rewrite Hnb.
  (* state byte and power *)
  rewrite (H1 11%nat 133%nat 134%nat 266%nat 268%nat) by offs. cbn [nth segs type1_segs].
  assert (Hon : eqs (hexlify [if on then 1 else 0]) "01" = on) by (destruct on; reflexivity). rewrite Hon.
  assert (Hpw : (if on then int16r (swap2 (pyslice 270 278 (hexlify m))) else Ok 0) = Ok (if on then power else 0)).
  { destruct on; [|reflexivity].
    change (pyslice 270 278 (hexlify m)) with (pyslice (2*135) (2*139) (hexlify m)). rewrite hexlify_slice.
    assert (Hs : pyslice 135 139 m = le16 power ++ f7a).
    { assert (E : m = concat (firstn 13 segs) ++ (le16 power ++ f7a) ++ f7b ++ concat (skipn 15 segs)).
      { unfold m, segs, type1_segs. cbn [firstn skipn concat]. rewrite <- !app_assoc. cbn [app]. reflexivity. }
      rewrite E. assert (Lp : length (concat (firstn 13 segs)) = 135%nat).
      { unfold segs, type1_segs. cbn [firstn concat]. rewrite !app_length. cbn [length]. rewrite Ln, Lm, L1, Lid, L2, L3, Lip, Lmac, L5, L6. reflexivity. }
      change 139%nat with (135 + 4)%nat. rewrite <- Lp at 1 2.
      replace 4%nat with (length (le16 power ++ f7a)) by (rewrite app_length, L7a; reflexivity).
      apply AS.Proofs.FrameAll.pyslice_app_mid. }
    rewrite Hs, swap2_le16_pad by exact L7a. unfold int16r.
    rewrite int16_hexlify by (try discriminate; repeat constructor; apply N.mod_lt; discriminate).
    rewrite of_be_16 by exact Hpower. reflexivity. }
  rewrite Hpw.
  (* name *)
  rewrite (S1 6%nat 42%nat 74%nat) by offs. cbn [nth segs type1_segs]. unfold decode_str, pad0.
  rewrite utf8_valid_pad by exact Vname. cbn [bind]. rewrite rstrip0_pad by exact Nname.
  (* id, key, ip, mac *)
  rewrite (H1 2%nat 18%nat 21%nat 36%nat 42%nat) by offs.
  rewrite (H1 4%nat 40%nat 41%nat 80%nat 82%nat) by offs.
  rewrite (S1 8%nat 76%nat 80%nat) by offs.
  rewrite (S1 9%nat 80%nat 86%nat) by offs.
  cbn [nth segs type1_segs].
  destruct Hcat as [-> | ->].
  - change (String.eqb "WATER_HEATER" "WATER_HEATER") with true. cbv iota.
    assert (Hr : (if on then le_time m 294 else Ok (s2l "00:00:00")) = Ok (if on then fmt_hhmmss remaining else s2l "00:00:00")).
    { destruct on; [|reflexivity]. apply le_time_field; [|exact Hrem].
      apply (H1 15%nat 147%nat 151%nat 294%nat 302%nat); offs. }
    rewrite Hr. rewrite (le_time_field m 310 auto); [reflexivity| |exact Hauto].
    apply (H1 17%nat 155%nat 159%nat 310%nat 318%nat); offs.
  - change (String.eqb "POWER_PLUG" "WATER_HEATER") with false.
    change (String.eqb "POWER_PLUG" "POWER_PLUG") with true. cbv iota. reflexivity.
Qed.
End Type1.
Print Assumptions type1_roundtrip.

(* ---- the same for an arbitrary state byte: ON iff it is 01; a device that is not ON may carry anything in its countdown field ---- *)
Lemma state_byte_all : forallb (fun b => Bool.eqb (eqs (hexlify [b]) "01") (b =? 1)) (map N.of_nat (seq 0 256)) = true.
Proof. vm_compute. reflexivity. Qed.
Lemma state_byte_on b : b < 256 -> eqs (hexlify [b]) "01" = (b =? 1).
Proof.
  intros Hb. pose proof state_byte_all as H. rewrite forallb_forall in H.
  specialize (H b). apply Bool.eqb_prop. apply H. apply in_map_iff. exists (N.to_nat b). split; [apply N2Nat.id|]. apply in_seq. lia.
Qed.

Section Type1Any.
Variables (f1 id f2 : bytes) (key : N) (f3 name ip mac f5 : bytes) (stb : N) (f6 : bytes) (power : N) (f7a f7b : bytes)
          (remaining : N) (f8 : bytes) (auto : N) (f9 : bytes).
Variables (tname tvalue thex : string) (proto : N) (cat : string).
Hypothesis Hrow : In (tname, tvalue, thex, proto, cat) device_types.
Hypothesis L1 : length f1 = 16%nat.  Hypothesis Lid : length id = 3%nat.  Hypothesis L2 : length f2 = 19%nat.
Hypothesis L3 : length f3 = 1%nat.   Hypothesis Lip : length ip = 4%nat.  Hypothesis Lmac : length mac = 6%nat.
Hypothesis L5 : length f5 = 47%nat.  Hypothesis L6 : length f6 = 1%nat.   Hypothesis L7a : length f7a = 2%nat.
Hypothesis L7b : length f7b = 8%nat. Hypothesis L8 : length f8 = 4%nat.   Hypothesis L9 : length f9 = 6%nat.
Hypothesis Lname : (length name <= 32)%nat.  Hypothesis Vname : utf8_valid name = true.  Hypothesis Nname : last name 1 <> 0.
Hypothesis Hstb : stb < 256.
Let on : bool := stb =? 1.          (* ON iff the state byte is 01 *)
Hypothesis Hpower : power < 65536.  Hypothesis Hrem : on = true -> remaining < 86400.  Hypothesis Hauto : auto < 86400.

Let segs := type1_segs f1 id f2 key f3 (pad0 32 name) (unhex_str thex) ip mac f5 stb f6 power (f7a ++ f7b)
                       remaining f8 auto f9.
Let m := concat segs.
Hypothesis Hwf : wf_bytes m.

Lemma type1_common_any :
  length (pad0 32 name) = 32%nat /\ length (unhex_str thex) = 2%nat /\ length m = 165%nat /\ is_switcher_originator m = true.
Proof.
  destruct (type_row _ _ _ _ _ Hrow) as [_ [Lm _]].
  assert (Ln : length (pad0 32 name) = 32%nat) by (unfold pad0; rewrite app_length, repeat_length; lia).
  assert (Hlen : length m = 165%nat).
  { unfold m, segs, type1_segs. cbn [concat]. rewrite !app_length. cbn [length le16 le32].
    rewrite Ln, Lm, L1, Lid, L2, L3, Lip, Lmac, L5, L6, L7a, L7b, L8, L9. reflexivity. }
  split; [exact Ln|]. split; [exact Lm|]. split; [exact Hlen|].
  apply originator_iff; [exact Hwf|]. split; [reflexivity|left; exact Hlen].
Qed.

Ltac offs := cbn [offset segs type1_segs nth length le16 le32]; rewrite ?app_length;
  rewrite ?L1, ?Lid, ?L2, ?L3, ?(proj1 type1_common_any), ?(proj1 (proj2 type1_common_any)), ?Lip, ?Lmac, ?L5, ?L6, ?L7a, ?L7b, ?L8, ?L9; lia.

Theorem type1_roundtrip_any : cat = "WATER_HEATER"%string \/ cat = "POWER_PLUG"%string ->
  parse_datagram false false m =
  Delivered (if String.eqb cat "WATER_HEATER"
             then DWaterHeater tname on (hexlify id) (hexlify [key]) (dotted ip) (mac_of mac) name (if on then power else 0)
                               (if on then fmt_hhmmss remaining else s2l "00:00:00") (fmt_hhmmss auto)
             else DPowerPlug tname on (hexlify id) (hexlify [key]) (dotted ip) (mac_of mac) name (if on then power else 0)).
Proof.
  intros Hcat. destruct type1_common_any as [Ln [Lm [Hlen Horig]]].
  destruct (type_row _ _ _ _ _ Hrow) as [Mhex [_ Mrow]].
  assert (S1 : forall k lo hi, (k < 19)%nat -> lo = offset segs k -> hi = (lo + length (nth k segs []))%nat ->
               pyslice lo hi m = nth k segs []).
  { intros k lo hi Hk Hlo Hhi. apply slice_segment; assumption. }
  assert (H1 : forall k lo hi lo2 hi2, (k < 19)%nat -> lo2 = (2*lo)%nat -> hi2 = (2*hi)%nat ->
               lo = offset segs k -> hi = (lo + length (nth k segs []))%nat ->
               pyslice lo2 hi2 (hexlify m) = hexlify (nth k segs [])).
  { intros k lo hi lo2 hi2 Hk -> -> Hlo Hhi. rewrite hexlify_slice. f_equal. apply S1; assumption. }
  unfold parse_datagram. rewrite Horig. cbn [negb].
  rewrite (S1 7%nat 74%nat 76%nat) by offs. cbn [nth segs type1_segs]. rewrite Mhex, Mrow. cbv iota beta.
  assert (Hnb : String.eqb tname "BREEZE" = false).
  { assert (Hb : forallb (fun '(n, _, _, _, c) => negb (String.eqb n "BREEZE") || String.eqb c "THERMOSTAT")%bool device_types = true)
      by (vm_compute; reflexivity).
    rewrite forallb_forall in Hb. specialize (Hb _ Hrow). cbv beta iota in Hb.
    destruct (String.eqb tname "BREEZE"); [|reflexivity]. cbn [negb orb] in Hb. apply String.eqb_eq in Hb.
    destruct Hcat as [Hc|Hc]; rewrite Hc in Hb; discriminate. }
  rewrite Hnb.
  (* state byte and power *)
  rewrite (H1 11%nat 133%nat 134%nat 266%nat 268%nat) by offs. cbn [nth segs type1_segs].
  assert (Hon : eqs (hexlify [stb]) "01" = on) by (unfold on; apply state_byte_on; exact Hstb). rewrite Hon.
  assert (Hpw : (if on then int16r (swap2 (pyslice 270 278 (hexlify m))) else Ok 0) = Ok (if on then power else 0)).
  { destruct on eqn:Eon; [|reflexivity].
    change (pyslice 270 278 (hexlify m)) with (pyslice (2*135) (2*139) (hexlify m)). rewrite hexlify_slice.
    assert (Hs : pyslice 135 139 m = le16 power ++ f7a).
    { assert (E : m = concat (firstn 13 segs) ++ (le16 power ++ f7a) ++ f7b ++ concat (skipn 15 segs)).
      { unfold m, segs, type1_segs. cbn [firstn skipn concat]. rewrite <- !app_assoc. cbn [app]. reflexivity. }
      rewrite E. assert (Lp : length (concat (firstn 13 segs)) = 135%nat).
      { unfold segs, type1_segs. cbn [firstn concat]. rewrite !app_length. cbn [length]. rewrite Ln, Lm, L1, Lid, L2, L3, Lip, Lmac, L5, L6. reflexivity. }
      change 139%nat with (135 + 4)%nat. rewrite <- Lp at 1 2.
      replace 4%nat with (length (le16 power ++ f7a)) by (rewrite app_length, L7a; reflexivity).
      apply AS.Proofs.FrameAll.pyslice_app_mid. }
    rewrite Hs, swap2_le16_pad by exact L7a. unfold int16r.
    rewrite int16_hexlify by (try discriminate; repeat constructor; apply N.mod_lt; discriminate).
    rewrite of_be_16 by exact Hpower. reflexivity. }
  rewrite Hpw.
  (* name *)
  rewrite (S1 6%nat 42%nat 74%nat) by offs. cbn [nth segs type1_segs]. unfold decode_str, pad0.
  rewrite utf8_valid_pad by exact Vname. cbn [bind]. rewrite rstrip0_pad by exact Nname.
  (* id, key, ip, mac *)
  rewrite (H1 2%nat 18%nat 21%nat 36%nat 42%nat) by offs.
  rewrite (H1 4%nat 40%nat 41%nat 80%nat 82%nat) by offs.
  rewrite (S1 8%nat 76%nat 80%nat) by offs.
  rewrite (S1 9%nat 80%nat 86%nat) by offs.
  cbn [nth segs type1_segs].
  destruct Hcat as [-> | ->].
  - change (String.eqb "WATER_HEATER" "WATER_HEATER") with true. cbv iota.
    assert (Hr : (if on then le_time m 294 else Ok (s2l "00:00:00")) = Ok (if on then fmt_hhmmss remaining else s2l "00:00:00")).
    { destruct on eqn:Eon; [|reflexivity]. apply le_time_field; [|apply Hrem; reflexivity].
      apply (H1 15%nat 147%nat 151%nat 294%nat 302%nat); offs. }
    rewrite Hr. rewrite (le_time_field m 310 auto); [reflexivity| |exact Hauto].
    apply (H1 17%nat 155%nat 159%nat 310%nat 318%nat); offs.
  - change (String.eqb "POWER_PLUG" "WATER_HEATER") with false.
    change (String.eqb "POWER_PLUG" "POWER_PLUG") with true. cbv iota. reflexivity.
Qed.
End Type1Any.
Print Assumptions type1_roundtrip_any.


Lemma dirs_ok : table_ok shutter_directions = true. Proof. vm_compute. reflexivity. Qed.

Section Runner.
Variables (f1 id f2 : bytes) (key : N) (f3 name f4 ip mac f5 : bytes) (position : N) (f6 : bytes).
Variables (tname tvalue thex : string) (proto : N).
Variables (dname dvalue ddisp : string).
Hypothesis Hrow : In (tname, tvalue, thex, proto, "SHUTTER"%string) device_types.
Hypothesis Hdir : In (dname, dvalue, ddisp) shutter_directions.
Hypothesis L1 : length f1 = 16%nat.  Hypothesis Lid : length id = 3%nat.  Hypothesis L2 : length f2 = 19%nat.
Hypothesis L3 : length f3 = 1%nat.   Hypothesis L4 : length f4 = 1%nat.   Hypothesis Lip : length ip = 4%nat.
Hypothesis Lmac : length mac = 6%nat. Hypothesis L5 : length f5 = 48%nat. Hypothesis L6 : length f6 = 20%nat.
Hypothesis Lname : (length name <= 32)%nat.  Hypothesis Vname : utf8_valid name = true.  Hypothesis Nname : last name 1 <> 0.
Hypothesis Hpos : position < 256.

Let segs := runner_segs f1 id f2 key f3 (pad0 32 name) (unhex_str thex) f4 ip mac f5 position (unhex_str dvalue) f6.
Let m := concat segs.
Hypothesis Hwf : wf_bytes m.

Theorem runner_roundtrip :
  parse_datagram false false m =
  Delivered (DShutter tname (hexlify id) (hexlify [key]) (dotted ip) (mac_of mac) name position dname).
Proof.
  destruct (type_row _ _ _ _ _ Hrow) as [Mhex [Lm Mrow]].
  destruct (row_facts _ _ _ _ _ directions_ok Hdir) as [Dhex [Ld _]].
  assert (Ln : length (pad0 32 name) = 32%nat) by (unfold pad0; rewrite app_length, repeat_length; lia).
  assert (Hlen : length m = 159%nat).
  { unfold m, segs, runner_segs. cbn [concat]. rewrite !app_length. cbn [length].
    rewrite Ln, Lm, Ld, L1, Lid, L2, L3, L4, Lip, Lmac, L5, L6. reflexivity. }
  assert (Horig : is_switcher_originator m = true).
  { apply originator_iff; [exact Hwf|]. split; [reflexivity|right; right; exact Hlen]. }
  assert (S1 : forall k lo hi, (k < 16)%nat -> lo = offset segs k -> hi = (lo + length (nth k segs []))%nat ->
               pyslice lo hi m = nth k segs []).
  { intros k lo hi Hk Hlo Hhi. apply slice_segment; assumption. }
  assert (SR : forall k j lo hi, (k + j <= 16)%nat -> lo = offset segs k -> hi = offset segs (k + j) ->
               pyslice lo hi m = concat (firstn j (skipn k segs))).
  { intros k j lo hi Hk Hlo Hhi. apply slice_range; assumption. }
  assert (H1 : forall k lo hi lo2 hi2, (k < 16)%nat -> lo2 = (2*lo)%nat -> hi2 = (2*hi)%nat ->
               lo = offset segs k -> hi = (lo + length (nth k segs []))%nat ->
               pyslice lo2 hi2 (hexlify m) = hexlify (nth k segs [])).
  { intros k lo hi lo2 hi2 Hk -> -> Hlo Hhi. rewrite hexlify_slice. f_equal. apply S1; assumption. }
  Ltac offr := cbn [offset Nat.add nth length];
    repeat match goal with H : length _ = _ |- _ => rewrite H end; lia.
  unfold parse_datagram. rewrite Horig. cbn [negb].
  rewrite (S1 7%nat 74%nat 76%nat) by (subst segs; unfold runner_segs; offr).
  subst segs. unfold runner_segs in *. cbn [nth]. rewrite Mhex, Mrow. cbv iota beta.
  assert (Hnb : String.eqb tname "BREEZE" = false).
  { assert (Hb : forallb (fun '(n, _, _, _, c) => negb (String.eqb n "BREEZE") || String.eqb c "THERMOSTAT")%bool device_types = true)
      by (vm_compute; reflexivity).
    rewrite forallb_forall in Hb. specialize (Hb _ Hrow). cbv beta iota in Hb.
    destruct (String.eqb tname "BREEZE"); [|reflexivity]. cbn [negb orb] in Hb. discriminate. }
  rewrite Hnb.
  (* the power field is decoded (and ignored) when byte 133 says on: it always parses *)
  assert (Hpow : exists p, (if eqs (pyslice 266 268 (hexlify m)) "01" then int16r (swap2 (pyslice 270 278 (hexlify m))) else Ok 0) = Ok p).
  { destruct (eqs (pyslice 266 268 (hexlify m)) "01"); [|eexists; reflexivity]. apply power_parses; [exact Hwf|lia]. }
  destruct Hpow as [p Hp]. rewrite Hp.
  change (String.eqb "SHUTTER" "WATER_HEATER") with false. change (String.eqb "SHUTTER" "POWER_PLUG") with false.
  change (String.eqb "SHUTTER" "SHUTTER") with true. cbv iota.
  (* name *)
  rewrite (S1 6%nat 42%nat 74%nat) by offr. cbn [nth]. unfold decode_str, pad0.
  rewrite utf8_valid_pad by exact Vname. cbn [bind]. rewrite rstrip0_pad by exact Nname.
  (* position: byte 135 in hex, byte 136 (zero) read as decimal *)
  rewrite (SR 12%nat 2%nat 135%nat 137%nat) by offr. cbn [skipn firstn concat app].
  change (pyslice 2 4 (hexlify [position; 0])) with (hexlify [0]).
  change (pyslice 0 2 (hexlify [position; 0])) with (hexlify [position]).
  change (int10 (hexlify [0])) with (Some 0).
  rewrite int16_hexlify by (try discriminate; repeat constructor; exact Hpos).
  replace (of_be [position]) with position by (unfold of_be; cbn [fold_left]; lia).
  (* direction *)
  rewrite (S1 14%nat 137%nat 139%nat) by offr. cbn [nth]. rewrite Dhex, (lookup3_member _ _ _ _ dirs_ok Hdir).
  (* id, key, ip, mac *)
  rewrite (H1 2%nat 18%nat 21%nat 36%nat 42%nat) by offr.
  rewrite (H1 4%nat 40%nat 41%nat 80%nat 82%nat) by offr.
  rewrite (S1 9%nat 77%nat 81%nat) by offr.
  rewrite (S1 10%nat 81%nat 87%nat) by offr.
  cbn [nth]. rewrite N.add_0_l. reflexivity.
Qed.
End Runner.
Print Assumptions runner_roundtrip.
