Require Import AS.Base.Prelude AS.Base.Hex AS.Base.Dec AS.Model.ScheduleTools AS.Model.ScheduleParser AS.Model.Clock
  AS.Model.Messages AS.Proofs.MessagesProofs AS.Proofs.ScheduleProofs.
Open Scope Z_scope.
Ltac Zify.zify_post_hook ::= Z.to_euclidean_division_equations.

Lemma offset_at_in z t : In (offset_at z t) (offsets z).
Proof.
  unfold offset_at, offsets.
  assert (H : forall (l : list (Z * Z)) (acc : Z),
            In (fold_left (fun (acc : Z) '(at_, off) => if at_ <=? t then off else acc) l acc) (acc :: map snd l)).
  { induction l as [|[a o] l IH]; intros acc; [left; reflexivity|]. cbn [fold_left map snd].
    destruct (a <=? t).
    - destruct (IH o) as [H|H]; [right; left; exact H|right; right; exact H].
    - destruct (IH acc) as [H|H]; [left; exact H|right; right; exact H]. }
  apply H.
Qed.

(* C11, the mktime model returns a pre-image whenever the local time exists *)
Theorem mktime_finds z L : (exists t, local_secs z t = L) -> local_secs z (mktime_model z L) = L.
Proof.
  intros [t0 H0]. unfold mktime_model.
  destruct (find (fun o => local_secs z (L - o) =? L) (offsets z)) as [o|] eqn:E.
  - apply find_some in E. destruct E as [_ E]. apply Z.eqb_eq in E. exact E.
  - exfalso. pose proof (find_none _ _ E (offset_at z t0) (offset_at_in z t0)) as Hn. cbn in Hn.
    apply Z.eqb_neq in Hn. apply Hn. unfold local_secs in H0. replace (L - offset_at z t0) with t0 by lia. exact H0.
Qed.

(* decoding the encoded value gives back hour and minute *)
Lemma hm_of_local z t d h m : (h < 24)%N -> (m < 60)%N ->
  local_secs z t = 86400 * d + Z.of_N (3600 * h + 60 * m) -> hm_of z t = (h, m).
Proof.
  intros Hh Hm H. unfold hm_of. rewrite H. f_equal; lia.
Qed.

Lemma decode_le32 z t : 0 <= t < 4294967296 ->
  hexadecimale_timestamp_to_localtime z (hexlify (le32 (Z.to_N t))) =
  Ok (let '(h, m) := hm_of z t in two_digits h ++ [58%N] ++ two_digits m).
Proof.
  intros Ht. unfold hexadecimale_timestamp_to_localtime.
  change (pyslice 6 8 (hexlify (le32 ?x)) ++ pyslice 4 6 (hexlify (le32 ?x)) ++ pyslice 2 4 (hexlify (le32 ?x)) ++ pyslice 0 2 (hexlify (le32 ?x)))
    with (hexlify (be32 x)).
  rewrite int16_hexlify by (try apply be32_bytes; discriminate).
  rewrite of_be_be32 by lia. rewrite Z2N.id by lia. reflexivity.
Qed.

(* C11 round trip over every zone table *)
Theorem clock_roundtrip_at z now hm : (hm < 1440)%N ->
  let h := (hm / 60)%N in let m := (hm mod 60)%N in
  let L := 86400 * today z now + Z.of_N (3600 * h + 60 * m) in
  (exists t, local_secs z t = L) ->                       (* the wall-clock time exists today *)
  0 <= mktime_model z L < 4294967296 ->
  let t := mktime_model z L in
  time_to_hexadecimal_timestamp_z false z now (hhmm hm) = Ok (hexlify (le32 (Z.to_N t))) /\
  local_secs z t = L /\
  hexadecimale_timestamp_to_localtime z (hexlify (le32 (Z.to_N t))) = Ok (hhmm hm).
Proof.
  intros Hhm h m L Hex Hrange t. unfold t.
  assert (Hloc : local_secs z (mktime_model z L) = L) by (apply mktime_finds, Hex).
  split; [|split; [exact Hloc|]].
  - unfold time_to_hexadecimal_timestamp_z.
    assert (Hs : split_colon (hhmm hm) = [two_digits h; two_digits m]).
    { unfold h, m. revert Hhm. generalize hm. clear. intros hm Hhm.
      assert (Hall : sweep (fun x => if (x <? 1440)%N then
                 if list_eq_dec bytes_eq_dec (split_colon (hhmm x)) [two_digits (x / 60); two_digits (x mod 60)] then true else false
               else true) 11 0 = true) by (vm_compute; reflexivity).
      pose proof (sweep_all _ 11 hm Hall ltac:(cbn; lia)) as H. cbv beta in H.
      replace (hm <? 1440)%N with true in H by (symmetry; apply N.ltb_lt; exact Hhm).
      destruct (list_eq_dec _ _ _); [assumption|discriminate]. }
    rewrite Hs.
    assert (Hl : lstrip (two_digits h) ++ [58%N] ++ two_digits m = hhmm hm).
    { unfold h, m. revert Hhm. generalize hm. clear. intros hm Hhm.
      assert (Hall : sweep (fun x => if (x <? 1440)%N then
                 if bytes_eq_dec (lstrip (two_digits (x / 60)) ++ [58%N] ++ two_digits (x mod 60)) (hhmm x) then true else false
               else true) 11 0 = true) by (vm_compute; reflexivity).
      pose proof (sweep_all _ 11 hm Hall ltac:(cbn; lia)) as H. cbv beta in H.
      replace (hm <? 1440)%N with true in H by (symmetry; apply N.ltb_lt; exact Hhm).
      destruct (bytes_eq_dec _ _); [assumption|discriminate]. }
    rewrite Hl, (strptime_hhmm hm Hhm). cbn [bind fst snd]. fold h m. fold L.
    replace ((0 <=? mktime_model z L) && (mktime_model z L <? 4294967296)) with true; [reflexivity|].
    symmetry. apply andb_true_intro. split; [apply Z.leb_le|apply Z.ltb_lt]; lia.
  - rewrite decode_le32 by exact Hrange.
    rewrite (hm_of_local z _ (today z now) h m); [reflexivity| | |exact Hloc].
    + unfold h. apply N.div_lt_upper_bound; lia.
    + unfold m. apply N.mod_lt. discriminate.
Qed.

Theorem clock_roundtrip z now hm : (hm < 1440)%N ->
  let h := (hm / 60)%N in let m := (hm mod 60)%N in
  let L := 86400 * today z now + Z.of_N (3600 * h + 60 * m) in
  (exists t, local_secs z t = L) ->                       (* the wall-clock time exists today *)
  0 <= mktime_model z L < 4294967296 ->
  exists t, time_to_hexadecimal_timestamp_z false z now (hhmm hm) = Ok (hexlify (le32 (Z.to_N t))) /\
            local_secs z t = L /\
            hexadecimale_timestamp_to_localtime z (hexlify (le32 (Z.to_N t))) = Ok (hhmm hm).
Proof. intros Hhm h m L Hex Hrange. exists (mktime_model z L). exact (clock_roundtrip_at z now hm Hhm Hex Hrange). Qed.
Print Assumptions clock_roundtrip.
