(* C10 at list level: a reply holding whole records parses to one schedule per distinct slot id, the first record of an id winning *)
Require Import AS.Base.Prelude AS.Base.Hex AS.Base.Dec AS.Gen.Extracted AS.Model.ScheduleTools AS.Model.NextRun AS.Model.ScheduleParser
  AS.Spec.Encoders AS.Proofs.HexSlices AS.Proofs.ScheduleParserProofs.
Open Scope N_scope.

Lemma fold_left_map' {A B C} (f : A -> B -> A) (g : C -> B) l : forall a, fold_left f (map g l) a = fold_left (fun a x => f a (g x)) l a.
Proof. induction l as [|x l IH]; intros a; [reflexivity|]. cbn [map fold_left]. apply IH. Qed.
Lemma fold_left_ext' {A B} (f g : A -> B -> A) l : (forall a x, f a x = g a x) -> forall a, fold_left f l a = fold_left g l a.
Proof. intros H. induction l as [|x l IH]; intros a; [reflexivity|]. cbn [fold_left]. rewrite H. apply IH. Qed.
Lemma NoDup_snoc {A} (l : list A) x : NoDup l -> ~ In x l -> NoDup (l ++ [x]).
Proof.
  induction l as [|y l IH]; intros Hn Hx; [constructor; [intros []|constructor]|].
  inversion Hn as [|? ? Hy Hn']; subst. cbn [app]. constructor.
  - intros Hin. apply in_app_or in Hin. destruct Hin as [Hin|[->|[]]]; [contradiction|apply Hx; left; reflexivity].
  - apply IH; [exact Hn'|intros Hin; apply Hx; right; exact Hin].
Qed.

(* the list parser on the text of whole records *)
Definition add_first (l : list schedule) (s : schedule) : list schedule :=
  if existsb (fun s' => if bytes_eq_dec (sc_id s') (sc_id s) then true else false) l then l else l ++ [s].
Definition parse_all (lu ln : bool) (z : zone) (now : Z) (recs : list bytes) : result (list schedule) :=
  fold_left (fun acc r => do l <- acc ;; do s <- parse_schedule lu ln z now (hexlify r) ;; Ok (add_first l s)) recs (Ok []).

Theorem get_schedules_of_records lu ln z now hdr recs tail :
  length hdr = 45%nat -> length tail = 4%nat -> (forall r, In r recs -> length r = 16%nat) ->
  get_schedules lu ln z now (encode_schedules_reply hdr recs tail) = parse_all lu ln z now recs.
Proof.
  intros Hh Ht Hr. unfold get_schedules, encode_schedules_reply. cbv zeta.
  rewrite (schedule_region hdr (concat recs) tail Hh Ht).
  rewrite chunks_records; [| exact Hr |].
  2:{ rewrite hexlify_length. assert (Hl : length (concat recs) = (16 * length recs)%nat).
      { clear - Hr. induction recs as [|r recs IH]; [reflexivity|]. cbn [concat length]. rewrite app_length, IH, (Hr r (or_introl eq_refl)); [lia|].
        intros r' Hr'. apply Hr. right. exact Hr'. }
      rewrite Hl. unfold bytes in *. lia. }
  unfold parse_all. rewrite fold_left_map'. apply fold_left_ext'. intros acc r. unfold add_first.
  destruct acc as [l|e]; cbn [bind]; [|reflexivity]. destruct (parse_schedule lu ln z now (hexlify r)) as [a|e]; cbn [bind]; [|reflexivity].
  destruct (existsb _ l); reflexivity.
Qed.

(* when every record parses, the result is the first-per-id selection of the parsed records, in arrival order *)
Fixpoint first_per_id (seen : list schedule) (l : list schedule) : list schedule :=
  match l with
  | [] => seen
  | s :: r => first_per_id (add_first seen s) r
  end.

Lemma parse_all_ok lu ln z now recs parsed :
  Forall2 (fun r s => parse_schedule lu ln z now (hexlify r) = Ok s) recs parsed ->
  parse_all lu ln z now recs = Ok (first_per_id [] parsed).
Proof.
  unfold parse_all. generalize (@nil schedule) as seen. intros seen H. revert seen.
  induction H as [|r s recs parsed Hrs _ IH]; intros seen; [reflexivity|].
  cbn [fold_left first_per_id bind]. rewrite Hrs. cbn [bind]. apply IH.
Qed.

(* no two schedules of the result share an id, and every parsed record's id is represented by its first record *)
Definition same_id (a b : schedule) : bool := if bytes_eq_dec (sc_id a) (sc_id b) then true else false.
Lemma add_first_ids seen s : NoDup (map sc_id seen) -> NoDup (map sc_id (add_first seen s)).
Proof.
  intros Hn. unfold add_first. destruct (existsb _ seen) eqn:E; [exact Hn|].
  rewrite map_app. cbn [map]. apply NoDup_snoc; [exact Hn|].
  intros Hin. apply in_map_iff in Hin. destruct Hin as [x [Hx Hin]].
  assert (Ht : existsb (fun s' => if bytes_eq_dec (sc_id s') (sc_id s) then true else false) seen = true).
  { apply existsb_exists. exists x. split; [exact Hin|]. destruct (bytes_eq_dec (sc_id x) (sc_id s)); [reflexivity|contradiction]. }
  congruence.
Qed.

Theorem parsed_ids_are_distinct lu ln z now recs l : parse_all lu ln z now recs = Ok l -> NoDup (map sc_id l).
Proof.
  unfold parse_all.
  assert (H : forall recs acc l, (forall l0, acc = Ok l0 -> NoDup (map sc_id l0)) ->
            fold_left (fun acc r => do l <- acc ;; do s <- parse_schedule lu ln z now (hexlify r) ;; Ok (add_first l s)) recs acc = Ok l ->
            NoDup (map sc_id l)).
  { induction recs0 as [|r recs0 IH]; intros acc l0 Hacc Hf; [apply Hacc; exact Hf|]. cbn [fold_left] in Hf.
    apply (IH _ l0) in Hf; [exact Hf|]. intros l1 H1. destruct acc as [la|e]; cbn [bind] in H1; [|discriminate].
    destruct (parse_schedule lu ln z now (hexlify r)) as [s|e]; cbn [bind] in H1; [|discriminate].
    inversion H1; subst. apply add_first_ids. apply Hacc. reflexivity. }
  intros Hf. apply (H recs (Ok []) l); [intros l0 E; inversion E; constructor|exact Hf].
Qed.
Print Assumptions get_schedules_of_records.
Print Assumptions parsed_ids_are_distinct.

(* ---- every whole record parses: duration and display never fail on decoded clock texts ---- *)
Require Import AS.Proofs.ScheduleProofs AS.Proofs.NextRunText AS.Proofs.WeekdayProofs AS.Spec.NextRun.
Ltac Zify.zify_post_hook ::= Z.to_euclidean_division_equations.
Open Scope N_scope.

Lemma fmt_hm_is_hhmm z t : exists k, k < 1440 /\ fmt_hm z t = hhmm k.
Proof.
  unfold fmt_hm, hm_of. set (s := (local_secs z (Z.of_N t) mod 86400)%Z).
  assert (Hs : (0 <= s < 86400)%Z) by (unfold s; apply Z.mod_pos_bound; lia).
  exists (60 * Z.to_N (s / 3600) + Z.to_N (s mod 3600 / 60)). split; [lia|].
  unfold hhmm. f_equal; [f_equal; lia|]. f_equal. f_equal. lia.
Qed.

Lemma bit_summary_days_ok mask ds : bit_summary_to_days mask = Ok ds -> NoDup ds /\ (forall d, In d ds -> (d < n_days)%nat).
Proof.
  unfold bit_summary_to_days. destruct ((1 <? mask) && (mask <? 255)); [|discriminate]. intros H.
  assert (E : ds = filter (fun d => negb (N.land (day_hex_rep d) mask =? 0)) all_days) by congruence. rewrite E. clear H E. split.
  - apply NoDup_filter. unfold all_days. apply seq_NoDup.
  - intros d Hd. apply filter_In in Hd. destruct Hd as [Hd _]. unfold all_days in Hd. apply in_seq in Hd. lia.
Qed.

Lemma text_of_ok r start : (forall e, r <> NREx e) -> exists t, text_of r start = Ok t.
Proof. destruct r; intros H; try (eexists; reflexivity). exfalso. exact (H e eq_refl). Qed.
Lemma spec_not_exn w f l e : next_run_spec w f l <> NREx e.
Proof. unfold next_run_spec. destruct l; [discriminate|]. destruct (min_list _) as [|[|k]]; discriminate. Qed.

Theorem record_parses z now id en mask st s e t0 t1 t2 t3 ds :
  id < 256 -> mask < 256 -> s < 4294967296 -> e < 4294967296 ->
  (mask = 0 /\ ds = [] \/ mask <> 0 /\ bit_summary_to_days mask = Ok ds) ->
  exists dur disp, parse_schedule false false z now (hexlify (record id en mask st s e t0 t1 t2 t3)) =
    Ok {| sc_id := str_N id; sc_recurring := negb (mask =? 0); sc_days := ds; sc_start := fmt_hm z s; sc_end := fmt_hm z e;
          sc_duration := dur; sc_display := disp |}.
Proof.
  intros Hid Hmask Hs He Hds.
  destruct (parse_record false false z now id en mask st s e t0 t1 t2 t3 ds Hid Hmask Hs He Hds) as [dur [disp [Hp _]]].
  destruct (fmt_hm_is_hhmm z s) as [ks [Hks Es]]. destruct (fmt_hm_is_hhmm z e) as [ke [Hke Ee]].
  rewrite Hp, Es, Ee, (calc_duration_spec ks ke Hks Hke).
  assert (Hd : NoDup ds /\ (forall d, In d ds -> (d < n_days)%nat)).
  { destruct Hds as [[_ ->]|[_ Hb]]; [split; [constructor|intros d []]|exact (bit_summary_days_ok _ _ Hb)]. }
  rewrite (next_run_text z now ks ds Hks (proj1 Hd) (proj2 Hd)).
  destruct (text_of_ok (next_run_spec (weekday_of z now) (60 * fst (hm_of z now) + snd (hm_of z now) <? ks) ds) (hhmm ks)) as [t Ht];
    [intros x; apply spec_not_exn|].
  rewrite Ht. eexists _, _. reflexivity.
Qed.
Print Assumptions record_parses.
