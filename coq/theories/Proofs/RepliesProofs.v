(* C08: parse o encode = identity for the shutter, thermostat and login replies *)
Require Import AS.Base.Prelude AS.Base.Hex AS.Base.Dec AS.Base.Utf8 AS.Base.Layout AS.Gen.Extracted AS.Model.Messages AS.Spec.Frame AS.Spec.Encoders
  AS.Proofs.HexSlices AS.Proofs.MessagesProofs AS.Proofs.FrameProofs AS.Proofs.FrameAll.
Open Scope N_scope.
Ltac Zify.zify_post_hook ::= Z.to_euclidean_division_equations.

(* rows of an enum table: the value decodes to its member, and is the hex spelling of its bytes *)
Definition row_okb (t : list (string * string * string)) (w : nat) : bool :=
  forallb (fun '(n, v, _) =>
    bytes_eqb (hexlify (unhex_str v)) (s2l v) && (length (unhex_str v) =? w)%nat &&
    match lookup_value (s2l v) t with Some n' => String.eqb n n' | None => false end) t.
Lemma row_facts t w n v d : row_okb t w = true -> In (n, v, d) t ->
  hexlify (unhex_str v) = s2l v /\ length (unhex_str v) = w /\ lookup_value (s2l v) t = Some n.
Proof.
  unfold row_okb. rewrite forallb_forall. intros H Hin. specialize (H _ Hin). cbn in H.
  apply andb_prop in H. destruct H as [H H3]. apply andb_prop in H. destruct H as [H1 H2].
  split; [apply bytes_eqb_eq; exact H1|]. split; [apply Nat.eqb_eq; exact H2|].
  destruct (lookup_value (s2l v) t) as [n'|]; [|discriminate]. apply String.eqb_eq in H3. congruence.
Qed.
Lemma directions_ok : row_okb shutter_directions 2 = true. Proof. vm_compute. reflexivity. Qed.
Lemma modes_rows_ok : row_okb thermostat_modes 1 = true. Proof. vm_compute. reflexivity. Qed.

Theorem shutter_reply_roundtrip f0 f1 f2 pos dname dvalue ddisp :
  length f0 = 76%nat -> length f1 = 1%nat -> pos < 256 -> In (dname, dvalue, ddisp) shutter_directions ->
  parse_shutter_reply (encode_shutter_reply f0 f1 f2 pos (unhex_str dvalue)) =
  Ok {| sh_position := pos; sh_direction := dname |}.
Proof.
  intros L0 L1 Hp Hin. destruct (row_facts _ _ _ _ _ directions_ok Hin) as [Hhex [Hlen Hlook]].
  unfold parse_shutter_reply, encode_shutter_reply. cbv zeta.
  set (segs := shutter_reply_segs f0 f1 f2 pos (unhex_str dvalue)).
  assert (S : forall k lo hi lo2 hi2, (k < 5)%nat -> lo2 = (2*lo)%nat -> hi2 = (2*hi)%nat ->
              lo = offset segs k -> hi = (lo + length (nth k segs []))%nat ->
              pyslice lo2 hi2 (hexlify (concat segs)) = hexlify (nth k segs [])).
  { intros k lo hi lo2 hi2 Hk -> -> Hlo Hhi. rewrite hexlify_slice. f_equal. apply slice_segment; assumption. }
  rewrite (S 3%nat 78%nat 80%nat 156%nat 160%nat) by (cbn [offset segs shutter_reply_segs nth length]; rewrite ?L0, ?L1, ?Hlen; lia).
  cbn [nth segs shutter_reply_segs]. rewrite Hhex, Hlook. cbn [bind].
  rewrite (S 1%nat 76%nat 77%nat 152%nat 154%nat) by (cbn [offset segs shutter_reply_segs nth length]; rewrite ?L0; lia).
  cbn [nth segs shutter_reply_segs]. unfold int16r.
  rewrite int16_hexlify by (try discriminate; repeat constructor; exact Hp).
  replace (of_be [pos]) with pos by (unfold of_be; cbn [fold_left]; lia). reflexivity.
Qed.
Print Assumptions shutter_reply_roundtrip.

Lemma lookup_value_fan n v d : In (n, v, d) fan_levels -> lookup_value (s2l v) fan_levels = Some n.
Proof.
  intros Hin. assert (H : forallb (fun '(n, v, _) => match lookup_value (s2l v) fan_levels with Some n' => String.eqb n n' | None => false end) fan_levels = true)
    by (vm_compute; reflexivity).
  rewrite forallb_forall in H. specialize (H _ Hin). cbv beta iota in H.
  destruct (lookup_value (s2l v) fan_levels) as [n'|]; [|discriminate]. apply String.eqb_eq in H. congruence.
Qed.

Theorem thermostat_reply_roundtrip f0 f1 f2 temp10 (on : bool) mname mvalue mdisp target fname fvalue fdisp fan (swing : bool) remote :
  length f0 = 76%nat -> length f1 = 2%nat -> temp10 < 65536 -> target < 256 -> fan < 16 ->
  In (mname, mvalue, mdisp) thermostat_modes -> In (fname, fvalue, fdisp) fan_levels -> [hexdigit fan] = s2l fvalue ->
  (length remote <= 8)%nat -> utf8_valid remote = true -> last remote 1 <> 0 ->
  parse_thermostat_reply
    (encode_thermostat_reply f0 f1 f2 temp10 (if on then 1 else 0) (match unhex_str mvalue with [m] => m | _ => 0 end) target
       (16 * fan + (if swing then 1 else 0)) (pad0 8 remote)) =
  Ok {| tf_on := on; tf_mode := mname; tf_fan := fname; tf_temp10 := temp10; tf_target := target;
        tf_swing_on := swing; tf_remote := remote |}.
Proof.
  intros L0 L1 Ht Htg Hfan Hm Hf Hfv Lr Vr Nr.
  destruct (row_facts _ _ _ _ _ modes_rows_ok Hm) as [Mhex [Mlen Mlook]].
  destruct (unhex_str mvalue) as [|mb [|? ?]] eqn:Em; try discriminate. clear Mlen.
  unfold parse_thermostat_reply, encode_thermostat_reply. cbv zeta.
  (* a finer segmentation of the same bytes: the two temperature bytes apart *)
  set (segs := [f0; [temp10 mod 256]; [temp10 / 256 mod 256]; [if on then 1 else 0]; [mb]; [target];
                [16 * fan + (if swing then 1 else 0)]; f1; pad0 8 remote; f2]).
  assert (Hsame : concat (thermostat_reply_segs f0 f1 f2 temp10 (if on then 1 else 0) mb target (16 * fan + (if swing then 1 else 0)) (pad0 8 remote))
                  = concat segs) by reflexivity.
  rewrite Hsame. clear Hsame.
  assert (Lrem : length (pad0 8 remote) = 8%nat) by (unfold pad0; rewrite app_length, repeat_length; lia).
  assert (S : forall k lo hi lo2 hi2, (k < 10)%nat -> lo2 = (2*lo)%nat -> hi2 = (2*hi)%nat ->
              lo = offset segs k -> hi = (lo + length (nth k segs []))%nat ->
              pyslice lo2 hi2 (hexlify (concat segs)) = hexlify (nth k segs [])).
  { intros k lo hi lo2 hi2 Hk -> -> Hlo Hhi. rewrite hexlify_slice. f_equal. apply slice_segment; assumption. }
  assert (SB : forall k lo hi, (k < 10)%nat -> lo = offset segs k -> hi = (lo + length (nth k segs []))%nat ->
              pyslice lo hi (concat segs) = nth k segs []).
  { intros k lo hi Hk Hlo Hhi. apply slice_segment; assumption. }
  assert (Hnib : hexlify [16 * fan + (if swing then 1 else 0)] = [hexdigit fan; hexdigit (if swing then 1 else 0)]).
  { set (sw := if swing then 1 else 0). assert (Hsw : sw < 2) by (unfold sw; destruct swing; lia).
    cbn [hexlify flat_map hexbyte app].
    replace ((16 * fan + sw) / 16) with fan by lia. replace ((16 * fan + sw) mod 16) with sw by lia. reflexivity. }
  Ltac off := cbn [offset nth length]; lia.
  rewrite (S 3%nat 78%nat 79%nat 156%nat 158%nat) by (subst segs; cbn [offset nth length]; rewrite ?L0; lia).
  rewrite (S 4%nat 79%nat 80%nat 158%nat 160%nat) by (subst segs; cbn [offset nth length]; rewrite ?L0; lia).
  rewrite (S 2%nat 77%nat 78%nat 154%nat 156%nat) by (subst segs; cbn [offset nth length]; rewrite ?L0; lia).
  rewrite (S 1%nat 76%nat 77%nat 152%nat 154%nat) by (subst segs; cbn [offset nth length]; rewrite ?L0; lia).
  rewrite (S 5%nat 80%nat 81%nat 160%nat 162%nat) by (subst segs; cbn [offset nth length]; rewrite ?L0; lia).
  assert (S81 : pyslice 162 164 (hexlify (concat segs)) = [hexdigit fan; hexdigit (if swing then 1 else 0)]).
  { rewrite (S 6%nat 81%nat 82%nat 162%nat 164%nat) by (subst segs; cbn [offset nth length]; rewrite ?L0; lia).
    subst segs. cbn [nth]. exact Hnib. }
  assert (S162 : pyslice 162 163 (hexlify (concat segs)) = [hexdigit fan]).
  { change (pyslice 162 163 ?x) with (firstn 1 (skipn 162 x)). change (pyslice 162 164 ?x) with (firstn 2 (skipn 162 x)) in S81.
    destruct (skipn 162 (hexlify (concat segs))) as [|a [|b r]]; cbn in S81 |- *; congruence. }
  assert (S163 : pyslice 163 164 (hexlify (concat segs)) = [hexdigit (if swing then 1 else 0)]).
  { change (pyslice 163 164 ?x) with (firstn 1 (skipn 163 x)). change (pyslice 162 164 ?x) with (firstn 2 (skipn 162 x)) in S81.
    replace (skipn 163 (hexlify (concat segs))) with (skipn 1 (skipn 162 (hexlify (concat segs))))
      by (rewrite skipn_skipn'; reflexivity).
    destruct (skipn 162 (hexlify (concat segs))) as [|a [|b r]]; cbn in S81 |- *; congruence. }
  rewrite S162, S163. rewrite (SB 8%nat 84%nat 92%nat) by (subst segs; cbn [offset nth length]; rewrite ?L0, ?L1, ?Lrem; lia).
  subst segs. cbn [nth]. rewrite Mhex, Mlook, Hfv, (lookup_value_fan _ _ _ Hf).
  change (hexlify [temp10 / 256 mod 256] ++ hexlify [temp10 mod 256]) with (hexlify [temp10 / 256 mod 256; temp10 mod 256]).
  unfold int16r.
  rewrite int16_hexlify by (try discriminate; repeat constructor; apply N.mod_lt; discriminate).
  rewrite of_be_16 by exact Ht. cbn [of_option bind].
  rewrite int16_hexlify by (try discriminate; repeat constructor; exact Htg).
  replace (of_be [target]) with target by (unfold of_be; cbn [fold_left]; lia). cbn [of_option bind].
  unfold pad0. rewrite utf8_valid_pad by exact Vr. cbn [bind]. rewrite rstrip0_pad by exact Nr.
  destruct on, swing; reflexivity.
Qed.
Print Assumptions thermostat_reply_roundtrip.

Theorem login_reply_session f0 session f1 : length f0 = 8%nat -> length session = 4%nat ->
  login_session (encode_login_reply f0 session f1) = hexlify session.
Proof.
  intros L0 L1. unfold login_session, encode_login_reply.
  change (pyslice 16 24 (hexlify (f0 ++ session ++ f1))) with (pyslice (2*8) (2*12) (hexlify (f0 ++ session ++ f1))).
  rewrite hexlify_slice. f_equal. unfold pyslice. rewrite skipn_app, L0, Nat.sub_diag, skipn_all2 by lia. cbn [skipn app].
  rewrite firstn_app, L1. replace (12 - 8 - 4)%nat with 0%nat by lia. cbn [firstn]. rewrite app_nil_r. apply firstn_all2. lia.
Qed.
Print Assumptions login_reply_session.
