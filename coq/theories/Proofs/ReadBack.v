(* C10, create / read back: what the encoders of a created schedule put into the record (C11's instants, C12's day mask) is
   what the list parser reads out of a record holding them *)
Require Import AS.Base.Prelude AS.Base.Hex AS.Base.Dec AS.Gen.Extracted AS.Model.ScheduleTools AS.Model.NextRun AS.Model.ScheduleParser
  AS.Model.Clock AS.Spec.Encoders AS.Proofs.ScheduleParserProofs AS.Proofs.ScheduleListProofs AS.Proofs.ClockProofs AS.Proofs.WeekdayProofs.

Local Open Scope Z_scope.
Definition instant (z : zone) (now : Z) (hm : N) : Z :=
  mktime_model z (86400 * today z now + Z.of_N (3600 * (hm / 60) + 60 * (hm mod 60))).
Definition exists_today (z : zone) (now : Z) (hm : N) : Prop :=
  (exists t, local_secs z t = 86400 * today z now + Z.of_N (3600 * (hm / 60) + 60 * (hm mod 60))) /\
  0 <= instant z now hm < 4294967296.

Theorem created_schedule_reads_back z now later hs he l id en st t0 t1 t2 t3 :
  (hs < 1440)%N -> (he < 1440)%N -> exists_today z now hs -> exists_today z now he ->
  l <> [] -> NoDup l -> (forall d, In d l -> (d < n_days)%nat) -> (id < 256)%N ->
  let ts := Z.to_N (instant z now hs) in let te := Z.to_N (instant z now he) in
  (* what create_schedule encodes *)
  time_to_hexadecimal_timestamp_z false z now (hhmm hs) = Ok (hexlify (le32 ts)) /\
  time_to_hexadecimal_timestamp_z false z now (hhmm he) = Ok (hexlify (le32 te)) /\
  weekdays_to_hexadecimal (ASet l) = Ok (hexbyte (sum_bits l)) /\ weekdays_to_hexadecimal (ASeq l) = Ok (hexbyte (sum_bits l)) /\
  (* what listing a record that holds these three values gives, at any later moment *)
  exists dur disp,
    parse_schedule false false z later (hexlify (record id en (sum_bits l) st ts te t0 t1 t2 t3)) =
    Ok {| sc_id := str_N id; sc_recurring := true; sc_days := filter (memb l) all_days;
          sc_start := hhmm hs; sc_end := hhmm he; sc_duration := dur; sc_display := disp |}.
Proof.
  intros Hhs Hhe [Exs Rs] [Exe Re] Hne Hnd Hin Hid ts te.
  destruct (clock_roundtrip_at z now hs Hhs Exs Rs) as [Es [_ Ds]].
  destruct (clock_roundtrip_at z now he Hhe Exe Re) as [Ee [_ De]].
  fold (instant z now hs) in Es, Ds. fold (instant z now he) in Ee, De. fold ts in Es, Ds. fold te in Ee, De.
  destruct (core_facts l Hne Hnd Hin) as (_ & Hm256 & _ & Hrange & _ & Hdec).
  assert (Hts : (ts < 4294967296)%N) by (unfold ts; lia).
  assert (Hte : (te < 4294967296)%N) by (unfold te; lia).
  split; [exact Es|]. split; [exact Ee|]. split; [apply weekdays_encode_set; assumption|]. split; [apply weekdays_encode_seq; assumption|].
  destruct (record_parses z later id en (sum_bits l) st ts te t0 t1 t2 t3 (filter (memb l) all_days) Hid Hm256 Hts Hte) as [dur [disp Hp]].
  { right. split; [lia|exact Hdec]. }
  exists dur, disp. rewrite Hp.
  rewrite (decode_le32_N z ts Hts) in Ds. rewrite (decode_le32_N z te Hte) in De.
  injection Ds as Ds. injection De as De. rewrite Ds, De.
  replace (negb (sum_bits l =? 0)%N) with true; [reflexivity|].
  symmetry. apply negb_true_iff, N.eqb_neq. lia.
Qed.
