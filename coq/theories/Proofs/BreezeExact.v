(* C16: the exact frames of thermostat control = login, state query, then the Spec's main frame for the merged values
   (requested value, else the value the device just reported), plus the separate swing frame where it applies *)
Require Import AS.Base.Prelude AS.Base.Hex AS.Base.Dec AS.Base.Template AS.Base.Exchange AS.Base.Utf8 AS.Gen.Extracted
  AS.Spec.Sign AS.Spec.Frame AS.Spec.FrameLayout AS.Spec.Encoders AS.Spec.FrameSpec
  AS.Model.DeviceTools AS.Model.Messages AS.Model.Remotes AS.Model.ScheduleTools AS.Model.Api AS.Model.Ops
  AS.Proofs.SignProofs AS.Proofs.HexSlices AS.Proofs.FrameProofs AS.Proofs.LengthProofs AS.Proofs.FrameAll AS.Proofs.LayoutMatch
  AS.Proofs.SpecFrames AS.Proofs.Hoare AS.Proofs.OpsFrames AS.Proofs.SpecOps AS.Spec.IrChoice AS.Spec.Remote AS.Proofs.RemoteSpec.
Open Scope N_scope.

(* a type-2 call site whose rendered text is hex, even, carries the 80-character header and fits 16 bits: exactly one frame,
   the Spec's *)
Lemma send_exact_gen T L args p st : matches T L = true -> format T args = Ok p ->
  hexs p -> Nat.even (length p) = true -> (80 <= length p)%nat ->
  pyslice 0 4 p = s2l "fef0" -> pyslice 76 80 p = s2l "f0fe" -> N.of_nat (length p / 2 + 4) < 65536 ->
  exists bs, sends (send_template_gen false T args true) st bs /\ frame_of L args = Frame bs.
Proof.
  intros Hm Hf Hh He Hl H0 H76 Hn.
  destruct (unhexlify_total p Hh He) as [b Hb]. pose proof (unhexlify_length p b Hb) as Hlb.
  assert (Hn' : N.of_nat (length b + 4) < 65536) by (rewrite Hlb, Nat.mul_comm, Nat.div_mul in Hn by lia; exact Hn).
  destruct (sealed_frame_ok p b Hb Hl H0 H76 Hn') as [p' [b' [Hs [Hb' [_ [Hsign [Hu Hk]]]]]]].
  exists (b' ++ sig b'). split.
  - unfold send_template_gen, bindM, lift. rewrite Hf, Hs, Hsign. apply send_exact, Hu.
  - apply (written_is_spec T L args true p p' _ (b' ++ sig b') Hm Hf Hs Hsign Hu Hk). intros _. exact H0.
Qed.

(* rendered length with integer holes *)
Fixpoint rendered_length (t : template) (lens : list nat) : nat :=
  match t with
  | [] => 0
  | Lit s :: r => length s + rendered_length r lens
  | Hole i :: r | HoleHex2 i :: r => nth i lens 0%nat + rendered_length r lens
  end.
Definition arg_len (a : farg) : nat := match a with AStr s => length s | AInt n => length (fmt_02x n) end.
Lemma format_length_gen t : forall args p, format t args = Ok p -> length p = rendered_length t (map arg_len args).
Proof.
  induction t as [|q t IH]; intros args p H.
  - cbn in H. inversion H. reflexivity.
  - cbn [format] in H. destruct (render_piece args q) as [a|] eqn:Ea; cbn [bind] in H; [|discriminate].
    destruct (format t args) as [b|] eqn:Eb; cbn [bind] in H; [|discriminate]. inversion H; subst.
    rewrite app_length, (IH args b Eb).
    destruct q as [s|i|i]; cbn [render_piece rendered_length] in *.
    + inversion Ea; subst. reflexivity.
    + destruct (nth_error args i) as [[s|n]|] eqn:En; try discriminate. inversion Ea; subst. f_equal.
      erewrite (nth_error_nth _ _ _ (map_nth_error arg_len _ _ En)). reflexivity.
    + destruct (nth_error args i) as [[s|n]|] eqn:En; try discriminate. inversion Ea; subst. f_equal.
      erewrite (nth_error_nth _ _ _ (map_nth_error arg_len _ _ En)). reflexivity.
Qed.

(* enum tables: value_of finds the row's value *)
Definition values_okb (t : list (string * string * string)) : bool :=
  forallb (fun '(n, v, _) => bytes_eqb (value_of n t) (s2l v)) t.
Lemma value_of_row t n v d : values_okb t = true -> In (n, v, d) t -> value_of n t = s2l v.
Proof.
  unfold values_okb. rewrite forallb_forall. intros H Hin. specialize (H _ Hin). cbv beta iota in H. apply bytes_eqb_eq, H.
Qed.
Lemma modes_values : values_okb thermostat_modes = true. Proof. vm_compute. reflexivity. Qed.
Lemma fans_values : values_okb fan_levels = true. Proof. vm_compute. reflexivity. Qed.
Lemma M_status : matches T_BREEZE_UPDATE_STATUS_PACKET L_breeze_status = true. Proof. vm_compute. reflexivity. Qed.
Lemma M_command : matches T_BREEZE_COMMAND_PACKET L_breeze_command = true. Proof. vm_compute. reflexivity. Qed.

Section Sites.
Variables (idb sessb : bytes) (now : N).
Hypothesis Lid : length idb = 3%nat.   Hypothesis Hid : Forall (fun b => b < 256) idb.
Hypothesis Ls : length sessb = 4%nat.  Hypothesis Hs : Forall (fun b => b < 256) sessb.
Let sess := hexlify sessb.  Let ts := hexlify (le32 now).  Let idt := hexlify idb.
Let h := hdr_args sessb now idb.

Lemma hdr_facts : hexs sess /\ length sess = 8%nat /\ hexs ts /\ length ts = 8%nat /\ hexs idt /\ length idt = 6%nat.
Proof.
  unfold sess, ts, idt. rewrite !hexlify_length, Lid, Ls. repeat split; try reflexivity; try (apply hexlify_hexs; assumption).
  apply hexlify_hexs, le32_bytes.
Qed.

(* the status frame *)
Lemma status_site (st : bool) mbyte tg fnib (sw : bool) (mv fv : string) (state : io) :
  mbyte < 256 -> tg < 256 -> fnib < 16 -> hexlify [mbyte] = s2l mv -> [hexdigit fnib] = s2l fv ->
  exists bs, sends (send_template_gen false T_BREEZE_UPDATE_STATUS_PACKET
                      [AStr sess; AStr ts; AStr idt; AStr (s2l (if st then "01" else "00")); AStr (s2l mv); AInt tg; AStr (s2l fv);
                       AStr (s2l (if sw then "1" else "0"))] true) state bs /\
             spec_breeze_status h st mbyte tg fnib sw = Frame bs.
Proof.
  intros Hm Ht Hf Emv Efv. destruct hdr_facts as [S1 [S2 [T1 [T2 [I1 I2]]]]].
  set (args := [AStr sess; AStr ts; AStr idt; AStr (s2l (if st then "01" else "00")); AStr (s2l mv); AInt tg; AStr (s2l fv);
                AStr (s2l (if sw then "1" else "0"))]).
  assert (Hspec : spec_breeze_status h st mbyte tg fnib sw = frame_of L_breeze_status args).
  { unfold spec_breeze_status, h, hdr_args, arg_of_bytes, nibble, args, sess, ts, idt. rewrite Emv, Efv. cbn [app].
    replace (hexlify [if st then 1 else 0]) with (s2l (if st then "01" else "00")) by (destruct st; reflexivity).
    replace [if sw then 49 else 48] with (s2l (if sw then "1" else "0")) by (destruct sw; reflexivity). reflexivity. }
  rewrite Hspec.
  destruct (format T_BREEZE_UPDATE_STATUS_PACKET args) as [p|] eqn:Ef; [|vm_compute in Ef; discriminate].
  assert (Hrest : strs_hex [AStr idt; AStr (s2l (if st then "01" else "00")); AStr (s2l mv); AInt tg; AStr (s2l fv); AStr (s2l (if sw then "1" else "0"))]).
  { apply sh_str; [exact I1|]. apply sh_str; [destruct st; apply lit_hexs; reflexivity|].
    apply sh_str; [rewrite <- Emv; apply hexlify_hexs; constructor; [exact Hm|constructor]|]. apply sh_int.
    apply sh_str; [rewrite <- Efv; constructor; [apply hexdigit_hex; exact Hf|constructor]|].
    apply sh_str; [destruct sw; apply lit_hexs; reflexivity|apply sh_nil]. }
  destruct (header_facts T_BREEZE_UPDATE_STATUS_PACKET sess ts _ H_breeze_status S2 T2 S1 T1 Hrest p Ef) as [Hh [Hl [H0 H76]]].
  pose proof (format_length_gen _ _ _ Ef) as Hlen. unfold args in Hlen. cbn [map arg_len] in Hlen.
  rewrite S2, T2, I2, (fmt_02x_byte tg Ht) in Hlen.
  assert (Lmv : length (s2l mv) = 2%nat) by (rewrite <- Emv; reflexivity).
  assert (Lfv : length (s2l fv) = 1%nat) by (rewrite <- Efv; reflexivity).
  rewrite Lmv, Lfv in Hlen.
  replace (length (s2l (if st then "01" else "00"))) with 2%nat in Hlen by (destruct st; reflexivity).
  replace (length (s2l (if sw then "1" else "0"))) with 1%nat in Hlen by (destruct sw; reflexivity).
  cbn [rendered_length T_BREEZE_UPDATE_STATUS_PACKET nth length hexbyte] in Hlen.
  apply (send_exact_gen T_BREEZE_UPDATE_STATUS_PACKET L_breeze_status args p state M_status Ef Hh); try assumption.
  - rewrite Hlen. vm_compute. reflexivity.
  - rewrite Hlen. vm_compute. reflexivity.
Qed.

(* the IR frame: any command text of bytes *)
Lemma ir_site text (state : io) : Forall (fun b => b < 256) text -> N.of_nat (length text) < 65000 ->
  let cmd := s2l "00000000" ++ hexlify text in
  exists bs, sends (send_template_gen false T_BREEZE_COMMAND_PACKET
                      [AStr sess; AStr ts; AStr idt; AStr (hexlify (le16 (N.of_nat (length cmd / 2)))); AStr cmd] true) state bs /\
             spec_breeze_command h text = Frame bs.
Proof.
  intros Hb Hn cmd. destruct hdr_facts as [S1 [S2 [T1 [T2 [I1 I2]]]]].
  assert (Ecmd : cmd = hexlify ([0; 0; 0; 0] ++ text)) by (unfold cmd; rewrite hexlify_app; reflexivity).
  assert (Lcmd : length cmd = (2 * (4 + length text))%nat) by (rewrite Ecmd, hexlify_length, app_length; reflexivity).
  assert (Lhalf : (length cmd / 2 = 4 + length text)%nat) by (rewrite Lcmd, Nat.mul_comm, Nat.div_mul; lia).
  set (args := [AStr sess; AStr ts; AStr idt; AStr (hexlify (le16 (N.of_nat (length cmd / 2)))); AStr cmd]).
  assert (Hspec : spec_breeze_command h text = frame_of L_breeze_command args).
  { unfold spec_breeze_command. cbv zeta. change (length ([0; 0; 0; 0] ++ text)) with (4 + length text)%nat.
    replace (65536 <=? N.of_nat (4 + length text)) with false by (symmetry; apply N.leb_gt; lia).
    unfold h, hdr_args, arg_of_bytes, args, sess, ts, idt. rewrite Lhalf, Ecmd. reflexivity. }
  rewrite Hspec.
  destruct (format T_BREEZE_COMMAND_PACKET args) as [p|] eqn:Ef; [|vm_compute in Ef; discriminate].
  assert (Hrest : strs_hex [AStr idt; AStr (hexlify (le16 (N.of_nat (length cmd / 2)))); AStr cmd]).
  { apply sh_str; [exact I1|]. apply sh_str; [apply hexlify_hexs, le16_bytes|].
    apply sh_str; [rewrite Ecmd; apply hexlify_hexs; apply Forall_app; split; [repeat constructor|exact Hb]|apply sh_nil]. }
  destruct (header_facts T_BREEZE_COMMAND_PACKET sess ts _ H_breeze_command S2 T2 S1 T1 Hrest p Ef) as [Hh [Hl [H0 H76]]].
  pose proof (format_length_gen _ _ _ Ef) as Hlen. unfold args in Hlen. cbn [map arg_len] in Hlen.
  rewrite S2, T2, I2 in Hlen. cbn [rendered_length T_BREEZE_COMMAND_PACKET nth] in Hlen.
  rewrite hexlify_length, Lcmd in Hlen.
  match type of Hlen with context [length (le16 ?x)] => change (length (le16 x)) with 2%nat in Hlen end.
  repeat match type of Hlen with context [length (s2l ?x)] =>
    let n := eval vm_compute in (length (s2l x)) in change (length (s2l x)) with n in Hlen end.
  assert (Hlen' : length p = (166 + 2 * (4 + length text))%nat) by (rewrite Hlen; lia).
  apply (send_exact_gen T_BREEZE_COMMAND_PACKET L_breeze_command args p state M_command Ef Hh); try assumption.
  - rewrite Hlen'. rewrite Nat.even_add, Nat.even_mul. reflexivity.
  - rewrite Hlen'. replace ((166 + 2 * (4 + length text)) / 2)%nat with (83 + (4 + length text))%nat
      by (replace (166 + 2 * (4 + length text))%nat with ((83 + (4 + length text)) * 2)%nat by lia; rewrite Nat.div_mul; lia).
    lia.
Qed.
End Sites.


(* ---- the whole call ---- *)
Lemma sess_facts0 (r0 : bytes) : Forall (fun b => b < 256) r0 -> (12 <= length r0)%nat ->
  length (pyslice 8 12 r0) = 4%nat /\ Forall (fun b => b < 256) (pyslice 8 12 r0).
Proof.
  intros Hr0 Lr0. split; [unfold pyslice; rewrite firstn_length, skipn_length; lia|apply pyslice_bytes, Hr0].
Qed.
(* an IR command of the Spec, as the (command, length) pair the model's builders return *)
Lemma code_result text : N.of_nat (length text) < 65000 ->
  result_of_spec (Code text) =
    Some (Ok (s2l "00000000" ++ hexlify text, hexlify (le16 (N.of_nat (length (s2l "00000000" ++ hexlify text) / 2))))).
Proof.
  intros Hn. cbn [result_of_spec]. cbv zeta. f_equal.
  assert (L : length (s2l "00000000" ++ hexlify text) = (2 * (4 + length text))%nat) by (rewrite app_length, hexlify_length; change (length (s2l "00000000")) with 8%nat; lia).
  rewrite breeze_command_length_ok; [reflexivity| |].
  - rewrite L, Nat.even_mul. reflexivity.
  - rewrite L, Nat.mul_comm, Nat.div_mul by lia. lia.
Qed.

Lemma swing_is_the_spec s on : match result_of_spec (spec_swing s on) with
  | Some r' => build_swing_command false (make_remote s) on = r' | None => True end.
Proof.
  unfold spec_swing, build_swing_command. rewrite present_stored.
  destruct (stored s (s2l (if on then "FUN_d1" else "FUN_d0"))) as [w|]; reflexivity.
Qed.

Section Call.
Variables (idb : bytes) (keyb : N) (now : N) (r0 sr r2 : bytes).
Hypothesis Lid : length idb = 3%nat.
Hypothesis Hid : Forall (fun b => b < 256) idb.
Hypothesis Hkey : keyb < 256.
Hypothesis Hnow : now < 4294967296.
Hypothesis Hr0 : Forall (fun b => b < 256) r0.
Hypothesis Lr0 : (12 <= length r0)%nat.
Hypothesis Hsr : sr <> [].
Hypothesis Hr2 : r2 <> [].
Let c := cfg_of idb keyb.
Let sessb := pyslice 8 12 r0.
Let h := hdr_args sessb now idb.

Variables (state : option bool) (mode : option string) (target : Z) (fan : option string) (swing : option bool).
Variable cur : thermostat_fields.
Hypothesis Hparse : parse_thermostat_reply sr = Ok cur.

Lemma sess_facts : length sessb = 4%nat /\ Forall (fun b => b < 256) sessb.
Proof. exact (sess_facts0 r0 Hr0 Lr0). Qed.

Lemma nonempty_successful (b : bytes) : b <> [] -> successful b = true.
Proof. destruct b; [congruence|reflexivity]. Qed.

(* update_state: login, state query, the status frame for the merged values *)
Theorem breeze_update_exact (r : remote) rest mbyte fnib mv fv dm df :
  (is_some state || is_some mode || negb (target =? 0)%Z || is_some fan || (is_some swing && negb (r_sep r)))%bool = true ->
  let m_on := or_else state (tf_on cur) in
  let m_mode := or_else mode (tf_mode cur) in
  let m_target := if (target =? 0)%Z then Z.of_N (tf_target cur) else target in
  let m_fan := or_else fan (tf_fan cur) in
  let m_swing := if r_sep r then false else or_else swing (tf_swing_on cur) in
  In (m_mode, mv, dm) thermostat_modes -> hexlify [mbyte] = s2l mv -> mbyte < 256 ->
  In (m_fan, fv, df) fan_levels -> [hexdigit fnib] = s2l fv -> fnib < 16 ->
  Z.to_N m_target < 256 ->
  exists LF GS ST, spec_login true idb [keyb] now = Frame LF /\ frame_of L_get_state2 h = Frame GS /\
    spec_breeze_status h m_on mbyte (Z.to_N m_target) fnib m_swing = Frame ST /\
    Exchange.run (control_breeze_device false c now r state mode target fan swing true) (r0 :: sr :: r2 :: rest) = ([LF; GS; ST], Ok r2).
Proof.
  intros Hmain m_on m_mode m_target m_fan m_swing Hmode Emv Hmb Hfan Efv Hfn Htg.
  destruct sess_facts as [Ls Hs].
  unfold Exchange.run, control_breeze_device, bindM.
  set (st0 := {| frames := []; replies := r0 :: sr :: r2 :: rest |}).
  destruct (login_exact idb keyb now Lid Hid Hkey Hnow true st0) as [LF [st1 [Hspec [Hlog [Hf1 Hr1]]]]]. exists LF.
  unfold c. rewrite Hlog. cbn [st0 frames replies hd tl app lr_session lr_timestamp lr_response] in *.
  rewrite (nonempty_successful r0) by (destruct r0; [cbn in Lr0; lia|discriminate]). cbn [negb].
  rewrite Hmain.
  rewrite (session_is_bytes r0). change (device_id (cfg_of idb keyb)) with (hexlify idb).
  (* state query *)
  destruct (hdr_texts_ok idb keyb now Lid Hid Hkey Hnow r0 [] []%nat Hr0 Lr0 eq_refl ltac:(constructor)) as [Hw' Hx'].
  destruct (send_template_exact1 T_GET_STATE_PACKET2_TYPE2 L_get_state2 (hdr_texts idb now r0 ++ []) ([8; 8; 6]%nat ++ []) st1
              M_get_state2 (proj1 I_get_state2) (proj2 I_get_state2) Hw' Hx') as [GS [[st2 [Hs2 [Hf2 Hr2']]] Hsp2]].
  exists GS. rewrite app_nil_r in Hsp2, Hs2. rewrite hdr_texts_spec in Hsp2. fold sessb in Hsp2. fold h in Hsp2.
  change (map AStr (hdr_texts idb now r0)) with [AStr (hexlify (pyslice 8 12 r0)); AStr (hexlify (le32 now)); AStr (hexlify idb)] in Hs2.
  rewrite Hs2. rewrite Hr1. cbn [hd tl]. rewrite Hparse. rewrite (nonempty_successful sr Hsr). cbn [negb].
  (* status frame *)
  fold m_on m_mode m_target m_fan m_swing.
  rewrite (value_of_row thermostat_modes m_mode mv dm modes_values Hmode), (value_of_row fan_levels m_fan fv df fans_values Hfan).
  destruct (status_site idb sessb now Lid Hid Ls Hs m_on mbyte (Z.to_N m_target) fnib m_swing mv fv st2 Hmb Htg Hfn Emv Efv)
    as [ST [[st3 [Hs3 [Hf3 Hr3]]] Hsp3]].
  exists ST. fold sessb. rewrite Hs3. rewrite Hr2', Hr1. cbn [hd tl]. rewrite (nonempty_successful r2 Hr2).
  rewrite Bool.andb_false_r. unfold ret. rewrite Hf3, Hf2, Hf1.
  split; [exact Hspec|]. split; [exact Hsp2|]. split; [exact Hsp3|]. reflexivity.
Qed.

(* IR: login, state query, the command the Spec chooses for the merged values; no swing frame asked of a separate-swing remote *)
Theorem breeze_ir_exact (s : irset) rest text :
  let r := make_remote s in
  (is_some state || is_some mode || negb (target =? 0)%Z || is_some fan || (is_some swing && negb (r_sep r)))%bool = true ->
  (r_sep r && is_some swing)%bool = false ->
  let m_on := or_else state (tf_on cur) in
  let m_mode := or_else mode (tf_mode cur) in
  let m_target := if (target =? 0)%Z then Z.of_N (tf_target cur) else target in
  let m_fan := or_else fan (tf_fan cur) in
  let m_swing := if r_sep r then false else or_else swing (tf_swing_on cur) in
  spec_build s m_on m_mode m_target m_fan m_swing (Some (tf_on cur)) = Code text ->
  Forall (fun b => b < 256) text -> N.of_nat (length text) < 65000 ->
  exists LF GS IR, spec_login true idb [keyb] now = Frame LF /\ frame_of L_get_state2 h = Frame GS /\
    spec_breeze_command h text = Frame IR /\
    Exchange.run (control_breeze_device false c now r state mode target fan swing false) (r0 :: sr :: r2 :: rest) = ([LF; GS; IR], Ok r2).
Proof.
  intros r Hmain Hnosw m_on m_mode m_target m_fan m_swing Hbuild Hb Hn.
  destruct sess_facts as [Ls Hs].
  pose proof (build_command_is_the_spec s m_on m_mode m_target m_fan m_swing (Some (tf_on cur))) as Hbc.
  rewrite Hbuild, (code_result text Hn) in Hbc. fold r in Hbc.
  unfold Exchange.run, control_breeze_device, bindM.
  set (st0 := {| frames := []; replies := r0 :: sr :: r2 :: rest |}).
  destruct (login_exact idb keyb now Lid Hid Hkey Hnow true st0) as [LF [st1 [Hspec [Hlog [Hf1 Hr1]]]]]. exists LF.
  unfold c. rewrite Hlog. cbn [st0 frames replies hd tl app lr_session lr_timestamp lr_response] in *.
  rewrite (nonempty_successful r0) by (destruct r0; [cbn in Lr0; lia|discriminate]). cbn [negb].
  rewrite Hmain.
  rewrite (session_is_bytes r0). change (device_id (cfg_of idb keyb)) with (hexlify idb).
  destruct (hdr_texts_ok idb keyb now Lid Hid Hkey Hnow r0 [] []%nat Hr0 Lr0 eq_refl ltac:(constructor)) as [Hw' Hx'].
  destruct (send_template_exact1 T_GET_STATE_PACKET2_TYPE2 L_get_state2 (hdr_texts idb now r0 ++ []) ([8; 8; 6]%nat ++ []) st1
              M_get_state2 (proj1 I_get_state2) (proj2 I_get_state2) Hw' Hx') as [GS [[st2 [Hs2 [Hf2 Hr2']]] Hsp2]].
  exists GS. rewrite app_nil_r in Hsp2, Hs2. rewrite hdr_texts_spec in Hsp2. fold sessb in Hsp2. fold h in Hsp2.
  change (map AStr (hdr_texts idb now r0)) with [AStr (hexlify (pyslice 8 12 r0)); AStr (hexlify (le32 now)); AStr (hexlify idb)] in Hs2.
  rewrite Hs2. rewrite Hr1. cbn [hd tl]. rewrite Hparse. rewrite (nonempty_successful sr Hsr). cbn [negb].
  fold m_on m_mode m_target m_fan m_swing. unfold lift. rewrite Hbc. cbn [fst snd].
  destruct (ir_site idb sessb now Lid Hid Ls Hs text st2 Hb Hn) as [IR [[st3 [Hs3 [Hf3 Hr3]]] Hsp3]].
  exists IR. fold sessb. rewrite Hs3. rewrite Hr2', Hr1. cbn [hd tl]. rewrite (nonempty_successful r2 Hr2).
  cbn [negb]. rewrite Bool.andb_true_r, Hnosw. unfold ret. rewrite Hf3, Hf2, Hf1.
  split; [exact Hspec|]. split; [exact Hsp2|]. split; [exact Hsp3|]. reflexivity.
Qed.

(* IR with a separate swing button: the main command never carries the swing, a fourth frame does *)
Theorem breeze_ir_swing_exact (s : irset) r3 rest text sw text2 :
  let r := make_remote s in
  r_sep r = true -> swing = Some sw ->
  (is_some state || is_some mode || negb (target =? 0)%Z || is_some fan)%bool = true ->
  let m_on := or_else state (tf_on cur) in
  let m_mode := or_else mode (tf_mode cur) in
  let m_target := if (target =? 0)%Z then Z.of_N (tf_target cur) else target in
  let m_fan := or_else fan (tf_fan cur) in
  spec_build s m_on m_mode m_target m_fan false (Some (tf_on cur)) = Code text ->
  Forall (fun b => b < 256) text -> N.of_nat (length text) < 65000 ->
  spec_swing s sw = Code text2 ->
  Forall (fun b => b < 256) text2 -> N.of_nat (length text2) < 65000 ->
  exists LF GS IR SW, spec_login true idb [keyb] now = Frame LF /\ frame_of L_get_state2 h = Frame GS /\
    spec_breeze_command h text = Frame IR /\ spec_breeze_command h text2 = Frame SW /\
    Exchange.run (control_breeze_device false c now r state mode target fan swing false) (r0 :: sr :: r2 :: r3 :: rest)
      = ([LF; GS; IR; SW], Ok r3).
Proof.
  intros r Hsep Hswing Hmain m_on m_mode m_target m_fan Hbuild Hb Hn Hsw Hb2 Hn2.
  destruct sess_facts as [Ls Hs].
  pose proof (build_command_is_the_spec s m_on m_mode m_target m_fan false (Some (tf_on cur))) as Hbc.
  rewrite Hbuild, (code_result text Hn) in Hbc. fold r in Hbc.
  pose proof (swing_is_the_spec s sw) as Hsc. rewrite Hsw, (code_result text2 Hn2) in Hsc. fold r in Hsc.
  unfold Exchange.run, control_breeze_device, bindM.
  set (st0 := {| frames := []; replies := r0 :: sr :: r2 :: r3 :: rest |}).
  destruct (login_exact idb keyb now Lid Hid Hkey Hnow true st0) as [LF [st1 [Hspec [Hlog [Hf1 Hr1]]]]]. exists LF.
  unfold c. rewrite Hlog. cbn [st0 frames replies hd tl app lr_session lr_timestamp lr_response] in *.
  rewrite (nonempty_successful r0) by (destruct r0; [cbn in Lr0; lia|discriminate]). cbn [negb].
  rewrite Hmain, Hsep, Hswing. cbn [orb is_some or_else andb negb].
  rewrite (session_is_bytes r0). change (device_id (cfg_of idb keyb)) with (hexlify idb).
  destruct (hdr_texts_ok idb keyb now Lid Hid Hkey Hnow r0 [] []%nat Hr0 Lr0 eq_refl ltac:(constructor)) as [Hw' Hx'].
  destruct (send_template_exact1 T_GET_STATE_PACKET2_TYPE2 L_get_state2 (hdr_texts idb now r0 ++ []) ([8; 8; 6]%nat ++ []) st1
              M_get_state2 (proj1 I_get_state2) (proj2 I_get_state2) Hw' Hx') as [GS [[st2 [Hs2 [Hf2 Hr2']]] Hsp2]].
  exists GS. rewrite app_nil_r in Hsp2, Hs2. rewrite hdr_texts_spec in Hsp2. fold sessb in Hsp2. fold h in Hsp2.
  change (map AStr (hdr_texts idb now r0)) with [AStr (hexlify (pyslice 8 12 r0)); AStr (hexlify (le32 now)); AStr (hexlify idb)] in Hs2.
  rewrite Hs2. rewrite Hr1. cbn [hd tl]. rewrite Hparse. rewrite (nonempty_successful sr Hsr). cbn [negb].
  fold m_on m_mode m_target m_fan. unfold lift. rewrite Hbc. cbn [fst snd].
  destruct (ir_site idb sessb now Lid Hid Ls Hs text st2 Hb Hn) as [IR [[st3 [Hs3 [Hf3 Hr3]]] Hsp3]].
  exists IR. fold sessb. rewrite Hs3. rewrite Hr2', Hr1. cbn [hd tl]. rewrite (nonempty_successful r2 Hr2).
  unfold ret at 1. rewrite Hsc. cbn [fst snd].
  destruct (ir_site idb sessb now Lid Hid Ls Hs text2 st3 Hb2 Hn2) as [SW [[st4 [Hs4 [Hf4 Hr4]]] Hsp4]].
  exists SW. rewrite Hs4. unfold ret. rewrite Hr3, Hr2', Hr1. cbn [hd tl]. rewrite Hf4, Hf3, Hf2, Hf1.
  split; [exact Hspec|]. split; [exact Hsp2|]. split; [exact Hsp3|]. split; [exact Hsp4|]. reflexivity.
Qed.
End Call.

(* only the swing of a separate-swing remote: no state query, no main command *)
Section SwingOnly.
Variables (idb : bytes) (keyb : N) (now : N) (r0 r1 : bytes) (rest : list bytes).
Hypothesis Lid : length idb = 3%nat.
Hypothesis Hid : Forall (fun b => b < 256) idb.
Hypothesis Hkey : keyb < 256.
Hypothesis Hnow : now < 4294967296.
Hypothesis Hr0 : Forall (fun b => b < 256) r0.
Hypothesis Lr0 : (12 <= length r0)%nat.
Let c := cfg_of idb keyb.
Let h := hdr_args (pyslice 8 12 r0) now idb.

Theorem breeze_swing_only_exact (s : irset) sw text2 :
  let r := make_remote s in
  r_sep r = true -> spec_swing s sw = Code text2 ->
  Forall (fun b => b < 256) text2 -> N.of_nat (length text2) < 65000 ->
  exists LF SW, spec_login true idb [keyb] now = Frame LF /\ spec_breeze_command h text2 = Frame SW /\
    Exchange.run (control_breeze_device false c now r None None 0%Z None (Some sw) false) (r0 :: r1 :: rest) = ([LF; SW], Ok r1).
Proof.
  intros r Hsep Hsw Hb2 Hn2.
  destruct (sess_facts0 r0 Hr0 Lr0) as [Ls Hs].
  pose proof (swing_is_the_spec s sw) as Hsc. rewrite Hsw, (code_result text2 Hn2) in Hsc. fold r in Hsc.
  unfold Exchange.run, control_breeze_device, bindM.
  set (st0 := {| frames := []; replies := r0 :: r1 :: rest |}).
  destruct (login_exact idb keyb now Lid Hid Hkey Hnow true st0) as [LF [st1 [Hspec [Hlog [Hf1 Hr1]]]]]. exists LF.
  unfold c. rewrite Hlog. cbn [st0 frames replies hd tl app lr_session lr_timestamp lr_response] in *.
  rewrite (nonempty_successful r0) by (destruct r0; [cbn in Lr0; lia|discriminate]). cbn [negb].
  rewrite Hsep. cbn [orb is_some or_else andb negb Z.eqb].
  rewrite (session_is_bytes r0). change (device_id (cfg_of idb keyb)) with (hexlify idb).
  unfold ret at 1. unfold lift. rewrite Hsc. cbn [fst snd].
  destruct (ir_site idb (pyslice 8 12 r0) now Lid Hid Ls Hs text2 st1 Hb2 Hn2) as [SW [[st4 [Hs4 [Hf4 Hr4]]] Hsp4]].
  exists SW. rewrite Hs4. unfold ret. rewrite Hr1. cbn [hd tl]. rewrite Hf4, Hf1.
  split; [exact Hspec|]. split; [exact Hsp4|]. reflexivity.
Qed.
End SwingOnly.
