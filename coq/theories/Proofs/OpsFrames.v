(* C01 over the exchange model: every frame any operation writes is well formed and signed *)
Require Import AS.Base.Prelude AS.Base.Hex AS.Base.Dec AS.Base.Template AS.Base.Exchange AS.Gen.Extracted AS.Spec.Sign AS.Spec.Frame
  AS.Model.DeviceTools AS.Model.Messages AS.Model.Remotes AS.Model.ScheduleTools AS.Model.Api AS.Model.Ops
  AS.Proofs.SignProofs AS.Proofs.HexSlices AS.Proofs.FrameProofs AS.Proofs.LengthProofs AS.Proofs.FrameAll AS.Proofs.Hoare.
Open Scope N_scope.

Definition okf (f : bytes) : Prop := frame_okb f = true.
Notation T := (triple okf).

(* "if this call site writes at all, what it writes is a good frame" *)
Definition frame_if_written (t : template) (args : list farg) (fix_len : bool) : Prop :=
  forall p p' out bs, format t args = Ok p -> (if fix_len then set_message_length false p else Ok p) = Ok p' ->
    sign_packet_with_crc_key p' = Ok out -> unhexlify out = Some bs -> frame_okb bs = true.

Lemma fiw1 t ws rs : holes_okb t (length ws) = true -> c01_cells_ok (sym t ws) = true -> widths rs ws -> args_hexs rs ->
  frame_if_written t (map AStr rs) false.
Proof.
  intros Hh Hc Hw Hx p p' out bs Hf Hp Hs Hu.
  destruct (template_frame_ok t ws rs Hh Hc Hw Hx) as [p0 [out0 [bs0 [Hf0 [Hs0 [Hu0 Hk]]]]]].
  inversion Hp; subst. congruence.
Qed.
Lemma fiw2 t ws rs : holes_okb t (length ws) = true -> c01_cells_ok2 (sym t ws) = true -> widths rs ws -> args_hexs rs ->
  frame_if_written t (map AStr rs) true.
Proof.
  intros Hh Hc Hw Hx p p' out bs Hf Hp Hs Hu.
  destruct (template_frame_ok2 t ws rs Hh Hc Hw Hx) as [p0 [p0' [out0 [bs0 [Hf0 [Hl0 [Hs0 [Hu0 Hk]]]]]]]].
  congruence.
Qed.

Lemma send_template_triple (P : io -> Prop) t args fix_len :
  frame_if_written t args fix_len ->
  T P (send_template_gen false t args fix_len) (fun _ st => exists st0, P st0 /\ replies st = tl (replies st0)).
Proof.
  intros Hw. unfold send_template_gen.
  eapply triple_bind; [apply triple_lift|]. intros p. apply triple_pure. intros Hf.
  eapply triple_bind; [apply triple_lift|]. intros p'. apply triple_pure. intros Hp.
  eapply triple_bind; [apply triple_lift|]. intros signed. apply triple_pure. intros Hs.
  eapply triple_conseq; [apply (triple_send okf P signed)| |].
  - intros bs Hu. exact (Hw p p' signed bs Hf Hp Hs Hu).
  - auto.
  - intros r st [st0 [HP [_ Hr]]]. exists st0. auto.
Qed.

(* ---- hex facts about argument encoders ---- *)
Lemma hexlify_hexs bs : Forall (fun b => b < 256) bs -> hexs (hexlify bs).
Proof.
  induction 1 as [|b bs Hb _ IH]; [constructor|]. cbn [hexlify flat_map hexbyte app]. fold (hexlify bs).
  assert (Hd : forall n, n < 16 -> is_hexchar (hexdigit n) = true).
  { intros n Hn. unfold is_hexchar. rewrite nib_hexdigit by exact Hn. reflexivity. }
  constructor; [apply Hd, N.div_lt_upper_bound; lia|]. constructor; [apply Hd, N.mod_lt; discriminate|exact IH].
Qed.
Lemma le32_bytes x : Forall (fun b => b < 256) (le32 x).
Proof. unfold le32. repeat constructor; apply N.mod_lt; discriminate. Qed.
Lemma le32_hex x : hexs (hexlify (le32 x)) /\ length (hexlify (le32 x)) = 8%nat.
Proof. split; [apply hexlify_hexs, le32_bytes|reflexivity]. Qed.
Lemma firstn_bytes n (m : bytes) : Forall (fun b => b < 256) m -> Forall (fun b => b < 256) (firstn n m).
Proof.
  intros H. apply Forall_forall. intros x Hx. rewrite Forall_forall in H. apply H.
  rewrite <- (firstn_skipn n m). apply in_or_app. left. exact Hx.
Qed.

Definition wfs (script : list bytes) : Prop := Forall (Forall (fun b => b < 256)) script.
Definition Pre (st : io) : Prop := wfs (replies st) /\ (12 <= length (hd [] (replies st)))%nat.
Definition Mid (st : io) : Prop := wfs (replies st).

Record wf_cfg (c : cfg) : Prop :=
  { wf_id : hexs (device_id c); wf_id_len : length (device_id c) = 6%nat;
    wf_key : hexs (device_key c); wf_key_len : length (device_key c) = 2%nat }.

Record login_ok (l : login_result) : Prop :=
  { lo_ts : hexs (lr_timestamp l); lo_ts_len : length (lr_timestamp l) = 8%nat;
    lo_sess : hexs (lr_session l); lo_sess_len : length (lr_session l) = 8%nat }.

Lemma wfs_tl s : wfs s -> wfs (tl s).
Proof. intros H. destruct s; [exact H|]. inversion H; assumption. Qed.
Lemma wfs_hd s : wfs s -> Forall (fun b => b < 256) (hd [] s).
Proof. intros H. destruct s; [constructor|]. inversion H; assumption. Qed.

Lemma session_facts resp : Forall (fun b => b < 256) resp -> (12 <= length resp)%nat ->
  hexs (pyslice 16 24 (hexlify resp)) /\ length (pyslice 16 24 (hexlify resp)) = 8%nat.
Proof.
  intros Hw Hl. change (pyslice 16 24 (hexlify resp)) with (pyslice (2*8) (2*12) (hexlify resp)).
  rewrite hexlify_slice. split.
  - apply hexlify_hexs. unfold pyslice. apply firstn_bytes.
    apply Forall_forall. intros x Hx. rewrite Forall_forall in Hw. apply Hw.
    rewrite <- (firstn_skipn 8 resp). apply in_or_app. right. exact Hx.
  - rewrite hexlify_length. unfold pyslice. rewrite firstn_length, skipn_length. lia.
Qed.

Lemma I_login1 : holes_okb T_LOGIN_PACKET_TYPE1 2 = true /\ c01_cells_ok (sym T_LOGIN_PACKET_TYPE1 [8; 2]%nat) = true.
Proof. vm_compute. split; reflexivity. Qed.
Lemma I_login2 : holes_okb T_LOGIN2_PACKET_TYPE2 2 = true /\ c01_cells_ok (sym T_LOGIN2_PACKET_TYPE2 [8; 6]%nat) = true.
Proof. vm_compute. split; reflexivity. Qed.

Lemma login_triple c type2 now : wf_cfg c ->
  T Pre (login c type2 now) (fun l st => login_ok l /\ Mid st).
Proof.
  intros Hc. unfold login.
  eapply triple_bind; [apply triple_lift|]. intros ts. apply triple_pure. intros Hts.
  assert (Hth : hexs ts /\ length ts = 8%nat).
  { unfold timestamp_hex in Hts. destruct (now <? 4294967296); [|discriminate]. inversion Hts. apply le32_hex. }
  eapply triple_bind; [apply triple_lift|]. intros packet. apply triple_pure. intros Hf.
  eapply triple_bind; [apply triple_lift|]. intros signed. apply triple_pure. intros Hs.
  eapply triple_bind.
  - apply (triple_send okf Pre signed). intros bs Hu.
    destruct type2.
    + refine (fiw1 T_LOGIN2_PACKET_TYPE2 [8; 6]%nat [ts; device_id c] (proj1 I_login2) (proj2 I_login2) _ _ packet packet signed bs Hf eq_refl Hs Hu).
      * unfold widths. cbn [map]. rewrite (proj2 Hth), (wf_id_len c Hc). reflexivity.
      * repeat constructor; [apply Hth|apply Hc].
    + refine (fiw1 T_LOGIN_PACKET_TYPE1 [8; 2]%nat [ts; device_key c] (proj1 I_login1) (proj2 I_login1) _ _ packet packet signed bs Hf eq_refl Hs Hu).
      * unfold widths. cbn [map]. rewrite (proj2 Hth), (wf_key_len c Hc). reflexivity.
      * repeat constructor; [apply Hth|apply Hc].
  - intros response. eapply triple_conseq; [apply triple_ret| |].
    + intros st H. exact H.
    + intros l st [-> [st0 [[Hw Hl] [Hr Ht]]]]. cbn [lr_timestamp lr_session lr_response].
      split.
      * destruct (session_facts response) as [S1 S2]; [rewrite Hr; apply wfs_hd, Hw|rewrite Hr; exact Hl|].
        constructor; cbn [lr_timestamp lr_session]; [apply Hth|apply Hth|exact S1|exact S2].
      * unfold Mid. rewrite Ht. apply wfs_tl, Hw.
Qed.

(* ---- the generic shapes of an operation ---- *)
Definition hdr (l : login_result) (c : cfg) : list bytes := [lr_session l; lr_timestamp l; device_id c].
Lemma hdr_widths l c rs ws : login_ok l -> wf_cfg c -> widths rs ws -> widths (hdr l c ++ rs) ([8; 8; 6]%nat ++ ws).
Proof.
  intros Hl Hc Hw. unfold widths, hdr in *. subst ws. rewrite map_app. cbn [map].
  rewrite (lo_sess_len l Hl), (lo_ts_len l Hl), (wf_id_len c Hc). reflexivity.
Qed.
Lemma hdr_hexs l c rs : login_ok l -> wf_cfg c -> args_hexs rs -> args_hexs (hdr l c ++ rs).
Proof.
  intros Hl Hc Hx. unfold args_hexs, hdr. cbn [app].
  constructor; [apply Hl|]. constructor; [apply Hl|]. constructor; [apply Hc|exact Hx].
Qed.

Definition enc_ok (extra : result (list farg)) (ws : list nat) : Prop :=
  forall args, extra = Ok args -> exists rs, args = map AStr rs /\ widths rs ws /\ args_hexs rs.

Lemma type1_op_triple c now t extra ws : wf_cfg c ->
  holes_okb t (length ([8; 8; 6]%nat ++ ws)) = true -> c01_cells_ok (sym t ([8; 8; 6]%nat ++ ws)) = true -> enc_ok extra ws ->
  T Pre (type1_op false c now t extra) (fun _ _ => True).
Proof.
  intros Hc Hh Hk He. unfold type1_op.
  eapply triple_bind; [apply login_triple; exact Hc|]. intros l. apply triple_pure. intros Hl.
  eapply triple_bind; [apply triple_lift|]. intros args. apply triple_pure. intros Hx.
  destruct (He args Hx) as [rs [-> [Hw Hhex]]].
  eapply triple_conseq; [apply send_template_triple| |].
  - change ([AStr (lr_session l); AStr (lr_timestamp l); AStr (device_id c)] ++ map AStr rs) with (map AStr (hdr l c ++ rs)).
    apply (fiw1 t ([8; 8; 6]%nat ++ ws)); [exact Hh|exact Hk|apply hdr_widths; assumption|apply hdr_hexs; assumption].
  - intros st H. exact H.
  - auto.
Qed.

Lemma type2_op_triple c now t rs ws : wf_cfg c ->
  holes_okb t (length ([8; 8; 6]%nat ++ ws)) = true -> c01_cells_ok2 (sym t ([8; 8; 6]%nat ++ ws)) = true ->
  widths rs ws -> args_hexs rs ->
  T Pre (type2_op false c now t (map AStr rs) true) (fun _ _ => True).
Proof.
  intros Hc Hh Hk Hw Hhex. unfold type2_op.
  eapply triple_bind; [apply login_triple; exact Hc|]. intros l. apply triple_pure. intros Hl.
  destruct (successful (lr_response l)); [|apply triple_raise].
  eapply triple_conseq; [apply send_template_triple| |].
  - change ([AStr (lr_session l); AStr (lr_timestamp l); AStr (device_id c)] ++ map AStr rs) with (map AStr (hdr l c ++ rs)).
    apply (fiw2 t ([8; 8; 6]%nat ++ ws)); [exact Hh|exact Hk|apply hdr_widths; assumption|apply hdr_hexs; assumption].
  - intros st H. exact H.
  - auto.
Qed.

(* ---- instances: one boolean fact per template, decided on the regenerated constants ---- *)
Ltac decide_template := vm_compute; split; reflexivity.
Lemma I_get_state1 : holes_okb T_GET_STATE_PACKET_TYPE1 3 = true /\ c01_cells_ok (sym T_GET_STATE_PACKET_TYPE1 [8; 8; 6]%nat) = true.
Proof. decide_template. Qed.
Lemma I_get_state2 : holes_okb T_GET_STATE_PACKET2_TYPE2 3 = true /\ c01_cells_ok (sym T_GET_STATE_PACKET2_TYPE2 [8; 8; 6]%nat) = true.
Proof. decide_template. Qed.
Lemma I_control : holes_okb T_SEND_CONTROL_PACKET 5 = true /\ c01_cells_ok (sym T_SEND_CONTROL_PACKET [8; 8; 6; 1; 8]%nat) = true.
Proof. decide_template. Qed.
Lemma I_auto_off : holes_okb T_SET_AUTO_OFF_SET_PACKET 4 = true /\ c01_cells_ok (sym T_SET_AUTO_OFF_SET_PACKET [8; 8; 6; 8]%nat) = true.
Proof. decide_template. Qed.
Lemma I_set_name : holes_okb T_UPDATE_DEVICE_NAME_PACKET 4 = true /\ c01_cells_ok (sym T_UPDATE_DEVICE_NAME_PACKET [8; 8; 6; 64]%nat) = true.
Proof. decide_template. Qed.
Lemma I_get_schedules : holes_okb T_GET_SCHEDULES_PACKET 3 = true /\ c01_cells_ok (sym T_GET_SCHEDULES_PACKET [8; 8; 6]%nat) = true.
Proof. decide_template. Qed.
Lemma I_delete : holes_okb T_DELETE_SCHEDULE_PACKET 4 = true /\ c01_cells_ok (sym T_DELETE_SCHEDULE_PACKET [8; 8; 6; 1]%nat) = true.
Proof. decide_template. Qed.
Lemma I_create : holes_okb T_CREATE_SCHEDULE_PACKET 4 = true /\ c01_cells_ok (sym T_CREATE_SCHEDULE_PACKET [8; 8; 6; 22]%nat) = true.
Proof. decide_template. Qed.
Lemma I_stop : holes_okb T_RUNNER_STOP_COMMAND 3 = true /\ c01_cells_ok2 (sym T_RUNNER_STOP_COMMAND [8; 8; 6]%nat) = true.
Proof. decide_template. Qed.
Lemma I_set_position n : (n <= 4)%nat -> Nat.even n = true ->
  holes_okb T_RUNNER_SET_POSITION 4 = true /\ c01_cells_ok2 (sym T_RUNNER_SET_POSITION [8; 8; 6; n]%nat) = true.
Proof.
  intros Hn He. do 5 (destruct n as [|n]; [try discriminate; decide_template|]). lia.
Qed.

(* ---- what each argument encoder can return ---- *)
Lemma is_le32 x : (exists t, x = hexlify (le32 t)) -> hexs x /\ length x = 8%nat.
Proof. intros [t ->]. apply le32_hex. Qed.

Lemma minutes_enc m x : minutes_to_hexadecimal_seconds m = Ok x -> exists t, x = hexlify (le32 t).
Proof. unfold minutes_to_hexadecimal_seconds. destruct (m * 60 <? 4294967296); [|discriminate]. intros H; inversion H. eexists; reflexivity. Qed.
Lemma timedelta_enc s x : timedelta_to_hexadecimal_seconds s = Ok x -> exists t, x = hexlify (le32 t).
Proof. unfold timedelta_to_hexadecimal_seconds. destruct (_ && _)%bool; [|discriminate]. intros H; inversion H. eexists; reflexivity. Qed.
Lemma clock_enc lg base s x : time_to_hexadecimal_timestamp lg base s = Ok x -> exists t, x = hexlify (le32 t).
Proof.
  unfold time_to_hexadecimal_timestamp. destruct (split_colon s) as [|t0 [|t1 r]]; try discriminate.
  destruct (strptime_HM _) as [hm|]; cbn [bind]; [|discriminate].
  destruct (if lg then _ else _) as [u|]; cbn [bind]; [|discriminate].
  destruct (_ && _)%bool; [|discriminate]. intros H; inversion H. eexists; reflexivity.
Qed.
Lemma no_timer_hex : hexs NO_TIMER_REQUESTED /\ length NO_TIMER_REQUESTED = 8%nat.
Proof. split; [|reflexivity]. unfold hexs. apply Forall_forall. apply forallb_forall. vm_compute. reflexivity. Qed.
Lemma non_recurring_hex : hexs NON_RECURRING_SCHEDULE /\ length NON_RECURRING_SCHEDULE = 2%nat.
Proof. split; [|reflexivity]. unfold hexs. apply Forall_forall. apply forallb_forall. vm_compute. reflexivity. Qed.

Lemma zeros_hex k : hexs (concat (repeat (s2l "00") k)) /\ length (concat (repeat (s2l "00") k)) = (2 * k)%nat.
Proof.
  induction k as [|k [IH1 IH2]]; [split; [constructor|reflexivity]|]. cbn [repeat concat]. split.
  - apply Forall_app. split; [|exact IH1]. apply Forall_forall. apply forallb_forall. vm_compute. reflexivity.
  - rewrite app_length, IH2. cbn. lia.
Qed.

Lemma name_enc name x : Forall (fun b => b < 256) name -> string_to_hexadecimale_device_name false name = Ok x ->
  hexs x /\ length x = 64%nat.
Proof.
  intros Hb. unfold string_to_hexadecimale_device_name. cbv zeta. change (if false then cp_count name else length name) with (length name).
  destruct ((1 <? length name) && (length name <? 33))%nat eqn:E; [|discriminate]. intros H.
  assert (Hx : x = hexlify name ++ concat (repeat (s2l "00") (32 - length name))) by congruence. subst x. clear H.
  apply andb_prop in E. destruct E as [_ E]. apply Nat.ltb_lt in E. split.
  - apply Forall_app. split; [apply hexlify_hexs, Hb|apply zeros_hex].
  - rewrite app_length, hexlify_length, (proj2 (zeros_hex _)). lia.
Qed.

(* ---- operations 1-11 ---- *)
Section Ops.
Variable c : cfg.
Hypothesis Hc : wf_cfg c.
Variable now : N.

Lemma astr2 a b : [AStr a; AStr b] = map AStr [a; b]. Proof. reflexivity. Qed.
Lemma astr1 a : [AStr a] = map AStr [a]. Proof. reflexivity. Qed.

Lemma onoff_hex (on : bool) : hexs (s2l (if on then "1" else "0")) /\ length (s2l (if on then "1" else "0")) = 1%nat.
Proof. destruct on; (split; [apply Forall_forall; apply forallb_forall; vm_compute; reflexivity|reflexivity]). Qed.
Lemma hexs2 a b : hexs a -> hexs b -> args_hexs [a; b].
Proof. intros Ha Hb. constructor; [exact Ha|]. constructor; [exact Hb|constructor]. Qed.
Lemma hexs1 a : hexs a -> args_hexs [a].
Proof. intros Ha. constructor; [exact Ha|constructor]. Qed.

Theorem control_frames (on : bool) minutes : T Pre (control_device_op false c now (s2l (if on then "1" else "0")) minutes) (fun _ _ => True).
Proof.
  apply (type1_op_triple c now _ _ [1; 8]%nat Hc (proj1 I_control) (proj2 I_control)).
  intros args H. destruct (0 <? minutes)%Z.
  - destruct (minutes_to_hexadecimal_seconds (Z.to_N minutes)) as [timer|] eqn:E; cbn [bind] in H; [|discriminate].
    inversion H; subst. destruct (is_le32 _ (minutes_enc _ _ E)) as [H1 H2].
    exists [s2l (if on then "1" else "0"); timer]. split; [reflexivity|]. split.
    + unfold widths. cbn [map]. rewrite H2, (proj2 (onoff_hex on)). reflexivity.
    + apply hexs2; [apply onoff_hex|exact H1].
  - cbn [bind] in H. inversion H; subst. destruct no_timer_hex as [H1 H2].
    exists [s2l (if on then "1" else "0"); NO_TIMER_REQUESTED]. split; [reflexivity|]. split.
    + unfold widths. cbn [map]. rewrite H2, (proj2 (onoff_hex on)). reflexivity.
    + apply hexs2; [apply onoff_hex|exact H1].
Qed.

Theorem auto_shutdown_frames secs : T Pre (set_auto_shutdown_op false c now secs) (fun _ _ => True).
Proof.
  apply (type1_op_triple c now _ _ [8]%nat Hc (proj1 I_auto_off) (proj2 I_auto_off)).
  intros args H. destruct (timedelta_to_hexadecimal_seconds secs) as [a|] eqn:E; cbn [bind] in H; [|discriminate].
  inversion H; subst. destruct (is_le32 _ (timedelta_enc _ _ E)) as [H1 H2].
  exists [a]. split; [reflexivity|]. split; [unfold widths; cbn [map]; rewrite H2; reflexivity|apply hexs1; exact H1].
Qed.

Theorem set_name_frames name : Forall (fun b => b < 256) name -> T Pre (set_device_name_op false c now name) (fun _ _ => True).
Proof.
  intros Hn. apply (type1_op_triple c now _ _ [64]%nat Hc (proj1 I_set_name) (proj2 I_set_name)).
  intros args H. destruct (string_to_hexadecimale_device_name false name) as [a|] eqn:E; cbn [bind] in H; [|discriminate].
  inversion H; subst. destruct (name_enc _ _ Hn E) as [H1 H2].
  exists [a]. split; [reflexivity|]. split; [unfold widths; cbn [map]; rewrite H2; reflexivity|apply hexs1; exact H1].
Qed.

Theorem get_schedules_frames : T Pre (get_schedules_op false c now) (fun _ _ => True).
Proof.
  apply (type1_op_triple c now _ _ []%nat Hc (proj1 I_get_schedules) (proj2 I_get_schedules)).
  intros args H. inversion H; subst. exists []. split; [reflexivity|]. split; [reflexivity|constructor].
Qed.

Theorem delete_frames slot : hexs slot -> length slot = 1%nat -> T Pre (delete_schedule_op false c now slot) (fun _ _ => True).
Proof.
  intros Hs Hl. apply (type1_op_triple c now _ _ [1]%nat Hc (proj1 I_delete) (proj2 I_delete)).
  intros args H. inversion H; subst. exists [slot]. split; [reflexivity|].
  split; [unfold widths; cbn [map]; rewrite Hl; reflexivity|apply hexs1; exact Hs].
Qed.
End Ops.

(* ---- create_schedule: the 11-byte record, then the frame ---- *)
Require Import AS.Proofs.WeekdayProofs.
Lemma I_record : holes_okb T_SCHEDULE_CREATE_DATA_FORMAT 3 = true /\
  (forallb (fun c => match c with K x => is_hexchar x | U _ _ => true end) (sym T_SCHEDULE_CREATE_DATA_FORMAT [2; 8; 8]%nat) &&
   (length (sym T_SCHEDULE_CREATE_DATA_FORMAT [2; 8; 8]%nat) =? 22)%nat)%bool = true.
Proof. vm_compute. split; reflexivity. Qed.

Lemma record_enc wd st en rec : hexs wd -> length wd = 2%nat -> hexs st -> length st = 8%nat -> hexs en -> length en = 8%nat ->
  format T_SCHEDULE_CREATE_DATA_FORMAT [AStr wd; AStr st; AStr en] = Ok rec -> hexs rec /\ length rec = 22%nat.
Proof.
  intros H1 L1 H2 L2 H3 L3 Hf.
  assert (Hw : widths [wd; st; en] [2; 8; 8]%nat) by (unfold widths; cbn [map]; rewrite L1, L2, L3; reflexivity).
  change [AStr wd; AStr st; AStr en] with (map AStr [wd; st; en]) in Hf.
  rewrite (format_strs _ [2; 8; 8]%nat [wd; st; en] (proj1 I_record) Hw) in Hf.
  assert (Hrec : rec = map (denote [wd; st; en]) (sym T_SCHEDULE_CREATE_DATA_FORMAT [2; 8; 8]%nat)) by congruence. subst rec. clear Hf.
  destruct I_record as [_ Hk]. apply andb_prop in Hk. destruct Hk as [Hhex Hlen]. split.
  - apply denote_hex; [constructor; [exact H1|constructor; [exact H2|constructor; [exact H3|constructor]]]|exact Hhex|apply U_in_range; exact Hw].
  - rewrite map_length. apply Nat.eqb_eq. exact Hlen.
Qed.

Definition days_ok (d : days_arg) : Prop :=
  match d with
  | ADay x => (x < n_days)%nat
  | ASet l => NoDup l /\ (forall x, In x l -> (x < n_days)%nat)
  | ASeq l => forall x, In x l -> (x < n_days)%nat
  end.

Lemma weekdays_enc d x : days_ok d -> weekdays_to_hexadecimal d = Ok x -> hexs x /\ length x = 2%nat.
Proof.
  intros Hd. destruct d as [y|l|l]; cbn [days_ok] in Hd.
  - cbn [weekdays_to_hexadecimal]. intros H; inversion H; subst.
    destruct (core_facts [y]) as [Hf [Hlt _]]; [discriminate|repeat constructor; intros []|intros z [<-|[]]; exact Hd|].
    unfold sum_bits in Hf, Hlt. cbn [fold_left] in Hf, Hlt. rewrite N.add_0_l in Hf, Hlt. rewrite Hf. apply hexbyte_hexs. exact Hlt.
  - destruct l as [|a l]; [discriminate|]. destruct Hd as [Hn Hb].
    rewrite (weekdays_encode_set (a :: l) ltac:(discriminate) Hn Hb). intros H; inversion H; subst.
    apply hexbyte_hexs. apply (core_facts (a :: l) ltac:(discriminate) Hn Hb).
  - destruct l as [|a l]; [discriminate|]. rewrite seq_unfold by discriminate.
    destruct (nodupb (a :: l)) eqn:E; [|discriminate]. apply nodupb_NoDup in E.
    intros H; inversion H; subst. destruct (core_facts (a :: l) ltac:(discriminate) E Hd) as [Hf [Hlt _]].
    rewrite Hf. apply hexbyte_hexs. exact Hlt.
Qed.

Section Ops2.
Variable c : cfg.
Hypothesis Hc : wf_cfg c.
Variable now : N.

Theorem create_frames day_base st en days : days_ok days -> T Pre (create_schedule_op false c now day_base st en days) (fun _ _ => True).
Proof.
  intros Hd. apply (type1_op_triple c now _ _ [22]%nat Hc (proj1 I_create) (proj2 I_create)).
  intros args H.
  destruct (time_to_hexadecimal_timestamp false day_base st) as [s|] eqn:Es; cbn [bind] in H; [|discriminate].
  destruct (time_to_hexadecimal_timestamp false day_base en) as [e|] eqn:Ee; cbn [bind] in H; [|discriminate].
  destruct (is_le32 _ (clock_enc _ _ _ _ Es)) as [S1 S2]. destruct (is_le32 _ (clock_enc _ _ _ _ Ee)) as [E1 E2].
  match type of H with (do wd <- ?W ;; _) = _ => destruct W as [wd|] eqn:Ew end; cbn [bind] in H; [|discriminate].
  assert (Hwd : hexs wd /\ length wd = 2%nat).
  { destruct days as [y|[|a l]|[|a l]]; try (inversion Ew; subst; apply non_recurring_hex); eapply weekdays_enc; eauto. }
  destruct (format T_SCHEDULE_CREATE_DATA_FORMAT [AStr wd; AStr s; AStr e]) as [rec|] eqn:Er; cbn [bind] in H; [|discriminate].
  inversion H; subst. destruct (record_enc wd s e rec (proj1 Hwd) (proj2 Hwd) S1 S2 E1 E2 Er) as [R1 R2].
  exists [rec]. split; [reflexivity|]. split; [unfold widths; cbn [map]; rewrite R2; reflexivity|apply hexs1; exact R1].
Qed.

Theorem stop_frames : T Pre (stop_op false c now) (fun _ _ => True).
Proof.
  apply (type2_op_triple c now _ [] []%nat Hc (proj1 I_stop) (proj2 I_stop)); [reflexivity|constructor].
Qed.

Theorem set_position_frames p : p < 256 -> T Pre (set_position_op false c now p) (fun _ _ => True).
Proof.
  intros Hp. unfold set_position_op. rewrite (fmt_02x_byte p Hp). destruct (hexbyte_hexs p Hp) as [H1 H2].
  change [AStr (hexbyte p)] with (map AStr [hexbyte p]).
  destruct (I_set_position 2 ltac:(lia) eq_refl) as [I1 I2].
  apply (type2_op_triple c now _ [hexbyte p] [2]%nat Hc I1 I2); [reflexivity|apply hexs1; exact H1].
Qed.

(* the three state queries: login, then (after a non-empty reply) one query frame; parsing writes nothing *)
Lemma query_triple t type2 : holes_okb t 3 = true -> c01_cells_ok (sym t [8; 8; 6]%nat) = true ->
  T Pre (perform l <- login c type2 now ;;
         if successful (lr_response l)
         then send_template t [AStr (lr_session l); AStr (lr_timestamp l); AStr (device_id c)] false
         else raise RuntimeError) (fun _ _ => True).
Proof.
  intros Hh Hk. eapply triple_bind; [apply login_triple; exact Hc|]. intros l. apply triple_pure. intros Hl.
  destruct (successful (lr_response l)); [|apply triple_raise].
  eapply triple_conseq; [apply send_template_triple| |].
  - change [AStr (lr_session l); AStr (lr_timestamp l); AStr (device_id c)] with (map AStr (hdr l c ++ [])).
    apply (fiw1 t ([8; 8; 6]%nat ++ [])); [exact Hh|exact Hk|apply hdr_widths; [assumption|assumption|reflexivity]|apply hdr_hexs; [assumption|assumption|constructor]].
  - intros st H. exact H.
  - auto.
Qed.
End Ops2.

(* ---- thermostat control: frames with an integer hole or a trailing argument of any length ---- *)
Lemma format_app t1 : forall t2 args, format (t1 ++ t2) args =
  (do a <- format t1 args ;; do b <- format t2 args ;; Ok (a ++ b)).
Proof.
  induction t1 as [|q t1 IH]; intros t2 args.
  - cbn [app format bind]. destruct (format t2 args); reflexivity.
  - cbn [app format]. rewrite IH. destruct (render_piece args q) as [a|]; cbn [bind]; [|reflexivity].
    destruct (format t1 args) as [b|]; cbn [bind]; [|reflexivity].
    destruct (format t2 args) as [d|]; cbn [bind]; [|reflexivity]. rewrite app_assoc. reflexivity.
Qed.

Lemma hexdigit_hex k : k < 16 -> is_hexchar (hexdigit k) = true.
Proof. intros Hk. unfold is_hexchar. rewrite nib_hexdigit by exact Hk. reflexivity. Qed.
Lemma hex_digits_fuel_hexs fuel : forall n acc, hexs acc -> hexs (hex_digits_fuel fuel n acc).
Proof.
  induction fuel as [|k IH]; intros n acc Ha; [exact Ha|]. cbn [hex_digits_fuel].
  destruct (N.ltb_spec n 16).
  - constructor; [apply hexdigit_hex; exact H|exact Ha].
  - apply IH. constructor; [apply hexdigit_hex, N.mod_lt; discriminate|exact Ha].
Qed.
Lemma fmt_02x_hexs n : hexs (fmt_02x n).
Proof.
  unfold fmt_02x, fmt_x. destruct (_ <? 2)%nat; [constructor; [reflexivity|]|]; apply hex_digits_fuel_hexs; constructor.
Qed.

Definition lits_hexb (t : template) : bool := forallb (fun p => match p with Lit s => forallb is_hexchar s | _ => true end) t.
Definition strs_hex (args : list farg) : Prop := forall s, In (AStr s) args -> hexs s.

Lemma format_hexs t : forall args p, lits_hexb t = true -> strs_hex args -> format t args = Ok p -> hexs p.
Proof.
  induction t as [|q t IH]; intros args p Hl Ha H.
  - cbn in H. inversion H. constructor.
  - cbn [format] in H. cbn [lits_hexb forallb] in Hl. apply andb_prop in Hl. destruct Hl as [Hq Hl].
    destruct (render_piece args q) as [a|] eqn:Ea; cbn [bind] in H; [|discriminate].
    destruct (format t args) as [b|] eqn:Eb; cbn [bind] in H; [|discriminate]. inversion H; subst.
    apply Forall_app. split; [|eapply IH; eauto].
    destruct q as [s|i|i]; cbn [render_piece] in Ea.
    + inversion Ea; subst. apply Forall_forall. apply forallb_forall. exact Hq.
    + destruct (nth_error args i) as [[s|n]|] eqn:En; try discriminate. inversion Ea; subst.
      apply Ha. eapply nth_error_In. exact En.
    + destruct (nth_error args i) as [[s|n]|] eqn:En; try discriminate. inversion Ea; subst. apply fmt_02x_hexs.
Qed.

(* a type-2 frame is good whenever its rendered text is hex and starts with an 80-character header that carries
   magic and terminator: the length is rewritten, an odd or over-long text is never written *)
Lemma fiw2_prefix t args :
  (forall p, format t args = Ok p -> hexs p /\ (80 <= length p)%nat /\ pyslice 0 4 p = s2l "fef0" /\ pyslice 76 80 p = s2l "f0fe") ->
  frame_if_written t args true.
Proof.
  intros Hpre p p' out bs Hf Hsl Hs Hu. destruct (Hpre p Hf) as [Hh [Hlen [H0 H76]]].
  unfold set_message_length in Hsl.
  destruct (unhexlify (p ++ s2l "00000000")) as [bin|] eqn:Eb; cbn [of_option bind] in Hsl; [|discriminate].
  cbn [negb andb] in Hsl. destruct (N.leb_spec 65536 (N.of_nat (length bin))) as [Hbig|Hsmall]; [discriminate|].
  pose proof (unhexlify_length _ _ Eb) as Hl2. rewrite app_length in Hl2. change (length (s2l "00000000")) with 8%nat in Hl2.
  assert (Hev : Nat.even (length p) = true).
  { replace (length p) with (2 * (length bin - 4))%nat by lia. rewrite Nat.even_mul. reflexivity. }
  destruct (unhexlify_total p Hh Hev) as [b Hb].
  pose proof (unhexlify_length _ _ Hb) as Hlb.
  assert (Hn : N.of_nat (length b + 4) < 65536) by lia.
  destruct (sealed_frame_ok p b Hb Hlen H0 H76 Hn) as [q [b' [Hq [Hb' [_ [Hsq [Huq Hok]]]]]]].
  assert (Hq' : set_message_length false p = Ok p').
  { unfold set_message_length. rewrite Eb. cbn [of_option bind negb andb].
    destruct (N.leb_spec 65536 (N.of_nat (length bin))); [lia|exact Hsl]. }
  assert (q = p') by congruence. subst q. congruence.
Qed.

(* the 80-character header shared by the type-2 command templates: pieces 0-4 *)
Definition header_okb (t : template) : bool :=
  let cs := sym (firstn 5 t) [8; 8]%nat in
  holes_okb (firstn 5 t) 2 && (length cs =? 80)%nat &&
  known_at cs 0 (s2l "fef0") && known_at cs 76 (s2l "f0fe") && lits_hexb t.

Lemma nth_error_strs rs i s rest : nth_error rs i = Some s -> nth_error (map AStr rs ++ rest) i = Some (AStr s).
Proof. intros H. rewrite nth_error_app1 by (rewrite map_length; apply nth_error_Some; congruence). apply map_nth_error. exact H. Qed.

Lemma header_facts t sess ts rest : header_okb t = true -> length sess = 8%nat -> length ts = 8%nat ->
  hexs sess -> hexs ts -> strs_hex rest ->
  forall p, format t ([AStr sess; AStr ts] ++ rest) = Ok p ->
    hexs p /\ (80 <= length p)%nat /\ pyslice 0 4 p = s2l "fef0" /\ pyslice 76 80 p = s2l "f0fe".
Proof.
  intros Hk L1 L2 H1 H2 Hr p Hf. unfold header_okb in Hk.
  repeat (apply andb_prop in Hk; let H' := fresh "K" in destruct Hk as [Hk H']).
  rename K into Klits, K0 into K76, K1 into K0, K2 into Klen. rename Hk into Kholes.
  assert (Hhex : hexs p).
  { apply (format_hexs t ([AStr sess; AStr ts] ++ rest) p Klits); [|exact Hf]. intros s [E|[E|Hin]]; [inversion E; subst; exact H1|inversion E; subst; exact H2|apply Hr, Hin]. }
  rewrite <- (firstn_skipn 5 t), format_app in Hf.
  assert (Hh : format (firstn 5 t) ([AStr sess; AStr ts] ++ rest) = Ok (map (denote [sess; ts]) (sym (firstn 5 t) [8; 8]%nat))).
  { apply sym_sound.
    - intros q Hq. unfold holes_okb in Kholes. rewrite forallb_forall in Kholes. specialize (Kholes q Hq).
      destruct q as [s|i|i]; [exact I| |discriminate]. apply Nat.ltb_lt in Kholes.
      destruct i as [|[|i]]; [exists sess|exists ts|cbn in Kholes; lia]; split; reflexivity.
    - intros q i Hq Hi. unfold holes_okb in Kholes. rewrite forallb_forall in Kholes. specialize (Kholes q Hq).
      destruct Hi as [-> | ->]; [|discriminate]. apply Nat.ltb_lt in Kholes.
      destruct i as [|[|i]]; [exact L1|exact L2|cbn in Kholes; lia]. }
  rewrite Hh in Hf. cbn [bind] in Hf.
  destruct (format (skipn 5 t) ([AStr sess; AStr ts] ++ rest)) as [b|]; cbn [bind] in Hf; [|discriminate].
  assert (Hp : p = map (denote [sess; ts]) (sym (firstn 5 t) [8; 8]%nat) ++ b) by congruence.
  set (a := map (denote [sess; ts]) (sym (firstn 5 t) [8; 8]%nat)) in *.
  assert (La : length a = 80%nat) by (unfold a; rewrite map_length; apply Nat.eqb_eq; exact Klen).
  split; [exact Hhex|]. subst p. split; [rewrite app_length; lia|]. split.
  - rewrite pyslice_app_l by lia. exact (known_at_sound [sess; ts] _ 0 (s2l "fef0") K0).
  - rewrite pyslice_app_l by lia. exact (known_at_sound [sess; ts] _ 76 (s2l "f0fe") K76).
Qed.

Lemma H_breeze_command : header_okb T_BREEZE_COMMAND_PACKET = true. Proof. vm_compute. reflexivity. Qed.
Lemma H_breeze_status : header_okb T_BREEZE_UPDATE_STATUS_PACKET = true. Proof. vm_compute. reflexivity. Qed.

Definition Any (st : io) : Prop := True.
Lemma send_any t args fix_len : frame_if_written t args fix_len -> T Any (send_template_gen false t args fix_len) (fun _ => Any).
Proof. intros H. eapply triple_conseq; [apply (send_template_triple Any), H|auto|intros; exact I]. Qed.
Lemma ret_any {A} (a : A) : T Any (ret a) (fun _ => Any).
Proof. eapply triple_conseq; [apply (triple_ret okf Any)|auto|intros; exact I]. Qed.
Lemma lift_any {A} (r : result A) (k : A -> Prop) : (forall a, r = Ok a -> k a) -> T Any (lift r) (fun a st => k a /\ Any st).
Proof. intros H. eapply triple_conseq; [apply (triple_lift okf Any)|auto|]. intros a st [E _]. split; [apply H, E|exact I]. Qed.

(* table values are hex *)
Definition table_hexb (t : list (string * string * string)) : bool := forallb (fun '(_, v, _) => forallb is_hexchar (s2l v)) t.
Lemma value_of_hexs t n : table_hexb t = true -> hexs (value_of n t).
Proof.
  intros H. induction t as [|[[n' v] d] t IH]; [constructor|]. cbn [value_of]. cbn [table_hexb forallb] in H.
  apply andb_prop in H. destruct H as [Hv H]. destruct (String.eqb n n'); [apply Forall_forall; apply forallb_forall; exact Hv|apply IH, H].
Qed.
Lemma modes_hex : table_hexb thermostat_modes = true. Proof. vm_compute. reflexivity. Qed.
Lemma fans_hex : table_hexb fan_levels = true. Proof. vm_compute. reflexivity. Qed.

(* IR texts are bytes *)
Definition remote_wf (r : remote) : Prop :=
  forall k p h, In (k, (p, h)) (r_map r) -> Forall (fun b => b < 256) p /\ Forall (fun b => b < 256) h.
Lemma map_get_in k m v : map_get k m = Some v -> exists k', In (k', v) m.
Proof.
  induction m as [|[k' v'] m IH]; [discriminate|]. cbn [map_get].
  destruct (map_get k m) as [v''|] eqn:E.
  - intros H. inversion H; subst. destruct (IH eq_refl) as [k0 Hin]. exists k0. right. exact Hin.
  - destruct (bytes_eq_dec k k'); [|discriminate]. intros H; inversion H; subst. exists k'. left. reflexivity.
Qed.
Lemma ir_text_hexs p h : Forall (fun b => b < 256) p -> Forall (fun b => b < 256) h ->
  hexs (s2l "00000000" ++ hexlify (p ++ [124] ++ h)).
Proof.
  intros Hp Hh. apply Forall_app. split; [apply Forall_forall; apply forallb_forall; vm_compute; reflexivity|].
  apply hexlify_hexs. apply Forall_app. split; [exact Hp|]. constructor; [reflexivity|exact Hh].
Qed.
Lemma len_field_hexs cmd len : breeze_command_length false cmd = Ok len -> hexs len.
Proof.
  unfold breeze_command_length. destruct (65536 <=? _); [discriminate|]. intros H.
  assert (E : len = hexlify (le16 (N.of_nat (length cmd / 2)))) by congruence. rewrite E. apply hexlify_hexs, le16_bytes.
Qed.
Lemma build_command_hexs r st md tg fn sw cur cl : remote_wf r ->
  build_command false r st md tg fn sw cur = Ok cl -> hexs (fst cl) /\ hexs (snd cl).
Proof.
  intros Hr. unfold build_command. cbv zeta.
  destruct (negb (existsb (String.eqb md) (r_supported r))); [discriminate|].
  match goal with |- (do cmd <- command_of r ?K ;; _) = _ -> _ => generalize K end. intros key.
  unfold command_of. destruct (map_get (concat key) (r_map r)) as [[p h]|] eqn:E; cbn [bind]; [|discriminate].
  destruct (breeze_command_length false _) as [len|] eqn:El; cbn [bind]; [|discriminate].
  intros H; inversion H; subst. cbn [fst snd]. destruct (map_get_in _ _ _ E) as [k' Hin]. destruct (Hr _ _ _ Hin) as [Hp Hh].
  split; [apply ir_text_hexs; assumption|eapply len_field_hexs; exact El].
Qed.
Lemma build_swing_hexs r sw cl : remote_wf r -> build_swing_command false r sw = Ok cl -> hexs (fst cl) /\ hexs (snd cl).
Proof.
  intros Hr. unfold build_swing_command. destruct (map_get _ (r_map r)) as [[p h]|] eqn:E; [|discriminate].
  destruct (breeze_command_length false _) as [len|] eqn:El; cbn [bind]; [|discriminate].
  intros H; inversion H; subst. cbn [fst snd]. destruct (map_get_in _ _ _ E) as [k' Hin]. destruct (Hr _ _ _ Hin) as [Hp Hh].
  split; [apply ir_text_hexs; assumption|eapply len_field_hexs; exact El].
Qed.

Lemma sh_nil : strs_hex []. Proof. intros s []. Qed.
Lemma sh_str s rest : hexs s -> strs_hex rest -> strs_hex (AStr s :: rest).
Proof. intros H Hr x [E|Hin]; [congruence|apply Hr, Hin]. Qed.
Lemma sh_int n rest : strs_hex rest -> strs_hex (AInt n :: rest).
Proof. intros Hr x [E|Hin]; [discriminate|apply Hr, Hin]. Qed.
Lemma lit_hexs (s : string) : forallb is_hexchar (s2l s) = true -> hexs (s2l s).
Proof. intros H. apply Forall_forall. apply forallb_forall. exact H. Qed.

Section Breeze.
Variable c : cfg.
Hypothesis Hc : wf_cfg c.
Variable now : N.

Lemma fiw_breeze t l rest : header_okb t = true -> login_ok l -> strs_hex rest ->
  frame_if_written t ([AStr (lr_session l); AStr (lr_timestamp l)] ++ rest) true.
Proof.
  intros Hk Hl Hr. apply fiw2_prefix. apply header_facts; [exact Hk|apply Hl|apply Hl|apply Hl|apply Hl|exact Hr].
Qed.

Theorem breeze_frames r state mode target fan swing update : remote_wf r ->
  T Pre (control_breeze_device false c now r state mode target fan swing update) (fun _ _ => True).
Proof.
  intros Hr. unfold control_breeze_device.
  eapply triple_bind; [apply login_triple; exact Hc|]. intros l. apply triple_pure. intros Hl.
  eapply triple_conseq with (P' := Any) (Q' := fun _ => Any); [|intros; exact I|auto].
  destruct (negb (successful (lr_response l))); [apply triple_raise|]. cbv zeta.
  assert (Hcmd : forall cl, hexs (fst cl) -> hexs (snd cl) ->
            frame_if_written T_BREEZE_COMMAND_PACKET
              [AStr (lr_session l); AStr (lr_timestamp l); AStr (device_id c); AStr (snd cl); AStr (fst cl)] true).
  { intros cl H1 H2. apply (fiw_breeze T_BREEZE_COMMAND_PACKET l [AStr (device_id c); AStr (snd cl); AStr (fst cl)] H_breeze_command Hl).
    apply sh_str; [apply Hc|]. apply sh_str; [exact H2|]. apply sh_str; [exact H1|apply sh_nil]. }
  eapply triple_bind with (Q := fun _ => Any).
  - match goal with |- T _ (if ?b then _ else _) _ => destruct b end; [|apply ret_any].
    eapply triple_bind with (Q := fun _ => Any).
    + apply send_any.
      change [AStr (lr_session l); AStr (lr_timestamp l); AStr (device_id c)] with (map AStr (hdr l c ++ [])).
      apply (fiw1 T_GET_STATE_PACKET2_TYPE2 ([8; 8; 6]%nat ++ [])); [exact (proj1 I_get_state2)|exact (proj2 I_get_state2)| |].
      * apply hdr_widths; [exact Hl|exact Hc|reflexivity].
      * apply hdr_hexs; [exact Hl|exact Hc|constructor].
    + intros state_resp. destruct (parse_thermostat_reply state_resp) as [cur|e]; [|destruct (_ || _)%bool; apply triple_raise].
      destruct (negb (successful state_resp)); [apply triple_raise|].
      eapply triple_bind with (Q := fun _ => Any).
      * destruct update.
        -- apply send_any.
           apply (fiw_breeze T_BREEZE_UPDATE_STATUS_PACKET l _ H_breeze_status Hl).
           apply sh_str; [apply Hc|].
           apply sh_str; [destruct (or_else state (tf_on cur)); apply lit_hexs; reflexivity|].
           apply sh_str; [apply value_of_hexs, modes_hex|]. apply sh_int.
           apply sh_str; [apply value_of_hexs, fans_hex|].
           apply sh_str; [|apply sh_nil].
           match goal with |- hexs (s2l (if ?b then _ else _)) => destruct b end; apply lit_hexs; reflexivity.
        -- eapply triple_bind; [apply (lift_any _ (fun cl => hexs (fst cl) /\ hexs (snd cl)))|].
           ++ intros cl E. eapply build_command_hexs; [exact Hr|exact E].
           ++ intros cl. apply triple_pure. intros [H1 H2]. apply send_any. apply Hcmd; assumption.
      * intros resp. destruct (successful resp); [apply ret_any|apply triple_raise].
  - intros cmd_response. eapply triple_bind with (Q := fun _ => Any).
    + destruct (r_sep r && is_some swing && negb update)%bool; [|apply ret_any].
      eapply triple_bind; [apply (lift_any _ (fun cl => hexs (fst cl) /\ hexs (snd cl)))|].
      * intros cl E. eapply build_swing_hexs; [exact Hr|exact E].
      * intros cl. apply triple_pure. intros [H1 H2].
        eapply triple_bind with (Q := fun _ => Any); [apply send_any, Hcmd; assumption|]. intros resp. apply ret_any.
    + intros final. destruct final; [apply ret_any|apply triple_raise].
Qed.
End Breeze.

(* ---- computations that write nothing ---- *)
Lemma silent_triple {A} (m : M A) : (forall st, frames (fst (m st)) = frames st) -> T Any m (fun _ => Any).
Proof.
  intros H st _ Hg. specialize (H st). unfold good in *. destruct (m st) as [st' [a|e]]; cbn [fst] in H; rewrite H.
  - split; [exact Hg|exact I].
  - exact Hg.
Qed.
Lemma mapM_triple {A B} P (f : A -> B) (m : M A) Q : T P m Q -> T P (mapM f m) (fun _ _ => True).
Proof.
  intros H. unfold mapM. eapply triple_bind; [exact H|]. intros a st _ Hg. cbn. auto.
Qed.

Section Queries.
Variable c : cfg.
Hypothesis Hc : wf_cfg c.
Variable now : N.

Lemma fiw_query t l : holes_okb t 3 = true -> c01_cells_ok (sym t [8; 8; 6]%nat) = true -> login_ok l ->
  frame_if_written t [AStr (lr_session l); AStr (lr_timestamp l); AStr (device_id c)] false.
Proof.
  intros Hh Hk Hl. change [AStr (lr_session l); AStr (lr_timestamp l); AStr (device_id c)] with (map AStr (hdr l c ++ [])).
  apply (fiw1 t ([8; 8; 6]%nat ++ [])); [exact Hh|exact Hk|apply hdr_widths; [exact Hl|exact Hc|reflexivity]|apply hdr_hexs; [exact Hl|exact Hc|constructor]].
Qed.

Theorem get_breeze_state_frames : T Pre (get_breeze_state c now) (fun _ _ => True).
Proof.
  unfold get_breeze_state. eapply triple_bind; [apply login_triple; exact Hc|]. intros l. apply triple_pure. intros Hl.
  eapply triple_conseq with (P' := Any) (Q' := fun _ => Any); [|intros; exact I|auto].
  destruct (successful (lr_response l)); [|apply triple_raise].
  eapply triple_bind; [apply send_any, (fiw_query _ l (proj1 I_get_state2) (proj2 I_get_state2) Hl)|].
  intros state_resp. apply silent_triple. intros st. unfold wrap_parse, bindM, ret, raise.
  destruct (parse_thermostat_reply state_resp) as [r|e]; [reflexivity|]. destruct (_ || _)%bool; reflexivity.
Qed.
Theorem get_shutter_state_frames : T Pre (get_shutter_state c now) (fun _ _ => True).
Proof.
  unfold get_shutter_state. eapply triple_bind; [apply login_triple; exact Hc|]. intros l. apply triple_pure. intros Hl.
  eapply triple_conseq with (P' := Any) (Q' := fun _ => Any); [|intros; exact I|auto].
  destruct (successful (lr_response l)); [|apply triple_raise].
  eapply triple_bind; [apply send_any, (fiw_query _ l (proj1 I_get_state2) (proj2 I_get_state2) Hl)|].
  intros state_resp. apply silent_triple. intros st. unfold wrap_parse, bindM, ret, raise.
  destruct (parse_shutter_reply state_resp) as [r|e]; [reflexivity|]. destruct (_ || _)%bool; reflexivity.
Qed.
Theorem get_state_frames : T Pre (get_state_full c now) (fun _ _ => True).
Proof.
  unfold get_state_full. eapply triple_bind; [apply login_triple; exact Hc|]. intros l. apply triple_pure. intros Hl.
  eapply triple_conseq with (P' := Any) (Q' := fun _ => Any); [|intros; exact I|auto].
  destruct (successful (lr_response l)); [|apply triple_raise].
  eapply triple_bind; [apply send_any, (fiw_query _ l (proj1 I_get_state1) (proj2 I_get_state1) Hl)|].
  intros state_resp. apply silent_triple. intros st. unfold ret, raise.
  destruct (parse_state_reply state_resp) as [r|e]; [destruct (successful state_resp); reflexivity|]. destruct (_ || _)%bool; reflexivity.
Qed.
Theorem get_schedules_full_frames : T Pre (get_schedules_full c now) (fun _ _ => True).
Proof.
  unfold get_schedules_full. eapply triple_bind; [apply (get_schedules_frames c Hc now)|]. intros resp.
  eapply triple_conseq with (P' := Any) (Q' := fun _ => Any); [|intros; exact I|auto].
  apply silent_triple. intros st. destruct (ScheduleParser.get_schedules _ _ _ _ resp); reflexivity.
Qed.
End Queries.

(* ---- C01 over the whole operation datatype ---- *)
Definition accepted (o : op) : Prop :=
  match o with
  | OSetName name => Forall (fun b => b < 256) name            (* text as UTF-8 bytes *)
  | ODelete slot => hexs slot /\ length slot = 1%nat            (* one character '0'..'7' *)
  | OCreate _ _ _ days => days_ok days                          (* Days members, a set has no duplicates *)
  | OSetPosition p => p < 256
  | OBreeze r _ _ _ _ _ _ => remote_wf r                       (* IR texts are byte strings *)
  | _ => True
  end.

Theorem all_operations_frames c now o script : wf_cfg c -> accepted o -> wfs script -> (12 <= length (hd [] script))%nat ->
  Forall okf (fst (Exchange.run (run_op c now o) script)).
Proof.
  intros Hc Ha Hw Hl.
  apply (triple_run okf Pre (run_op c now o) (fun _ _ => True)); [|split; assumption].
  destruct o; cbn [run_op accepted] in *; eapply mapM_triple.
  - apply control_frames; exact Hc.
  - apply auto_shutdown_frames; exact Hc.
  - apply set_name_frames; assumption.
  - apply get_schedules_full_frames; exact Hc.
  - apply delete_frames; [exact Hc|apply Ha|apply Ha].
  - apply create_frames; assumption.
  - apply stop_frames; exact Hc.
  - apply set_position_frames; assumption.
  - apply get_shutter_state_frames; exact Hc.
  - apply get_breeze_state_frames; exact Hc.
  - apply get_state_frames; exact Hc.
  - apply breeze_frames; assumption.
Qed.
Print Assumptions all_operations_frames.
