(* C03: every command frame of the Spec carries the session, the timestamp and the device id it was built from *)
Require Import AS.Base.Prelude AS.Base.Hex AS.Base.Template AS.Base.Layout AS.Spec.Sign AS.Spec.Frame AS.Spec.FrameLayout AS.Spec.FrameSpec
  AS.Proofs.HexSlices AS.Proofs.FrameProofs AS.Proofs.FrameAll.
Open Scope N_scope.

Lemma unhexlify_hexlify_app x : Forall (fun b => b < 256) x -> forall r b, unhexlify (hexlify x ++ r) = Some b ->
  exists rb, unhexlify r = Some rb /\ b = x ++ rb.
Proof.
  induction 1 as [|a x Ha _ IH]; intros r b H.
  - exists b. split; [exact H|reflexivity].
  - cbn [hexlify flat_map hexbyte app unhexlify] in H. fold (hexlify x) in H.
    rewrite !nib_hexdigit in H by (try (apply N.mod_lt; discriminate); apply N.div_lt_upper_bound; lia).
    destruct (unhexlify (hexlify x ++ r)) as [b'|] eqn:E; [|discriminate].
    destruct (IH r b' E) as [rb [Hr ->]]. exists rb. split; [exact Hr|].
    assert (Hb : b = 16 * (a / 16) + a mod 16 :: x ++ rb) by congruence. rewrite Hb. cbn [app]. f_equal.
    pose proof (N.div_mod a 16). lia.
Qed.

Lemma le16_b x : Forall (fun b => b < 256) (le16 x). Proof. unfold le16. repeat constructor; apply N.mod_lt; discriminate. Qed.
Lemma le32_b x : Forall (fun b => b < 256) (le32 x). Proof. unfold le32. repeat constructor; apply N.mod_lt; discriminate. Qed.
Lemma zeros_b n : Forall (fun b => b < 256) (zeros n). Proof. unfold zeros. induction n; cbn; constructor; [reflexivity|assumption]. Qed.

(* sealing touches bytes 2-3 and appends: the three fields stay where they are *)
Lemma seal_keeps b lo hi : (4 <= lo)%nat -> (lo <= hi)%nat -> (hi <= length b)%nat -> pyslice lo hi (seal b) = pyslice lo hi b.
Proof.
  intros Hlo Hle Hhi. unfold seal.
  assert (Hl : length (firstn 2 b ++ le16 (N.of_nat (length b + 4)) ++ skipn 4 b) = length b).
  { rewrite !app_length, firstn_length, skipn_length. cbn [length le16]. lia. }
  rewrite pyslice_app_l by lia.
  unfold pyslice. rewrite app_assoc, skipn_app.
  assert (Hp : length (firstn 2 b ++ le16 (N.of_nat (length b + 4))) = 4%nat) by (rewrite app_length, firstn_length; cbn [length le16]; lia).
  rewrite Hp. rewrite skipn_all2 by lia. cbn [app]. rewrite skipn_skipn'. replace (4 + (lo - 4))%nat with lo by lia. reflexivity.
Qed.

Section Fields.
Variables (len : N) (proto cmd sub sess idb : bytes) (now : N) (restL : list sfield) (args : list farg).
Hypothesis Lp : length proto = 2%nat.  Hypothesis Lc : length cmd = 2%nat.  Hypothesis Lsub : length sub = 2%nat.
Hypothesis Ls : length sess = 4%nat.   Hypothesis Li : length idb = 3%nat.
Hypothesis Bp : Forall (fun b => b < 256) proto.  Hypothesis Bc : Forall (fun b => b < 256) cmd.  Hypothesis Bsub : Forall (fun b => b < 256) sub.
Hypothesis Bs : Forall (fun b => b < 256) sess.   Hypothesis Bi : Forall (fun b => b < 256) idb.

Let L := header len proto cmd sub ++ SA 2 :: restL.
Let A := hdr_args sess now idb ++ args.

Theorem body_fields b : render_layout L A = Some b ->
  pyslice 8 12 b = sess /\ pyslice 24 28 b = le32 now /\ pyslice 40 43 b = idb /\ (43 <= length b)%nat.
Proof.
  unfold render_layout, L, A, header, hdr_args, arg_of_bytes. unfold spec_template. rewrite map_app. cbn [map app].
  cbn [format render_piece nth_error bind].
  destruct (format (map (fun f => match f with SB bs => Lit (hexlify bs) | SH h => Lit (s2l h) | SA i => Hole i | SX i => HoleHex2 i end) restL)
                   (AStr (hexlify sess) :: AStr (hexlify (le32 now)) :: AStr (hexlify idb) :: args)) as [resthex|]; cbn [bind]; [|discriminate].
  intros H.
  assert (L0 : length ([254; 240] ++ le16 len ++ proto ++ cmd) = 8%nat) by (rewrite !app_length, Lp, Lc; reflexivity).
  assert (L1 : length (sub ++ [1; 0] ++ zeros 8) = 12%nat) by (rewrite !app_length, Lsub; reflexivity).
  assert (L2 : length (zeros 10 ++ [240; 254]) = 12%nat) by reflexivity.
  assert (F0 : Forall (fun b => b < 256) ([254; 240] ++ le16 len ++ proto ++ cmd))
    by (repeat (apply Forall_app; split); try assumption; try apply le16_b; repeat constructor).
  assert (F1 : Forall (fun b => b < 256) (sub ++ [1; 0] ++ zeros 8))
    by (repeat (apply Forall_app; split); try assumption; try apply zeros_b; repeat constructor).
  assert (F2 : Forall (fun b => b < 256) (zeros 10 ++ [240; 254]))
    by (repeat (apply Forall_app; split); try apply zeros_b; repeat constructor).
  change (unhexlify (hexlify ([254; 240] ++ le16 len ++ proto ++ cmd) ++ hexlify sess ++ hexlify (sub ++ [1; 0] ++ zeros 8) ++
                     hexlify (le32 now) ++ hexlify (zeros 10 ++ [240; 254]) ++ hexlify idb ++ resthex) = Some b) in H.
  remember ([254; 240] ++ le16 len ++ proto ++ cmd) as B0 eqn:E0. remember (sub ++ [1; 0] ++ zeros 8) as B1 eqn:E1.
  remember (zeros 10 ++ [240; 254]) as B2 eqn:E2. clear E0 E1 E2.
  assert (E : hexlify B0 ++ hexlify sess ++ hexlify B1 ++ hexlify (le32 now) ++ hexlify B2 ++ hexlify idb ++ resthex
              = hexlify (B0 ++ sess ++ B1 ++ le32 now ++ B2 ++ idb) ++ resthex).
  { rewrite !hexlify_app, <- !app_assoc. reflexivity. }
  rewrite E in H.
  destruct (unhexlify_hexlify_app (B0 ++ sess ++ B1 ++ le32 now ++ B2 ++ idb)) with (r := resthex) (b := b) as [rb [_ Hb]]; [|exact H|].
  { repeat (apply Forall_app; split); try assumption; apply le32_b. }
  assert (Hc : b = concat [B0; sess; B1; le32 now; B2; idb; rb]) by (rewrite Hb; cbn [concat]; rewrite <- !app_assoc, app_nil_r; reflexivity).
  rewrite Hc. split; [|split; [|split]].
  - apply (slice_segment [B0; sess; B1; le32 now; B2; idb; rb] 1); [cbn; lia|cbn [offset]; lia|cbn [offset nth]; lia].
  - apply (slice_segment [B0; sess; B1; le32 now; B2; idb; rb] 3); [cbn; lia|cbn [offset]; lia|cbn [offset nth length le32]; lia].
  - apply (slice_segment [B0; sess; B1; le32 now; B2; idb; rb] 5); [cbn; lia|cbn [offset length le32]; lia|cbn [offset nth length le32]; lia].
  - cbn [concat]. rewrite !app_length. cbn [length le32]. lia.
Qed.

Theorem frame_fields CF : frame_of L A = Frame CF ->
  pyslice 8 12 CF = sess /\ pyslice 24 28 CF = le32 now /\ pyslice 40 43 CF = idb.
Proof.
  unfold frame_of. destruct (render_layout L A) as [b|] eqn:E; [|discriminate]. intros H.
  assert (CF = seal b) by congruence. subst CF. destruct (body_fields b E) as [F1 [F2 [F3 Hlen]]].
  rewrite !seal_keeps by lia. auto.
Qed.
End Fields.
Print Assumptions frame_fields.

(* the two login frames: zero session, the timestamp, then the credential (key for type 1, device id for type 2) *)
Section Login.
Variables (len : N) (proto cmd sub cred tail : bytes) (now : N).
Hypothesis Lp : length proto = 2%nat.  Hypothesis Lc : length cmd = 2%nat.  Hypothesis Lsub : length sub = 2%nat.
Hypothesis Bp : Forall (fun b => b < 256) proto.  Hypothesis Bc : Forall (fun b => b < 256) cmd.  Hypothesis Bsub : Forall (fun b => b < 256) sub.
Hypothesis Bcred : Forall (fun b => b < 256) cred.  Hypothesis Btail : Forall (fun b => b < 256) tail.

Theorem login_frame_fields LF :
  frame_of (login_header len proto cmd sub ++ [SA 1; SB tail]) [arg_of_bytes (le32 now); arg_of_bytes cred] = Frame LF ->
  pyslice 8 12 LF = [0; 0; 0; 0] /\ pyslice 24 28 LF = le32 now /\ pyslice 40 (40 + length cred) LF = cred.
Proof.
  unfold frame_of, render_layout, login_header, arg_of_bytes, spec_template. cbn [map app format render_piece nth_error bind].
  rewrite app_nil_r.
  assert (L0 : length ([254; 240] ++ le16 len ++ proto ++ cmd ++ zeros 4 ++ sub ++ [1; 0] ++ zeros 8) = 24%nat)
    by (rewrite !app_length, Lp, Lc, Lsub; reflexivity).
  assert (F0 : Forall (fun b => b < 256) ([254; 240] ++ le16 len ++ proto ++ cmd ++ zeros 4 ++ sub ++ [1; 0] ++ zeros 8))
    by (repeat (apply Forall_app; split); try assumption; try apply le16_b; try apply zeros_b; repeat constructor).
  assert (Z4 : pyslice 8 12 ([254; 240] ++ le16 len ++ proto ++ cmd ++ zeros 4 ++ sub ++ [1; 0] ++ zeros 8) = [0; 0; 0; 0]).
  { destruct proto as [|p0 [|p1 [|? ?]]]; try discriminate. destruct cmd as [|c0 [|c1 [|? ?]]]; try discriminate. reflexivity. }
  assert (L2 : length (zeros 10 ++ [240; 254]) = 12%nat) by reflexivity.
  assert (F2 : Forall (fun b => b < 256) (zeros 10 ++ [240; 254])) by (repeat (apply Forall_app; split); try apply zeros_b; repeat constructor).
  change (match unhexlify (hexlify ([254; 240] ++ le16 len ++ proto ++ cmd ++ zeros 4 ++ sub ++ [1; 0] ++ zeros 8) ++ hexlify (le32 now) ++
                           hexlify (zeros 10 ++ [240; 254]) ++ hexlify cred ++ hexlify tail) with Some b => Frame (seal b) | None => Unspecified end = Frame LF -> 
          pyslice 8 12 LF = [0; 0; 0; 0] /\ pyslice 24 28 LF = le32 now /\ pyslice 40 (40 + length cred) LF = cred).
  remember ([254; 240] ++ le16 len ++ proto ++ cmd ++ zeros 4 ++ sub ++ [1; 0] ++ zeros 8) as B0 eqn:E0.
  remember (zeros 10 ++ [240; 254]) as B2 eqn:E2. clear E0 E2.
  replace (hexlify B0 ++ hexlify (le32 now) ++ hexlify B2 ++ hexlify cred ++ hexlify tail)
    with (hexlify (B0 ++ le32 now ++ B2 ++ cred ++ tail)) by (rewrite !hexlify_app; reflexivity).
  rewrite unhexlify_hexlify by (repeat (apply Forall_app; split); try assumption; apply le32_b).
  intros H. assert (LF = seal (B0 ++ le32 now ++ B2 ++ cred ++ tail)) by congruence. subst LF.
  assert (Hlen : length (B0 ++ le32 now ++ B2 ++ cred ++ tail) = (40 + length cred + length tail)%nat)
    by (rewrite !app_length, L0, L2; cbn [length le32]; lia).
  rewrite !seal_keeps by lia.
  change (B0 ++ le32 now ++ B2 ++ cred ++ tail) with (concat [B0; le32 now; B2; cred] ++ tail) || idtac.
  assert (Hc : B0 ++ le32 now ++ B2 ++ cred ++ tail = concat [B0; le32 now; B2; cred; tail]) by (cbn [concat]; rewrite app_nil_r; reflexivity).
  rewrite Hc. split; [|split].
  - rewrite <- Z4. cbn [concat]. rewrite pyslice_app_l by lia. reflexivity.
  - apply (slice_segment [B0; le32 now; B2; cred; tail] 1); [cbn; lia|cbn [offset]; lia|cbn [offset nth length le32]; lia].
  - apply (slice_segment [B0; le32 now; B2; cred; tail] 3); [cbn; lia|cbn [offset length le32]; lia|cbn [offset nth length le32]; lia].
Qed.
End Login.
Print Assumptions login_frame_fields.
