Require Import AS.Base.Prelude AS.Model.Remotes AS.Spec.IrChoice.

Lemma lookup_spec present : forall rkey, rkey <> [] ->
  exists n, rev (lookup present rkey) = firstn n (rev rkey) /\ is_choice present (rev rkey) n.
Proof.
  induction rkey as [|x rest IH]; intros Hne; [contradiction|].
  destruct rest as [|y rest'].
  - exists 1%nat. cbn. split; [reflexivity|]. unfold is_choice. cbn. split; [lia|]. split; [lia|]. intros n' H. lia.
  - cbn [lookup]. destruct (present (concat (rev (x :: y :: rest')))) eqn:E.
    + exists (length (rev (x :: y :: rest'))). rewrite firstn_all. split; [reflexivity|].
      unfold is_choice. rewrite firstn_all. split; [|split].
      * rewrite rev_length. cbn [length]. lia.
      * intros _. exact E.
      * intros n' H. lia.
    + destruct (IH ltac:(discriminate)) as [n [Hn [Hr [Hp Hq]]]].
      set (k' := rev (y :: rest')) in *.
      assert (Hk : rev (x :: y :: rest') = k' ++ [x]) by reflexivity.
      exists n. rewrite Hk. split; [|split; [|split]].
      * rewrite firstn_app. replace (n - length k')%nat with 0%nat by lia. cbn [firstn].
        rewrite app_nil_r. exact Hn.
      * rewrite app_length. cbn [length]. lia.
      * intros H2. rewrite firstn_app. replace (n - length k')%nat with 0%nat by lia. cbn [firstn].
        rewrite app_nil_r. apply Hp, H2.
      * intros n' H. rewrite app_length in H. cbn [length] in H.
        destruct (Nat.eq_dec n' (length k' + 1)) as [->|Hne'].
        -- rewrite <- Hk in *. replace (length k' + 1)%nat with (length (rev (x :: y :: rest'))).
           ++ rewrite firstn_all. exact E.
           ++ rewrite Hk, app_length. reflexivity.
        -- rewrite firstn_app. replace (n' - length k')%nat with 0%nat by lia. cbn [firstn].
           rewrite app_nil_r. apply Hq. lia.
Qed.

Theorem lookup_key_is_choice present key : key <> [] ->
  exists n, lookup_key present key = firstn n key /\ is_choice present key n.
Proof.
  intros Hne. unfold lookup_key.
  destruct (lookup_spec present (rev key)) as [n [H1 H2]].
  - intros H. apply Hne. rewrite <- (rev_involutive key), H. reflexivity.
  - rewrite rev_involutive in *. exists n. split; assumption.
Qed.
Print Assumptions lookup_key_is_choice.
