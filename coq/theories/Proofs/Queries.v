(* C09: the type-2 state queries and operations, for every script of device replies *)
Require Import AS.Base.Prelude AS.Base.Hex AS.Base.Dec AS.Base.Utf8 AS.Base.Template AS.Base.Exchange AS.Gen.Extracted
  AS.Model.DeviceTools AS.Model.Messages AS.Model.Remotes AS.Model.Api AS.Spec.Sign AS.Proofs.HexSlices AS.Proofs.SignProofs
  AS.Proofs.TotalityProofs AS.Proofs.ApiProofs.
Open Scope N_scope.

Definition wrapped (e : exn) : bool := (is_key_error e || is_value_error e)%bool.

(* the parsers raise nothing but what the API wraps *)
Lemma int16r_exn s e : int16r s = Exc e -> wrapped e = true.
Proof. unfold int16r. destruct (int16 s); cbn; [discriminate|]. intros H; inversion H. reflexivity. Qed.

Theorem parse_thermostat_reply_exn r e : parse_thermostat_reply r = Exc e -> wrapped e = true.
Proof.
  unfold parse_thermostat_reply. cbv zeta.
  destruct (int16r (pyslice 154 156 (hexlify r) ++ pyslice 152 154 (hexlify r))) as [t10|e1] eqn:E1; cbn [bind];
    [|intros H; inversion H; subst; eapply int16r_exn; exact E1].
  destruct (int16r (pyslice 160 162 (hexlify r))) as [tg|e2] eqn:E2; cbn [bind];
    [|intros H; inversion H; subst; eapply int16r_exn; exact E2].
  destruct (utf8_valid (pyslice 84 92 r)); cbn [bind]; [discriminate|]. intros H; inversion H. reflexivity.
Qed.

Theorem parse_shutter_reply_exn r e : parse_shutter_reply r = Exc e -> wrapped e = true.
Proof.
  unfold parse_shutter_reply. cbv zeta.
  destruct (lookup_value (pyslice 156 160 (hexlify r)) shutter_directions); cbn [bind]; [|intros H; inversion H; reflexivity].
  destruct (int16r (pyslice 152 154 (hexlify r))) as [p|e1] eqn:E1; cbn [bind]; [discriminate|].
  intros H; inversion H; subst. eapply int16r_exn; exact E1.
Qed.

Lemma wrap_parse_outcome {A} (r : result A) st : (forall e, r = Exc e -> wrapped e = true) ->
  (exists v, wrap_parse r st = (st, Ok v)) \/ wrap_parse r st = (st, Exc RuntimeError).
Proof.
  intros H. unfold wrap_parse. destruct r as [a|e]; [left; eexists; reflexivity|].
  specialize (H e eq_refl). unfold wrapped in H. rewrite H. right. reflexivity.
Qed.

(* the state-query frame of the type-2 API: always written, the next scripted reply is returned *)
Lemma getstate2_ok : template_okb T_GET_STATE_PACKET2_TYPE2 = true. Proof. vm_compute. reflexivity. Qed.

Lemma get_state2_step c l st : wf_cfg c -> hexs (lr_timestamp l) -> length (lr_timestamp l) = 8%nat ->
  hexs (lr_session l) -> Nat.even (length (lr_session l)) = true ->
  exists frame st', send_template T_GET_STATE_PACKET2_TYPE2 [AStr (lr_session l); AStr (lr_timestamp l); AStr (device_id c)] false st
                    = (st', Ok (hd [] (replies st))) /\ frames st' = frames st ++ [frame] /\ replies st' = tl (replies st).
Proof.
  intros Hc Hth Htl Hsh Hse. unfold send_template, send_template_gen, bindM, lift.
  set (args := [AStr (lr_session l); AStr (lr_timestamp l); AStr (device_id c)]).
  destruct (format T_GET_STATE_PACKET2_TYPE2 args) as [p|] eqn:Ef; [|vm_compute in Ef; discriminate].
  destruct (template_ok _ getstate2_ok) as [Hl Ho].
  assert (Hargs : strs_hex args).
  { intros s [E|[E|[E|[]]]]; inversion E; subst; [exact Hsh|exact Hth|apply Hc]. }
  pose proof (format_hex _ _ _ Hl Ho Hargs Ef) as Hp.
  pose proof (format_length _ _ _ Ho Ef) as Hlen. cbn [map args] in Hlen. rewrite Htl, (wf_id_len c Hc) in Hlen.
  assert (He : Nat.even (length p) = true).
  { rewrite Hlen. cbn [rendered_length T_GET_STATE_PACKET2_TYPE2 nth]. rewrite !Nat.even_add. rewrite Hse. vm_compute. reflexivity. }
  destruct (sign_total p Hp He) as [out [bs [Hs Hu]]]. rewrite Hs.
  destruct (send_ok out bs st Hu) as [r2 [st2 [Hsend [Hf2 [Hr2 Hrest2]]]]]. rewrite Hsend. subst r2.
  exists bs, st2. repeat split; assumption.
Qed.

Section Query.
Variable c : cfg.
Variable now : N.
Hypothesis Hc : wf_cfg c.
Hypothesis Hn : now < 4294967296.

(* the common shape of get_breeze_state and get_shutter_state *)
Lemma type2_query_exchange {A} (parse : bytes -> result A) script : script_wf script ->
  (forall r e, parse r = Exc e -> wrapped e = true) ->
  let m := (perform l <- login c true now ;;
            if successful (lr_response l) then
              perform state_resp <- send_template T_GET_STATE_PACKET2_TYPE2
                [AStr (lr_session l); AStr (lr_timestamp l); AStr (device_id c)] false ;;
              perform r <- wrap_parse (parse state_resp) ;; ret (state_resp, r)
            else raise RuntimeError) in
  let '(fs, r) := Exchange.run m script in
  ((exists v, r = Ok v) \/ r = Exc RuntimeError) /\
  (hd [] script = [] -> length fs = 1%nat /\ r = Exc RuntimeError) /\
  (hd [] script <> [] -> length fs = 2%nat).
Proof.
  intros Hw Hparse m. unfold m, Exchange.run, bindM.
  set (st0 := {| frames := []; replies := script |}).
  destruct (login2_step c now st0 Hc Hn) as [frame [l [st1 [Hlog [Hf1 [Hresp [Hrest [Hth [Htl Hsess]]]]]]]]].
  rewrite Hlog. cbn [frames replies st0] in Hf1, Hresp, Hrest.
  destruct (successful (lr_response l)) eqn:Esucc.
  - assert (Hrw : Forall (fun b => b < 256) (lr_response l)).
    { rewrite Hresp. destruct script as [|r0 rest]; [constructor|]. inversion Hw; assumption. }
    destruct (session_hex (lr_response l) Hrw) as [Hsh Hse]. rewrite <- Hsess in Hsh, Hse.
    destruct (get_state2_step c l st1 Hc Hth Htl Hsh Hse) as [f2 [st2 [Hsend [Hf2 Hr2]]]]. rewrite Hsend.
    assert (Hlen2 : length (frames st2) = 2%nat) by (rewrite Hf2, Hf1; reflexivity).
    assert (Hne : hd [] script <> []) by (rewrite <- Hresp; destruct (lr_response l); discriminate).
    destruct (wrap_parse_outcome (parse (hd [] (replies st1))) st2 (Hparse _)) as [[v Hv]|Hv]; rewrite Hv; unfold ret; cbn.
    + split; [left; eexists; reflexivity|]. split; [intros H; contradiction|intros _; exact Hlen2].
    + split; [right; reflexivity|]. split; [intros H; contradiction|intros _; exact Hlen2].
  - unfold raise. cbn. assert (He : hd [] script = []) by (rewrite <- Hresp; destruct (lr_response l); [reflexivity|discriminate]).
    split; [right; reflexivity|]. split; [intros _; split; [rewrite Hf1; reflexivity|reflexivity]|intros H; contradiction].
Qed.

Theorem breeze_state_exchange script : script_wf script ->
  let '(fs, r) := Exchange.run (get_breeze_state c now) script in
  ((exists v, r = Ok v) \/ r = Exc RuntimeError) /\
  (hd [] script = [] -> length fs = 1%nat /\ r = Exc RuntimeError) /\ (hd [] script <> [] -> length fs = 2%nat).
Proof. intros Hw. exact (type2_query_exchange parse_thermostat_reply script Hw parse_thermostat_reply_exn). Qed.

Theorem shutter_state_exchange script : script_wf script ->
  let '(fs, r) := Exchange.run (get_shutter_state c now) script in
  ((exists v, r = Ok v) \/ r = Exc RuntimeError) /\
  (hd [] script = [] -> length fs = 1%nat /\ r = Exc RuntimeError) /\ (hd [] script <> [] -> length fs = 2%nat).
Proof. intros Hw. exact (type2_query_exchange parse_shutter_reply script Hw parse_shutter_reply_exn). Qed.

(* every type-2 command operation on an empty login reply: RuntimeError, the login frame only *)
Theorem type2_op_empty_login t extra fix_len script : hd [] script = [] ->
  let '(fs, r) := Exchange.run (type2_op false c now t extra fix_len) script in length fs = 1%nat /\ r = Exc RuntimeError.
Proof.
  intros He. unfold Exchange.run, type2_op, bindM.
  set (st0 := {| frames := []; replies := script |}).
  destruct (login2_step c now st0 Hc Hn) as [frame [l [st1 [Hlog [Hf1 [Hresp _]]]]]]. rewrite Hlog.
  cbn [frames replies st0] in Hf1, Hresp. rewrite He in Hresp. rewrite Hresp. cbn [successful].
  unfold raise. cbn. rewrite Hf1. split; reflexivity.
Qed.
End Query.

(* a generic response reports success iff the reply was non-empty *)
Theorem successful_iff r : successful r = true <-> r <> [].
Proof.
  destruct r as [|x r]; cbn; split; intros H.
  - discriminate.
  - exfalso. apply H. reflexivity.
  - discriminate.
  - reflexivity.
Qed.
Print Assumptions breeze_state_exchange.
Print Assumptions type2_op_empty_login.
