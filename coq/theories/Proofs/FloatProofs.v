Require Import AS.Base.Prelude AS.Base.Float.
Open Scope Z_scope.
(* amps = watts / 220 to one decimal: the tenths d satisfy |w - 22 d| <= 11, for every 16-bit wattage *)
Definition amps_okb (w : N) : bool := let d := amps_tenths (Z.of_N w) in Z.abs (Z.of_N w - 22 * d) <=? 11.
Lemma amps_all : sweep amps_okb 16 0 = true.
Proof. vm_compute. reflexivity. Qed.
Theorem amps_ok w : (w < 65536)%N -> Z.abs (Z.of_N w - 22 * amps_tenths (Z.of_N w)) <= 11.
Proof. intros H. apply Z.leb_le. change (amps_okb w = true). apply (sweep_all amps_okb 16); [exact amps_all|exact H]. Qed.
Print Assumptions amps_ok.
