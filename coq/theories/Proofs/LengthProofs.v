Require Import AS.Base.Prelude AS.Base.Hex AS.Model.DeviceTools AS.Proofs.HexSlices.
Open Scope N_scope.

Lemma zeros_unhex : unhexlify (s2l "00000000") = Some [0; 0; 0; 0].
Proof. reflexivity. Qed.

(* repaired code: the header carries LE16 of the final length (message bytes + 4 signature bytes) *)
Theorem set_message_length_ok m b : unhexlify m = Some b -> (8 <= length m)%nat ->
  N.of_nat (length b + 4) < 65536 ->
  set_message_length false m = Ok (s2l "fef0" ++ hexlify (le16 (N.of_nat (length b + 4))) ++ skipn 8 m) /\
  length (s2l "fef0" ++ hexlify (le16 (N.of_nat (length b + 4))) ++ skipn 8 m) = length m.
Proof.
  intros Hm Hl Hn. unfold set_message_length.
  rewrite (unhexlify_app m b _ _ Hm zeros_unhex). cbn [of_option bind negb andb].
  rewrite app_length. cbn [length].
  replace (65536 <=? N.of_nat (length b + 4)) with false by (symmetry; apply N.leb_gt; exact Hn).
  split; [reflexivity|].
  rewrite !app_length, hexlify_length, skipn_length.
  change (length (s2l "fef0")) with 4%nat. change (length (le16 (N.of_nat (length b + 4)))) with 2%nat. lia.
Qed.

(* the code before the repair: a 256-byte message (260 with signature) gets "1040", not "0401" *)
Theorem set_message_length_legacy_refuted : exists m b,
  unhexlify m = Some b /\ length b = 256%nat /\
  exists out, set_message_length true m = Ok out /\ pyslice 4 8 out <> hexlify (le16 260).
Proof.
  exists (concat (repeat (s2l "00") 256)), (repeat 0 256). split; [vm_compute; reflexivity|].
  split; [reflexivity|]. eexists. split; [vm_compute; reflexivity|]. vm_compute. discriminate.
Qed.

Theorem breeze_command_length_ok c : Nat.even (length c) = true -> N.of_nat (length c / 2) < 65536 ->
  breeze_command_length false c = Ok (hexlify (le16 (N.of_nat (length c / 2)))).
Proof.
  intros _ H. unfold breeze_command_length.
  replace (65536 <=? N.of_nat (length c / 2)) with false by (symmetry; apply N.leb_gt; exact H). reflexivity.
Qed.
Theorem breeze_command_length_legacy_refuted : exists c,
  breeze_command_length true c <> Ok (hexlify (le16 (N.of_nat (length c / 2)))).
Proof. exists (s2l "00000000507c4f46"). vm_compute. discriminate. Qed.
