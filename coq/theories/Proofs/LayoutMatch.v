(* every extracted template renders exactly like its independently written layout *)
Require Import AS.Base.Prelude AS.Base.Hex AS.Base.Template AS.Gen.Extracted AS.Spec.FrameLayout.

(* merge adjacent literals, so that two templates are compared up to how their text is chunked *)
Fixpoint norm (t : template) : template :=
  match t with
  | Lit a :: r => match norm r with Lit b :: r' => Lit (a ++ b) :: r' | r' => Lit a :: r' end
  | p :: r => p :: norm r
  | [] => []
  end.
Definition piece_eqb (p q : piece) : bool :=
  match p, q with
  | Lit a, Lit b => if bytes_eq_dec a b then true else false
  | Hole i, Hole j | HoleHex2 i, HoleHex2 j => Nat.eqb i j
  | _, _ => false
  end.
Definition template_eqb (a b : template) : bool :=
  (length (norm a) =? length (norm b))%nat && forallb (fun '(p, q) => piece_eqb p q) (combine (norm a) (norm b)).
Definition matches (t : template) (l : list sfield) : bool := template_eqb t (spec_template l).

Lemma M_login1 : matches T_LOGIN_PACKET_TYPE1 L_login1 = true.             Proof. vm_compute. reflexivity. Qed.
Lemma M_login2 : matches T_LOGIN2_PACKET_TYPE2 L_login2 = true.            Proof. vm_compute. reflexivity. Qed.
Lemma M_get_state1 : matches T_GET_STATE_PACKET_TYPE1 L_get_state1 = true. Proof. vm_compute. reflexivity. Qed.
Lemma M_get_state2 : matches T_GET_STATE_PACKET2_TYPE2 L_get_state2 = true. Proof. vm_compute. reflexivity. Qed.
Lemma M_control : matches T_SEND_CONTROL_PACKET L_control = true.          Proof. vm_compute. reflexivity. Qed.
Lemma M_auto_off : matches T_SET_AUTO_OFF_SET_PACKET L_auto_off = true.     Proof. vm_compute. reflexivity. Qed.
Lemma M_set_name : matches T_UPDATE_DEVICE_NAME_PACKET L_set_name = true.   Proof. vm_compute. reflexivity. Qed.
Lemma M_get_schedules : matches T_GET_SCHEDULES_PACKET L_get_schedules = true. Proof. vm_compute. reflexivity. Qed.
Lemma M_delete : matches T_DELETE_SCHEDULE_PACKET L_delete = true.          Proof. vm_compute. reflexivity. Qed.
Lemma M_create : matches T_CREATE_SCHEDULE_PACKET L_create = true.          Proof. vm_compute. reflexivity. Qed.
Lemma M_record : matches T_SCHEDULE_CREATE_DATA_FORMAT L_schedule_record = true. Proof. vm_compute. reflexivity. Qed.
Lemma M_breeze_command : matches T_BREEZE_COMMAND_PACKET L_breeze_command = true. Proof. vm_compute. reflexivity. Qed.
Lemma M_breeze_status : matches T_BREEZE_UPDATE_STATUS_PACKET L_breeze_status = true. Proof. vm_compute. reflexivity. Qed.
Lemma M_runner_stop : matches T_RUNNER_STOP_COMMAND L_runner_stop = true.   Proof. vm_compute. reflexivity. Qed.
Lemma M_set_position : matches T_RUNNER_SET_POSITION L_set_position = true. Proof. vm_compute. reflexivity. Qed.
