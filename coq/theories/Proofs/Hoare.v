(* A small Hoare logic for the exchange monad, specialised to the invariant "every frame written so far is good" *)
Require Import AS.Base.Prelude AS.Base.Hex AS.Base.Exchange.

Section Good.
Variable goodf : bytes -> Prop.          (* what a written frame must satisfy *)

Definition good (st : io) : Prop := Forall goodf (frames st).

(* {P} m {Q}: from a state satisfying P with only good frames, m leaves only good frames, whether it returns or
   raises, and Q holds of the returned value and the final state *)
Definition triple {A} (P : io -> Prop) (m : M A) (Q : A -> io -> Prop) : Prop :=
  forall st, P st -> good st ->
    match m st with
    | (st', Ok a) => good st' /\ Q a st'
    | (st', Exc _) => good st'
    end.

Lemma triple_ret {A} (P : io -> Prop) (a : A) : triple P (ret a) (fun x st => x = a /\ P st).
Proof. intros st HP Hg. cbn. auto. Qed.
Lemma triple_raise {A} (P : io -> Prop) e (Q : A -> io -> Prop) : triple P (raise e) Q.
Proof. intros st HP Hg. exact Hg. Qed.
Lemma triple_lift {A} (P : io -> Prop) (r : result A) : triple P (lift r) (fun x st => r = Ok x /\ P st).
Proof. intros st HP Hg. unfold lift. destruct r; cbn; auto. Qed.

Lemma triple_bind {A B} P (m : M A) Q (f : A -> M B) R :
  triple P m Q -> (forall a, triple (Q a) (f a) R) -> triple P (bindM m f) R.
Proof.
  intros Hm Hf st HP Hg. unfold bindM. specialize (Hm st HP Hg).
  destruct (m st) as [st' [a|e]]; [|exact Hm]. destruct Hm as [Hg' HQ]. exact (Hf a st' HQ Hg').
Qed.

Lemma triple_conseq {A} (P P' : io -> Prop) (m : M A) (Q Q' : A -> io -> Prop) :
  triple P' m Q' -> (forall st, P st -> P' st) -> (forall a st, Q' a st -> Q a st) -> triple P m Q.
Proof.
  intros H HP HQ st Hp Hg. specialize (H st (HP st Hp) Hg).
  destruct (m st) as [st' [a|e]]; [|exact H]. destruct H as [Hg' Hq]. split; [exact Hg'|apply HQ, Hq].
Qed.

(* preconditions that do not mention the state can be pulled out *)
Lemma triple_pure {A} (phi : Prop) (P : io -> Prop) (m : M A) Q :
  (phi -> triple P m Q) -> triple (fun st => phi /\ P st) m Q.
Proof. intros H st [Hphi HP] Hg. exact (H Hphi st HP Hg). Qed.

(* send: the frame must be good whenever the signed text is hex at all *)
Lemma triple_send (P : io -> Prop) signed :
  (forall bs, unhexlify signed = Some bs -> goodf bs) ->
  triple P (send signed)
    (fun r st => exists st0, P st0 /\ r = hd [] (replies st0) /\ replies st = tl (replies st0)).
Proof.
  intros Hgood st HP Hg. unfold send. destruct (unhexlify signed) as [bs|] eqn:E; [|exact Hg].
  destruct (replies st) as [|r rest] eqn:Er; cbn.
  - split; [apply Forall_app; split; [exact Hg|constructor; [apply Hgood; reflexivity|constructor]]|].
    exists st. rewrite Er. auto.
  - split; [apply Forall_app; split; [exact Hg|constructor; [apply Hgood; reflexivity|constructor]]|].
    exists st. rewrite Er. auto.
Qed.

(* the final statement for a whole run *)
Lemma triple_run {A} (P : io -> Prop) (m : M A) Q script :
  triple P m Q -> P {| frames := []; replies := script |} -> Forall goodf (fst (run m script)).
Proof.
  intros H HP. unfold run. specialize (H _ HP (Forall_nil _)).
  destruct (m {| frames := []; replies := script |}) as [st [a|e]]; cbn; [exact (proj1 H)|exact H].
Qed.
End Good.
