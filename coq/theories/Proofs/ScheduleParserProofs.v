Require Import AS.Base.Prelude AS.Base.Hex AS.Base.Dec AS.Gen.Extracted AS.Model.ScheduleTools AS.Model.NextRun
  AS.Model.ScheduleParser AS.Model.Messages AS.Spec.Encoders AS.Proofs.HexSlices AS.Proofs.MessagesProofs AS.Proofs.ScheduleProofs
  AS.Proofs.ClockProofs.
Open Scope N_scope.
Ltac Zify.zify_post_hook ::= Z.to_euclidean_division_equations.

Lemma record_length id en mask st s e t0 t1 t2 t3 : length (record id en mask st s e t0 t1 t2 t3) = 16%nat.
Proof. reflexivity. Qed.

(* chunking the hex text of whole records gives back the records *)
Lemma chunks_records : forall (recs : list bytes) fuel, (forall r, In r recs -> length r = 16%nat) ->
  (length recs <= fuel)%nat ->
  chunks fuel 32 (hexlify (concat recs)) = map hexlify recs.
Proof.
  induction recs as [|r recs IH]; intros fuel Hl Hf.
  - destruct fuel; reflexivity.
  - destruct fuel as [|fuel]; [cbn in Hf; lia|]. cbn [concat]. rewrite hexlify_app. cbn [chunks map].
    assert (Hr : length (hexlify r) = 32%nat) by (rewrite hexlify_length, (Hl r (or_introl eq_refl)); reflexivity).
    destruct (hexlify r ++ hexlify (concat recs)) as [|c rest] eqn:E.
    + exfalso. destruct (hexlify r); [discriminate|discriminate].
    + rewrite <- E. rewrite firstn_app, Hr, Nat.sub_diag, firstn_all2 by lia. cbn [firstn]. rewrite app_nil_r.
      rewrite skipn_app, Hr, Nat.sub_diag, skipn_all2 by lia. cbn [skipn app]. f_equal.
      apply IH; [intros r' Hr'; apply Hl; right; exact Hr'|cbn in Hf; lia].
Qed.

(* the record region of a get-schedules reply *)
Lemma schedule_region (hdr body tail : bytes) : length hdr = 45%nat -> length tail = 4%nat ->
  let hex := hexlify (hdr ++ body ++ tail) in
  pyslice 90 (length hex - 8) hex = hexlify body.
Proof.
  intros Hh Ht hex. unfold hex. rewrite hexlify_length, !app_length, Hh, Ht.
  replace (2 * (45 + (length body + 4)) - 8)%nat with (2 * (45 + length body))%nat by lia.
  change 90%nat with (2 * 45)%nat. rewrite hexlify_slice. f_equal.
  unfold pyslice. rewrite skipn_app, Hh, Nat.sub_diag, skipn_all2 by lia. cbn [skipn app].
  replace (45 + length body - 45)%nat with (length body) by lia.
  rewrite firstn_app, Nat.sub_diag, firstn_all. cbn [firstn]. apply app_nil_r.
Qed.

Lemma decode_le32_N z s : s < 4294967296 ->
  hexadecimale_timestamp_to_localtime z (hexlify (le32 s)) = Ok (fmt_hm z s).
Proof.
  intros Hs. pose proof (decode_le32 z (Z.of_N s) ltac:(lia)) as H. rewrite N2Z.id in H. exact H.
Qed.

(* one record: id, recurrence, day set and local start / end are exactly what the record holds *)
Theorem parse_record lu ln z now id en mask st s e t0 t1 t2 t3 ds :
  id < 256 -> mask < 256 -> s < 4294967296 -> e < 4294967296 ->
  (mask = 0 /\ ds = [] \/ mask <> 0 /\ bit_summary_to_days mask = Ok ds) ->
  exists dur disp,
    parse_schedule lu ln z now (hexlify (record id en mask st s e t0 t1 t2 t3)) =
    match calc_duration (fmt_hm z s) (fmt_hm z e), pretty_next_run lu ln z now (fmt_hm z s) ds with
    | Ok d, Ok p => Ok {| sc_id := str_N id; sc_recurring := negb (mask =? 0); sc_days := ds;
                          sc_start := fmt_hm z s; sc_end := fmt_hm z e; sc_duration := d; sc_display := p |}
    | Exc x, _ => Exc x
    | _, Exc x => Exc x
    end /\ dur = calc_duration (fmt_hm z s) (fmt_hm z e) /\ disp = pretty_next_run lu ln z now (fmt_hm z s) ds.
Proof.
  intros Hid Hmask Hs He Hds. eexists _, _. split; [|split; reflexivity].
  unfold parse_schedule, record.
  change (pyslice 0 2 (hexlify ?r)) with (pyslice (2*0) (2*1) (hexlify r)).
  change (pyslice 4 6 (hexlify ?r)) with (pyslice (2*2) (2*3) (hexlify r)).
  change (pyslice 8 16 (hexlify ?r)) with (pyslice (2*4) (2*8) (hexlify r)).
  change (pyslice 16 24 (hexlify ?r)) with (pyslice (2*8) (2*12) (hexlify r)).
  rewrite !hexlify_slice.
  change (pyslice 0 1 ([id; en; mask; st] ++ le32 s ++ le32 e ++ [t0; t1; t2; t3])) with [id].
  change (pyslice 2 3 ([id; en; mask; st] ++ le32 s ++ le32 e ++ [t0; t1; t2; t3])) with [mask].
  change (pyslice 4 8 ([id; en; mask; st] ++ le32 s ++ le32 e ++ [t0; t1; t2; t3])) with (le32 s).
  change (pyslice 8 12 ([id; en; mask; st] ++ le32 s ++ le32 e ++ [t0; t1; t2; t3])) with (le32 e).
  rewrite int16_hexlify by (try discriminate; repeat constructor; exact Hid).
  replace (of_be [id]) with id by (unfold of_be; cbn [fold_left]; lia). cbn [of_option bind].
  assert (Hrec : (if bytes_eq_dec (hexlify [mask]) (s2l "00") then false else true) = negb (mask =? 0)).
  { destruct (N.eqb_spec mask 0) as [->|Hne]; [reflexivity|]. cbn [negb].
    destruct (bytes_eq_dec (hexlify [mask]) (s2l "00")) as [E|E]; [|reflexivity]. exfalso.
    assert (Hu : unhexlify (hexlify [mask]) = unhexlify (s2l "00")) by (rewrite E; reflexivity).
    rewrite unhexlify_hexlify in Hu by (repeat constructor; exact Hmask).
    assert (Hk : unhexlify (s2l "00") = Some [0]) by reflexivity. congruence. }
  rewrite Hrec.
  assert (Hdays : (if negb (mask =? 0) then do m <- of_option ValueError (int16 (hexlify [mask])) ;; bit_summary_to_days m else Ok []) = Ok ds).
  { destruct Hds as [[-> ->]|[Hne Hb]]; [reflexivity|].
    replace (mask =? 0) with false by (symmetry; apply N.eqb_neq; exact Hne). cbn [negb].
    rewrite int16_hexlify by (try discriminate; repeat constructor; exact Hmask).
    replace (of_be [mask]) with mask by (unfold of_be; cbn [fold_left]; lia). exact Hb. }
  rewrite Hdays. cbn [bind].
  rewrite !decode_le32_N by assumption. cbn [bind].
  destruct (calc_duration (fmt_hm z s) (fmt_hm z e)); cbn [bind]; [|reflexivity].
  destruct (pretty_next_run lu ln z now (fmt_hm z s) ds); reflexivity.
Qed.
Print Assumptions parse_record.
