Require Import AS.Base.Prelude AS.Model.Lifecycle.

(* the bridge holds exactly the ports whose recorded transport is open *)
Definition coherent (s : bstate) : Prop := forall p, os s p = Bridge <-> trans s p = TOpen.
Definition Inv (ports : list nat) (s : bstate) : Prop :=
  coherent s /\
  (running s = true -> forall p, In p ports -> os s p = Bridge) /\
  (running s = false -> forall p, os s p <> Bridge) /\
  (forall p, os s p = Bridge -> In p ports).

Lemma upd_same {A} (f : nat -> A) p v : upd f p v p = v.
Proof. unfold upd. rewrite Nat.eqb_refl. reflexivity. Qed.
Lemma upd_other {A} (f : nat -> A) p q v : q <> p -> upd f p v q = f q.
Proof. intros H. unfold upd. destruct (Nat.eqb_spec q p); [contradiction|reflexivity]. Qed.

Lemma close_port_coherent s p : coherent s -> coherent (close_port s p).
Proof.
  intros H. unfold close_port. destruct (trans s p) eqn:E; try exact H.
  intros q. cbn. destruct (Nat.eq_dec q p) as [->|Hne].
  - rewrite !upd_same. split; discriminate.
  - rewrite !upd_other by exact Hne. apply H.
Qed.
Lemma close_port_os s p q : coherent s -> os (close_port s p) q = Bridge -> os s q = Bridge /\ q <> p.
Proof.
  intros Hc. unfold close_port. destruct (trans s p) eqn:E; cbn.
  - intros H. split; [exact H|]. intros ->. apply Hc in H. congruence.
  - destruct (Nat.eq_dec q p) as [->|Hne]; [rewrite upd_same; discriminate|rewrite upd_other by exact Hne].
    intros H. split; [exact H|exact Hne].
  - intros H. split; [exact H|]. intros ->. apply Hc in H. congruence.
Qed.
Lemma close_port_keeps s p q : q <> p -> os (close_port s p) q = os s q.
Proof. intros H. unfold close_port. destruct (trans s p); cbn; try reflexivity. apply upd_other. exact H. Qed.
Lemma close_port_running s p : running (close_port s p) = running s.
Proof. unfold close_port. destruct (trans s p); reflexivity. Qed.

Lemma close_all_coherent l : forall s, coherent s -> coherent (fold_left close_port l s).
Proof. induction l as [|p l IH]; intros s H; [exact H|]. cbn. apply IH, close_port_coherent, H. Qed.
Lemma close_all_os l : forall s q, coherent s -> os (fold_left close_port l s) q = Bridge ->
  os s q = Bridge /\ ~ In q l.
Proof.
  induction l as [|p l IH]; intros s q Hc H; [split; [exact H|intros []]|].
  cbn in H. apply IH in H; [|apply close_port_coherent, Hc]. destruct H as [H Hn].
  apply close_port_os in H; [|exact Hc]. destruct H as [H Hne]. split; [exact H|].
  intros [->|Hin]; [congruence|contradiction].
Qed.
Lemma close_all_keeps l : forall s q, ~ In q l -> os (fold_left close_port l s) q = os s q.
Proof.
  induction l as [|p l IH]; intros s q Hn; [reflexivity|]. cbn.
  rewrite IH by (intros H; apply Hn; right; exact H).
  apply close_port_keeps. intros ->. apply Hn. left. reflexivity.
Qed.
Lemma close_all_running l : forall s, running (fold_left close_port l s) = running s.
Proof. induction l as [|p l IH]; intros s; [reflexivity|]. cbn. rewrite IH. apply close_port_running. Qed.

(* stop leaves nothing behind *)
Lemma stop_inv ports s : Inv ports s -> Inv ports (stop ports s).
Proof.
  intros [Hc [Hr [Hn Hp]]]. unfold stop, Inv. cbn [running os trans].
  split; [|split; [|split]].
  - apply (close_all_coherent ports s Hc).
  - discriminate.
  - intros _ p H. apply close_all_os in H; [|exact Hc]. destruct H as [H Hnin]. apply Hnin, Hp, H.
  - intros p H. apply close_all_os in H; [|exact Hc]. apply Hp. tauto.
Qed.

(* start (repaired): success binds every port; failure restores the ownership it found *)
Lemma start_loop_ok ports : forall opened s s',
  coherent s -> start_loop false ports opened s = (s', true) ->
  coherent s' /\ running s' = true /\ (forall p, In p ports -> os s' p = Bridge) /\
  (forall p, os s' p = Bridge -> os s p = Bridge \/ In p ports) /\
  (forall p, os s p = Bridge -> os s' p = Bridge).
Proof.
  induction ports as [|p rest IH]; intros opened s s' Hc H.
  - cbn in H. inversion H; subst. cbn [running os trans].
    split; [exact Hc|]. split; [reflexivity|]. split; [intros p []|]. split; [intros p Hp; left; exact Hp|auto].
  - cbn [start_loop] in H. destruct (os s p) eqn:E; try discriminate.
    apply IH in H.
    + destruct H as [Hc' [Hr [Hall [Hsrc Hmono]]]].
      split; [exact Hc'|]. split; [exact Hr|]. split; [|split].
      * intros q [->|Hq]; [apply Hmono; cbn; apply upd_same|apply Hall, Hq].
      * intros q Hq. apply Hsrc in Hq. cbn in Hq. destruct Hq as [Hq|Hq]; [|right; right; exact Hq].
        destruct (Nat.eq_dec q p) as [->|Hne]; [right; left; reflexivity|].
        rewrite upd_other in Hq by exact Hne. left. exact Hq.
      * intros q Hq. apply Hmono. cbn. destruct (Nat.eq_dec q p) as [->|Hne]; [congruence|].
        rewrite upd_other by exact Hne. exact Hq.
    + intros q. cbn. destruct (Nat.eq_dec q p) as [->|Hne].
      * rewrite !upd_same. split; reflexivity.
      * rewrite !upd_other by exact Hne. apply Hc.
Qed.

Lemma start_loop_fail ports : forall opened s s' s0,
  coherent s -> start_loop false ports opened s = (s', false) ->
  (* s0 = state before the call; opened = ports this call has bound so far *)
  (forall q, os s q = Bridge <-> (os s0 q = Bridge \/ In q opened)) ->
  (forall q, In q opened -> os s0 q <> Bridge) ->
  (forall q, os s q <> Bridge -> os s q = os s0 q) ->
  running s = running s0 ->
  coherent s' /\ running s' = running s0 /\ forall q, os s' q = Bridge <-> os s0 q = Bridge.
Proof.
  induction ports as [|p rest IH]; intros opened s s' s0 Hc H Hown Hnew Hsame Hrun.
  - cbn in H. discriminate.
  - cbn [start_loop] in H. destruct (os s p) eqn:E.
    + (* bound one more *) eapply IH in H; [exact H| | | | |].
      * intros q. cbn. destruct (Nat.eq_dec q p) as [->|Hne];
          [rewrite !upd_same; split; reflexivity|rewrite !upd_other by exact Hne; apply Hc].
      * intros q. cbn. destruct (Nat.eq_dec q p) as [->|Hne].
        -- rewrite upd_same. split; [intros _; right; left; reflexivity|reflexivity].
        -- rewrite upd_other by exact Hne. rewrite Hown. cbn [In]. intuition congruence.
      * intros q [<-|Hq]; [|apply Hnew, Hq]. rewrite <- Hsame by congruence. congruence.
      * intros q. cbn. destruct (Nat.eq_dec q p) as [->|Hne]; [rewrite upd_same; congruence|].
        rewrite upd_other by exact Hne. apply Hsame.
      * exact Hrun.
    + (* bind failed: close what was opened *)
      inversion H; subst. split; [apply close_all_coherent, Hc|]. split; [rewrite close_all_running; exact Hrun|].
      intros q. split.
      * intros Hq. apply close_all_os in Hq; [|exact Hc]. destruct Hq as [Hq Hnin]. apply Hown in Hq. tauto.
      * intros Hq. rewrite close_all_keeps; [apply Hown; left; exact Hq|].
        intros Hin. apply (Hnew q Hin Hq).
    + inversion H; subst. split; [apply close_all_coherent, Hc|]. split; [rewrite close_all_running; exact Hrun|].
      intros q. split.
      * intros Hq. apply close_all_os in Hq; [|exact Hc]. destruct Hq as [Hq Hnin]. apply Hown in Hq. tauto.
      * intros Hq. rewrite close_all_keeps; [apply Hown; left; exact Hq|].
        intros Hin. apply (Hnew q Hin Hq).
Qed.

Lemma start_inv ports s s' ok : Inv ports s -> start false ports s = (s', ok) -> Inv ports s'.
Proof.
  intros [Hc [Hr [Hn Hp]]] H. unfold start in H. destruct ok.
  - apply start_loop_ok in H; [|exact Hc]. destruct H as [Hc' [Hr' [Hall [Hsrc _]]]].
    split; [exact Hc'|]. split; [intros _; exact Hall|]. split; [congruence|].
    intros p Hb. apply Hsrc in Hb. destruct Hb as [Hb|Hb]; [apply Hp, Hb|exact Hb].
  - apply (start_loop_fail ports [] s s' s) in H; try assumption; try reflexivity.
    + destruct H as [Hc' [Hr' Hos]]. split; [exact Hc'|]. split; [|split].
      * intros Hrun p Hin. apply Hos. apply Hr; [congruence|exact Hin].
      * intros Hrun p Hb. apply Hos in Hb. apply (Hn ltac:(congruence) p Hb).
      * intros p Hb. apply Hos in Hb. apply Hp, Hb.
    + intros q. cbn [In]. tauto.
    + intros q [].
Qed.

Lemma step_inv ports s a : Inv ports s -> Inv ports (fst (step false ports s a)).
Proof.
  intros HI. destruct a as [| |p|p|p]; cbn [step].
  - destruct (start false ports s) as [s' ok] eqn:E. cbn [fst]. eapply start_inv; eassumption.
  - cbn [fst]. apply stop_inv, HI.
  - destruct HI as [Hc [Hr [Hn Hp]]]. destruct (os s p) eqn:E; cbn [fst]; try exact (conj Hc (conj Hr (conj Hn Hp))).
    unfold Inv, coherent in *. split; [|split; [|split]]; simpl.
    + intros q. destruct (Nat.eq_dec q p) as [->|Hne].
      * rewrite upd_same. split; [discriminate|]. intros H. apply Hc in H. congruence.
      * rewrite upd_other by exact Hne. apply Hc.
    + intros Hrun q Hin. destruct (Nat.eq_dec q p) as [->|Hne].
      * specialize (Hr Hrun p Hin). congruence.
      * rewrite upd_other by exact Hne. apply Hr; assumption.
    + intros Hrun q. destruct (Nat.eq_dec q p) as [->|Hne]; [rewrite upd_same; discriminate|].
      rewrite upd_other by exact Hne. apply Hn, Hrun.
    + intros q. destruct (Nat.eq_dec q p) as [->|Hne]; [rewrite upd_same; discriminate|].
      rewrite upd_other by exact Hne. apply Hp.
  - destruct HI as [Hc [Hr [Hn Hp]]]. destruct (os s p) eqn:E; cbn [fst]; try exact (conj Hc (conj Hr (conj Hn Hp))).
    unfold Inv, coherent in *. split; [|split; [|split]]; simpl.
    + intros q. destruct (Nat.eq_dec q p) as [->|Hne].
      * rewrite upd_same. split; [discriminate|]. intros H. apply Hc in H. congruence.
      * rewrite upd_other by exact Hne. apply Hc.
    + intros Hrun q Hin. destruct (Nat.eq_dec q p) as [->|Hne].
      * specialize (Hr Hrun p Hin). congruence.
      * rewrite upd_other by exact Hne. apply Hr; assumption.
    + intros Hrun q. destruct (Nat.eq_dec q p) as [->|Hne]; [rewrite upd_same; discriminate|].
      rewrite upd_other by exact Hne. apply Hn, Hrun.
    + intros q. destruct (Nat.eq_dec q p) as [->|Hne]; [rewrite upd_same; discriminate|].
      rewrite upd_other by exact Hne. apply Hp.
  - cbn [fst]. exact HI.
Qed.

Lemma init_inv ports : Inv ports init.
Proof.
  unfold Inv, coherent, init. cbn. repeat split; try discriminate; intros; discriminate.
Qed.

Theorem run_inv ports acts : Inv ports (run false ports acts).
Proof.
  unfold run. assert (H : forall s, Inv ports s -> Inv ports (fold_left (fun s a => fst (step false ports s a)) acts s)).
  { induction acts as [|a acts IH]; intros s Hs; [exact Hs|]. cbn [fold_left]. apply IH, step_inv, Hs. }
  apply H, init_inv.
Qed.

(* C17 as stated: running exactly while listening on all ports; nothing left behind otherwise;
   a datagram is delivered iff the bridge is running and the port is configured *)
Theorem C17_model ports acts : let s := run false ports acts in
  (running s = true -> forall p, In p ports -> os s p = Bridge) /\
  (running s = false -> forall p, os s p <> Bridge) /\
  (forall p, snd (step false ports s (ASend p)) = ODelivered <-> (running s = true /\ In p ports)).
Proof.
  intros s. destruct (run_inv ports acts) as [Hc [Hr [Hn Hp]]]. fold s in Hc, Hr, Hn, Hp.
  split; [exact Hr|]. split; [exact Hn|]. intros p. cbn [step snd]. split.
  - intros H. destruct (os s p) eqn:E; try discriminate. split; [|apply Hp, E].
    destruct (running s) eqn:R; [reflexivity|]. exfalso. apply (Hn eq_refl p E).
  - intros [R Hin]. rewrite (Hr R p Hin). reflexivity.
Qed.
Print Assumptions C17_model.

(* the code before the F8 repair violates it: ports [1; 2], port 2 occupied, then start *)
Theorem C17_legacy_refuted : exists ports acts, let s := run true ports acts in
  running s = false /\ os s 1 = Bridge.
Proof. exists [1; 2], [AOccupy 2; AStart]. vm_compute. split; reflexivity. Qed.

(* ---- C18: the TCP client ---- *)
(* connected <-> the current socket is open; the device has as many open connections as the
   client holds open sockets (0 or 1); every socket ever closed was seen as end-of-stream *)
Definition CInv (s : cstate) : Prop :=
  (connected s = true <-> csock s = TOpen) /\
  (dev_open s = match csock s with TOpen => 1 | _ => 0 end)%nat.

Lemma cinit_inv : CInv cinit.
Proof. unfold CInv, cinit. cbn. split; [split; discriminate|reflexivity]. Qed.

Lemma c_connect_inv l s : CInv s -> CInv (fst (c_connect l s)).
Proof.
  intros [Hc Ho]. unfold c_connect. destruct l; [|exact (conj Hc Ho)].
  destruct (csock s) eqn:E; cbn; (split; [split; reflexivity|]); rewrite ?Ho; reflexivity.
Qed.
Lemma c_disconnect_inv s : CInv s -> CInv (c_disconnect s).
Proof.
  intros [Hc Ho]. unfold c_disconnect, CInv. destruct (csock s) eqn:E; cbn.
  - split; [split; discriminate|exact Ho].
  - split; [split; discriminate|rewrite Ho; reflexivity].
  - split; [split; discriminate|exact Ho].
Qed.
Lemma cstep_inv s a : CInv s -> CInv (fst (cstep s a)).
Proof.
  intros H. destruct a as [l| |r|l b]; cbn [cstep].
  - apply c_connect_inv, H.
  - cbn [fst]. apply c_disconnect_inv, H.
  - cbn [fst]. exact H.
  - pose proof (c_connect_inv l s H) as H1. destruct (c_connect l s) as [s1 o]. cbn [fst] in H1.
    destruct o; cbn [fst]; [apply c_disconnect_inv, H1|exact H1].
Qed.
Definition crun (acts : list caction) : cstate := fold_left (fun s a => fst (cstep s a)) acts cinit.
Theorem crun_inv acts : CInv (crun acts).
Proof.
  unfold crun. assert (H : forall s, CInv s -> CInv (fold_left (fun s a => fst (cstep s a)) acts s)).
  { induction acts as [|a acts IH]; intros s Hs; [exact Hs|]. cbn [fold_left]. apply IH, cstep_inv, Hs. }
  apply H, cinit_inv.
Qed.

(* the property as stated *)
Theorem C18_model acts : let s := crun acts in
  (* after a disconnect (explicit or by leaving the context, also through an exception) the client is
     disconnected and the device holds no open connection from it *)
  (connected (c_disconnect s) = false /\ dev_open (c_disconnect s) = 0%nat) /\
  (forall l b, let s' := fst (cstep s (CWith l b)) in l = true -> connected s' = false /\ dev_open s' = 0%nat) /\
  (* a successful connect connects; a refused one raises and changes nothing *)
  (connected (fst (c_connect true s)) = true /\ dev_open (fst (c_connect true s)) = 1%nat) /\
  (c_connect false s = (s, CRaised)) /\
  (* disconnect twice is the same as once *)
  c_disconnect (c_disconnect s) = c_disconnect s.
Proof.
  intros s. pose proof (crun_inv acts) as HI. fold s in HI.
  pose proof (c_disconnect_inv s HI) as [Hdc Hdo].
  assert (Hclosed : csock (c_disconnect s) <> TOpen).
  { unfold c_disconnect. destruct (csock s) eqn:E; cbn; congruence. }
  assert (Hdis : connected (c_disconnect s) = false) by (unfold c_disconnect; destruct (csock s); reflexivity).
  split; [split; [exact Hdis|]|].
  { rewrite Hdo. destruct (csock (c_disconnect s)); [reflexivity|contradiction|reflexivity]. }
  split.
  { intros l b s' ->. unfold s'. cbn [cstep].
    pose proof (c_connect_inv true s HI) as H1. destruct (c_connect true s) as [s1 o] eqn:Ec.
    assert (o = CDone) by (unfold c_connect in Ec; destruct (csock s); inversion Ec; reflexivity). subst o.
    cbn [fst] in *. pose proof (c_disconnect_inv s1 H1) as [_ Hdo1].
    split; [unfold c_disconnect; destruct (csock s1); reflexivity|].
    rewrite Hdo1. unfold c_disconnect. destruct (csock s1); reflexivity. }
  split.
  { pose proof (c_connect_inv true s HI) as [Hc1 Ho1]. unfold c_connect in *. destruct (csock s); cbn in *; split; reflexivity || (rewrite Ho1; reflexivity). }
  split; [reflexivity|].
  unfold c_disconnect at 1. destruct (csock (c_disconnect s)) eqn:E; [|contradiction|];
    destruct (c_disconnect s) as [c k o e] eqn:Ed; cbn in *; subst; reflexivity.
Qed.
Print Assumptions C18_model.
