(* C02: what the model writes is exactly the Spec's frame *)
Require Import AS.Base.Prelude AS.Base.Hex AS.Base.Dec AS.Base.Template AS.Gen.Extracted AS.Spec.Sign AS.Spec.Frame AS.Spec.FrameLayout
  AS.Spec.Encoders AS.Spec.FrameSpec AS.Model.DeviceTools AS.Proofs.SignProofs AS.Proofs.HexSlices AS.Proofs.FrameProofs
  AS.Proofs.LengthProofs AS.Proofs.FrameAll AS.Proofs.LayoutMatch.
Open Scope N_scope.

(* ---- templates that match render alike ---- *)
Lemma format_lit_app a b r args : format (Lit (a ++ b) :: r) args = format (Lit a :: Lit b :: r) args.
Proof. cbn [format render_piece bind]. destruct (format r args); cbn [bind]; [rewrite app_assoc|]; reflexivity. Qed.

Lemma format_norm t : forall args, format (norm t) args = format t args.
Proof.
  induction t as [|p t IH]; intros args; [reflexivity|]. destruct p as [a|i|i].
  - cbn [norm]. destruct (norm t) as [|[b|j|j] r'] eqn:E.
    + cbn [format]. rewrite <- IH. reflexivity.
    + rewrite format_lit_app. cbn [format] in *. rewrite <- IH. reflexivity.
    + cbn [format] in *. rewrite <- IH. reflexivity.
    + cbn [format] in *. rewrite <- IH. reflexivity.
  - cbn [norm format]. rewrite IH. reflexivity.
  - cbn [norm format]. rewrite IH. reflexivity.
Qed.

Lemma piece_eqb_eq p q : piece_eqb p q = true -> p = q.
Proof.
  destruct p, q; cbn; try discriminate.
  - destruct (bytes_eq_dec s s0); [intros _; subst; reflexivity|discriminate].
  - intros H. apply Nat.eqb_eq in H. subst. reflexivity.
  - intros H. apply Nat.eqb_eq in H. subst. reflexivity.
Qed.
Lemma pieces_eq : forall a b, (length a =? length b)%nat = true ->
  forallb (fun '(p, q) => piece_eqb p q) (combine a b) = true -> a = b.
Proof.
  induction a as [|p a IH]; intros [|q b] Hl H; try reflexivity; try (cbn in Hl; discriminate).
  cbn in *. apply andb_prop in H. destruct H as [Hp H]. f_equal; [apply piece_eqb_eq, Hp|apply IH; assumption].
Qed.
Lemma matches_format t l args : matches t l = true -> format t args = format (spec_template l) args.
Proof.
  unfold matches, template_eqb. intros H. apply andb_prop in H. destruct H as [Hl H].
  rewrite <- (format_norm t), <- (format_norm (spec_template l)). f_equal. apply pieces_eq; assumption.
Qed.

(* ---- sealing a frame that already carries its length changes nothing but appends the signature ---- *)
Lemma seal_of_good b : frame_okb (b ++ sig b) = true -> seal b = b ++ sig b.
Proof.
  unfold frame_okb. rewrite app_length, sig_length. replace (length b + 4 - 4)%nat with (length b) by lia. intros H.
  repeat (apply andb_prop in H; let H' := fresh "K" in destruct H as [H H']).
  apply Nat.leb_le in H. rewrite pyslice_app_l in K1 by lia. apply bytes_eqb_eq in K1.
  unfold seal.
  assert (E : firstn 2 b ++ le16 (N.of_nat (length b + 4)) ++ skipn 4 b = b).
  { rewrite <- K1. unfold pyslice. cbn [Nat.sub].
    rewrite <- (firstn_skipn 2 b) at 4. f_equal.
    rewrite <- (firstn_skipn 2 (skipn 2 b)) at 2. f_equal. rewrite skipn_skipn'. reflexivity. }
  rewrite E. reflexivity.
Qed.

(* type-2: the length-rewritten text is the sealed body *)
Lemma seal_of_rewritten b : firstn 2 b = [254; 240] ->
  seal b = ([254; 240] ++ le16 (N.of_nat (length b + 4)) ++ skipn 4 b) ++ sig ([254; 240] ++ le16 (N.of_nat (length b + 4)) ++ skipn 4 b).
Proof. intros H. unfold seal. rewrite H. reflexivity. Qed.

(* ---- the frame a call site writes is the Spec's frame for the same arguments ---- *)
Theorem written_is_spec T L args (fix_len : bool) p p' out bs :
  matches T L = true -> format T args = Ok p ->
  (if fix_len then set_message_length false p else Ok p) = Ok p' ->
  sign_packet_with_crc_key p' = Ok out -> unhexlify out = Some bs -> frame_okb bs = true ->
  (fix_len = true -> pyslice 0 4 p = s2l "fef0") ->
  frame_of L args = Frame bs.
Proof.
  intros Hm Hf Hp Hs Hu Hk Hmagic. unfold frame_of, render_layout. rewrite <- (matches_format T L args Hm), Hf.
  destruct fix_len.
  - (* length rewritten *)
    specialize (Hmagic eq_refl). unfold set_message_length in Hp.
    destruct (unhexlify (p ++ s2l "00000000")) as [bin|] eqn:Eb; cbn [of_option bind] in Hp; [|discriminate].
    cbn [negb andb] in Hp. destruct (N.leb_spec 65536 (N.of_nat (length bin))) as [Hbig|Hsmall]; [discriminate|].
    pose proof (unhexlify_length _ _ Eb) as Hl2. rewrite app_length in Hl2. change (length (s2l "00000000")) with 8%nat in Hl2.
    destruct (unhexlify p') as [b'|] eqn:Eb'.
    2:{ unfold sign_packet_with_crc_key in Hs. rewrite Eb' in Hs. discriminate. }
    (* p is hex of even length: recover its bytes from p' *)
    assert (Ep' : p' = s2l "fef0" ++ hexlify (le16 (N.of_nat (length bin))) ++ skipn 8 p) by congruence.
    rewrite (sign_spec p' b' Eb') in Hs. assert (out = p' ++ hexlify (sig b')) by congruence. subst out.
    rewrite (unhexlify_app p' b' _ _ Eb' (unhexlify_hexlify _ (sig_bytes b'))) in Hu.
    assert (bs = b' ++ sig b') by congruence. subst bs.
    destruct (unhexlify p) as [b|] eqn:Ebp.
    + pose proof (unhexlify_length _ _ Ebp) as Hlb.
      assert (Hbin : length bin = (length b + 4)%nat) by lia.
      assert (Hskip : unhexlify (skipn 8 p) = Some (skipn 4 b)) by (apply (unhexlify_skipn 4 p b Ebp)).
      assert (Eb2 : unhexlify p' = Some ([254; 240] ++ le16 (N.of_nat (length b + 4)) ++ skipn 4 b)).
      { rewrite Ep', Hbin. apply unhexlify_app; [reflexivity|]. apply unhexlify_app; [apply unhexlify_hexlify, le16_bytes|exact Hskip]. }
      assert (b' = [254; 240] ++ le16 (N.of_nat (length b + 4)) ++ skipn 4 b) by congruence. subst b'.
      f_equal. apply seal_of_rewritten.
      assert (H2 : pyslice 0 2 b = [254; 240]).
      { apply (slice_known p b (s2l "fef0") [254; 240] 0 Ebp); [reflexivity|exact Hmagic|reflexivity]. }
      exact H2.
    + (* p not hex: then p ++ zeros is not hex either *)
      exfalso. assert (Hh : Forall (fun c => is_hexchar c = true) p).
      { clear - Eb. assert (G : forall n s bn, (length s <= n)%nat -> unhexlify (s ++ s2l "00000000") = Some bn -> (Nat.even (length s) = true) -> Forall (fun c => is_hexchar c = true) s).
        { induction n as [|n IH]; intros s bn Hl H He.
          - destruct s; [constructor|cbn in Hl; lia].
          - destruct s as [|a [|b r]]; [constructor|cbn in He; discriminate|].
            cbn [app unhexlify] in H. unfold is_hexchar.
            destruct (nib_of_char a) eqn:Ea; [|discriminate]. destruct (nib_of_char b) eqn:Ebb; [|discriminate].
            destruct (unhexlify (r ++ s2l "00000000")) as [l|] eqn:Er; [|discriminate].
            constructor; [rewrite Ea; reflexivity|]. constructor; [rewrite Ebb; reflexivity|].
            apply (IH r l); [cbn in Hl; lia|exact Er|]. cbn [length] in He. rewrite Nat.even_succ_succ in He. exact He. }
        pose proof (unhexlify_length _ _ Eb) as Hl. rewrite app_length in Hl. change (length (s2l "00000000")) with 8%nat in Hl.
        apply (G (length p) p bin); [lia|exact Eb|]. replace (length p) with (2 * (length bin - 4))%nat by lia. rewrite Nat.even_mul. reflexivity. }
      assert (Hev : Nat.even (length p) = true) by (replace (length p) with (2 * (length bin - 4))%nat by lia; rewrite Nat.even_mul; reflexivity).
      destruct (unhexlify_total p Hh Hev) as [b Hb]. congruence.
  - (* the template carries the length itself *)
    assert (p' = p) by congruence. subst p'.
    destruct (unhexlify p) as [b|] eqn:Eb.
    2:{ unfold sign_packet_with_crc_key in Hs. rewrite Eb in Hs. discriminate. }
    rewrite (sign_spec p b Eb) in Hs. assert (out = p ++ hexlify (sig b)) by congruence. subst out.
    rewrite (unhexlify_app p b _ _ Eb (unhexlify_hexlify _ (sig_bytes b))) in Hu.
    assert (bs = b ++ sig b) by congruence. subst bs. f_equal. apply seal_of_good. exact Hk.
Qed.
Print Assumptions written_is_spec.
