(* Several bridge objects on one port table: each object's bookkeeping is exact, and objects do not touch each other *)
Require Import AS.Base.Prelude AS.Model.Lifecycle AS.Model.MultiBridge AS.Proofs.LifecycleProofs.

Definition held (s : mstate) (j q : nat) : Prop := m_os s q = MBridge j.
Definition mcoherent (s : mstate) : Prop := forall j q, held s j q <-> m_trans (m_objs s j) q = TOpen.

Lemma mclose_port_spec i s p : mcoherent s ->
  mcoherent (mclose_port i s p) /\
  (forall j q, held (mclose_port i s p) j q <-> (held s j q /\ ~ (j = i /\ q = p))) /\
  (forall j, m_running (m_objs (mclose_port i s p) j) = m_running (m_objs s j)) /\
  (forall q, m_os s q = MForeign <-> m_os (mclose_port i s p) q = MForeign).
Proof.
  intros Hc. unfold mclose_port. destruct (m_trans (m_objs s i) p) eqn:E.
  - (* nothing recorded *)
    split; [exact Hc|]. split; [|split; [reflexivity|reflexivity]].
    intros j q. split; [|tauto]. intros H. split; [exact H|]. intros [-> ->]. apply Hc in H. congruence.
  - (* open: close it *)
    assert (Hp : m_os s p = MBridge i) by (apply Hc; exact E).
    split; [|split; [|split]].
    + intros j q. unfold held. cbn [m_os m_objs].
      destruct (Nat.eq_dec q p) as [->|Hq].
      * rewrite upd_same. split; [discriminate|]. intros H. exfalso.
        destruct (Nat.eq_dec j i) as [->|Hj].
        -- rewrite upd_same in H. cbn [m_trans] in H. rewrite upd_same in H. discriminate.
        -- rewrite upd_other in H by exact Hj. apply Hc in H. unfold held in H. congruence.
      * rewrite upd_other by exact Hq. destruct (Nat.eq_dec j i) as [->|Hj].
        -- rewrite upd_same. cbn [m_trans]. rewrite upd_other by exact Hq. apply Hc.
        -- rewrite upd_other by exact Hj. apply Hc.
    + intros j q. unfold held. cbn [m_os]. destruct (Nat.eq_dec q p) as [->|Hq].
      * rewrite upd_same. split; [discriminate|]. intros [H Hn]. exfalso. apply Hn. split; [congruence|reflexivity].
      * rewrite upd_other by exact Hq. split; [intros H; split; [exact H|intros [_ K]; contradiction]|tauto].
    + intros j. cbn [m_objs]. destruct (Nat.eq_dec j i) as [->|Hj]; [rewrite upd_same; reflexivity|rewrite upd_other by exact Hj; reflexivity].
    + intros q. cbn [m_os]. destruct (Nat.eq_dec q p) as [->|Hq]; [rewrite upd_same; split; [congruence|discriminate]|rewrite upd_other by exact Hq; reflexivity].
  - split; [exact Hc|]. split; [|split; [reflexivity|reflexivity]].
    intros j q. split; [|tauto]. intros H. split; [exact H|]. intros [-> ->]. apply Hc in H. congruence.
Qed.

Lemma mclose_all_spec i l : forall s, mcoherent s ->
  mcoherent (fold_left (mclose_port i) l s) /\
  (forall j q, held (fold_left (mclose_port i) l s) j q <-> (held s j q /\ ~ (j = i /\ In q l))) /\
  (forall j, m_running (m_objs (fold_left (mclose_port i) l s) j) = m_running (m_objs s j)) /\
  (forall q, m_os s q = MForeign <-> m_os (fold_left (mclose_port i) l s) q = MForeign).
Proof.
  induction l as [|p l IH]; intros s Hc; cbn [fold_left].
  - split; [exact Hc|]. split; [|split; [reflexivity|reflexivity]]. intros j q. cbn [In]. tauto.
  - destruct (mclose_port_spec i s p Hc) as [Hc1 [H1 [R1 F1]]]. destruct (IH _ Hc1) as [Hc2 [H2 [R2 F2]]].
    split; [exact Hc2|]. split; [|split].
    + intros j q. rewrite H2, H1. cbn [In]. split.
      * intros [[H Ha] Hb]. split; [exact H|]. intros [E [K|K]]; [apply Ha; split; [exact E|symmetry; exact K]|apply Hb; split; assumption].
      * intros [H Hn]. split; [split; [exact H|]|]; intros [E K]; apply Hn; (split; [exact E|]); [left; symmetry; exact K|right; exact K].
    + intros j. rewrite R2, R1. reflexivity.
    + intros q. rewrite F1. apply F2.
Qed.

Definition rflag (s : mstate) (j : nat) : bool := m_running (m_objs s j).
Definition foreign (s : mstate) (q : nat) : Prop := m_os s q = MForeign.

(* one more port bound by object i *)
Definition bind1 (i : nat) (s : mstate) (p : nat) : mstate :=
  {| m_os := upd (m_os s) p (MBridge i);
     m_objs := upd (m_objs s) i {| m_running := m_running (m_objs s i); m_trans := upd (m_trans (m_objs s i)) p TOpen |} |}.

Lemma bind1_spec i s p : mcoherent s -> m_os s p = MFree ->
  mcoherent (bind1 i s p) /\ (forall j q, held (bind1 i s p) j q <-> (held s j q \/ (j = i /\ q = p))) /\
  (forall j, rflag (bind1 i s p) j = rflag s j) /\ (forall q, foreign s q <-> foreign (bind1 i s p) q).
Proof.
  intros Hc Hf. unfold bind1, rflag, foreign, held. cbn [m_os m_objs]. split; [|split; [|split]].
  - intros j q. unfold held. cbn [m_os m_objs]. destruct (Nat.eq_dec q p) as [->|Hq].
    + rewrite upd_same. destruct (Nat.eq_dec j i) as [->|Hj].
      * rewrite upd_same. cbn [m_trans]. rewrite upd_same. tauto.
      * rewrite upd_other by exact Hj. split; [intros H; exfalso; apply Hj; congruence|].
        intros H. apply Hc in H. unfold held in H. congruence.
    + rewrite upd_other by exact Hq. destruct (Nat.eq_dec j i) as [->|Hj].
      * rewrite upd_same. cbn [m_trans]. rewrite upd_other by exact Hq. apply Hc.
      * rewrite upd_other by exact Hj. apply Hc.
  - intros j q. destruct (Nat.eq_dec q p) as [->|Hq].
    + rewrite upd_same. split; [intros H; right; split; [congruence|reflexivity]|]. intros [H|[-> _]]; [congruence|reflexivity].
    + rewrite upd_other by exact Hq. split; [tauto|]. intros [H|[_ K]]; [exact H|contradiction].
  - intros j. destruct (Nat.eq_dec j i) as [->|Hj]; [rewrite upd_same; reflexivity|rewrite upd_other by exact Hj; reflexivity].
  - intros q. destruct (Nat.eq_dec q p) as [->|Hq]; [rewrite upd_same; split; [congruence|discriminate]|rewrite upd_other by exact Hq; reflexivity].
Qed.

Lemma mstart_loop_unfold i p rest opened s : mstart_loop i (p :: rest) opened s =
  match m_os s p with MFree => mstart_loop i rest (p :: opened) (bind1 i s p) | _ => (fold_left (mclose_port i) opened s, false) end.
Proof. reflexivity. Qed.

Lemma mstart_loop_ok i ports : forall opened s s', mcoherent s -> mstart_loop i ports opened s = (s', true) ->
  mcoherent s' /\ rflag s' i = true /\ (forall j, j <> i -> rflag s' j = rflag s j) /\
  (forall j q, held s' j q <-> (held s j q \/ (j = i /\ In q ports))) /\ (forall q, foreign s q <-> foreign s' q).
Proof.
  induction ports as [|p rest IH]; intros opened s s' Hc H.
  - cbn [mstart_loop] in H. assert (E : s' = set_obj s i {| m_running := true; m_trans := m_trans (m_objs s i) |}) by congruence. subst s'.
    unfold set_obj, rflag, foreign, held. cbn [m_os m_objs]. split; [|split; [|split; [|split]]].
    + intros j q. unfold held. cbn [m_os m_objs]. destruct (Nat.eq_dec j i) as [->|Hj]; [rewrite upd_same; apply Hc|rewrite upd_other by exact Hj; apply Hc].
    + rewrite upd_same. reflexivity.
    + intros j Hj. rewrite upd_other by exact Hj. reflexivity.
    + intros j q. cbn [In]. tauto.
    + reflexivity.
  - rewrite mstart_loop_unfold in H. destruct (m_os s p) eqn:E; try discriminate.
    destruct (bind1_spec i s p Hc E) as [Hc1 [H1 [R1 F1]]].
    destruct (IH _ _ _ Hc1 H) as [Hc' [Hr [Ho [Hh Hf]]]].
    split; [exact Hc'|]. split; [exact Hr|]. split; [|split].
    + intros j Hj. rewrite (Ho j Hj). apply R1.
    + intros j q. rewrite Hh, H1. cbn [In]. split.
      * intros [[K|[A B]]|[A B]]; [left; exact K|right; split; [exact A|left; symmetry; exact B]|right; split; [exact A|right; exact B]].
      * intros [K|[A [B|B]]]; [left; left; exact K|left; right; split; [exact A|symmetry; exact B]|right; split; assumption].
    + intros q. rewrite F1. apply Hf.
Qed.

Lemma mstart_loop_fail i ports : forall opened s s' s0, mcoherent s -> mstart_loop i ports opened s = (s', false) ->
  (forall j q, held s j q <-> (held s0 j q \/ (j = i /\ In q opened))) ->
  (forall q, In q opened -> ~ held s0 i q) ->
  (forall j, rflag s j = rflag s0 j) -> (forall q, foreign s0 q <-> foreign s q) ->
  mcoherent s' /\ (forall j q, held s' j q <-> held s0 j q) /\ (forall j, rflag s' j = rflag s0 j) /\ (forall q, foreign s0 q <-> foreign s' q).
Proof.
  induction ports as [|p rest IH]; intros opened s s' s0 Hc H Hown Hnew Hrun Hfor.
  - cbn in H. discriminate.
  - rewrite mstart_loop_unfold in H.
    assert (Hfail : fold_left (mclose_port i) opened s = s' ->
      mcoherent s' /\ (forall j q, held s' j q <-> held s0 j q) /\ (forall j, rflag s' j = rflag s0 j) /\ (forall q, foreign s0 q <-> foreign s' q)).
    { intros <-. destruct (mclose_all_spec i opened s Hc) as [Hc' [Hh [Hr Hf]]].
      split; [exact Hc'|]. split; [|split].
      - intros j q. rewrite Hh, Hown. split.
        + intros [[K|[A B]] Hn]; [exact K|exfalso; apply Hn; split; assumption].
        + intros K. split; [left; exact K|]. intros [-> B]. apply (Hnew q B K).
      - intros j. unfold rflag. rewrite Hr. apply Hrun.
      - intros q. rewrite Hfor. apply Hf. }
    destruct (m_os s p) eqn:E.
    + destruct (bind1_spec i s p Hc E) as [Hc1 [H1 [R1 F1]]].
      apply (IH (p :: opened) (bind1 i s p) s' s0 Hc1 H).
      * intros j q. rewrite H1, Hown. cbn [In]. split.
        -- intros [[K|[A B]]|[A B]]; [left; exact K|right; split; [exact A|right; exact B]|right; split; [exact A|left; symmetry; exact B]].
        -- intros [K|[A [B|B]]]; [left; left; exact K|right; split; [exact A|symmetry; exact B]|left; right; split; assumption].
      * intros q [<-|Hq]; [|apply Hnew, Hq]. intros K. assert (K' : held s i p) by (apply Hown; left; exact K). unfold held in K'. congruence.
      * intros j. rewrite R1. apply Hrun.
      * intros q. rewrite Hfor. apply F1.
    + apply Hfail. congruence.
    + apply Hfail. congruence.
Qed.

(* ---- the invariant: every object's bookkeeping is exact ---- *)
Definition MInv (cfg : nat -> list nat) (s : mstate) : Prop :=
  mcoherent s /\ forall i,
    (rflag s i = true -> forall p, In p (cfg i) -> held s i p) /\
    (rflag s i = false -> forall p, ~ held s i p) /\
    (forall p, held s i p -> In p (cfg i)).

Definition names (a : maction) (i : nat) : Prop := match a with MStart j | MStop j => j = i | _ => False end.

(* what one step does to every object: the invariant is kept, and an object the action does not name keeps its ports and its flag *)
Lemma mstep_spec cfg s a : MInv cfg s ->
  MInv cfg (mstep cfg s a) /\
  forall i, ~ names a i -> rflag (mstep cfg s a) i = rflag s i /\ forall q, held (mstep cfg s a) i q <-> held s i q.
Proof.
  intros [Hc Hobj]. destruct a as [i|i|p|p]; cbn [mstep names].
  - (* start *)
    unfold mstart. destruct (mstart_loop i (cfg i) [] s) as [s' ok] eqn:E. cbn [fst]. destruct ok.
    + destruct (mstart_loop_ok i (cfg i) [] s s' Hc E) as [Hc' [Hr [Ho [Hh Hf]]]]. split.
      * split; [exact Hc'|]. intros k. destruct (Hobj k) as [A [B C]]. destruct (Nat.eq_dec k i) as [->|Hk].
        -- split; [intros _ p Hp; apply Hh; right; split; [reflexivity|exact Hp]|]. split; [congruence|].
           intros p Hp. apply Hh in Hp. destruct Hp as [Hp|[_ Hp]]; [apply C, Hp|exact Hp].
        -- rewrite (Ho k Hk). split; [intros R p Hp; apply Hh; left; apply A; assumption|]. split.
           ++ intros R p Hp. apply Hh in Hp. destruct Hp as [Hp|[K _]]; [apply (B R p Hp)|contradiction].
           ++ intros p Hp. apply Hh in Hp. destruct Hp as [Hp|[K _]]; [apply C, Hp|contradiction].
      * intros k Hk. split; [apply Ho; intros K; apply Hk; symmetry; exact K|]. intros q. rewrite Hh. split; [intros [K|[K _]]; [exact K|exfalso; apply Hk; symmetry; exact K]|tauto].
    + destruct (mstart_loop_fail i (cfg i) [] s s' s Hc E) as [Hc' [Hh [Hr Hf]]].
      * intros j q. cbn [In]. tauto.
      * intros q [].
      * reflexivity.
      * reflexivity.
      * split.
        -- split; [exact Hc'|]. intros k. destruct (Hobj k) as [A [B C]]. rewrite Hr. split; [intros R p Hp; apply Hh, A; assumption|].
           split; [intros R p Hp; apply Hh in Hp; apply (B R p Hp)|intros p Hp; apply C, Hh, Hp].
        -- intros k _. split; [apply Hr|intros q; apply Hh].
  - (* stop *)
    unfold mstop. destruct (mclose_all_spec i (cfg i) s Hc) as [Hc1 [H1 [R1 F1]]].
    set (s1 := fold_left (mclose_port i) (cfg i) s) in *.
    assert (Hh : forall j q, held (set_obj s1 i {| m_running := false; m_trans := m_trans (m_objs s1 i) |}) j q <-> held s1 j q) by (intros; reflexivity).
    assert (Hr : forall j, rflag (set_obj s1 i {| m_running := false; m_trans := m_trans (m_objs s1 i) |}) j = if Nat.eqb j i then false else rflag s j).
    { intros j. unfold rflag, set_obj. cbn [m_objs]. destruct (Nat.eqb_spec j i) as [->|Hj]; [rewrite upd_same; reflexivity|rewrite upd_other by exact Hj; apply R1]. }
    split.
    + split.
      * intros j q. rewrite Hh. unfold set_obj. cbn [m_objs]. destruct (Nat.eq_dec j i) as [->|Hj]; [rewrite upd_same; apply Hc1|rewrite upd_other by exact Hj; apply Hc1].
      * intros k. destruct (Hobj k) as [A [B C]]. rewrite Hr. destruct (Nat.eqb_spec k i) as [->|Hk].
        -- split; [discriminate|]. split.
           ++ intros _ p Hp. apply Hh, H1 in Hp. destruct Hp as [Hp Hn]. apply Hn. split; [reflexivity|apply C, Hp].
           ++ intros p Hp. apply Hh, H1 in Hp. apply C, Hp.
        -- split; [intros R p Hp; apply Hh, H1; split; [apply A; assumption|intros [K _]; contradiction]|]. split.
           ++ intros R p Hp. apply Hh, H1 in Hp. apply (B R p), Hp.
           ++ intros p Hp. apply Hh, H1 in Hp. apply C, Hp.
    + intros k Hk. rewrite Hr. destruct (Nat.eqb_spec k i) as [->|Hki]; [exfalso; apply Hk; reflexivity|]. split; [reflexivity|].
      intros q. rewrite Hh, H1. split; [tauto|]. intros K. split; [exact K|]. intros [E _]. contradiction.
  - (* a foreign socket takes a free port *)
    destruct (m_os s p) eqn:E; try (split; [split; assumption|intros; split; reflexivity]).
    assert (Hh : forall j q, held {| m_os := upd (m_os s) p MForeign; m_objs := m_objs s |} j q <-> held s j q).
    { intros j q. unfold held. cbn [m_os]. destruct (Nat.eq_dec q p) as [->|Hq]; [rewrite upd_same, E; split; discriminate|rewrite upd_other by exact Hq; reflexivity]. }
    split.
    + split; [intros j q; rewrite Hh; apply Hc|]. intros k. destruct (Hobj k) as [A [B C]].
      split; [intros R q Hq; apply Hh, A; assumption|]. split; [intros R q Hq; apply Hh in Hq; apply (B R q Hq)|intros q Hq; apply C, Hh, Hq].
    + intros k _. split; [reflexivity|intros q; apply Hh].
  - (* a foreign socket is closed *)
    destruct (m_os s p) eqn:E; try (split; [split; assumption|intros; split; reflexivity]).
    assert (Hh : forall j q, held {| m_os := upd (m_os s) p MFree; m_objs := m_objs s |} j q <-> held s j q).
    { intros j q. unfold held. cbn [m_os]. destruct (Nat.eq_dec q p) as [->|Hq]; [rewrite upd_same, E; split; discriminate|rewrite upd_other by exact Hq; reflexivity]. }
    split.
    + split; [intros j q; rewrite Hh; apply Hc|]. intros k. destruct (Hobj k) as [A [B C]].
      split; [intros R q Hq; apply Hh, A; assumption|]. split; [intros R q Hq; apply Hh in Hq; apply (B R q Hq)|intros q Hq; apply C, Hh, Hq].
    + intros k _. split; [reflexivity|intros q; apply Hh].
Qed.

Lemma minit_inv cfg : MInv cfg minit.
Proof.
  split; [intros j q; unfold held, minit; cbn; split; discriminate|]. intros i. unfold rflag, held, minit. cbn.
  split; [discriminate|]. split; [intros _ p; discriminate|intros p; discriminate].
Qed.

Theorem mrun_inv cfg acts : MInv cfg (mrun cfg acts).
Proof.
  unfold mrun. assert (H : forall s, MInv cfg s -> MInv cfg (fold_left (mstep cfg) acts s)).
  { induction acts as [|a acts IH]; intros s Hs; [exact Hs|]. cbn [fold_left]. apply IH, mstep_spec, Hs. }
  apply H, minit_inv.
Qed.

(* C17 for any number of bridge objects in one process: after any history each object is running exactly while it holds all of its
   ports, holds none otherwise, and a broadcast reaches an object's callback exactly when that object is running on that port *)
Theorem C17_objects cfg acts i : let s := mrun cfg acts in
  (rflag s i = true -> forall p, In p (cfg i) -> held s i p) /\
  (rflag s i = false -> forall p, ~ held s i p) /\
  (forall p, delivered_to s p i = true <-> (rflag s i = true /\ In p (cfg i))).
Proof.
  intros s. destruct (mrun_inv cfg acts) as [Hc Hobj]. fold s in Hc, Hobj. destruct (Hobj i) as [A [B C]].
  split; [exact A|]. split; [exact B|]. intros p. unfold delivered_to. split.
  - destruct (m_os s p) as [| |j] eqn:E; try discriminate. intros H. apply Nat.eqb_eq in H. subst j.
    assert (Hh : held s i p) by exact E. split; [|apply C, Hh].
    destruct (rflag s i) eqn:R; [reflexivity|]. exfalso. apply (B eq_refl p Hh).
  - intros [R Hin]. specialize (A R p Hin). unfold held in A. rewrite A. apply Nat.eqb_refl.
Qed.
Print Assumptions C17_objects.

(* ... and whatever is done with the other objects (start, failed start, stop, repeated stop) and with foreign sockets leaves an
   object's flag and ports as they were *)
Theorem C17_objects_do_not_interfere cfg acts a i : ~ names a i ->
  let s := mrun cfg acts in
  rflag (mstep cfg s a) i = rflag s i /\ forall q, held (mstep cfg s a) i q <-> held s i q.
Proof. intros Hn s. exact (proj2 (mstep_spec cfg s a (mrun_inv cfg acts)) i Hn). Qed.
Print Assumptions C17_objects_do_not_interfere.
