(* C18 as a refinement: the client model against the history reading of Spec/Client.v *)
Require Import AS.Base.Prelude AS.Model.Lifecycle AS.Spec.Client AS.Proofs.LifecycleProofs.

Definition J (s : cstate) (c : bool) (n : nat) : Prop :=
  CInv s /\ connected s = c /\ dev_open s + dev_eofs s = n.

Lemma J_connect l s c n : J s c n ->
  J (fst (c_connect l s)) (if l then true else c) (n + (if l then 1 else 0)).
Proof.
  intros (HI & Hc & Hn). split; [apply c_connect_inv, HI|].
  destruct HI as [Hco Ho]. unfold c_connect. destruct l; cbn [fst]; [|split; [exact Hc|lia]].
  destruct (csock s) eqn:E; cbn [fst connected dev_open dev_eofs]; (split; [reflexivity|]); cbn in Ho; lia.
Qed.
Lemma J_disconnect s c n : J s c n -> J (c_disconnect s) false n.
Proof.
  intros (HI & Hc & Hn). split; [apply c_disconnect_inv, HI|].
  destruct HI as [Hco Ho]. unfold c_disconnect.
  destruct (csock s) eqn:E; cbn [fst connected dev_open dev_eofs]; (split; [reflexivity|]); cbn in Ho; lia.
Qed.
Lemma J_step s c n a : J s c n -> J (fst (cstep s a)) (spec_connected_step c a) (n + accepted a).
Proof.
  intros H. destruct a as [l| |r|l b]; cbn [cstep spec_connected_step accepted].
  - apply J_connect, H.
  - cbn [fst]. replace (n + 0) with n by lia. eapply J_disconnect, H.
  - cbn [fst]. replace (n + 0) with n by lia. exact H.
  - pose proof (J_connect l s c n H) as H1. unfold c_connect in *. destruct l; cbn [fst] in *.
    + destruct (csock s); cbn [fst]; eapply J_disconnect, H1.
    + exact H1.
Qed.
Lemma J_run acts : forall s c n, J s c n ->
  J (fold_left (fun s a => fst (cstep s a)) acts s) (fold_left spec_connected_step acts c) (fold_left (fun n a => n + accepted a) acts n).
Proof.
  induction acts as [|a acts IH]; intros s c n H; [exact H|]. cbn [fold_left]. apply IH, J_step, H.
Qed.

Theorem client_refines_history acts :
  connected (crun acts) = spec_connected acts /\
  dev_open (crun acts) = (if spec_connected acts then 1 else 0) /\
  dev_open (crun acts) + dev_eofs (crun acts) = spec_accepted acts.
Proof.
  assert (H0 : J cinit false 0) by (split; [apply cinit_inv|split; reflexivity]).
  pose proof (J_run acts _ _ _ H0) as (HI & Hc & Hn). fold (crun acts) in *.
  fold (spec_connected acts) in *. fold (spec_accepted acts) in Hn.
  split; [exact Hc|]. split; [|exact Hn].
  destruct HI as [Hco Ho]. rewrite Ho, <- Hc.
  destruct (csock (crun acts)) eqn:E; destruct (connected (crun acts)) eqn:C; try reflexivity;
    destruct Hco as [H1 H2]; first [specialize (H1 eq_refl); discriminate | specialize (H2 eq_refl); discriminate].
Qed.
