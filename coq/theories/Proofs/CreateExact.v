(* C02: create_schedule writes exactly the Spec's frame: clock strings, day set, the 11-byte record, the frame *)
Require Import AS.Base.Prelude AS.Base.Hex AS.Base.Dec AS.Base.Template AS.Base.Exchange AS.Base.Utf8 AS.Gen.Extracted
  AS.Spec.Sign AS.Spec.Frame AS.Spec.FrameLayout AS.Spec.Encoders AS.Spec.FrameSpec
  AS.Model.DeviceTools AS.Model.Messages AS.Model.ScheduleTools AS.Model.Api AS.Model.Ops
  AS.Proofs.SignProofs AS.Proofs.HexSlices AS.Proofs.FrameProofs AS.Proofs.LengthProofs AS.Proofs.FrameAll AS.Proofs.LayoutMatch
  AS.Proofs.SpecFrames AS.Proofs.Hoare AS.Proofs.WeekdayProofs AS.Proofs.OpsFrames AS.Proofs.SpecOps.
Require Import ZifyBool.
Open Scope N_scope.

(* ---- clock strings ---- *)
Lemma digit_facts a : is_digit a = true -> (a =? 58) = false /\ is_space a = false /\ 48 <= a <= 57.
Proof. unfold is_digit, is_space. intros H. repeat split; lia. Qed.

Lemma digits2_shape x v : digits2 x = Some v ->
  (exists a, x = [a] /\ is_digit a = true /\ v = dval a) \/
  (exists a b, x = [a; b] /\ is_digit a = true /\ is_digit b = true /\ v = 10 * dval a + dval b).
Proof.
  destruct x as [|a [|b [|c r]]]; cbn [digits2]; try discriminate.
  - destruct (is_digit a) eqn:Ea; [|discriminate]. intros H; inversion H. left. exists a. auto.
  - destruct (is_digit a) eqn:Ea; [|discriminate]. destruct (is_digit b) eqn:Eb; [|discriminate].
    cbn [andb]. intros H; inversion H. right. exists a, b. auto.
Qed.

Lemma split_at_colon_spec s : forall acc x y, split_at_colon s acc = Some (x, y) -> rev acc ++ s = x ++ 58 :: y /\ exists x', x = rev acc ++ x' /\ ~ In 58 x'.
Proof.
  induction s as [|c r IH]; intros acc x y H; cbn [split_at_colon] in H; [discriminate|].
  destruct (N.eqb_spec c 58) as [->|Hc].
  - inversion H; subst. split; [reflexivity|]. exists []. rewrite app_nil_r. split; [reflexivity|intros []].
  - destruct (IH _ _ _ H) as [H1 [x' [H2 H3]]]. cbn [rev] in H1, H2. rewrite <- app_assoc in H1, H2. split; [exact H1|].
    exists (c :: x'). split; [exact H2|]. intros [E|E]; [congruence|contradiction].
Qed.

Lemma split_at_colon_digits hs ms : ~ In 58 hs -> forall acc, split_at_colon (hs ++ 58 :: ms) acc = Some (rev acc ++ hs, ms).
Proof.
  induction hs as [|a hs IH]; intros Hn acc.
  - cbn. rewrite app_nil_r. reflexivity.
  - cbn [app split_at_colon]. destruct (N.eqb_spec a 58) as [E|E]; [exfalso; apply Hn; left; exact E|].
    rewrite IH by (intros K; apply Hn; right; exact K). cbn [rev]. rewrite <- app_assoc. reflexivity.
Qed.

Lemma digits_no_colon x v : digits2 x = Some v -> ~ In 58 x /\ lstrip x = x.
Proof.
  intros H. destruct (digits2_shape x v H) as [[a [-> [Ha _]]]|[a [b [-> [Ha [Hb _]]]]]].
  - destruct (digit_facts a Ha) as [E [S _]]. split; [intros [K|[]]; subst; discriminate|]. cbn [lstrip]. rewrite S. reflexivity.
  - destruct (digit_facts a Ha) as [E [S _]]. destruct (digit_facts b Hb) as [E' _].
    split; [intros [K|[K|[]]]; subst; discriminate|]. cbn [lstrip]. rewrite S. reflexivity.
Qed.

(* what clock_minutes accepts *)
Lemma clock_shape s v : clock_minutes s = Some v ->
  exists hs ms h m, s = hs ++ 58 :: ms /\ digits2 hs = Some h /\ digits2 ms = Some m /\ h < 24 /\ m < 60 /\ v = 60 * h + m.
Proof.
  unfold clock_minutes. destruct (split_at_colon s []) as [[x y]|] eqn:E; [|discriminate].
  destruct (digits2 x) as [h|] eqn:Eh; [|discriminate]. destruct (digits2 y) as [m|] eqn:Em; [|discriminate].
  destruct ((h <? 24) && (m <? 60)) eqn:Eb; [|discriminate]. intros H; inversion H.
  destruct (split_at_colon_spec s [] x y E) as [Hsp _]. cbn [rev app] in Hsp.
  exists x, y, h, m. repeat split; try assumption; try lia.
Qed.
Lemma clock_of_digits hs ms h m : digits2 hs = Some h -> digits2 ms = Some m -> h < 24 -> m < 60 ->
  clock_minutes (hs ++ 58 :: ms) = Some (60 * h + m).
Proof.
  intros Hh Hm Lh Lm. unfold clock_minutes. rewrite split_at_colon_digits by (apply (digits_no_colon hs h Hh)).
  cbn [rev app]. rewrite Hh, Hm. replace ((h <? 24) && (m <? 60)) with true by lia. reflexivity.
Qed.

Ltac enum_digit x Rx :=
  let H := fresh "Hen" in
  assert (H : In x [48; 49; 50; 51; 52; 53; 54; 55; 56; 57]) by (cbn [In]; lia); cbn [In] in H; clear Rx;
  repeat (destruct H as [H|H]; [subst x|]); [..|contradiction].

(* what strptime("%H:%M") accepts *)
Lemma strptime_of_digits hs ms h m : digits2 hs = Some h -> digits2 ms = Some m -> h < 24 -> m < 60 ->
  strptime_HM (hs ++ 58 :: ms) = Ok (h, m).
Proof.
  intros Hh Hm Lh Lm. unfold strptime_HM.
  assert (Pm : parse_minute ms = Some m).
  { destruct (digits2_shape ms m Hm) as [[a [-> [Ha ->]]]|[a [b [-> [Ha [Hb ->]]]]]]; cbn [parse_minute]; rewrite ?Ha, ?Hb; cbn [andb].
    - reflexivity.
    - destruct (digit_facts a Ha) as [_ [_ Ra]]. destruct (digit_facts b Hb) as [_ [_ Rb]]. unfold dval in Lm.
      replace (a <=? 53) with true by lia. reflexivity. }
  destruct (digits2_shape hs h Hh) as [[a [-> [Ha ->]]]|[a [b [-> [Ha [Hb ->]]]]]]; cbn [app].
  - (* one hour digit: the three-character pattern is tried first and looks at the first minute character *)
    assert (Hc : exists c ms', ms = c :: ms' /\ is_digit c = true).
    { destruct (digits2_shape ms m Hm) as [[c [-> [Hc _]]]|[c [d [-> [Hc _]]]]]; eauto. }
    destruct Hc as [c [ms' [-> Hc]]]. destruct (digit_facts c Hc) as [_ [_ Rc]].
    enum_digit c Rc; cbn [parse_hour]; rewrite Ha; rewrite Pm; reflexivity.
  - destruct (digit_facts a Ha) as [_ [_ Ra]]. destruct (digit_facts b Hb) as [_ [_ Rb]]. unfold dval in Lh.
    assert (Hcond : ((a =? 50) && (b <=? 51) || (a <=? 49))%bool = true) by lia. clear Hh Lh.
    enum_digit b Rb; cbn [parse_hour]; rewrite Ha; cbn [is_digit N.leb N.compare Pos.compare Pos.compare_cont andb] in *;
      rewrite Hcond; rewrite Pm; reflexivity.
Qed.

Lemma parse_minute_shape r m : parse_minute r = Some m -> digits2 r = Some m /\ m < 60.
Proof.
  destruct r as [|a [|b [|c r]]]; cbn [parse_minute digits2]; try discriminate.
  - destruct (is_digit a) eqn:Ea; [|discriminate]. intros H; injection H as <-. destruct (digit_facts a Ea) as [_ [_ R]]. unfold dval. split; [reflexivity|lia].
  - destruct (is_digit a) eqn:Ea; [|discriminate]. destruct (a <=? 53) eqn:E5; [|discriminate]. destruct (is_digit b) eqn:Eb; [|discriminate].
    cbn [andb]. intros H; injection H as <-. destruct (digit_facts a Ea) as [_ [_ R]]. destruct (digit_facts b Eb) as [_ [_ R']]. unfold dval. split; [reflexivity|]. assert (K : 10 * (a - 48) + (b - 48) < 60) by lia. exact K.
Qed.

Ltac by_bits x Hx := destruct x as [|x]; [reflexivity|]; do 6 (destruct x as [x|x|]; try reflexivity); exfalso; apply Hx; reflexivity.

(* the pattern match of the model, as tests *)
Lemma parse_hour_eq s : parse_hour s = match s with
  | a :: b :: c :: r =>
      if c =? 58 then (if is_digit a && is_digit b && (((a =? 50) && (b <=? 51)) || (a <=? 49)) then Some (10 * dval a + dval b, r) else None)
      else if b =? 58 then (if is_digit a then Some (dval a, c :: r) else None) else None
  | [a; b] => if b =? 58 then (if is_digit a then Some (dval a, []) else None) else None
  | _ => None end.
Proof.
  destruct s as [|a [|b [|c r]]]; try reflexivity.
  - destruct (N.eqb_spec b 58) as [->|Hb]; [reflexivity|]. cbn [parse_hour]. by_bits b Hb.
  - destruct (N.eqb_spec c 58) as [->|Hc].
    { destruct b as [|b]; [reflexivity|]. do 6 (destruct b as [b|b|]; try reflexivity). }
    destruct (N.eqb_spec b 58) as [->|Hb].
    + cbn [parse_hour]. by_bits c Hc.
    + cbn [parse_hour]. destruct c as [|c]; [by_bits b Hb|]. do 6 (destruct c as [c|c|]; try (by_bits b Hb)). exfalso; apply Hc; reflexivity.
Qed.

Lemma strptime_shape s h m : strptime_HM s = Ok (h, m) ->
  exists hs ms, s = hs ++ 58 :: ms /\ digits2 hs = Some h /\ digits2 ms = Some m /\ h < 24 /\ m < 60.
Proof.
  unfold strptime_HM. rewrite parse_hour_eq. destruct (match s with [] => _ | _ => _ end) as [[h' r]|] eqn:Eh; [|discriminate].
  destruct (parse_minute r) as [m'|] eqn:Em; [|discriminate]. intros H. assert (h' = h) by congruence. assert (m' = m) by congruence. subst h' m'. clear H.
  destruct (parse_minute_shape r m Em) as [Dm Lm].
  destruct s as [|a [|b [|c s']]]; try discriminate.
  - destruct (N.eqb_spec b 58) as [->|Hb]; [|discriminate]. destruct (is_digit a) eqn:Ea; [|discriminate].
    assert (h = dval a /\ r = []) by (split; congruence). destruct H as [-> ->]. cbn in Dm. discriminate.
  - destruct (N.eqb_spec c 58) as [->|Hc].
    + destruct (is_digit a) eqn:Ea; [|discriminate]. destruct (is_digit b) eqn:Eb; [|discriminate]. cbn [andb] in Eh.
      destruct ((a =? 50) && (b <=? 51) || (a <=? 49))%bool eqn:Ec; [|discriminate].
      assert (h = 10 * dval a + dval b /\ r = s') by (split; congruence). destruct H as [-> ->].
      destruct (digit_facts a Ea) as [_ [_ Ra]]. destruct (digit_facts b Eb) as [_ [_ Rb]].
      exists [a; b], s'. cbn [app digits2]. rewrite Ea, Eb. repeat split; auto. unfold dval. lia.
    + destruct (N.eqb_spec b 58) as [->|Hb]; [|discriminate]. destruct (is_digit a) eqn:Ea; [|discriminate].
      assert (h = dval a /\ r = c :: s') by (split; congruence). destruct H as [-> ->].
      destruct (digit_facts a Ea) as [_ [_ Ra]].
      exists [a], (c :: s'). cbn [app digits2]. rewrite Ea. repeat split; auto. unfold dval. lia.
Qed.

(* split(":") of an accepted clock string: exactly its two digit groups *)
Lemma split_colon_aux_nocolon x : ~ In 58 x -> forall cur, split_colon_aux x cur = [rev cur ++ x].
Proof.
  induction x as [|a x IH]; intros Hn cur.
  - cbn. rewrite app_nil_r. reflexivity.
  - cbn [split_colon_aux]. destruct (N.eqb_spec a 58) as [E|E]; [exfalso; apply Hn; left; exact E|].
    rewrite IH by (intros K; apply Hn; right; exact K). cbn [rev]. rewrite <- app_assoc. reflexivity.
Qed.
Lemma split_colon_digits hs ms : ~ In 58 hs -> ~ In 58 ms -> forall cur, split_colon_aux (hs ++ 58 :: ms) cur = [rev cur ++ hs; ms].
Proof.
  induction hs as [|a hs IH]; intros Hh Hm cur.
  - cbn [app split_colon_aux]. rewrite N.eqb_refl, app_nil_r. rewrite (split_colon_aux_nocolon ms Hm []). reflexivity.
  - cbn [app split_colon_aux]. destruct (N.eqb_spec a 58) as [E|E]; [exfalso; apply Hh; left; exact E|].
    rewrite IH by (try assumption; intros K; apply Hh; right; exact K). cbn [rev]. rewrite <- app_assoc. reflexivity.
Qed.

Definition stamp (base : Z) (v : N) : result bytes :=
  let t := (base + Z.of_N (60 * v))%Z in
  if ((0 <=? t) && (t <? 4294967296))%Z then Ok (hexlify (le32 (Z.to_N t))) else Exc StructError.

Lemma time_enc_some base s v : clock_minutes s = Some v -> time_to_hexadecimal_timestamp false base s = stamp base v.
Proof.
  intros H. destruct (clock_shape s v H) as [hs [ms [h [m [-> [Hh [Hm [Lh [Lm ->]]]]]]]]].
  destruct (digits_no_colon hs h Hh) as [Nh Sh]. destruct (digits_no_colon ms m Hm) as [Nm _].
  unfold time_to_hexadecimal_timestamp, split_colon. rewrite (split_colon_digits hs ms Nh Nm []). cbn [rev app].
  rewrite Sh. change (hs ++ [58] ++ ms) with (hs ++ 58 :: ms). rewrite (strptime_of_digits hs ms h m Hh Hm Lh Lm). cbn [bind fst snd].
  unfold stamp. cbv zeta. replace (3600 * h + 60 * m) with (60 * (60 * h + m)) by lia. reflexivity.
Qed.

Lemma time_enc_none base s : clock_minutes s = None -> exists e, time_to_hexadecimal_timestamp false base s = Exc e.
Proof.
  intros H. unfold time_to_hexadecimal_timestamp. destruct (split_colon s) as [|t0 [|t1 r]]; try (eexists; reflexivity).
  destruct (strptime_HM (lstrip t0 ++ [58] ++ t1)) as [hm|e]; cbn [bind]; [|eexists; reflexivity].
  destruct (strptime_HM s) as [[h m]|e] eqn:E; cbn [bind]; [|eexists; reflexivity].
  exfalso. destruct (strptime_shape s h m E) as [hs [ms [-> [Hh [Hm [Lh Lm]]]]]].
  rewrite (clock_of_digits hs ms h m Hh Hm Lh Lm) in H. discriminate.
Qed.

(* ---- the day set ---- *)
Lemma nodup_same l : nodup_nat l = nodupb l.
Proof. induction l as [|x l IH]; [reflexivity|]. cbn [nodup_nat nodupb]. rewrite IH. reflexivity. Qed.
Lemma sum_bits_mask l : sum_bits l = mask_of l.
Proof.
  unfold sum_bits. assert (H : forall a, fold_left (fun a d => a + day_bit_rep d) l a = a + mask_of l).
  { induction l as [|x l IH]; intros a; cbn [fold_left mask_of fold_right]; [lia|]. rewrite IH. change (day_bit x) with (day_bit_rep x). unfold mask_of. lia. }
  rewrite H. lia.
Qed.

Definition days_list (d : days_arg) (l : list nat) : Prop := d = ASeq l \/ (d = ASet l /\ NoDup l).

(* the model's day encoder against the Spec's mask, for sets and sequences of days *)
Lemma days_enc d l : days_list d l -> (forall x, In x l -> (x < n_days)%nat) ->
  (match d with ASet [] | ASeq [] => Ok NON_RECURRING_SCHEDULE | _ => weekdays_to_hexadecimal d end) =
  if nodup_nat l then Ok (hexlify [mask_of l]) else Exc ValueError.
Proof.
  intros Hd Hb. rewrite nodup_same.
  assert (Hnd : (d = ASeq l /\ nodupb l = true) \/ (d = ASet l /\ nodupb l = true) \/ (d = ASeq l /\ nodupb l = false)).
  { destruct Hd as [->|[-> Hn]].
    - destruct (nodupb l) eqn:E; auto.
    - right. left. split; [reflexivity|]. apply nodupb_NoDup. exact Hn. }
  destruct l as [|a l].
  - destruct Hnd as [[-> _]|[[-> _]|[-> E]]]; reflexivity.
  - destruct Hnd as [[-> E]|[[-> E]|[-> E]]]; rewrite E.
    + pose proof (proj1 (nodupb_NoDup (a :: l)) E) as Hn. rewrite (weekdays_encode_seq (a :: l) ltac:(discriminate) Hn Hb).
      destruct (core_facts (a :: l) ltac:(discriminate) Hn Hb) as [Hf _]. rewrite <- sum_bits_mask.
      change (hexlify [sum_bits (a :: l)]) with (hexbyte (sum_bits (a :: l)) ++ []). rewrite app_nil_r. reflexivity.
    + pose proof (proj1 (nodupb_NoDup (a :: l)) E) as Hn. rewrite (weekdays_encode_set (a :: l) ltac:(discriminate) Hn Hb).
      rewrite <- sum_bits_mask.
      change (hexlify [sum_bits (a :: l)]) with (hexbyte (sum_bits (a :: l)) ++ []). rewrite app_nil_r. reflexivity.
    + apply weekdays_reject_dup; [discriminate|]. intros Hn. apply nodupb_NoDup in Hn. congruence.
Qed.

Lemma mask_byte l : nodup_nat l = true -> (forall x, In x l -> (x < n_days)%nat) -> mask_of l < 256.
Proof.
  intros Hn Hb. destruct l as [|a l]; [reflexivity|]. rewrite nodup_same in Hn. apply nodupb_NoDup in Hn.
  rewrite <- sum_bits_mask. apply (core_facts (a :: l) ltac:(discriminate) Hn Hb).
Qed.

(* ---- the 11-byte record ---- *)
Lemma record_text a b c : format T_SCHEDULE_CREATE_DATA_FORMAT [AStr a; AStr b; AStr c] = Ok (s2l "01" ++ a ++ s2l "01" ++ b ++ c ++ []).
Proof. reflexivity. Qed.

Lemma record_is_spec m ts te : m < 256 ->
  exists recb, render_layout L_schedule_record [arg_of_bytes [m]; arg_of_bytes (le32 ts); arg_of_bytes (le32 te)] = Some recb /\
    format T_SCHEDULE_CREATE_DATA_FORMAT [AStr (hexlify [m]); AStr (hexlify (le32 ts)); AStr (hexlify (le32 te))] = Ok (hexlify recb).
Proof.
  intros Hm. exists ([1] ++ [m] ++ [1] ++ le32 ts ++ le32 te).
  assert (E : format T_SCHEDULE_CREATE_DATA_FORMAT [AStr (hexlify [m]); AStr (hexlify (le32 ts)); AStr (hexlify (le32 te))]
              = Ok (hexlify ([1] ++ [m] ++ [1] ++ le32 ts ++ le32 te))).
  { rewrite record_text, !hexlify_app, app_nil_r. reflexivity. }
  split; [|exact E].
  unfold render_layout, arg_of_bytes. rewrite <- (matches_format _ _ _ M_record), E.
  apply unhexlify_hexlify. repeat (apply Forall_app; split); try apply le32_bytes; repeat constructor; assumption.
Qed.

(* ---- the operation ---- *)
Section Create.
Variables (idb : bytes) (keyb : N) (now : N) (r0 : bytes) (rest : list bytes).
Hypothesis Lid : length idb = 3%nat.
Hypothesis Hid : Forall (fun b => b < 256) idb.
Hypothesis Hkey : keyb < 256.
Hypothesis Hnow : now < 4294967296.
Hypothesis Hr0 : Forall (fun b => b < 256) r0.
Hypothesis Lr0 : (12 <= length r0)%nat.
Let c := cfg_of idb keyb.
Let h := hdr_args (pyslice 8 12 r0) now idb.

Theorem create_exact base st en d l : days_list d l -> (forall x, In x l -> (x < n_days)%nat) ->
  outcome_is idb keyb now rest (Exchange.run (create_schedule_op false c now base st en d) (r0 :: rest)) (spec_create h base st en l).
Proof.
  intros Hd Hb. unfold create_schedule_op.
  set (extra := (do s <- time_to_hexadecimal_timestamp false base st ;; _)).
  destruct (type1_op_exact idb keyb now Lid Hid Hkey Hnow T_CREATE_SCHEDULE_PACKET L_create extra [22]%nat r0 rest
              M_create (proj1 I_create) (proj2 I_create) Hr0 Lr0) as [LF [Hlf Hx]].
  { intros args H. unfold extra in H.
    destruct (time_to_hexadecimal_timestamp false base st) as [s|] eqn:Es; cbn [bind] in H; [|discriminate].
    destruct (time_to_hexadecimal_timestamp false base en) as [e|] eqn:Ee; cbn [bind] in H; [|discriminate].
    destruct (is_le32 _ (clock_enc _ _ _ _ Es)) as [S1 S2]. destruct (is_le32 _ (clock_enc _ _ _ _ Ee)) as [E1 E2].
    rewrite (days_enc d l Hd Hb) in H. destruct (nodup_nat l) eqn:En; cbn [bind] in H; [|discriminate].
    assert (Hwd : hexs (hexlify [mask_of l]) /\ length (hexlify [mask_of l]) = 2%nat).
    { split; [apply hexlify_hexs; constructor; [apply mask_byte; assumption|constructor]|reflexivity]. }
    destruct (format T_SCHEDULE_CREATE_DATA_FORMAT [AStr (hexlify [mask_of l]); AStr s; AStr e]) as [rec|] eqn:Er; cbn [bind] in H; [|discriminate].
    assert (args = [AStr rec]) by congruence. subst args.
    destruct (record_enc _ s e rec (proj1 Hwd) (proj2 Hwd) S1 S2 E1 E2 Er) as [R1 R2].
    exists [rec]. split; [reflexivity|]. split; [unfold widths; cbn [map]; rewrite R2; reflexivity|apply hexs1; exact R1]. }
  exists LF. split; [exists false; exact Hlf|].
  unfold spec_create. fold c in Hx.
  destruct (clock_minutes st) as [vs|] eqn:Cs.
  2:{ destruct (time_enc_none base st Cs) as [e He].
      assert (E : extra = Exc e) by (unfold extra; rewrite He; reflexivity). rewrite E in Hx |- *. exists e. exact Hx. }
  destruct (clock_minutes en) as [ve|] eqn:Ce.
  2:{ destruct (time_enc_none base en Ce) as [e He].
      assert (E : exists e', extra = Exc e').
      { unfold extra. rewrite He. destruct (time_to_hexadecimal_timestamp false base st); cbn [bind]; eexists; reflexivity. }
      destruct E as [e' E]. rewrite E in Hx |- *. exists e'. exact Hx. }
  set (ts := (base + Z.of_N (60 * vs))%Z). set (te := (base + Z.of_N (60 * ve))%Z).
  assert (Hval : extra = (do s <- stamp base vs ;; do e <- stamp base ve ;;
                          do wd <- (if nodup_nat l then Ok (hexlify [mask_of l]) else Exc ValueError) ;;
                          do rec <- format T_SCHEDULE_CREATE_DATA_FORMAT [AStr wd; AStr s; AStr e] ;; Ok [AStr rec])).
  { unfold extra. rewrite (time_enc_some base st vs Cs), (time_enc_some base en ve Ce), (days_enc d l Hd Hb). reflexivity. }
  clearbody extra. subst extra. unfold stamp in Hx |- *. cbv zeta in Hx |- *. fold ts te in Hx |- *.
  destruct (nodup_nat l) eqn:En; cbn [negb].
  2:{ destruct ((0 <=? ts) && (ts <? 4294967296))%Z; cbn [bind] in Hx |- *; [|eexists; exact Hx].
      destruct ((0 <=? te) && (te <? 4294967296))%Z; cbn [bind] in Hx |- *; eexists; exact Hx. }
  destruct ((0 <=? ts) && (ts <? 4294967296))%Z eqn:Rs; cbn [bind andb] in Hx |- *.
  2:{ eexists; exact Hx. }
  destruct ((0 <=? te) && (te <? 4294967296))%Z eqn:Re; cbn [bind] in Hx |- *.
  2:{ eexists; exact Hx. }
  destruct (record_is_spec (mask_of l) (Z.to_N ts) (Z.to_N te) (mask_byte l En Hb)) as [recb [Hr Hf]].
  rewrite Hr. rewrite Hf in Hx |- *. cbn [bind] in Hx |- *. cbv beta iota in Hx |- *. destruct Hx as [CF [Hcf Hrun]].
  fold h in Hcf. unfold arg_of_bytes at 1. rewrite Hcf. exact Hrun.
Qed.
End Create.
