Require Import AS.Base.Prelude AS.Base.Hex AS.Base.Dec AS.Model.Messages.
Open Scope N_scope.

Lemma int16_fold_bound s : forall a n,
  fold_left (fun acc c => match acc, nib_of_char c with
                          | Some a, Some d => Some (16 * a + d) | _, _ => None end) s (Some a) = Some n ->
  n < (a + 1) * 16 ^ N.of_nat (length s).
Proof.
  induction s as [|c s IH]; intros a n H.
  - cbn in *. inversion H; subst. lia.
  - cbn [fold_left] in H. destruct (nib_of_char c) as [d|] eqn:E.
    + apply IH in H. assert (Hd : d < 16).
      { revert E. unfold nib_of_char.
        destruct ((48 <=? c) && (c <=? 57)) eqn:E1.
        - apply andb_prop in E1. destruct E1 as [A B]. apply N.leb_le in A, B. intros X; inversion X; lia.
        - destruct ((97 <=? c) && (c <=? 102)) eqn:E2.
          + apply andb_prop in E2. destruct E2 as [A B]. apply N.leb_le in A, B. intros X; inversion X; lia.
          + destruct ((65 <=? c) && (c <=? 70)) eqn:E3; [|discriminate].
            apply andb_prop in E3. destruct E3 as [A B]. apply N.leb_le in A, B. intros X; inversion X; lia. }
      cbn [length]. rewrite Nat2N.inj_succ, N.pow_succ_r'. nia.
    + exfalso. clear -H. induction s as [|x s IHs]; [discriminate|]. cbn [fold_left] in H. apply IHs. exact H.
Qed.

Lemma int16_bound s n : int16 s = Some n -> n < 16 ^ N.of_nat (length s).
Proof.
  unfold int16. destruct s as [|c s]; [discriminate|]. intros H. apply int16_fold_bound in H. lia.
Qed.

Lemma pyslice_length_le {A} lo hi (l : list A) : (length (pyslice lo hi l) <= hi - lo)%nat.
Proof. unfold pyslice. rewrite firstn_length. lia. Qed.

Lemma swap4_length_le h : (length (swap4 h) <= 8)%nat.
Proof.
  unfold swap4. rewrite !app_length.
  pose proof (pyslice_length_le 6 8 h). pose proof (pyslice_length_le 4 6 h).
  pose proof (pyslice_length_le 2 4 h). pose proof (pyslice_length_le 0 2 h). lia.
Qed.

Definition kv (e : exn) : Prop := e = KeyError \/ e = ValueError.

Lemma get_time_exn hex lo hi e : get_time hex lo hi = Exc e -> kv e.
Proof.
  unfold get_time, int16r. destruct (int16 (swap4 (pyslice lo hi hex))) as [secs|] eqn:E; cbn [of_option bind].
  - apply int16_bound in E. pose proof (swap4_length_le (pyslice lo hi hex)) as Hl.
    assert (Hs : secs < 4294967296).
    { eapply N.lt_le_trans; [exact E|]. change 4294967296 with (16 ^ 8). apply N.pow_le_mono_r; lia. }
    unfold seconds_to_iso_time. destruct (secs / 3600 <? 24); [discriminate|].
    destruct (N.ltb_spec (secs / 3600) 2147483648) as [_|Hbig].
    + intros H; inversion H. right. reflexivity.
    + exfalso. assert (secs / 3600 < 2147483648) by (apply N.div_lt_upper_bound; lia). lia.
  - intros H; inversion H. right. reflexivity.
Qed.

Theorem parse_state_reply_exn r e : parse_state_reply r = Exc e -> kv e.
Proof.
  unfold parse_state_reply. cbv zeta.
  destruct (bytes_eq_dec _ _); [|destruct (bytes_eq_dec _ _)]; cbn [bind].
  3: { intros H; inversion H. left. reflexivity. }
  all: destruct (get_time _ 178 186) eqn:E1; cbn [bind]; [|intros H; inversion H; subst; eapply get_time_exn; eassumption];
       destruct (get_time _ 186 194) eqn:E2; cbn [bind]; [|intros H; inversion H; subst; eapply get_time_exn; eassumption];
       destruct (get_time _ 194 202) eqn:E3; cbn [bind]; [|intros H; inversion H; subst; eapply get_time_exn; eassumption];
       unfold int16r; destruct (int16 _); cbn [of_option bind]; intros H; inversion H; right; reflexivity.
Qed.

(* the API wrapper:  try: SwitcherStateResponse(..)  except (KeyError, ValueError): raise RuntimeError *)
Definition get_state_after_login (state_resp : bytes) : result state_fields :=
  match parse_state_reply state_resp with
  | Ok r => match state_resp with [] => Exc RuntimeError | _ => Ok r end   (* response.successful *)
  | Exc e => if is_key_error e || is_value_error e then Exc RuntimeError else Exc e
  end.

Theorem get_state_total state_resp :
  (exists r, get_state_after_login state_resp = Ok r) \/ get_state_after_login state_resp = Exc RuntimeError.
Proof.
  unfold get_state_after_login. destruct (parse_state_reply state_resp) as [r|e] eqn:E.
  - destruct state_resp; [right; reflexivity|left; eexists; reflexivity].
  - right. destruct (parse_state_reply_exn _ _ E) as [-> | ->]; reflexivity.
Qed.
Print Assumptions get_state_total.
