From Coq Require Import Sorted Permutation.
Require Import AS.Base.Prelude AS.Model.NextRun AS.Spec.NextRun AS.Proofs.NextRunCore.
Open Scope nat_scope.
Ltac Zify.zify_post_hook ::= Z.to_euclidean_division_equations.

(* ---- insertion sort: permutation, sortedness ---- *)
Lemma insert_perm x l : Permutation (x :: l) (insert x l).
Proof.
  induction l as [|y l IH]; [reflexivity|]. cbn [insert]. destruct (x <=? y); [reflexivity|].
  rewrite perm_swap. apply perm_skip. exact IH.
Qed.
Lemma sort_perm l : Permutation l (sort l).
Proof.
  induction l as [|x l IH]; [reflexivity|]. cbn [sort fold_right]. fold (sort l).
  rewrite <- insert_perm. apply perm_skip. exact IH.
Qed.
Lemma insert_In x l y : In y (insert x l) <-> y = x \/ In y l.
Proof.
  split; intros H.
  - apply (Permutation_in _ (Permutation_sym (insert_perm x l))) in H. destruct H; auto.
  - apply (Permutation_in _ (insert_perm x l)). destruct H; [left; auto|right; auto].
Qed.
Lemma insert_sorted x l : StronglySorted le l -> StronglySorted le (insert x l).
Proof.
  induction 1 as [|y l Hs IH Hy]; cbn [insert]; [repeat constructor|].
  destruct (x <=? y) eqn:E.
  - apply Nat.leb_le in E. constructor; [constructor; assumption|].
    constructor; [exact E|]. rewrite Forall_forall in *. intros z Hz. specialize (Hy z Hz). lia.
  - apply Nat.leb_gt in E. constructor; [exact IH|]. rewrite Forall_forall in *. intros z Hz.
    apply insert_In in Hz. destruct Hz as [->|Hz]; [lia|apply Hy, Hz].
Qed.
Lemma sort_sorted l : StronglySorted le (sort l).
Proof. induction l as [|x l IH]; [constructor|]. cbn [sort fold_right]. apply insert_sorted, IH. Qed.

(* strictly sorted lists with the same members are equal *)
Lemma sorted_lt_unique : forall l1 l2, StronglySorted lt l1 -> StronglySorted lt l2 ->
  (forall x, In x l1 <-> In x l2) -> l1 = l2.
Proof.
  induction l1 as [|a l1 IH]; intros l2 H1 H2 Hin.
  - destruct l2 as [|b l2]; [reflexivity|]. exfalso. apply (Hin b). left. reflexivity.
  - destruct l2 as [|b l2]; [exfalso; apply (Hin a); left; reflexivity|].
    inversion H1 as [|? ? Hs1 Hf1]; subst. inversion H2 as [|? ? Hs2 Hf2]; subst.
    rewrite Forall_forall in Hf1, Hf2.
    assert (a = b).
    { destruct (proj1 (Hin a) (or_introl eq_refl)) as [E|Ha]; [auto|].
      destruct (proj2 (Hin b) (or_introl eq_refl)) as [E|Hb]; [auto|].
      specialize (Hf2 a Ha). specialize (Hf1 b Hb). lia. }
    subst b. f_equal. apply IH; try assumption. intros x. split; intros Hx.
    + destruct (proj1 (Hin x) (or_intror Hx)) as [E|Hx']; [|exact Hx']. subst. specialize (Hf1 x Hx). lia.
    + destruct (proj2 (Hin x) (or_intror Hx)) as [E|Hx']; [|exact Hx']. subst. specialize (Hf2 x Hx). lia.
Qed.

Lemma sorted_le_nodup_lt l : StronglySorted le l -> NoDup l -> StronglySorted lt l.
Proof.
  induction 1 as [|a l Hs IH Hf]; intros Hn; [constructor|]. inversion Hn as [|? ? Hna Hnl]; subst.
  constructor; [apply IH, Hnl|]. rewrite Forall_forall in *. intros x Hx. specialize (Hf x Hx).
  assert (x <> a) by (intros ->; contradiction). lia.
Qed.

Lemma seq_sorted a n : StronglySorted lt (seq a n).
Proof.
  revert a. induction n as [|n IH]; intros a; [constructor|]. cbn [seq]. constructor; [apply IH|].
  apply Forall_forall. intros x Hx. apply in_seq in Hx. lia.
Qed.
Lemma filter_sorted {R : nat -> nat -> Prop} f l : StronglySorted R l -> StronglySorted R (filter f l).
Proof.
  induction 1 as [|a l Hs IH Hf]; [constructor|]. cbn [filter]. destruct (f a); [|exact IH].
  constructor; [exact IH|]. rewrite Forall_forall in *. intros x Hx. apply filter_In in Hx. apply Hf, Hx.
Qed.

Definition membn (l : list nat) (d : nat) : bool := existsb (Nat.eqb d) l.
Lemma membn_In l d : membn l d = true <-> In d l.
Proof.
  unfold membn. rewrite existsb_exists. split.
  - intros [x [Hx He]]. apply Nat.eqb_eq in He. subst. exact Hx.
  - intros H. exists d. split; [exact H|apply Nat.eqb_refl].
Qed.

Lemma sort_canonical l : NoDup l -> (forall d, In d l -> d < 7) -> sort l = filter (membn l) (seq 0 7).
Proof.
  intros Hn Hb. apply sorted_lt_unique.
  - apply sorted_le_nodup_lt; [apply sort_sorted|]. apply (Permutation_NoDup (sort_perm l) Hn).
  - apply filter_sorted, seq_sorted.
  - intros x. rewrite filter_In, membn_In, in_seq. split.
    + intros H. apply (Permutation_in _ (Permutation_sym (sort_perm l))) in H. split; [specialize (Hb x H); lia|exact H].
    + intros [_ H]. apply (Permutation_in _ (sort_perm l)), H.
Qed.

(* the canonical list is one of the 128 sublists of the finite core *)
Definition vecn (l : list nat) : N := fold_left (fun a d => N.setbit a (N.of_nat d)) l 0%N.
Lemma testbit_vecn l : forall a d, N.testbit (fold_left (fun a d => N.setbit a (N.of_nat d)) l a) (N.of_nat d)
  = (N.testbit a (N.of_nat d) || membn l d)%bool.
Proof.
  induction l as [|x l IH]; intros a d; cbn [fold_left membn existsb].
  - rewrite orb_false_r. reflexivity.
  - rewrite IH. fold (membn l d). destruct (Nat.eqb_spec d x) as [->|Hne].
    + rewrite N.setbit_eq. rewrite orb_true_l, orb_true_r. reflexivity.
    + rewrite N.setbit_neq by lia. rewrite orb_false_l. reflexivity.
Qed.
Lemma canonical_subl l : filter (membn l) (seq 0 7) = subl (vecn l mod 128).
Proof.
  unfold subl. apply filter_ext_in. intros d Hd. apply in_seq in Hd.
  change 128%N with (2^7)%N. rewrite N.mod_pow2_bits_low by lia.
  unfold vecn. rewrite testbit_vecn, N.bits_0. reflexivity.
Qed.

(* the model and the Spec see a list only through its members *)
Lemma existsb_perm (f : nat -> bool) l l' : Permutation l l' -> existsb f l = existsb f l'.
Proof.
  induction 1 as [|x l l' _ IH|x y l|l l' l'' _ IH1 _ IH2]; cbn [existsb]; try congruence.
  - destruct (f x), (f y); reflexivity.
Qed.
Lemma min_list_perm l l' : Permutation l l' -> min_list l = min_list l'.
Proof.
  unfold min_list. induction 1 as [|x l l' _ IH|x y l|l l' l'' _ IH1 _ IH2]; cbn [fold_right]; try congruence.
  lia.
Qed.
Lemma sorted_sort_id l : StronglySorted le l -> sort l = l.
Proof.
  induction 1 as [|a l Hs IH Hf]; [reflexivity|]. cbn [sort fold_right]. fold (sort l). rewrite IH.
  destruct l as [|y r]; [reflexivity|]. cbn [insert]. rewrite Forall_forall in Hf.
  replace (a <=? y) with true; [reflexivity|]. symmetry. apply Nat.leb_le. apply Hf. left. reflexivity.
Qed.
Lemma sort_idem l : sort (sort l) = sort l.
Proof. apply sorted_sort_id, sort_sorted. Qed.

Lemma model_sort_invariant w f l : NoDup l -> (forall d, In d l -> d < 7) ->
  pretty_next_run_core false w f l = pretty_next_run_core false w f (sort l).
Proof.
  intros Hn Hb. unfold pretty_next_run_core.
  destruct l as [|x r] eqn:E; [reflexivity|]. rewrite <- E in *.
  assert (Hs : sort l <> []).
  { intros H. assert (Hin : In x (sort l)) by (apply (Permutation_in _ (sort_perm l)); rewrite E; left; reflexivity).
    rewrite H in Hin. exact Hin. }
  destruct (sort l) as [|y r'] eqn:Es; [contradiction|]. rewrite <- Es in *.
  rewrite (existsb_perm _ _ _ (sort_perm l)). rewrite sort_idem. reflexivity.
Qed.
Lemma spec_sort_invariant w f l : next_run_spec w f l = next_run_spec w f (sort l).
Proof.
  unfold next_run_spec. destruct l as [|x r] eqn:E; [reflexivity|]. rewrite <- E in *.
  assert (Hs : sort l <> []).
  { intros H. assert (Hin : In x (sort l)) by (apply (Permutation_in _ (sort_perm l)); rewrite E; left; reflexivity).
    rewrite H in Hin. exact Hin. }
  destruct (sort l) as [|y r'] eqn:Es; [contradiction|]. rewrite <- Es in *.
  rewrite (min_list_perm _ _ (Permutation_map _ (sort_perm l))). reflexivity.
Qed.

Lemma nr_eqb_eq a b : nr_eqb a b = true -> a = b.
Proof. destruct a, b; cbn; try discriminate; try reflexivity. intros H. apply Nat.eqb_eq in H. subst. reflexivity. Qed.

(* C13, day-choice part: for every weekday, every "start still ahead" flag and every duplicate-free
   selection given in any order, the repaired code chooses what the Spec chooses *)
Theorem next_run_core_correct w f l : w < 7 -> NoDup l -> (forall d, In d l -> d < 7) ->
  pretty_next_run_core false w f l = next_run_spec w f l.
Proof.
  intros Hw Hn Hb. rewrite model_sort_invariant, spec_sort_invariant by assumption.
  rewrite (sort_canonical l Hn Hb), canonical_subl.
  set (v := (vecn l mod 128)%N).
  assert (Hv : (v < 128)%N) by (apply N.mod_lt; discriminate).
  set (fb := (if f then 1 else 0)%N).
  assert (Hfb : (fb = 0 \/ fb = 1)%N) by (unfold fb; destruct f; auto).
  set (wn := N.of_nat w). assert (Hwn : (wn < 7)%N) by (unfold wn; lia).
  set (x := (v + 128 * wn + 1024 * fb)%N).
  pose proof (sweep_all (core_ok false) 11 x fixed_core_all) as H.
  change (2 ^ N.of_nat 11)%N with 2048%N in H.
  assert (Hx : (x < 2048)%N) by (unfold x; lia).
  specialize (H Hx). unfold core_ok in H.
  assert (E1 : (x mod 128 = v)%N) by (unfold x; lia).
  assert (E2' : ((x / 128) mod 8 = wn)%N) by (unfold x; lia).
  assert (E2 : N.to_nat ((x / 128) mod 8)%N = w) by (rewrite E2'; unfold wn; apply Nat2N.id).
  assert (E3' : (x / 1024 = fb)%N) by (unfold x; lia).
  assert (E3 : N.odd (x / 1024)%N = f) by (rewrite E3'; unfold fb; destruct f; reflexivity).
  rewrite E1, E2, E3 in H. replace (w <? 7) with true in H by (symmetry; apply Nat.ltb_lt; exact Hw).
  apply nr_eqb_eq, H.
Qed.
Print Assumptions next_run_core_correct.
