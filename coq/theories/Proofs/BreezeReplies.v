(* C16: thermostat control never reports success on an empty reply: a successful response means every reply that was read,
   one per frame written, was non-empty.  No premise on the configuration, the remote or the request. *)
Require Import AS.Base.Prelude AS.Base.Hex AS.Base.Template AS.Base.Exchange AS.Gen.Extracted
  AS.Model.DeviceTools AS.Model.Messages AS.Model.Remotes AS.Model.Api AS.Proofs.FrameAll.
Open Scope N_scope.

(* a step that reads: it either raises, or writes one frame and returns the next reply of the script *)
Definition reads (st st' : io) (r : bytes) : Prop :=
  exists f, frames st' = frames st ++ [f] /\ r = hd [] (replies st) /\ replies st' = tl (replies st).

Lemma send_reads signed st st' r : send signed st = (st', Ok r) -> reads st st' r.
Proof.
  unfold send. destruct (unhexlify signed) as [bs|]; [|discriminate].
  destruct (replies st) as [|x rest] eqn:E; intros H; inversion H; subst; exists bs; cbn [frames replies]; rewrite ?E; repeat split; reflexivity.
Qed.

Lemma send_template_reads lg t args fl st st' r : send_template_gen lg t args fl st = (st', Ok r) -> reads st st' r.
Proof.
  unfold send_template_gen, bindM, lift.
  destruct (format t args) as [p|]; [|discriminate].
  destruct (if fl then set_message_length lg p else Ok p) as [p'|]; [|discriminate].
  destruct (sign_packet_with_crc_key p') as [sg|]; [|discriminate]. apply send_reads.
Qed.

Lemma login_reads c t2 now st st' l : login c t2 now st = (st', Ok l) -> reads st st' (lr_response l).
Proof.
  unfold login, bindM, lift, ret.
  destruct (timestamp_hex now) as [ts|]; [|discriminate].
  destruct (if t2 then _ else _) as [p|]; [|discriminate].
  destruct (sign_packet_with_crc_key p) as [sg|]; [|discriminate].
  destruct (send sg st) as [st1 [r|e]] eqn:Es; [|discriminate]. intros H. inversion H; subst. cbn [lr_response]. apply (send_reads _ _ _ _ Es).
Qed.

(* the script consumed so far: [k] frames written, [k] replies taken from the front, all of them non-empty *)
Definition progress (script : list bytes) (st : io) : Prop :=
  exists k, length (frames st) = k /\ replies st = skipn k script /\ Forall (fun x => x <> []) (firstn k script) /\ (k <= length script)%nat.

Lemma progress_step script st st' r : progress script st -> reads st st' r -> r <> [] -> progress script st'.
Proof.
  intros [k [Hk [Hr [Hf Hl]]]] [f [Hfr [Hres Hrep]]] Hne. exists (S k).
  assert (Hnth : exists x rest, skipn k script = x :: rest).
  { destruct (skipn k script) as [|x rest] eqn:E; [|eauto]. exfalso. apply Hne. rewrite Hres, Hr. reflexivity. }
  destruct Hnth as [x [rest E]].
  assert (Hx : r = x) by (rewrite Hres, Hr, E; reflexivity). subst x.
  assert (Hlen : (k < length script)%nat).
  { destruct (Nat.lt_ge_cases k (length script)) as [L|L]; [exact L|]. assert (K : skipn k script = []) by (apply skipn_all2; exact L). congruence. }
  split; [rewrite Hfr, app_length, Hk; cbn; lia|]. split.
  - rewrite Hrep, Hr, E. cbn [tl]. replace (S k) with (k + 1)%nat by lia. rewrite <- (skipn_skipn' 1 k script), E. reflexivity.
  - split; [|lia].
    assert (E2 : firstn (S k) script = firstn k script ++ [r]).
    { rewrite <- (firstn_skipn k script) at 1. rewrite E. rewrite firstn_app, firstn_firstn.
      rewrite firstn_length, (Nat.min_l k (length script)) by lia. replace (Nat.min (S k) k) with k by lia. replace (S k - k)%nat with 1%nat by lia. reflexivity. }
    rewrite E2. apply Forall_app. split; [exact Hf|constructor; [exact Hne|constructor]].
Qed.

Lemma successful_nonempty (b : bytes) : successful b = true -> b <> [].
Proof. destruct b; [discriminate|discriminate]. Qed.

Lemma progress_init script : progress script {| frames := []; replies := script |}.
Proof. exists 0%nat. cbn. repeat split; try constructor. lia. Qed.

(* every request, every remote, every configuration, every script *)
Theorem breeze_success_means_every_reply lg c now r state mode target fan swing update script fs resp :
  Exchange.run (control_breeze_device lg c now r state mode target fan swing update) script = (fs, Ok resp) ->
  resp <> [] ->
  (length fs <= length script)%nat /\ Forall (fun x => x <> []) (firstn (length fs) script) /\
  nth_error script (length fs - 1) = Some resp.
Proof.
  unfold Exchange.run. set (st0 := {| frames := []; replies := script |}). intros H Hne.
  pose proof (progress_init script) as P0. fold st0 in P0.
  (* the conclusion from a final state that made progress and whose last read was [resp] *)
  assert (Hfin : forall stp st', progress script stp -> reads stp st' resp ->
                 (length (frames st') <= length script)%nat /\ Forall (fun x => x <> []) (firstn (length (frames st')) script) /\
                 nth_error script (length (frames st') - 1) = Some resp).
  { intros stp st' Pp Hrd. destruct (progress_step script stp st' resp Pp Hrd Hne) as [k [Hk [Hr [Hf Hl]]]].
    rewrite Hk. split; [exact Hl|]. split; [exact Hf|].
    destruct Pp as [k0 [Hk0 [Hr0 _]]]. destruct Hrd as [f [Hfr [Hres _]]].
    assert (Hkk : k = S k0) by (rewrite <- Hk, Hfr, app_length, Hk0; cbn; lia). rewrite Hkk.
    replace (S k0 - 1)%nat with k0 by lia. rewrite Hres, Hr0 in Hne |- *.
    destruct (skipn k0 script) as [|x rest] eqn:E; [exfalso; apply Hne; reflexivity|]. cbn [hd].
    rewrite <- (firstn_skipn k0 script), E. rewrite nth_error_app2 by (rewrite firstn_length; lia).
    rewrite firstn_length, Nat.min_l by lia. rewrite Nat.sub_diag. reflexivity. }
  unfold control_breeze_device, bindM in H.
  destruct (login c true now st0) as [st1 [l|e]] eqn:El; [|discriminate].
  pose proof (login_reads _ _ _ _ _ _ El) as R1.
  destruct (successful (lr_response l)) eqn:S1; cbn [negb] in H; [|unfold raise in H; discriminate].
  pose proof (progress_step script st0 st1 _ P0 R1 (successful_nonempty _ S1)) as P1.
  set (main_needed := (is_some state || is_some mode || negb (target =? 0)%Z || is_some fan || (is_some swing && negb (r_sep r)))%bool) in *.
  destruct main_needed.
  - destruct (send_template_gen lg T_GET_STATE_PACKET2_TYPE2 _ false st1) as [st2 [sr|e]] eqn:E2; [|discriminate].
    pose proof (send_template_reads _ _ _ _ _ _ _ E2) as R2.
    destruct (parse_thermostat_reply sr) as [cur|e].
    2:{ destruct (is_key_error e || is_value_error e)%bool; unfold raise in H; discriminate. }
    destruct (successful sr) eqn:S2; cbn [negb] in H; [|unfold raise in H; discriminate].
    pose proof (progress_step script st1 st2 _ P1 R2 (successful_nonempty _ S2)) as P2.
    match type of H with context [if update then ?A else ?B] => set (mainstep := if update then A else B) in H end.
    destruct (mainstep st2) as [st3 [r2|e]] eqn:E3; [|discriminate].
    assert (R3 : reads st2 st3 r2).
    { unfold mainstep in E3. destruct update; [apply (send_template_reads _ _ _ _ _ _ _ E3)|].
      unfold lift in E3. destruct (build_command lg r _ _ _ _ _ _) as [cl|]; [|discriminate]. apply (send_template_reads _ _ _ _ _ _ _ E3). }
    destruct (successful r2) eqn:S3; [|unfold raise in H; discriminate].
    pose proof (progress_step script st2 st3 _ P2 R3 (successful_nonempty _ S3)) as P3.
    unfold ret at 1 in H.
    destruct (r_sep r && is_some swing && negb update)%bool.
    + unfold lift in H. destruct (build_swing_command lg r (or_else swing false)) as [cl|]; [|discriminate].
      destruct (send_template_gen lg T_BREEZE_COMMAND_PACKET _ true st3) as [st4 [r3|e]] eqn:E4; [|discriminate].
      pose proof (send_template_reads _ _ _ _ _ _ _ E4) as R4. unfold ret in H.
      assert (fs = frames st4 /\ resp = r3) by (split; congruence). destruct H0 as [-> ->]. apply (Hfin st3 st4 P3 R4).
    + unfold ret in H. assert (fs = frames st3 /\ resp = r2) by (split; congruence). destruct H0 as [-> ->]. apply (Hfin st2 st3 P2 R3).
  - unfold ret at 1 in H.
    destruct (r_sep r && is_some swing && negb update)%bool.
    + unfold lift in H. destruct (build_swing_command lg r (or_else swing false)) as [cl|]; [|discriminate].
      destruct (send_template_gen lg T_BREEZE_COMMAND_PACKET _ true st1) as [st4 [r3|e]] eqn:E4; [|discriminate].
      pose proof (send_template_reads _ _ _ _ _ _ _ E4) as R4. unfold ret in H.
      assert (fs = frames st4 /\ resp = r3) by (split; congruence). destruct H0 as [-> ->]. apply (Hfin st1 st4 P1 R4).
    + unfold ret, raise in H. discriminate.
Qed.
Print Assumptions breeze_success_means_every_reply.
