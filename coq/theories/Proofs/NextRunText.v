(* C13: the whole text function, and "the weekday named is one of the selected days" *)
Require Import AS.Base.Prelude AS.Base.Hex AS.Base.Dec AS.Gen.Extracted AS.Model.ScheduleTools AS.Model.NextRun AS.Model.ScheduleParser
  AS.Spec.NextRun AS.Proofs.NextRunCore AS.Proofs.NextRunProofs AS.Proofs.ScheduleProofs.
Open Scope nat_scope.

(* what the Spec's choice names, on the canonical subsets *)
Definition named_okb (x : N) : bool :=
  let v := (x mod 128)%N in let w := N.to_nat ((x / 128) mod 8)%N in let f := N.odd (x / 1024)%N in
  if w <? 7 then
    match subl v with
    | [] => true
    | _ => match next_run_spec w f (subl v) with
           | Today => N.testbit v (N.of_nat w) && f
           | Tomorrow => N.testbit v (N.of_nat ((w + 1) mod 7))
           | NextDay d => N.testbit v (N.of_nat d) && (d <? 7) && negb (d =? (w + 1) mod 7) && (negb (d =? w) || negb f)
           | NREx _ => false
           end
    end
  else true.
Lemma named_all : sweep named_okb 11 0 = true.
Proof. vm_compute. reflexivity. Qed.

Lemma in_subl v d : In d (subl v) <-> (N.testbit v (N.of_nat d) = true /\ d < 7).
Proof. unfold subl. rewrite filter_In, in_seq. split; intros [A B]; split; auto; lia. Qed.

Lemma in_canonical l d : (forall x, In x l -> x < 7) -> (In d l <-> In d (subl (vecn l mod 128))).
Proof.
  intros Hb. rewrite <- canonical_subl, filter_In, in_seq, membn_In. split.
  - intros H. split; [specialize (Hb d H); lia|exact H].
  - intros [_ H]. exact H.
Qed.

(* the day the text names is one of the selected days, and the three forms are used as the property says *)
Theorem spec_names_a_selected_day w f l : w < 7 -> NoDup l -> (forall d, In d l -> d < 7) -> l <> [] ->
  match next_run_spec w f l with
  | Today => In w l /\ f = true
  | Tomorrow => In ((w + 1) mod 7) l
  | NextDay d => In d l /\ d <> (w + 1) mod 7 /\ (d = w -> f = false)
  | NREx _ => False
  end.
Proof.
  intros Hw Hn Hb Hne.
  assert (Hc : forall d, In d l <-> In d (subl (vecn l mod 128))) by (intros d; apply in_canonical, Hb).
  rewrite spec_sort_invariant, (sort_canonical l Hn Hb), canonical_subl.
  set (v := (vecn l mod 128)%N) in *.
  assert (Hv : (v < 128)%N) by (apply N.mod_lt; discriminate).
  set (fb := (if f then 1 else 0)%N).
  assert (Hfb : (fb = 0 \/ fb = 1)%N) by (unfold fb; destruct f; auto).
  set (wn := N.of_nat w). assert (Hwn : (wn < 7)%N) by (unfold wn; lia).
  set (x := (v + 128 * wn + 1024 * fb)%N).
  pose proof (sweep_all named_okb 11 x named_all) as H.
  change (2 ^ N.of_nat 11)%N with 2048%N in H.
  assert (Hx : (x < 2048)%N) by (unfold x; lia).
  specialize (H Hx). unfold named_okb in H.
  assert (E1 : (x mod 128 = v)%N) by (unfold x; lia).
  assert (E2' : ((x / 128) mod 8 = wn)%N) by (unfold x; lia).
  assert (E2 : N.to_nat ((x / 128) mod 8)%N = w) by (rewrite E2'; unfold wn; apply Nat2N.id).
  assert (E3' : (x / 1024 = fb)%N) by (unfold x; lia).
  assert (E3 : N.odd (x / 1024)%N = f) by (rewrite E3'; unfold fb; destruct f; reflexivity).
  rewrite E1, E2, E3 in H. replace (w <? 7) with true in H by (symmetry; apply Nat.ltb_lt; exact Hw).
  destruct (subl v) as [|y r] eqn:Es.
  - exfalso. destruct l as [|a l']; [contradiction|]. exact (proj1 (Hc a) (or_introl eq_refl)).
  - rewrite <- Es in *. destruct (next_run_spec w f (subl v)) as [| |d|e].
    + apply andb_prop in H. destruct H as [H1 H2]. split; [apply Hc, in_subl; split; [exact H1|exact Hw]|exact H2].
    + apply Hc, in_subl. split; [exact H|]. apply Nat.mod_upper_bound. lia.
    + apply andb_prop in H. destruct H as [H H4]. apply andb_prop in H. destruct H as [H H3]. apply andb_prop in H. destruct H as [H1 H2].
      apply Nat.ltb_lt in H2. split; [apply Hc, in_subl; split; assumption|]. split.
      * apply Bool.negb_true_iff, Nat.eqb_neq in H3. exact H3.
      * intros ->. rewrite Nat.eqb_refl in H4. cbn in H4. apply Bool.negb_true_iff in H4. exact H4.
    + discriminate.
Qed.
Print Assumptions spec_names_a_selected_day.

(* the Days table: member d (definition order) has weekday d *)
Lemma weekday_is_index : forallb (fun d => N.to_nat (day_weekday d) =? d) (seq 0 7) = true.
Proof. vm_compute. reflexivity. Qed.
Lemma map_weekday ds : (forall d, In d ds -> d < n_days) -> map (fun d => N.to_nat (day_weekday d)) ds = ds.
Proof.
  intros Hb. induction ds as [|d ds IH]; [reflexivity|]. cbn [map]. f_equal.
  - pose proof weekday_is_index as H. rewrite forallb_forall in H. apply Nat.eqb_eq, H, in_seq.
    specialize (Hb d (or_introl eq_refl)). change n_days with 7 in Hb. lia.
  - apply IH. intros x Hx. apply Hb. right. exact Hx.
Qed.

Definition text_of (r : next_run) (start : bytes) : result bytes :=
  match r with
  | Today => Ok (s2l "Due today at " ++ start)
  | Tomorrow => Ok (s2l "Due tomorrow at " ++ start)
  | NextDay w => Ok (s2l "Due next " ++ weekday_value w ++ s2l " at " ++ start)
  | NREx e => Exc e
  end.

Lemma weekday_of_lt z t : weekday_of z t < 7.
Proof. unfold weekday_of. assert (H := Z.mod_pos_bound ((local_secs z t / 86400 + 3)%Z) 7 ltac:(lia)). lia. Qed.

(* the text for every zone table, instant, start minute and duplicate-free day set in any order *)
Theorem next_run_text z now s ds : (s < 1440)%N -> NoDup ds -> (forall d, In d ds -> d < n_days) ->
  pretty_next_run false false z now (hhmm s) ds =
  text_of (next_run_spec (weekday_of z now) ((60 * fst (hm_of z now) + snd (hm_of z now) <? s)%N) ds) (hhmm s).
Proof.
  intros Hs Hn Hb. unfold pretty_next_run. destruct ds as [|d ds'] eqn:E; [reflexivity|]. rewrite <- E in *.
  rewrite (strptime_hhmm s Hs). cbn [bind fst snd].
  rewrite (map_weekday ds Hb).
  replace (60 * (s / 60) + s mod 60)%N with s by (pose proof (N.div_mod s 60); lia).
  rewrite next_run_core_correct; [| apply weekday_of_lt | exact Hn | intros x Hx; specialize (Hb x Hx); change n_days with 7 in Hb; exact Hb].
  destruct (next_run_spec _ _ ds); reflexivity.
Qed.
Print Assumptions next_run_text.
