(* C15: the remote the code builds from an IR set has the capabilities present in the set, and build_command
   returns the code the declarative Spec (Spec/Remote.v) names *)
Require Import AS.Base.Prelude AS.Base.Hex AS.Base.Dec AS.Gen.Extracted AS.Model.DeviceTools AS.Model.Remotes AS.Spec.IrChoice AS.Spec.Remote
  AS.Proofs.RemotesProofs AS.Proofs.LengthProofs.
Open Scope Z_scope.

(* ---- the wave map ---- *)
Definition wave_entry (w : wave) : bytes * (bytes * bytes) := (w_key w, (w_para w, w_hex w)).

Lemma fold_resolve_map ws : forall r, r_map (fold_left resolve_step ws r) = r_map r ++ map wave_entry ws.
Proof.
  induction ws as [|w ws IH]; intros r; [cbn; rewrite app_nil_r; reflexivity|].
  cbn [fold_left map]. rewrite IH. unfold resolve_step. destruct (if all_digits _ then _ else _) as [mn mx]. cbn [r_map].
  rewrite <- app_assoc. reflexivity.
Qed.
Lemma make_remote_map s : r_map (make_remote s) = map wave_entry (ir_waves s).
Proof. unfold make_remote. rewrite fold_resolve_map. reflexivity. Qed.

(* dict semantics against "the last wave with this key" *)
Lemma map_get_app k m1 m2 : map_get k (m1 ++ m2) = match map_get k m2 with Some v => Some v | None => map_get k m1 end.
Proof.
  induction m1 as [|[k' v] m1 IH]; [cbn; destruct (map_get k m2); reflexivity|].
  cbn [app map_get]. rewrite IH. destruct (map_get k m2); [reflexivity|]. reflexivity.
Qed.
Lemma find_app' {A} (f : A -> bool) l1 l2 : find f (l1 ++ l2) = match find f l1 with Some x => Some x | None => find f l2 end.
Proof. induction l1 as [|x l1 IH]; [reflexivity|]. cbn [app find]. destruct (f x); [reflexivity|exact IH]. Qed.
Lemma map_get_stored k ws : map_get k (map wave_entry ws) =
  match find (fun w => beq (w_key w) k) (rev ws) with Some w => Some (w_para w, w_hex w) | None => None end.
Proof.
  induction ws as [|w ws IH]; [reflexivity|]. cbn [map map_get rev]. rewrite IH.
  rewrite find_app'. destruct (find (fun w0 => beq (w_key w0) k) (rev ws)); [reflexivity|].
  cbn [find wave_entry]. unfold beq. destruct (bytes_eq_dec k (w_key w)), (bytes_eq_dec (w_key w) k); try reflexivity; congruence.
Qed.
Lemma present_stored s k :
  map_get k (r_map (make_remote s)) = match stored s k with Some w => Some (w_para w, w_hex w) | None => None end.
Proof. rewrite make_remote_map. apply map_get_stored. Qed.

(* ---- capabilities ---- *)
Lemma fold_resolve_flags ws : forall r,
  r_id (fold_left resolve_step ws r) = r_id r /\ r_toggle (fold_left resolve_step ws r) = r_toggle r /\
  r_sep (fold_left resolve_step ws r) = r_sep r.
Proof.
  induction ws as [|w ws IH]; intros r; [auto|]. cbn [fold_left]. destruct (IH (resolve_step r w)) as [A [B C]].
  rewrite A, B, C. unfold resolve_step. destruct (if all_digits _ then _ else _) as [mn mx]. auto.
Qed.

(* mode of a key prefix: the two lookups agree *)
Lemma assoc_s_mode c : assoc_s c command_to_mode = mode_of_code c.
Proof.
  unfold mode_of_code. induction command_to_mode as [|[a b] t IH]; [reflexivity|].
  cbn [assoc_s find]. unfold beq. destruct (bytes_eq_dec c (s2l a)); [reflexivity|exact IH].
Qed.
Lemma pyslice_0_2 (k : bytes) : pyslice 0 2 k = firstn 2 k. Proof. reflexivity. Qed.

(* temperature of a key: characters 2..4 all digits *)
Lemma temp_of_key k : (if all_digits (pyslice 2 4 k) then Some (digits_val (pyslice 2 4 k)) else None) = two_digit_temp k.
Proof.
  unfold two_digit_temp, pyslice. change (4 - 2)%nat with 2%nat.
  destruct (firstn 2 (skipn 2 k)) as [|a [|b [|c r]]] eqn:E.
  - reflexivity.
  - unfold all_digits, digits_val. cbn [forallb fold_left andb]. rewrite Bool.andb_true_r. destruct (is_digit a); [|reflexivity].
    repeat f_equal; lia.
  - unfold all_digits, digits_val. cbn [forallb fold_left andb]. rewrite Bool.andb_true_r. destruct (is_digit a && is_digit b)%bool; [|reflexivity].
    repeat f_equal; lia.
  - exfalso. assert (H : (length (firstn 2 (skipn 2 k)) <= 2)%nat) by apply firstn_le_length. rewrite E in H. cbn in H. lia.
Qed.

(* one step on the three capability components, in terms of the Spec's per-key functions *)
Definition add_mode (sup : list string) (m : option string) : list string :=
  match m with Some x => if existsb (String.eqb x) sup then sup else sup ++ [x] | None => sup end.
Lemma resolve_step_caps r w :
  r_supported (resolve_step r w) = add_mode (r_supported r) (mode_of_code (firstn 2 (w_key w))) /\
  r_min (resolve_step r w) = match two_digit_temp (w_key w) with Some v => Z.min v (r_min r) | None => r_min r end /\
  r_max (resolve_step r w) = match two_digit_temp (w_key w) with Some v => Z.max v (r_max r) | None => r_max r end.
Proof.
  unfold resolve_step. rewrite <- temp_of_key, assoc_s_mode, pyslice_0_2.
  destruct (all_digits (pyslice 2 4 (w_key w))); cbn [r_supported r_min r_max].
  - split; [reflexivity|]. split.
    + destruct (Z.ltb_spec (digits_val (pyslice 2 4 (w_key w))) (r_min r)); lia.
    + destruct (Z.ltb_spec (r_max r) (digits_val (pyslice 2 4 (w_key w)))); lia.
  - auto.
Qed.

Lemma fold_caps ws : forall r,
  r_supported (fold_left resolve_step ws r) = fold_left add_mode (map (fun w => mode_of_code (firstn 2 (w_key w))) ws) (r_supported r) /\
  r_min (fold_left resolve_step ws r) = fold_right Z.min (r_min r) (filter_map two_digit_temp (map w_key ws)) /\
  r_max (fold_left resolve_step ws r) = fold_right Z.max (r_max r) (filter_map two_digit_temp (map w_key ws)).
Proof.
  induction ws as [|w ws IH]; intros r; [auto|]. cbn [fold_left map]. destruct (IH (resolve_step r w)) as [A [B C]].
  destruct (resolve_step_caps r w) as [S1 [S2 S3]]. rewrite A, B, C, S1, S2, S3. split; [reflexivity|].
  cbn [filter_map]. destruct (two_digit_temp (w_key w)) as [v|]; [|auto]. cbn [fold_right].
  assert (Hmin : forall l a v, fold_right Z.min (Z.min v a) l = Z.min v (fold_right Z.min a l)).
  { induction l as [|x l IHl]; intros a v0; [reflexivity|]. cbn [fold_right]. rewrite IHl. lia. }
  assert (Hmax : forall l a v, fold_right Z.max (Z.max v a) l = Z.max v (fold_right Z.max a l)).
  { induction l as [|x l IHl]; intros a v0; [reflexivity|]. cbn [fold_right]. rewrite IHl. lia. }
  rewrite Hmin, Hmax. auto.
Qed.

(* appending unseen modes from the left = first occurrences in order *)
Definition mem_s (x : string) (l : list string) : bool := existsb (String.eqb x) l.
Lemma filter_nodup_s p l : filter p (nodup_s l) = nodup_s (filter p l).
Proof.
  induction l as [|x l IH]; [reflexivity|]. cbn [nodup_s filter]. destruct (p x) eqn:E.
  - cbn [nodup_s]. f_equal. rewrite <- IH.
    assert (H : forall q l0, filter p (filter q l0) = filter q (filter p l0)).
    { intros q l0. induction l0 as [|y l0 IH0]; [reflexivity|]. cbn [filter]. destruct (q y) eqn:Eq, (p y) eqn:Ep; cbn [filter]; rewrite ?Eq, ?Ep, IH0; reflexivity. }
    apply H.
  - rewrite <- IH. clear IH. induction (nodup_s l) as [|y t IHt]; [reflexivity|]. cbn [filter].
    destruct (negb (String.eqb x y)) eqn:Exy; cbn [filter].
    + destruct (p y); [f_equal|]; exact IHt.
    + apply Bool.negb_false_iff, String.eqb_eq in Exy. subst y. rewrite E. exact IHt.
Qed.
Lemma add_modes_nodup ms : forall acc,
  fold_left add_mode (map Some ms) acc = acc ++ nodup_s (filter (fun y => negb (mem_s y acc)) ms).
Proof.
  induction ms as [|m ms IH]; intros acc; [cbn; rewrite app_nil_r; reflexivity|].
  cbn [map fold_left add_mode filter]. fold (mem_s m acc). destruct (mem_s m acc) eqn:E; cbn [negb].
  - apply IH.
  - rewrite IH. cbn [nodup_s]. rewrite <- app_assoc. cbn [app]. f_equal. f_equal.
    rewrite filter_nodup_s. f_equal.
    assert (H : forall l0, filter (fun y => negb (mem_s y (acc ++ [m]))) l0 = filter (fun y => negb (String.eqb m y)) (filter (fun y => negb (mem_s y acc)) l0)).
    { induction l0 as [|y l0 IH0]; [reflexivity|]. cbn [filter]. unfold mem_s at 1. rewrite existsb_app. fold (mem_s y acc). cbn [existsb]. rewrite Bool.orb_false_r.
      destruct (mem_s y acc); cbn [negb orb]; [exact IH0|]. cbn [filter]. rewrite (String.eqb_sym y m).
      destruct (String.eqb m y); cbn [negb]; rewrite IH0; reflexivity. }
    apply H.
Qed.
Lemma add_mode_none : forall l acc, fold_left add_mode l acc = fold_left add_mode (map Some (filter_map (fun x => x) l)) acc.
Proof. induction l as [|[x|] l IH]; intros acc; cbn [fold_left filter_map map add_mode]; [reflexivity|apply IH|apply IH]. Qed.
Lemma filter_map_map {A B C} (f : B -> option C) (g : A -> B) l : filter_map f (map g l) = filter_map (fun x => f (g x)) l.
Proof. induction l as [|x l IH]; [reflexivity|]. cbn [map filter_map]. rewrite IH. reflexivity. Qed.

(* the table of the sources names the same ids as the Spec's (order and repetitions aside) *)
Lemma ids_same_members : forallb (fun x => existsb (String.eqb x) separate_swing_ids) special_swing_ids = true /\
                         forallb (fun x => existsb (String.eqb x) special_swing_ids) separate_swing_ids = true.
Proof. vm_compute. split; reflexivity. Qed.
Lemma member_as_existsb (l : list string) (k : bytes) :
  existsb (fun x => if bytes_eq_dec k (s2l x) then true else false) l = true <-> exists x, In x l /\ k = s2l x.
Proof.
  rewrite existsb_exists. split; intros [x [Hin H]]; exists x; (split; [exact Hin|]).
  - destruct (bytes_eq_dec k (s2l x)); [assumption|discriminate].
  - destruct (bytes_eq_dec k (s2l x)); [reflexivity|contradiction].
Qed.
Lemma sep_ids_agree (k : bytes) :
  existsb (fun x => if bytes_eq_dec k (s2l x) then true else false) special_swing_ids =
  existsb (fun x => beq k (s2l x)) separate_swing_ids.
Proof.
  destruct ids_same_members as [H1 H2]. rewrite forallb_forall in H1, H2.
  change (fun x => beq k (s2l x)) with (fun x => if bytes_eq_dec k (s2l x) then true else false).
  apply Bool.eq_true_iff_eq. rewrite !member_as_existsb.
  split; intros [x [Hin ->]].
  - specialize (H1 x Hin). apply existsb_exists in H1. destruct H1 as [y [Hy E]]. apply String.eqb_eq in E. subst y. exists x. auto.
  - specialize (H2 x Hin). apply existsb_exists in H2. destruct H2 as [y [Hy E]]. apply String.eqb_eq in E. subst y. exists x. auto.
Qed.

Theorem capabilities_are_those_of_the_set s :
  let r := make_remote s in
  (r_supported r, r_min r, r_max r, r_toggle r, r_sep r) = spec_capabilities s.
Proof.
  cbv zeta. unfold make_remote, spec_capabilities.
  set (init := {| r_id := ir_id s; r_min := 100; r_max := -100; r_toggle := ir_onoff s =? 1;
                  r_sep := existsb (fun x => if bytes_eq_dec (ir_id s) (s2l x) then true else false) special_swing_ids;
                  r_supported := []; r_map := [] |}).
  destruct (fold_caps (ir_waves s) init) as [A [B C]]. destruct (fold_resolve_flags (ir_waves s) init) as [_ [D E]].
  rewrite A, B, C, D, E. cbn [init r_supported r_min r_max r_toggle r_sep].
  rewrite add_mode_none, add_modes_nodup. cbn [app mem_s existsb negb].
  assert (Hf : forall l : list string, filter (fun _ => true) l = l) by (induction l as [|x l IH]; cbn; [|rewrite IH]; reflexivity).
  rewrite Hf, !filter_map_map. rewrite (sep_ids_agree (ir_id s)). reflexivity.
Qed.
Print Assumptions capabilities_are_those_of_the_set.

(* ---- build_command ---- *)
Lemma assoc_n_mode m : assoc_n m mode_to_command = code_of_mode m.
Proof.
  unfold code_of_mode. induction mode_to_command as [|[a b] t IH]; [reflexivity|].
  cbn [assoc_n find]. destruct (String.eqb m a); [reflexivity|exact IH].
Qed.
Lemma assoc_n_fan f : assoc_n f fan_to_command = code_of_fan f.
Proof.
  unfold code_of_fan. induction fan_to_command as [|[a b] t IH]; [reflexivity|].
  cbn [assoc_n find]. destruct (String.eqb f a); [reflexivity|exact IH].
Qed.

(* every supported mode is one of the five: three fan modes, two temperature modes *)
Lemma in_nodup_s x l : In x (nodup_s l) -> In x l.
Proof.
  induction l as [|y l IH]; [auto|]. cbn [nodup_s]. intros [->|H]; [left; reflexivity|right; apply IH].
  apply filter_In in H. exact (proj1 H).
Qed.
Lemma in_filter_map {A B} (f : A -> option B) l y : In y (filter_map f l) -> exists x, In x l /\ f x = Some y.
Proof.
  induction l as [|x l IH]; [intros []|]. cbn [filter_map]. destruct (f x) as [z|] eqn:E.
  - intros [->|H]; [exists x; split; [left; reflexivity|exact E]|]. destruct (IH H) as [x' [Hx Hf]]. exists x'. split; [right; exact Hx|exact Hf].
  - intros H. destruct (IH H) as [x' [Hx Hf]]. exists x'. split; [right; exact Hx|exact Hf].
Qed.
Lemma mode_values_classified : forallb (fun '(_, m) => xorb (is_fan_mode m) (is_temp_mode m)) command_to_mode = true.
Proof. vm_compute. reflexivity. Qed.
Lemma mode_of_code_classified c m : mode_of_code c = Some m -> xorb (is_fan_mode m) (is_temp_mode m) = true.
Proof.
  unfold mode_of_code. destruct (find _ command_to_mode) as [[a b]|] eqn:E; [|discriminate]. intros H; inversion H; subst.
  apply find_some in E. pose proof mode_values_classified as Hc. rewrite forallb_forall in Hc. exact (Hc _ (proj1 E)).
Qed.
Lemma supported_classified s m : existsb (String.eqb m) (let '(sup, _, _, _, _) := spec_capabilities s in sup) = true ->
  xorb (is_fan_mode m) (is_temp_mode m) = true.
Proof.
  unfold spec_capabilities. intros H. apply existsb_exists in H. destruct H as [x [Hin Hx]]. apply String.eqb_eq in Hx. subst x.
  apply in_nodup_s in Hin. destruct (in_filter_map _ _ _ Hin) as [k [_ Hk]]. exact (mode_of_code_classified _ _ Hk).
Qed.

(* the key list as prefix P (toggle prefix, mode, temperature) ++ fan part ++ swing part *)
Lemma firstn_app_exact {A} (a b : list A) : firstn (length a) (a ++ b) = a.
Proof. rewrite firstn_app, Nat.sub_diag, firstn_all. cbn [firstn]. apply app_nil_r. Qed.

Definition stored_b (s : irset) (k : bytes) : bool := match stored s k with Some _ => true | None => false end.

(* the pop loop on P ++ [f] ++ sw picks the Spec's candidate: exact, else without swing, else without the fan part *)
Lemma lookup_three (present : bytes -> bool) (P : list bytes) (f : bytes) (sw : list bytes) :
  P <> [] -> (length sw <= 1)%nat ->
  let K := P ++ [f] ++ sw in
  let cands := [K; P ++ [f]; P] in
  match find (fun k => present (concat k)) cands with
  | Some k => lookup_key present K = k
  | None => True
  end.
Proof.
  intros HP Hsw K cands.
  assert (HK : K <> []) by (unfold K; destruct P; [contradiction|discriminate]).
  destruct (lookup_key_is_choice present K HK) as [n [Hn [Hrange [Hpres Hmax]]]].
  assert (LK : length K = (length P + 1 + length sw)%nat) by (unfold K; rewrite !app_length; cbn [length]; lia).
  assert (F1 : firstn (length P + 1) K = P ++ [f]).
  { unfold K. rewrite app_assoc. replace (length P + 1)%nat with (length (P ++ [f])) by (rewrite app_length; cbn; lia). apply firstn_app_exact. }
  assert (F0 : firstn (length P) K = P) by (unfold K; apply firstn_app_exact).
  assert (FK : firstn (length K) K = K) by apply firstn_all.
  assert (LP : (1 <= length P)%nat) by (destruct P; [contradiction|cbn; lia]).
  unfold cands. cbn [find].
  destruct (present (concat K)) eqn:E2.
  { (* exact key stored: nothing longer exists, so n = |K| *)
    rewrite Hn. destruct (Nat.eq_dec n (length K)) as [->|Hne]; [exact FK|].
    exfalso. assert (Hlt : (n < length K <= length K)%nat) by lia. specialize (Hmax (length K) Hlt). rewrite FK in Hmax. congruence. }
  destruct (present (concat (P ++ [f]))) eqn:E1.
  { rewrite Hn. destruct (Nat.eq_dec n (length P + 1)) as [->|Hne]; [exact F1|]. exfalso.
    destruct (Nat.lt_ge_cases n (length P + 1)) as [Hlt|Hge].
    - assert (H : (n < length P + 1 <= length K)%nat) by lia. specialize (Hmax _ H). rewrite F1 in Hmax. congruence.
    - (* n > |P|+1: then n = |K| = |P|+2 and the exact key would be present *)
      assert (n = length K) by lia. subst n. assert (H2 : (2 <= length K)%nat) by lia. specialize (Hpres H2). rewrite FK in Hpres. congruence. }
  destruct (present (concat P)) eqn:E0; [|exact I].
  rewrite Hn. destruct (Nat.eq_dec n (length P)) as [->|Hne]; [exact F0|]. exfalso.
  destruct (Nat.lt_ge_cases n (length P)) as [Hlt|Hge].
  - assert (H : (n < length P <= length K)%nat) by lia. specialize (Hmax _ H). rewrite F0 in Hmax. congruence.
  - assert (H2 : (2 <= n)%nat) by lia. specialize (Hpres H2).
    destruct (Nat.eq_dec n (length P + 1)) as [->|Hne1]; [rewrite F1 in Hpres; congruence|].
    assert (n = length K) by lia. subst n. rewrite FK in Hpres. congruence.
Qed.

Definition result_of_spec (c : spec_cmd) : option (result (bytes * bytes)) :=
  match c with
  | Code text => Some (let cmd := s2l "00000000" ++ hexlify text in do len <- breeze_command_length false cmd ;; Ok (cmd, len))
  | Refused => Some (Exc RuntimeError)
  | Silent => None
  end.

Lemma command_of_stored s k w : stored s (concat k) = Some w ->
  command_of (make_remote s) k = Ok (s2l "00000000" ++ hexlify (w_para w ++ [124%N] ++ w_hex w)).
Proof. intros H. unfold command_of. rewrite present_stored, H. reflexivity. Qed.

Theorem build_command_is_the_spec s on mode target fan swing current :
  match result_of_spec (spec_build s on mode target fan swing current) with
  | Some r' => build_command false (make_remote s) on mode target fan swing current = r'
  | None => True
  end.
Proof.
  pose proof (capabilities_are_those_of_the_set s) as Hcaps. cbv zeta in Hcaps.
  pose proof (supported_classified s mode) as Hclass.
  unfold spec_build. destruct (spec_capabilities s) as [[[[sup mn] mx] tg] sp] eqn:Ecaps.
  assert (E1 : r_supported (make_remote s) = sup) by congruence. assert (E2 : r_min (make_remote s) = mn) by congruence.
  assert (E3 : r_max (make_remote s) = mx) by congruence. assert (E4 : r_toggle (make_remote s) = tg) by congruence.
  unfold build_command. rewrite E1, E2, E3, E4. cbv zeta.
  set (t := if mx <? target then mx else if target <? mn then mn else target).
  destruct (negb (existsb (String.eqb mode) sup)) eqn:Esup; [reflexivity|].
  apply Bool.negb_false_iff in Esup. specialize (Hclass Esup).
  destruct (negb tg && negb on)%bool eqn:Eoff.
  - (* plain remote switched off *)
    destruct (stored s (s2l "off")) as [w|] eqn:Es; [|exact I]. cbn [result_of_spec].
    rewrite (command_of_stored s [s2l "off"] w) by (cbn [concat]; rewrite app_nil_r; exact Es). reflexivity.
  - set (prel := if (tg && match current with Some c => negb (Bool.eqb c on) | None => false end)%bool then [s2l "on_"] else []).
    set (pre := if (tg && match current with Some c => negb (Bool.eqb c on) | None => false end)%bool then s2l "on_" else []).
    assert (Hpre : concat prel = pre) by (unfold prel, pre; destruct (tg && _)%bool; reflexivity).
    set (fanp := 95%N :: assoc_n fan fan_to_command).
    set (sw := if swing then [s2l "_d1"] else []).
    set (present := fun k => match map_get k (r_map (make_remote s)) with Some _ => true | None => false end).
    assert (Hpres : forall k, present k = stored_b s k).
    { intros k. unfold present, stored_b. rewrite present_stored. destruct (stored s k); reflexivity. }
    (* the prefix P of the key list, for the two kinds of mode *)
    set (P := prel ++ (if is_temp_mode mode then [assoc_n mode mode_to_command; str_Z t] else [assoc_n mode mode_to_command])).
    assert (HK : (if is_fan_mode mode then lookup_key present (prel ++ [assoc_n mode mode_to_command; fanp] ++ sw)
                  else if is_temp_mode mode then lookup_key present (prel ++ [assoc_n mode mode_to_command; str_Z t; fanp] ++ sw) else prel)
                 = lookup_key present (P ++ [fanp] ++ sw)).
    { unfold P. destruct (is_fan_mode mode), (is_temp_mode mode); try discriminate; cbn [app]; rewrite <- ?app_assoc; reflexivity. }
    rewrite HK. clear HK.
    assert (HPne : P <> []) by (unfold P; destruct prel, (is_temp_mode mode); discriminate).
    assert (Hsw : (length sw <= 1)%nat) by (unfold sw; destruct swing; cbn; lia).
    pose proof (lookup_three present P fanp sw HPne Hsw) as H3. cbv zeta in H3.
    (* the three candidate strings *)
    set (base := pre ++ code_of_mode mode ++ (if temp_mode mode then str_Z t else [])).
    assert (Cbase : concat P = base).
    { unfold P, base. rewrite concat_app, Hpre, assoc_n_mode. change (temp_mode mode) with (is_temp_mode mode).
      destruct (is_temp_mode mode); cbn [concat]; rewrite ?app_nil_r; reflexivity. }
    assert (Cfan : concat (P ++ [fanp]) = base ++ [95%N] ++ code_of_fan fan).
    { rewrite concat_app, Cbase. cbn [concat]. rewrite app_nil_r. unfold fanp. rewrite assoc_n_fan. reflexivity. }
    assert (Cexact : concat (P ++ [fanp] ++ sw) = (if swing then (base ++ [95%N] ++ code_of_fan fan) ++ s2l "_d1" else base ++ [95%N] ++ code_of_fan fan)).
    { unfold sw. destruct swing.
      - rewrite !concat_app, Cbase. cbn [concat]. rewrite !app_nil_r. unfold fanp. rewrite assoc_n_fan. rewrite <- !app_assoc. reflexivity.
      - cbn [app]. exact Cfan. }
    lazy beta iota delta [find] in H3. unfold bytes in *. rewrite !Hpres in H3. rewrite Cexact, Cfan, Cbase in H3. unfold stored_b in H3.
    fold pre. fold base. cbn [filter_map].
    set (exact := if swing then (base ++ [95%N] ++ code_of_fan fan) ++ s2l "_d1" else base ++ [95%N] ++ code_of_fan fan) in *.
    destruct (stored s exact) as [w2|] eqn:S2.
    + cbn [result_of_spec]. rewrite H3. rewrite (command_of_stored s _ w2) by (rewrite Cexact; exact S2). reflexivity.
    + destruct (stored s (base ++ [95%N] ++ code_of_fan fan)) as [w1|] eqn:S1.
      * cbn [result_of_spec]. rewrite H3. rewrite (command_of_stored s _ w1) by (rewrite Cfan; exact S1). reflexivity.
      * destruct (stored s base) as [w0|] eqn:S0; [|exact I].
        cbn [result_of_spec]. rewrite H3. rewrite (command_of_stored s _ w0) by (rewrite Cbase; exact S0). reflexivity.
Qed.
Print Assumptions build_command_is_the_spec.
