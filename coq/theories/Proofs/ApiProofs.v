Require Import AS.Base.Prelude AS.Base.Hex AS.Base.Template AS.Base.Exchange AS.Gen.Extracted
  AS.Model.DeviceTools AS.Model.Messages AS.Model.Api AS.Spec.Sign AS.Proofs.HexSlices AS.Proofs.SignProofs
  AS.Proofs.TotalityProofs.
Open Scope N_scope.

Definition hexs (s : bytes) : Prop := Forall (fun c => is_hexchar c = true) s.
Definition lits_hex (t : template) : Prop := forall s, In (Lit s) t -> hexs s.
Definition strs_hex (args : list farg) : Prop := forall s, In (AStr s) args -> hexs s.
Definition only_str_holes (t : template) : Prop := forall p, In p t -> match p with HoleHex2 _ => False | _ => True end.

(* a template whose literals and string arguments are hex renders to a hex string *)
Lemma format_hex t : forall args p, lits_hex t -> only_str_holes t -> strs_hex args ->
  format t args = Ok p -> hexs p.
Proof.
  induction t as [|q t IH]; intros args p Hl Ho Ha H.
  - cbn in H. inversion H. constructor.
  - cbn [format] in H. destruct (render_piece args q) as [a|] eqn:Ea; cbn [bind] in H; [|discriminate].
    destruct (format t args) as [b|] eqn:Eb; cbn [bind] in H; [|discriminate]. inversion H; subst.
    apply Forall_app. split.
    + destruct q as [s|i|i]; cbn [render_piece] in Ea.
      * inversion Ea; subst. apply Hl. left. reflexivity.
      * destruct (nth_error args i) as [[s|n]|] eqn:En; try discriminate. inversion Ea; subst.
        apply Ha. eapply nth_error_In. exact En.
      * exfalso. apply (Ho (HoleHex2 i)). left. reflexivity.
    + eapply IH; [| | |exact Eb].
      * intros s Hs. apply Hl. right. exact Hs.
      * intros q' Hq. apply Ho. right. exact Hq.
      * exact Ha.
Qed.

Lemma hexlify_hexs bs : Forall (fun b => b < 256) bs -> hexs (hexlify bs).
Proof.
  induction 1 as [|b bs Hb _ IH]; [constructor|]. cbn [hexlify flat_map hexbyte app]. fold (hexlify bs).
  assert (Hd : forall n, n < 16 -> is_hexchar (hexdigit n) = true).
  { intros n Hn. unfold is_hexchar. rewrite nib_hexdigit by exact Hn. reflexivity. }
  constructor; [apply Hd, N.div_lt_upper_bound; lia|]. constructor; [apply Hd, N.mod_lt; discriminate|exact IH].
Qed.
Lemma pyslice_hexs lo hi s : hexs s -> hexs (pyslice lo hi s).
Proof.
  intros H. apply Forall_forall. intros x Hx. unfold pyslice in Hx.
  assert (Hin : In x s).
  { rewrite <- (firstn_skipn lo s). apply in_or_app. right.
    rewrite <- (firstn_skipn (hi - lo) (skipn lo s)). apply in_or_app. left. exact Hx. }
  unfold hexs in H. rewrite Forall_forall in H. apply H, Hin.
Qed.

(* signing a hex string of even length always succeeds, and the signed string is again hex and even *)
Lemma sign_total p : hexs p -> Nat.even (length p) = true ->
  exists out bs, sign_packet_with_crc_key p = Ok out /\ unhexlify out = Some bs.
Proof.
  intros Hh He. destruct (unhexlify_total p Hh He) as [b Hb].
  exists (p ++ hexlify (sig b)), (b ++ sig b). split; [apply sign_spec, Hb|].
  apply unhexlify_app; [exact Hb|]. apply unhexlify_hexlify. unfold sig. apply Forall_app. split; apply le16_bytes.
Qed.

(* send of a signed packet always writes exactly one frame and returns the next scripted reply *)
Lemma send_ok signed bs st : unhexlify signed = Some bs ->
  exists r st', send signed st = (st', Ok r) /\ frames st' = frames st ++ [bs] /\
                r = hd [] (replies st) /\ replies st' = tl (replies st).
Proof.
  intros H. unfold send. rewrite H. destruct (replies st) as [|r rest]; eexists _, _; repeat split; reflexivity.
Qed.

(* boolean checks on extracted templates *)
Definition piece_okb (p : piece) : bool :=
  match p with Lit s => forallb is_hexchar s | Hole _ => true | HoleHex2 _ => false end.
Definition template_okb (t : template) : bool := forallb piece_okb t.
Lemma template_ok t : template_okb t = true -> lits_hex t /\ only_str_holes t.
Proof.
  unfold template_okb. rewrite forallb_forall. intros H. split.
  - intros s Hs. specialize (H _ Hs). cbn in H. unfold hexs. apply Forall_forall. apply forallb_forall. exact H.
  - intros p Hp. specialize (H _ Hp). destruct p; cbn in H; [exact I|exact I|discriminate].
Qed.

(* length of a rendered template: literals plus the arguments of its holes *)
Fixpoint rendered_length (t : template) (lens : list nat) : nat :=
  match t with
  | [] => 0
  | Lit s :: r => length s + rendered_length r lens
  | Hole i :: r | HoleHex2 i :: r => nth i lens 0%nat + rendered_length r lens
  end.
Lemma format_length t : forall args p, only_str_holes t -> format t args = Ok p ->
  length p = rendered_length t (map (fun a => match a with AStr s => length s | AInt _ => 0%nat end) args).
Proof.
  induction t as [|q t IH]; intros args p Ho H.
  - cbn in H. inversion H. reflexivity.
  - cbn [format] in H. destruct (render_piece args q) as [a|] eqn:Ea; cbn [bind] in H; [|discriminate].
    destruct (format t args) as [b|] eqn:Eb; cbn [bind] in H; [|discriminate]. inversion H; subst.
    rewrite app_length. rewrite (IH args b) by (try exact Eb; intros q' Hq; apply Ho; right; exact Hq).
    destruct q as [s|i|i]; cbn [render_piece rendered_length] in *.
    + inversion Ea; subst. reflexivity.
    + destruct (nth_error args i) as [[s|n]|] eqn:En; try discriminate. inversion Ea; subst. f_equal.
      erewrite (nth_error_nth _ _ _ (map_nth_error _ _ _ En)). reflexivity.
    + exfalso. apply (Ho (HoleHex2 i)). left. reflexivity.
Qed.

Record wf_cfg (c : cfg) : Prop :=
  { wf_id : hexs (device_id c); wf_id_len : length (device_id c) = 6%nat;
    wf_key : hexs (device_key c); wf_key_len : length (device_key c) = 2%nat }.

Lemma login1_ok : template_okb T_LOGIN_PACKET_TYPE1 = true. Proof. vm_compute. reflexivity. Qed.
Lemma getstate1_ok : template_okb T_GET_STATE_PACKET_TYPE1 = true. Proof. vm_compute. reflexivity. Qed.

Lemma ts_hex now : now < 4294967296 -> exists ts, timestamp_hex now = Ok ts /\ hexs ts /\ length ts = 8%nat.
Proof.
  intros H. unfold timestamp_hex. replace (now <? 4294967296) with true by (symmetry; apply N.ltb_lt; exact H).
  eexists. split; [reflexivity|]. split; [apply hexlify_hexs; unfold le32; repeat constructor; apply N.mod_lt; discriminate|reflexivity].
Qed.

(* session id: 0, 2, 4, 6 or 8 hex characters of the login reply *)
Lemma session_hex resp : Forall (fun b => b < 256) resp ->
  hexs (pyslice 16 24 (hexlify resp)) /\ Nat.even (length (pyslice 16 24 (hexlify resp))) = true.
Proof.
  intros Hw. change (pyslice 16 24 (hexlify resp)) with (pyslice (2*8) (2*12) (hexlify resp)).
  rewrite hexlify_slice. split.
  - apply hexlify_hexs. apply Forall_forall. intros x Hx. unfold pyslice in Hx.
    assert (Hin : In x resp).
    { rewrite <- (firstn_skipn 8 resp). apply in_or_app. right.
      rewrite <- (firstn_skipn (12 - 8) (skipn 8 resp)). apply in_or_app. left. exact Hx. }
    rewrite Forall_forall in Hw. apply Hw, Hin.
  - rewrite hexlify_length. rewrite Nat.even_mul. reflexivity.
Qed.

(* the login step: exactly one frame is written, whatever the device answers *)
Lemma login1_step c now st : wf_cfg c -> now < 4294967296 ->
  exists frame l st', login c false now st = (st', Ok l) /\ frames st' = frames st ++ [frame] /\
    lr_response l = hd [] (replies st) /\ replies st' = tl (replies st) /\
    hexs (lr_timestamp l) /\ length (lr_timestamp l) = 8%nat /\
    lr_session l = pyslice 16 24 (hexlify (lr_response l)).
Proof.
  intros Hc Hn. destruct (ts_hex now Hn) as [ts [Hts [Hth Htl]]].
  unfold login, bindM, lift. rewrite Hts.
  destruct (format T_LOGIN_PACKET_TYPE1 [AStr ts; AStr (device_key c)]) as [p|] eqn:Ef; [|vm_compute in Ef; discriminate].
  destruct (template_ok _ login1_ok) as [Hl Ho].
  assert (Hargs : strs_hex [AStr ts; AStr (device_key c)]).
  { intros s [E|[E|[]]]; inversion E; subst; [exact Hth|apply Hc]. }
  pose proof (format_hex _ _ _ Hl Ho Hargs Ef) as Hp.
  pose proof (format_length _ _ _ Ho Ef) as Hlen. cbn [map] in Hlen. rewrite Htl, (wf_key_len c Hc) in Hlen.
  assert (He : Nat.even (length p) = true) by (rewrite Hlen; vm_compute; reflexivity).
  destruct (sign_total p Hp He) as [out [bs [Hs Hu]]]. rewrite Hs.
  destruct (send_ok out bs st Hu) as [r [st' [Hsend [Hf [Hr Hrest]]]]]. rewrite Hsend.
  eexists bs, _, st'. split; [reflexivity|]. cbn [lr_response lr_timestamp lr_session]. repeat split; assumption.
Qed.

(* C09 + C03 for SwitcherType1Api.get_state: for every script of device replies (bytes), the call
   writes the login frame first; with an empty login reply it writes nothing else and raises
   RuntimeError; otherwise it writes exactly one more frame; and the outcome is a parsed response or
   RuntimeError — never another exception *)
Definition script_wf (script : list bytes) : Prop := Forall (Forall (fun b => b < 256)) script.

Theorem get_state_exchange c now script : wf_cfg c -> now < 4294967296 -> script_wf script ->
  let '(fs, r) := Exchange.run (get_state c now) script in
  ((exists v, r = Ok v) \/ r = Exc RuntimeError) /\
  (hd [] script = [] -> length fs = 1%nat /\ r = Exc RuntimeError) /\
  (hd [] script <> [] -> length fs = 2%nat).
Proof.
  intros Hc Hn Hw. unfold Exchange.run, get_state, bindM.
  set (st0 := {| frames := []; replies := script |}).
  destruct (login1_step c now st0 Hc Hn) as [frame [l [st1 [Hlog [Hf1 [Hresp [Hrest [Hth [Htl Hsess]]]]]]]]].
  rewrite Hlog. cbn [frames replies st0] in Hf1, Hresp, Hrest.
  destruct (successful (lr_response l)) eqn:Esucc.
  - (* second frame *)
    unfold send_template, send_template_gen, bindM, lift.
    set (args := [AStr (lr_session l); AStr (lr_timestamp l); AStr (device_id c)]).
    destruct (format T_GET_STATE_PACKET_TYPE1 args) as [p|] eqn:Ef; [|vm_compute in Ef; discriminate].
    destruct (template_ok _ getstate1_ok) as [Hl Ho].
    assert (Hrw : Forall (fun b => b < 256) (lr_response l)).
    { rewrite Hresp. destruct script as [|r0 rest]; [constructor|]. inversion Hw; assumption. }
    destruct (session_hex (lr_response l) Hrw) as [Hsh Hse]. rewrite <- Hsess in Hsh, Hse.
    assert (Hargs : strs_hex args).
    { intros s [E|[E|[E|[]]]]; inversion E; subst; [exact Hsh|exact Hth|apply Hc]. }
    pose proof (format_hex _ _ _ Hl Ho Hargs Ef) as Hp.
    pose proof (format_length _ _ _ Ho Ef) as Hlen. cbn [map args] in Hlen. rewrite Htl, (wf_id_len c Hc) in Hlen.
    assert (He : Nat.even (length p) = true).
    { rewrite Hlen. cbn [rendered_length T_GET_STATE_PACKET_TYPE1 nth]. 
      rewrite !Nat.even_add. rewrite Hse. vm_compute. reflexivity. }
    destruct (sign_total p Hp He) as [out [bs [Hs Hu]]]. rewrite Hs.
    destruct (send_ok out bs st1 Hu) as [r2 [st2 [Hsend [Hf2 [Hr2 Hrest2]]]]]. rewrite Hsend.
    assert (Hlen2 : length (frames st2) = 2%nat) by (rewrite Hf2, Hf1; reflexivity).
    assert (Hne : hd [] script <> []) by (rewrite <- Hresp; destruct (lr_response l); [discriminate|discriminate]).
    destruct (parse_state_reply r2) as [v|e] eqn:Ep.
    + destruct (successful r2); unfold ret, raise; cbn.
      * split; [left; eexists; reflexivity|]. split; [intros H; contradiction|intros _; exact Hlen2].
      * split; [right; reflexivity|]. split; [intros H; contradiction|intros _; exact Hlen2].
    + destruct (parse_state_reply_exn _ _ Ep) as [-> | ->]; unfold raise; cbn;
        (split; [right; reflexivity|]; split; [intros H; contradiction|intros _; exact Hlen2]).
  - (* empty login reply *)
    unfold raise. cbn. assert (He : hd [] script = []) by (rewrite <- Hresp; destruct (lr_response l); [reflexivity|discriminate]).
    split; [right; reflexivity|]. split; [intros _; split; [rewrite Hf1; reflexivity|reflexivity]|intros H; contradiction].
Qed.
Print Assumptions get_state_exchange.

(* ---- type-2 login and the "nothing actionable" clause of C16 ---- *)
Lemma login2_ok : template_okb T_LOGIN2_PACKET_TYPE2 = true. Proof. vm_compute. reflexivity. Qed.

Lemma login2_step c now st : wf_cfg c -> now < 4294967296 ->
  exists frame l st', login c true now st = (st', Ok l) /\ frames st' = frames st ++ [frame] /\
    lr_response l = hd [] (replies st) /\ replies st' = tl (replies st) /\
    hexs (lr_timestamp l) /\ length (lr_timestamp l) = 8%nat /\
    lr_session l = pyslice 16 24 (hexlify (lr_response l)).
Proof.
  intros Hc Hn. destruct (ts_hex now Hn) as [ts [Hts [Hth Htl]]].
  unfold login, bindM, lift. rewrite Hts.
  destruct (format T_LOGIN2_PACKET_TYPE2 [AStr ts; AStr (device_id c)]) as [p|] eqn:Ef; [|vm_compute in Ef; discriminate].
  destruct (template_ok _ login2_ok) as [Hl Ho].
  assert (Hargs : strs_hex [AStr ts; AStr (device_id c)]).
  { intros s [E|[E|[]]]; inversion E; subst; [exact Hth|apply Hc]. }
  pose proof (format_hex _ _ _ Hl Ho Hargs Ef) as Hp.
  pose proof (format_length _ _ _ Ho Ef) as Hlen. cbn [map] in Hlen. rewrite Htl, (wf_id_len c Hc) in Hlen.
  assert (He : Nat.even (length p) = true) by (rewrite Hlen; vm_compute; reflexivity).
  destruct (sign_total p Hp He) as [out [bs [Hs Hu]]]. rewrite Hs.
  destruct (send_ok out bs st Hu) as [r [st' [Hsend [Hf [Hr Hrest]]]]]. rewrite Hsend.
  eexists bs, _, st'. split; [reflexivity|]. cbn [lr_response lr_timestamp lr_session]. repeat split; assumption.
Qed.

Require Import AS.Model.Remotes.
Open Scope N_scope.
(* C16: a call that asks for nothing the remote can act on writes the login frame only and raises
   RuntimeError — whatever the device answers; an empty login reply does the same for every request *)
Theorem breeze_nothing_actionable lg c now r swing update script :
  wf_cfg c -> now < 4294967296 ->
  (swing = None \/ (r_sep r = true /\ update = true)) ->
  let '(fs, res) := Exchange.run (control_breeze_device lg c now r None None 0%Z None swing update) script in
  length fs = 1%nat /\ res = Exc RuntimeError.
Proof.
  intros Hc Hn Hsw. unfold Exchange.run, control_breeze_device, bindM.
  set (st0 := {| frames := []; replies := script |}).
  destruct (login2_step c now st0 Hc Hn) as [frame [l [st1 [Hlog [Hf1 _]]]]]. rewrite Hlog.
  cbn [frames st0] in Hf1.
  destruct (successful (lr_response l)); cbn [negb]; [|unfold raise; cbn; rewrite Hf1; split; reflexivity].
  destruct Hsw as [-> | [Hsep ->]].
  - cbn [is_some orb andb negb Z.eqb]. unfold ret, raise. rewrite !andb_false_r. cbn. rewrite Hf1. split; reflexivity.
  - rewrite Hsep. destruct swing; cbn [is_some orb andb negb Z.eqb]; unfold ret, raise; cbn; rewrite Hf1; split; reflexivity.
Qed.
Theorem breeze_empty_login lg c now r state mode target fan swing update script :
  wf_cfg c -> now < 4294967296 -> hd [] script = [] ->
  let '(fs, res) := Exchange.run (control_breeze_device lg c now r state mode target fan swing update) script in
  length fs = 1%nat /\ res = Exc RuntimeError.
Proof.
  intros Hc Hn He. unfold Exchange.run, control_breeze_device, bindM.
  set (st0 := {| frames := []; replies := script |}).
  destruct (login2_step c now st0 Hc Hn) as [frame [l [st1 [Hlog [Hf1 [Hresp _]]]]]]. rewrite Hlog.
  cbn [frames replies st0] in Hf1, Hresp. rewrite He in Hresp. rewrite Hresp. cbn [successful negb].
  unfold raise. cbn. rewrite Hf1. split; reflexivity.
Qed.
Print Assumptions breeze_nothing_actionable.
