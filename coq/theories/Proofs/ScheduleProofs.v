Require Import AS.Base.Prelude AS.Base.Hex AS.Base.Dec AS.Model.ScheduleTools.
Open Scope N_scope.

Definition strptime_hhmm_ok (m : N) : bool :=
  if m <? 1440 then
    match strptime_HM (hhmm m) with
    | Ok (h, mi) => (h =? m / 60) && (mi =? m mod 60)
    | Exc _ => false
    end
  else true.
Lemma strptime_hhmm_all : sweep strptime_hhmm_ok 11 0 = true.
Proof. vm_compute. reflexivity. Qed.
Lemma strptime_hhmm m : m < 1440 -> strptime_HM (hhmm m) = Ok (m / 60, m mod 60).
Proof.
  intros H. pose proof (sweep_all strptime_hhmm_ok 11 m strptime_hhmm_all) as Hs.
  unfold strptime_hhmm_ok in Hs. replace (m <? 1440) with true in Hs by (symmetry; apply N.ltb_lt; exact H).
  specialize (Hs ltac:(cbn; lia)).
  destruct (strptime_HM (hhmm m)) as [[h mi]|]; [|discriminate].
  apply andb_prop in Hs. destruct Hs as [A B]. apply N.eqb_eq in A, B. subst. reflexivity.
Qed.

Theorem calc_duration_spec s e : s < 1440 -> e < 1440 ->
  calc_duration (hhmm s) (hhmm e) = Ok (fmt_hmmss (((e + 1440 - s) mod 1440) * 60)).
Proof.
  intros Hs He. unfold calc_duration. rewrite !strptime_hhmm by assumption. cbn [bind fst snd].
  assert (Es : 60 * (s / 60) + s mod 60 = s) by (symmetry; apply N.div_mod; discriminate).
  assert (Ee : 60 * (e / 60) + e mod 60 = e) by (symmetry; apply N.div_mod; discriminate).
  rewrite Es, Ee. unfold timedelta_str.
  set (d := (if e <? s then e + 1440 else e) - s).
  assert (Hd : d = (e + 1440 - s) mod 1440).
  { unfold d. destruct (N.ltb_spec e s).
    - rewrite N.mod_small by lia. reflexivity.
    - replace (e + 1440 - s) with ((e - s) + 1 * 1440) by lia.
      rewrite N.mod_add by discriminate. rewrite N.mod_small by lia. reflexivity. }
  assert (Hlt : d < 1440) by (rewrite Hd; apply N.mod_lt; discriminate).
  rewrite <- Hd.
  replace (d * 60 / 86400) with 0 by (symmetry; apply N.div_small; lia).
  cbn [N.eqb]. rewrite N.mod_small by lia. reflexivity.
Qed.
