(* C01 for every operation: string-level frame lemmas, then one instance per packet template *)
Require Import AS.Base.Prelude AS.Base.Hex AS.Base.Crc AS.Base.Template AS.Gen.Extracted AS.Spec.Sign AS.Spec.Frame
  AS.Model.DeviceTools AS.Proofs.SignProofs AS.Proofs.HexSlices AS.Proofs.FrameProofs AS.Proofs.LengthProofs.
Open Scope N_scope.

Definition hexs (s : bytes) : Prop := Forall (fun c => is_hexchar c = true) s.

(* an unsigned hex packet whose first 80 characters carry magic, the final length and the terminator
   becomes, once signed, a well-formed frame *)
Lemma frame_ok_of_hex p b : unhexlify p = Some b -> (80 <= length p)%nat ->
  pyslice 0 4 p = s2l "fef0" -> pyslice 4 8 p = hexlify (le16 (N.of_nat (length b + 4))) ->
  pyslice 76 80 p = s2l "f0fe" ->
  sign_packet_with_crc_key p = Ok (p ++ hexlify (sig b)) /\
  unhexlify (p ++ hexlify (sig b)) = Some (b ++ sig b) /\ frame_okb (b ++ sig b) = true.
Proof.
  intros Hb Hlen H0 H4 H76.
  pose proof (unhexlify_length p b Hb) as Hlb.
  split; [apply sign_spec; exact Hb|]. split.
  { apply unhexlify_app; [exact Hb|apply unhexlify_hexlify, sig_bytes]. }
  assert (S0 : pyslice 0 2 b = [254; 240]).
  { apply (slice_known p b (s2l "fef0") [254;240] 0 Hb); [reflexivity|exact H0|reflexivity]. }
  assert (S38 : pyslice 38 40 b = [240; 254]).
  { apply (slice_known p b (s2l "f0fe") [240;254] 38 Hb); [reflexivity|exact H76|reflexivity]. }
  assert (S2 : pyslice 2 4 b = le16 (N.of_nat (length b + 4))).
  { apply (slice_known p b (hexlify (le16 (N.of_nat (length b + 4)))) (le16 (N.of_nat (length b + 4))) 2 Hb).
    - apply unhexlify_hexlify, le16_bytes.
    - exact H4.
    - apply hexlify_length. }
  unfold frame_okb. rewrite app_length, sig_length.
  replace (length b + 4 - 4)%nat with (length b) by lia.
  rewrite !pyslice_app_l by lia.
  rewrite S0, S2, S38.
  assert (S4 : pyslice (length b) (length b + 4) (b ++ sig b) = sig b) by exact (pyslice_app_r b (sig b)).
  rewrite S4, pyslice_app_whole_l.
  rewrite !bytes_eqb_refl.
  replace (44 <=? length b + 4)%nat with true by (symmetry; apply Nat.leb_le; lia).
  reflexivity.
Qed.

(* the same after set_message_length: whatever the template says in characters 4..8 *)
Lemma skipn_skipn' {A} a : forall b (l : list A), skipn a (skipn b l) = skipn (b + a) l.
Proof.
  intros b. induction b as [|b IH]; intros l; [reflexivity|].
  destruct l as [|x l]; [cbn; destruct a; reflexivity|]. cbn [skipn Nat.add]. apply IH.
Qed.

Lemma pyslice_app_mid {A} (a h s : list A) : pyslice (length a) (length a + length h) (a ++ h ++ s) = h.
Proof.
  unfold pyslice. rewrite skipn_app, skipn_all, Nat.sub_diag. cbn [skipn app].
  replace (length a + length h - length a)%nat with (length h) by lia.
  rewrite firstn_app, Nat.sub_diag, firstn_all. cbn [firstn]. apply app_nil_r.
Qed.

Lemma sealed_frame_ok p b : unhexlify p = Some b -> (80 <= length p)%nat ->
  pyslice 0 4 p = s2l "fef0" -> pyslice 76 80 p = s2l "f0fe" -> N.of_nat (length b + 4) < 65536 ->
  exists p' b', set_message_length false p = Ok p' /\ unhexlify p' = Some b' /\ length b' = length b /\
    sign_packet_with_crc_key p' = Ok (p' ++ hexlify (sig b')) /\
    unhexlify (p' ++ hexlify (sig b')) = Some (b' ++ sig b') /\ frame_okb (b' ++ sig b') = true.
Proof.
  intros Hb Hlen H0 H76 Hn.
  destruct (set_message_length_ok p b Hb ltac:(lia) Hn) as [Hs Hl].
  set (p' := s2l "fef0" ++ hexlify (le16 (N.of_nat (length b + 4))) ++ skipn 8 p) in *.
  pose proof (unhexlify_length p b Hb) as Hlb.
  (* p' is hex of the same length *)
  assert (Hskip : unhexlify (skipn 8 p) = Some (skipn 4 b)) by (apply (unhexlify_skipn 4 p b Hb)).
  assert (Hb' : unhexlify p' = Some ([254; 240] ++ le16 (N.of_nat (length b + 4)) ++ skipn 4 b)).
  { unfold p'. apply unhexlify_app; [reflexivity|]. apply unhexlify_app; [apply unhexlify_hexlify, le16_bytes|exact Hskip]. }
  set (b' := [254; 240] ++ le16 (N.of_nat (length b + 4)) ++ skipn 4 b) in *.
  assert (Hlb' : length b' = length b).
  { unfold b'. rewrite !app_length, skipn_length. cbn [length le16]. lia. }
  exists p', b'. split; [exact Hs|]. split; [exact Hb'|]. split; [exact Hlb'|].
  apply frame_ok_of_hex.
  - exact Hb'.
  - rewrite Hl. exact Hlen.
  - reflexivity.
  - rewrite Hlb'. unfold p'.
    exact (pyslice_app_mid (s2l "fef0") (hexlify (le16 (N.of_nat (length b + 4)))) (skipn 8 p)).
  - unfold p'. change (s2l "fef0" ++ hexlify (le16 (N.of_nat (length b + 4))) ++ skipn 8 p)
      with ((s2l "fef0" ++ hexlify (le16 (N.of_nat (length b + 4)))) ++ skipn 8 p).
    assert (Hpre : length (s2l "fef0" ++ hexlify (le16 (N.of_nat (length b + 4)))) = 8%nat) by reflexivity.
    unfold pyslice. rewrite skipn_app, Hpre. rewrite skipn_all2 by lia. cbn [app].
    replace (76 - 8)%nat with 68%nat by lia. rewrite skipn_skipn'. replace (8 + 68)%nat with 76%nat by lia.
    exact H76.
Qed.

(* ---- templates with string holes only, rendered with arguments of known widths ---- *)
Definition holes_okb (t : template) (n : nat) : bool :=
  forallb (fun p => match p with Lit _ => true | Hole i => (i <? n)%nat | HoleHex2 _ => false end) t.
Definition widths (rs : list bytes) (ws : list nat) : Prop := map (@length N) rs = ws.

Lemma widths_nth rs ws i : widths rs ws -> length (nth i rs []) = nth i ws 0%nat.
Proof. intros <-. change 0%nat with (length (@nil N)). apply eq_sym, map_nth. Qed.
Lemma widths_length rs ws : widths rs ws -> length rs = length ws.
Proof. intros <-. symmetry. apply map_length. Qed.

Lemma format_strs t ws rs : holes_okb t (length ws) = true -> widths rs ws ->
  format t (map AStr rs) = Ok (map (denote rs) (sym t ws)).
Proof.
  intros Hh Hw. unfold holes_okb in Hh. rewrite forallb_forall in Hh. apply sym_sound.
  - intros p Hp. specialize (Hh p Hp). destruct p as [s|i|i]; [exact I| |discriminate].
    apply Nat.ltb_lt in Hh. exists (nth i rs []). split; [|reflexivity].
    rewrite <- (widths_length rs ws Hw) in Hh.
    rewrite (nth_error_nth' (map AStr rs) (AStr [])) by (rewrite map_length; exact Hh).
    f_equal. change (AStr []) with (AStr (@nil N)). apply (map_nth AStr).
  - intros p i Hp Hi. apply widths_nth. exact Hw.
Qed.

Lemma U_in_range (t : template) (ws : list nat) (rs : list bytes) : widths rs ws ->
  forall i k, In (U i k) (sym t ws) -> (k < length (nth i rs []))%nat.
Proof.
  intros Hw i k Hin. unfold sym in Hin. apply in_flat_map in Hin. destruct Hin as [p [Hp Hin]].
  rewrite (widths_nth rs ws i Hw).
  destruct p as [s|j|j]; cbn [sym_piece] in Hin; apply in_map_iff in Hin; destruct Hin as [x [Hx Hs]].
  - discriminate.
  - inversion Hx; subst. apply in_seq in Hs. lia.
  - inversion Hx; subst. apply in_seq in Hs. lia.
Qed.

Definition args_hexs (rs : list bytes) : Prop := Forall hexs rs.

(* type-1 frames: the template carries its own length *)
Theorem template_frame_ok t ws rs : holes_okb t (length ws) = true -> c01_cells_ok (sym t ws) = true ->
  widths rs ws -> args_hexs rs ->
  exists p out bs, format t (map AStr rs) = Ok p /\ sign_packet_with_crc_key p = Ok out /\
                   unhexlify out = Some bs /\ frame_okb bs = true.
Proof.
  intros Hh Hc Hw Hx.
  destruct (c01_sound (sym t ws) rs Hc Hx (U_in_range t ws rs Hw)) as [out [bs [Hs [Hu Hf]]]].
  exists (map (denote rs) (sym t ws)), out, bs. split; [apply format_strs; assumption|]. repeat split; assumption.
Qed.

(* type-2 command frames: the length is rewritten by set_message_length *)
Definition c01_cells_ok2 (cs : list cell) : bool :=
  let n := length cs in
  Nat.even n && (80 <=? n)%nat && (N.of_nat (n / 2 + 4) <? 65536) &&
  forallb (fun c => match c with K x => is_hexchar x | U _ _ => true end) cs &&
  known_at cs 0 (s2l "fef0") && known_at cs 76 (s2l "f0fe").

Theorem template_frame_ok2 t ws rs : holes_okb t (length ws) = true -> c01_cells_ok2 (sym t ws) = true ->
  widths rs ws -> args_hexs rs ->
  exists p p' out bs, format t (map AStr rs) = Ok p /\ set_message_length false p = Ok p' /\
                      sign_packet_with_crc_key p' = Ok out /\ unhexlify out = Some bs /\ frame_okb bs = true.
Proof.
  intros Hh Hc Hw Hx. unfold c01_cells_ok2 in Hc.
  repeat (apply andb_prop in Hc; let H' := fresh "H" in destruct Hc as [Hc H']).
  rename H into Hk76, H0 into Hk0, H1 into Hhex, H2 into Hbound, H3 into Hlen80. rename Hc into Heven.
  set (cs := sym t ws) in *. set (p := map (denote rs) cs).
  assert (Hpl : length p = length cs) by apply map_length.
  destruct (unhexlify_total p) as [b Hb].
  { apply denote_hex; [exact Hx|exact Hhex|apply U_in_range; exact Hw]. }
  { rewrite Hpl. exact Heven. }
  pose proof (unhexlify_length p b Hb) as Hlb. rewrite Hpl in Hlb.
  apply Nat.leb_le in Hlen80. apply N.ltb_lt in Hbound.
  replace (length cs / 2)%nat with (length b) in Hbound by (rewrite Hlb, Nat.mul_comm, Nat.div_mul; lia).
  destruct (sealed_frame_ok p b Hb ltac:(lia)) as [p' [b' [Hs [Hb' [_ [Hsign [Hu Hf]]]]]]].
  - apply (known_at_sound rs cs 0 (s2l "fef0")). exact Hk0.
  - apply (known_at_sound rs cs 76 (s2l "f0fe")). exact Hk76.
  - exact Hbound.
  - exists p, p', (p' ++ hexlify (sig b')), (b' ++ sig b'). split; [apply format_strs; assumption|]. repeat split; assumption.
Qed.

(* "{:02x}" of a byte is its two hex digits *)
Definition fmt_byte_okb (n : N) : bool := bytes_eqb (fmt_02x n) (hexbyte n).
Lemma fmt_byte_all : sweep fmt_byte_okb 8 0 = true. Proof. vm_compute. reflexivity. Qed.
Lemma fmt_02x_byte n : n < 256 -> fmt_02x n = hexbyte n.
Proof. intros H. apply bytes_eqb_eq. change (fmt_byte_okb n = true). apply (sweep_all fmt_byte_okb 8); [exact fmt_byte_all|exact H]. Qed.
Lemma hexbyte_hexs n : n < 256 -> hexs (hexbyte n) /\ length (hexbyte n) = 2%nat.
Proof.
  intros H. split; [|reflexivity]. unfold hexbyte.
  assert (Hd : forall k, k < 16 -> is_hexchar (hexdigit k) = true).
  { intros k Hk. unfold is_hexchar. rewrite nib_hexdigit by exact Hk. reflexivity. }
  constructor; [apply Hd, N.div_lt_upper_bound; lia|]. constructor; [apply Hd, N.mod_lt; discriminate|constructor].
Qed.
