(* C02 / C03 over the exchange model: the exact frames of an operation are the Spec's login frame followed by the
   Spec's command frame for the caller's arguments; rejected arguments leave the login frame alone *)
Require Import AS.Base.Prelude AS.Base.Hex AS.Base.Dec AS.Base.Template AS.Base.Exchange AS.Base.Utf8 AS.Gen.Extracted
  AS.Spec.Sign AS.Spec.Frame AS.Spec.FrameLayout AS.Spec.Encoders AS.Spec.FrameSpec
  AS.Model.DeviceTools AS.Model.Messages AS.Model.Remotes AS.Model.ScheduleTools AS.Model.Api AS.Model.Ops
  AS.Proofs.SignProofs AS.Proofs.HexSlices AS.Proofs.FrameProofs AS.Proofs.LengthProofs AS.Proofs.FrameAll AS.Proofs.LayoutMatch
  AS.Proofs.SpecFrames AS.Proofs.Hoare AS.Proofs.OpsFrames.
Open Scope N_scope.
Ltac Zify.zify_post_hook ::= Z.to_euclidean_division_equations.

(* one call site, exactly: the frame appended is the Spec's frame for the same arguments *)
Definition sends (m : M bytes) (st : io) (bs : bytes) : Prop :=
  exists st', m st = (st', Ok (hd [] (replies st))) /\ frames st' = frames st ++ [bs] /\ replies st' = tl (replies st).

Lemma send_exact signed bs st : unhexlify signed = Some bs -> sends (send signed) st bs.
Proof.
  intros H. unfold sends, send. rewrite H. destruct (replies st) as [|r rest]; eexists; repeat split; reflexivity.
Qed.

Lemma send_template_exact1 T L rs ws st : matches T L = true -> holes_okb T (length ws) = true -> c01_cells_ok (sym T ws) = true ->
  widths rs ws -> args_hexs rs ->
  exists bs, sends (send_template_gen false T (map AStr rs) false) st bs /\ frame_of L (map AStr rs) = Frame bs.
Proof.
  intros Hm Hh Hc Hw Hx. destruct (template_frame_ok T ws rs Hh Hc Hw Hx) as [p [out [bs [Hf [Hs [Hu Hk]]]]]].
  exists bs. split.
  - unfold send_template_gen, bindM, lift. rewrite Hf, Hs. apply send_exact, Hu.
  - apply (written_is_spec T L (map AStr rs) false p p out bs Hm Hf eq_refl Hs Hu Hk). discriminate.
Qed.

Lemma send_template_exact2 T L rs ws st : matches T L = true -> holes_okb T (length ws) = true -> c01_cells_ok2 (sym T ws) = true ->
  widths rs ws -> args_hexs rs ->
  exists bs, sends (send_template_gen false T (map AStr rs) true) st bs /\ frame_of L (map AStr rs) = Frame bs.
Proof.
  intros Hm Hh Hc Hw Hx. destruct (template_frame_ok2 T ws rs Hh Hc Hw Hx) as [p [p' [out [bs [Hf [Hl [Hs [Hu Hk]]]]]]]].
  exists bs. split.
  - unfold send_template_gen, bindM, lift. rewrite Hf, Hl, Hs. apply send_exact, Hu.
  - apply (written_is_spec T L (map AStr rs) true p p' out bs Hm Hf Hl Hs Hu Hk). intros _.
    rewrite (format_strs T ws rs Hh Hw) in Hf. assert (E : p = map (denote rs) (sym T ws)) by congruence. rewrite E.
    unfold c01_cells_ok2 in Hc. repeat (apply andb_prop in Hc; let H' := fresh "K" in destruct Hc as [Hc H']).
    exact (known_at_sound rs (sym T ws) 0 (s2l "fef0") K0).
Qed.

(* ---- the configuration and the login reply as bytes ---- *)
Definition cfg_of (idb : bytes) (keyb : N) : cfg := {| device_id := hexlify idb; device_key := hexlify [keyb] |}.
Lemma cfg_of_wf idb keyb : length idb = 3%nat -> Forall (fun b => b < 256) idb -> keyb < 256 -> wf_cfg (cfg_of idb keyb).
Proof.
  intros L H K. constructor; cbn [cfg_of device_id device_key].
  - apply hexlify_hexs, H.
  - rewrite hexlify_length, L. reflexivity.
  - apply hexlify_hexs. constructor; [exact K|constructor].
  - reflexivity.
Qed.

Section Exact.
Variables (idb : bytes) (keyb : N) (now : N).
Hypothesis Lid : length idb = 3%nat.
Hypothesis Hid : Forall (fun b => b < 256) idb.
Hypothesis Hkey : keyb < 256.
Hypothesis Hnow : now < 4294967296.
Let c := cfg_of idb keyb.

Lemma ts_eq : timestamp_hex now = Ok (hexlify (le32 now)).
Proof. unfold timestamp_hex. replace (now <? 4294967296) with true by (symmetry; apply N.ltb_lt; exact Hnow). reflexivity. Qed.

(* the login step *)
Lemma login_exact type2 st :
  exists LF st', spec_login type2 idb [keyb] now = Frame LF /\
    login c type2 now st = (st', Ok {| lr_timestamp := hexlify (le32 now); lr_response := hd [] (replies st);
                                       lr_session := pyslice 16 24 (hexlify (hd [] (replies st))) |}) /\
    frames st' = frames st ++ [LF] /\ replies st' = tl (replies st).
Proof.
  unfold login, bindM, lift. rewrite ts_eq. unfold spec_login.
  destruct type2.
  - destruct (send_template_exact1 T_LOGIN2_PACKET_TYPE2 L_login2 [hexlify (le32 now); hexlify idb] [8; 6]%nat st
                M_login2 (proj1 I_login2) (proj2 I_login2)) as [bs [[st' [Hs [Hf Hr]]] Hspec]].
    + unfold widths. cbn [map]. rewrite !hexlify_length, Lid. reflexivity.
    + apply hexs2; [apply le32_hex|apply hexlify_hexs, Hid].
    + exists bs. unfold send_template_gen, bindM, lift in Hs. cbn [map] in Hs.
      change (device_id c) with (hexlify idb).
      destruct (format T_LOGIN2_PACKET_TYPE2 [AStr (hexlify (le32 now)); AStr (hexlify idb)]) as [p|]; [|discriminate].
      destruct (sign_packet_with_crc_key p) as [signed|]; [|discriminate].
      destruct (send signed st) as [st1 [r|e]] eqn:Es; [|discriminate].
      assert (st1 = st') by congruence. subst st1. assert (r = hd [] (replies st)) by congruence. subst r.
      exists st'. split; [exact Hspec|]. split; [reflexivity|]. split; assumption.
  - destruct (send_template_exact1 T_LOGIN_PACKET_TYPE1 L_login1 [hexlify (le32 now); hexlify [keyb]] [8; 2]%nat st
                M_login1 (proj1 I_login1) (proj2 I_login1)) as [bs [[st' [Hs [Hf Hr]]] Hspec]].
    + reflexivity.
    + apply hexs2; [apply le32_hex|apply hexlify_hexs; constructor; [exact Hkey|constructor]].
    + exists bs. unfold send_template_gen, bindM, lift in Hs. cbn [map] in Hs.
      change (device_key c) with (hexlify [keyb]).
      destruct (format T_LOGIN_PACKET_TYPE1 [AStr (hexlify (le32 now)); AStr (hexlify [keyb])]) as [p|]; [|discriminate].
      destruct (sign_packet_with_crc_key p) as [signed|]; [|discriminate].
      destruct (send signed st) as [st1 [r|e]] eqn:Es; [|discriminate].
      assert (st1 = st') by congruence. subst st1. assert (r = hd [] (replies st)) by congruence. subst r.
      exists st'. split; [exact Hspec|]. split; [reflexivity|]. split; assumption.
Qed.

(* the three header arguments of a command frame are the Spec's: session bytes 8-11 of the login reply, LE32 of the
   clock reading, the device id *)
Lemma session_is_bytes r0 : pyslice 16 24 (hexlify r0) = hexlify (pyslice 8 12 r0).
Proof. change (pyslice 16 24 (hexlify r0)) with (pyslice (2*8) (2*12) (hexlify r0)). apply hexlify_slice. Qed.

Definition hdr_texts (r0 : bytes) : list bytes := [hexlify (pyslice 8 12 r0); hexlify (le32 now); hexlify idb].
Lemma hdr_texts_spec r0 : map AStr (hdr_texts r0) = hdr_args (pyslice 8 12 r0) now idb.
Proof. reflexivity. Qed.
Lemma pyslice_bytes lo hi (m : bytes) : Forall (fun b => b < 256) m -> Forall (fun b => b < 256) (pyslice lo hi m).
Proof.
  intros H. apply Forall_forall. intros x Hx. rewrite Forall_forall in H. apply H. unfold pyslice in Hx.
  rewrite <- (firstn_skipn lo m). apply in_or_app. right.
  rewrite <- (firstn_skipn (hi - lo) (skipn lo m)). apply in_or_app. left. exact Hx.
Qed.
Lemma hdr_texts_ok r0 rs ws : Forall (fun b => b < 256) r0 -> (12 <= length r0)%nat -> widths rs ws -> args_hexs rs ->
  widths (hdr_texts r0 ++ rs) ([8; 8; 6]%nat ++ ws) /\ args_hexs (hdr_texts r0 ++ rs).
Proof.
  intros Hb Hl Hw Hx. split.
  - unfold widths, hdr_texts in *. subst ws. rewrite map_app. cbn [map]. rewrite !hexlify_length, Lid.
    unfold pyslice. rewrite firstn_length, skipn_length. replace (Nat.min (12 - 8) (length r0 - 8)) with 4%nat by lia. reflexivity.
  - unfold args_hexs, hdr_texts. cbn [app]. constructor; [apply hexlify_hexs, pyslice_bytes, Hb|].
    constructor; [apply le32_hex|]. constructor; [apply hexlify_hexs, Hid|exact Hx].
Qed.

(* ---- the generic shapes, exactly ---- *)
Theorem type1_op_exact T L extra ws r0 rest :
  matches T L = true -> holes_okb T (length ([8; 8; 6]%nat ++ ws)) = true -> c01_cells_ok (sym T ([8; 8; 6]%nat ++ ws)) = true ->
  Forall (fun b => b < 256) r0 -> (12 <= length r0)%nat -> enc_ok extra ws ->
  exists LF, spec_login false idb [keyb] now = Frame LF /\
    match extra with
    | Ok args => exists CF, frame_of L (hdr_args (pyslice 8 12 r0) now idb ++ args) = Frame CF /\
                            Exchange.run (type1_op false c now T extra) (r0 :: rest) = ([LF; CF], Ok (hd [] rest))
    | Exc e => Exchange.run (type1_op false c now T extra) (r0 :: rest) = ([LF], Exc e)
    end.
Proof.
  intros Hm Hh Hk Hb Hl He. unfold Exchange.run, type1_op, bindM.
  set (st0 := {| frames := []; replies := r0 :: rest |}).
  destruct (login_exact false st0) as [LF [st1 [Hspec [Hlog [Hf1 Hr1]]]]]. exists LF. split; [exact Hspec|].
  rewrite Hlog. cbn [st0 frames replies hd tl app lr_session lr_timestamp] in *. unfold lift at 1.
  destruct extra as [args|e].
  - destruct (He args eq_refl) as [rs [-> [Hw Hx]]].
    destruct (hdr_texts_ok r0 rs ws Hb Hl Hw Hx) as [Hw' Hx'].
    destruct (send_template_exact1 T L (hdr_texts r0 ++ rs) ([8; 8; 6]%nat ++ ws) st1 Hm Hh Hk Hw' Hx') as [CF [[st2 [Hs [Hf2 Hr2]]] Hsp]].
    exists CF. rewrite map_app, hdr_texts_spec in Hsp. split; [exact Hsp|].
    rewrite session_is_bytes. change (device_id c) with (hexlify idb).
    change (AStr (hexlify (pyslice 8 12 r0)) :: AStr (hexlify (le32 now)) :: AStr (hexlify idb) :: map AStr rs) with (map AStr (hdr_texts r0 ++ rs)).
    rewrite Hs, Hf2, Hf1, Hr1. reflexivity.
  - cbn. rewrite Hf1. reflexivity.
Qed.

Theorem type2_op_exact T L rs ws r0 rest :
  matches T L = true -> holes_okb T (length ([8; 8; 6]%nat ++ ws)) = true -> c01_cells_ok2 (sym T ([8; 8; 6]%nat ++ ws)) = true ->
  Forall (fun b => b < 256) r0 -> (12 <= length r0)%nat -> widths rs ws -> args_hexs rs ->
  exists LF CF, spec_login true idb [keyb] now = Frame LF /\
    frame_of L (hdr_args (pyslice 8 12 r0) now idb ++ map AStr rs) = Frame CF /\
    Exchange.run (type2_op false c now T (map AStr rs) true) (r0 :: rest) = ([LF; CF], Ok (hd [] rest)).
Proof.
  intros Hm Hh Hk Hb Hl Hw Hx. unfold Exchange.run, type2_op, bindM.
  set (st0 := {| frames := []; replies := r0 :: rest |}).
  destruct (login_exact true st0) as [LF [st1 [Hspec [Hlog [Hf1 Hr1]]]]]. exists LF.
  rewrite Hlog. cbn [st0 frames replies hd tl app lr_session lr_timestamp lr_response] in *.
  assert (Hsucc : successful r0 = true) by (destruct r0; [cbn in Hl; lia|reflexivity]). rewrite Hsucc.
  destruct (hdr_texts_ok r0 rs ws Hb Hl Hw Hx) as [Hw' Hx'].
  destruct (send_template_exact2 T L (hdr_texts r0 ++ rs) ([8; 8; 6]%nat ++ ws) st1 Hm Hh Hk Hw' Hx') as [CF [[st2 [Hs [Hf2 Hr2]]] Hsp]].
  exists CF. rewrite map_app, hdr_texts_spec in Hsp. split; [exact Hspec|]. split; [exact Hsp|].
  rewrite session_is_bytes. change (device_id c) with (hexlify idb).
  change (AStr (hexlify (pyslice 8 12 r0)) :: AStr (hexlify (le32 now)) :: AStr (hexlify idb) :: map AStr rs) with (map AStr (hdr_texts r0 ++ rs)).
  rewrite Hs, Hf2, Hf1, Hr1. reflexivity.
Qed.
End Exact.

(* ---- per operation: the model's argument encoders against the declared meaning of the arguments ---- *)
Section PerOp.
Variables (idb : bytes) (keyb : N) (now : N) (r0 : bytes) (rest : list bytes).
Hypothesis Lid : length idb = 3%nat.
Hypothesis Hid : Forall (fun b => b < 256) idb.
Hypothesis Hkey : keyb < 256.
Hypothesis Hnow : now < 4294967296.
Hypothesis Hr0 : Forall (fun b => b < 256) r0.
Hypothesis Lr0 : (12 <= length r0)%nat.
Let c := cfg_of idb keyb.
Let h := hdr_args (pyslice 8 12 r0) now idb.

(* what an operation did: the frames written and whether it returned the device's answer or raised *)
Definition outcome_is (x : list bytes * result bytes) (v : verdict) : Prop :=
  exists LF, (exists t2, spec_login t2 idb [keyb] now = Frame LF) /\
    match v with
    | Frame CF => x = ([LF; CF], Ok (hd [] rest))
    | MustRaise => exists e, x = ([LF], Exc e)
    | Unspecified => True
    end.

Lemma no_timer_is_zero : NO_TIMER_REQUESTED = hexlify (le32 0). Proof. reflexivity. Qed.

Theorem control_exact (on : bool) minutes :
  outcome_is (Exchange.run (control_device_op false c now (s2l (if on then "1" else "0")) minutes) (r0 :: rest)) (spec_control h on minutes).
Proof.
  unfold control_device_op, spec_control.
  set (extra := (do timer <- (if (0 <? minutes)%Z then minutes_to_hexadecimal_seconds (Z.to_N minutes) else Ok NO_TIMER_REQUESTED) ;;
                 Ok [AStr (s2l (if on then "1" else "0")); AStr timer])).
  destruct (type1_op_exact idb keyb now Lid Hid Hkey Hnow T_SEND_CONTROL_PACKET L_control extra [1; 8]%nat r0 rest
              M_control (proj1 I_control) (proj2 I_control) Hr0 Lr0) as [LF [Hlf Hx]].
  { intros args H. unfold extra in H. destruct (0 <? minutes)%Z.
    - destruct (minutes_to_hexadecimal_seconds (Z.to_N minutes)) as [timer|] eqn:E; cbn [bind] in H; [|discriminate].
      assert (args = map AStr [s2l (if on then "1" else "0"); timer]) by (cbn [map]; congruence). subst args.
      destruct (is_le32 _ (minutes_enc _ _ E)) as [H1 H2]. eexists. split; [reflexivity|]. split.
      + unfold widths. cbn [map]. rewrite H2, (proj2 (onoff_hex on)). reflexivity.
      + apply hexs2; [apply onoff_hex|exact H1].
    - cbn [bind] in H. assert (args = map AStr [s2l (if on then "1" else "0"); NO_TIMER_REQUESTED]) by (cbn [map]; congruence). subst args.
      eexists. split; [reflexivity|]. split; [unfold widths; cbn [map]; rewrite (proj2 (onoff_hex on)); reflexivity|].
      apply hexs2; [apply onoff_hex|apply no_timer_hex]. }
  exists LF. split; [exists false; exact Hlf|].
  assert (Hcv : AStr (s2l (if on then "1" else "0")) = nibble (if on then 49 else 48)) by (destruct on; reflexivity).
  unfold extra in *. destruct (0 <? minutes)%Z.
  - unfold minutes_to_hexadecimal_seconds in *. destruct (N.ltb_spec (Z.to_N minutes * 60) 4294967296) as [Hlt|Hge].
    + replace (4294967296 <=? Z.to_N minutes * 60) with false by (symmetry; apply N.leb_gt; exact Hlt).
      cbn [bind] in Hx. destruct Hx as [CF [Hcf Hrun]]. rewrite Hcv in Hcf. unfold arg_of_bytes. fold h in Hcf. rewrite Hcf. exact Hrun.
    + replace (4294967296 <=? Z.to_N minutes * 60) with true by (symmetry; apply N.leb_le; exact Hge).
      cbn [bind] in Hx. eexists. exact Hx.
  - cbn [bind] in Hx. change (4294967296 <=? 0) with false. cbv iota. destruct Hx as [CF [Hcf Hrun]].
    rewrite Hcv, no_timer_is_zero in Hcf. unfold arg_of_bytes. fold h in Hcf. rewrite Hcf. exact Hrun.
Qed.

Theorem auto_shutdown_exact secs :
  outcome_is (Exchange.run (set_auto_shutdown_op false c now secs) (r0 :: rest)) (spec_auto_shutdown h secs).
Proof.
  unfold set_auto_shutdown_op, spec_auto_shutdown.
  set (extra := (do a <- timedelta_to_hexadecimal_seconds secs ;; Ok [AStr a])).
  destruct (type1_op_exact idb keyb now Lid Hid Hkey Hnow T_SET_AUTO_OFF_SET_PACKET L_auto_off extra [8]%nat r0 rest
              M_auto_off (proj1 I_auto_off) (proj2 I_auto_off) Hr0 Lr0) as [LF [Hlf Hx]].
  { intros args H. unfold extra in H. destruct (timedelta_to_hexadecimal_seconds secs) as [a|] eqn:E; cbn [bind] in H; [|discriminate].
    assert (args = map AStr [a]) by (cbn [map]; congruence). subst args. destruct (is_le32 _ (timedelta_enc _ _ E)) as [H1 H2].
    eexists. split; [reflexivity|]. split; [unfold widths; cbn [map]; rewrite H2; reflexivity|apply hexs1; exact H1]. }
  exists LF. split; [exists false; exact Hlf|].
  unfold extra, timedelta_to_hexadecimal_seconds in *.
  assert (Hcond : ((3599 <? secs / 60 * 60) && (secs / 60 * 60 <? 86341))%Z%bool = ((3600 <=? secs) && (secs <=? 86399))%Z%bool).
  { destruct ((3600 <=? secs) && (secs <=? 86399))%Z%bool eqn:E.
    - apply andb_prop in E. destruct E as [A B]. apply Z.leb_le in A, B. apply andb_true_intro. split; apply Z.ltb_lt; lia.
    - apply Bool.andb_false_iff. apply Bool.andb_false_iff in E. destruct E as [A|B]; [left; apply Z.leb_gt in A|right; apply Z.leb_gt in B]; apply Z.ltb_ge; lia. }
  rewrite Hcond in Hx |- *. destruct ((3600 <=? secs) && (secs <=? 86399))%Z%bool; cbn [bind] in Hx |- *.
  - destruct Hx as [CF [Hcf Hrun]]. unfold arg_of_bytes. fold h in Hcf. rewrite Hcf. exact Hrun.
  - eexists. exact Hx.
Qed.

Theorem get_schedules_exact :
  outcome_is (Exchange.run (get_schedules_op false c now) (r0 :: rest)) (frame_of L_get_schedules h).
Proof.
  unfold get_schedules_op.
  destruct (type1_op_exact idb keyb now Lid Hid Hkey Hnow T_GET_SCHEDULES_PACKET L_get_schedules (Ok []) []%nat r0 rest
              M_get_schedules (proj1 I_get_schedules) (proj2 I_get_schedules) Hr0 Lr0) as [LF [Hlf [CF [Hcf Hrun]]]].
  { intros args H. inversion H; subst. exists []. split; [reflexivity|]. split; [reflexivity|constructor]. }
  exists LF. split; [exists false; exact Hlf|]. rewrite app_nil_r in Hcf. fold h in Hcf. rewrite Hcf. exact Hrun.
Qed.

Theorem delete_exact slot :
  outcome_is (Exchange.run (delete_schedule_op false c now slot) (r0 :: rest)) (spec_delete h slot).
Proof.
  unfold spec_delete. destruct slot as [|ch [|? ?]]; try (exists []; split; [exists false|exact I]; fail).
  all: try (destruct (login_exact idb keyb now Lid Hid Hkey Hnow false {| frames := []; replies := r0 :: rest |}) as [LF [_ [Hs _]]]; exists LF; split; [exists false; exact Hs|exact I]).
  destruct ((48 <=? ch) && (ch <=? 55)) eqn:E.
  2:{ destruct (login_exact idb keyb now Lid Hid Hkey Hnow false {| frames := []; replies := r0 :: rest |}) as [LF [_ [Hs _]]]. exists LF. split; [exists false; exact Hs|exact I]. }
  unfold delete_schedule_op.
  destruct (type1_op_exact idb keyb now Lid Hid Hkey Hnow T_DELETE_SCHEDULE_PACKET L_delete (Ok [AStr [ch]]) [1]%nat r0 rest
              M_delete (proj1 I_delete) (proj2 I_delete) Hr0 Lr0) as [LF [Hlf [CF [Hcf Hrun]]]].
  { intros args H. inversion H; subst. exists [[ch]]. split; [reflexivity|]. split; [reflexivity|].
    apply hexs1. constructor; [|constructor]. unfold is_hexchar, nib_of_char. apply andb_prop in E. destruct E as [A B]. rewrite A.
    replace (ch <=? 57) with true by (symmetry; apply N.leb_le; apply N.leb_le in B; lia). reflexivity. }
  exists LF. split; [exists false; exact Hlf|]. unfold nibble. fold h in Hcf. rewrite Hcf. exact Hrun.
Qed.

Theorem stop_exact : outcome_is (Exchange.run (stop_op false c now) (r0 :: rest)) (frame_of L_runner_stop h).
Proof.
  unfold stop_op.
  destruct (type2_op_exact idb keyb now Lid Hid Hkey Hnow T_RUNNER_STOP_COMMAND L_runner_stop [] []%nat r0 rest
              M_runner_stop (proj1 I_stop) (proj2 I_stop) Hr0 Lr0 eq_refl ltac:(constructor)) as [LF [CF [Hlf [Hcf Hrun]]]].
  exists LF. split; [exists true; exact Hlf|]. cbn [map] in Hcf. rewrite app_nil_r in Hcf. fold h in Hcf. rewrite Hcf. exact Hrun.
Qed.

Theorem set_position_exact p : outcome_is (Exchange.run (set_position_op false c now p) (r0 :: rest)) (spec_set_position h p).
Proof.
  unfold spec_set_position. destruct (N.leb_spec p 100) as [Hp|Hp].
  2:{ destruct (login_exact idb keyb now Lid Hid Hkey Hnow true {| frames := []; replies := r0 :: rest |}) as [LF [_ [Hs _]]]. exists LF. split; [exists true; exact Hs|exact I]. }
  assert (Hp' : p < 256) by lia. unfold set_position_op. rewrite (fmt_02x_byte p Hp').
  destruct (I_set_position 2 ltac:(lia) eq_refl) as [I1 I2]. destruct (hexbyte_hexs p Hp') as [H1 H2].
  destruct (type2_op_exact idb keyb now Lid Hid Hkey Hnow T_RUNNER_SET_POSITION L_set_position [hexbyte p] [2]%nat r0 rest
              M_set_position I1 I2 Hr0 Lr0 eq_refl (hexs1 _ H1)) as [LF [CF [Hlf [Hcf Hrun]]]].
  exists LF. split; [exists true; exact Hlf|]. unfold arg_of_bytes. change (hexlify [p]) with (hexbyte p ++ []). rewrite app_nil_r.
  cbn [map] in Hcf, Hrun. fold h in Hcf. rewrite Hcf. exact Hrun.
Qed.
Lemma zeros_are_hex k : concat (repeat (s2l "00") k) = hexlify (repeat 0 k).
Proof. induction k as [|k IH]; [reflexivity|]. cbn [repeat concat hexlify flat_map]. fold (hexlify (repeat 0 k)). rewrite IH. reflexivity. Qed.
Lemma filter_length_le {A} (f : A -> bool) l : (length (filter f l) <= length l)%nat.
Proof. induction l as [|x l IH]; [apply le_n|]. cbn [filter]. destruct (f x); cbn [length]; lia. Qed.

Theorem set_name_exact name : Forall (fun b => b < 256) name ->
  outcome_is (Exchange.run (set_device_name_op false c now name) (r0 :: rest)) (spec_set_name h name).
Proof.
  intros Hb. unfold set_device_name_op, spec_set_name.
  set (extra := (do n <- string_to_hexadecimale_device_name false name ;; Ok [AStr n])).
  destruct (type1_op_exact idb keyb now Lid Hid Hkey Hnow T_UPDATE_DEVICE_NAME_PACKET L_set_name extra [64]%nat r0 rest
              M_set_name (proj1 I_set_name) (proj2 I_set_name) Hr0 Lr0) as [LF [Hlf Hx]].
  { intros args H. unfold extra in H. destruct (string_to_hexadecimale_device_name false name) as [a|] eqn:E; cbn [bind] in H; [|discriminate].
    assert (args = map AStr [a]) by (cbn [map]; congruence). subst args. destruct (name_enc _ _ Hb E) as [H1 H2].
    eexists. split; [reflexivity|]. split; [unfold widths; cbn [map]; rewrite H2; reflexivity|apply hexs1; exact H1]. }
  exists LF. split; [exists false; exact Hlf|].
  destruct (utf8_valid name); cbn [negb]; [|exact I].
  subst extra. unfold string_to_hexadecimale_device_name in *. cbv zeta in *.
  change (if false then DeviceTools.cp_count name else length name) with (length name) in *.
  pose proof (filter_length_le (fun b => negb (cont b)) name) as Hcp. fold (cp_len name) in Hcp.
  destruct (Nat.ltb_spec 32 (length name)) as [Hbig|Hle].
  - replace ((1 <? length name) && (length name <? 33))%nat with false in *
      by (symmetry; apply Bool.andb_false_iff; right; apply Nat.ltb_ge; lia).
    cbn [bind] in Hx |- *. eexists. exact Hx.
  - destruct (Nat.leb_spec 2 (cp_len name)) as [Hcp2|Hcp1].
    + replace ((1 <? length name) && (length name <? 33))%nat with true in *
        by (symmetry; apply andb_true_intro; split; apply Nat.ltb_lt; lia).
      cbn [bind] in Hx |- *. destruct Hx as [CF [Hcf Hrun]].
      rewrite zeros_are_hex, <- hexlify_app in Hcf, Hrun. rewrite zeros_are_hex, <- hexlify_app. unfold arg_of_bytes, pad0. fold h in Hcf. rewrite Hcf. exact Hrun.
    + destruct (Nat.ltb_spec (length name) 2) as [Hshort|Hlong]; [|exact I].
      replace ((1 <? length name) && (length name <? 33))%nat with false in *
        by (symmetry; apply Bool.andb_false_iff; left; apply Nat.ltb_ge; lia).
      cbn [bind] in Hx |- *. eexists. exact Hx.
Qed.
End PerOp.
