Require Import AS.Base.Prelude AS.Base.Hex AS.Base.Crc AS.Base.Template AS.Spec.Sign AS.Spec.Frame
  AS.Model.DeviceTools AS.Proofs.SignProofs AS.Proofs.HexSlices.
Open Scope N_scope.

Lemma bytes_eqb_refl a : bytes_eqb a a = true.
Proof.
  unfold bytes_eqb. rewrite Nat.eqb_refl. cbn. induction a as [|x a IH]; [reflexivity|].
  cbn. rewrite N.eqb_refl. exact IH.
Qed.
Lemma bytes_eqb_eq a : forall b, bytes_eqb a b = true -> a = b.
Proof.
  unfold bytes_eqb. induction a as [|x a IH]; intros [|y b] H; try reflexivity;
    try (cbn in H; discriminate).
  cbn in H. apply andb_prop in H. destruct H as [Hl H]. apply andb_prop in H. destruct H as [Hx H].
  apply N.eqb_eq in Hx. subst. f_equal. apply IH. rewrite Hl. exact H.
Qed.

(* ---- cells: which characters of the unsigned hex packet are known ---- *)
Definition cell_known (c : cell) (x : N) : bool := match c with K y => N.eqb x y | U _ _ => false end.
Definition known_at (cs : list cell) (off : nat) (lit : bytes) : bool :=
  (length (pyslice off (off + length lit) cs) =? length lit)%nat &&
  forallb (fun '(c, x) => cell_known c x) (combine (pyslice off (off + length lit) cs) lit).

Lemma pyslice_map {A B} (f : A -> B) lo hi l : pyslice lo hi (map f l) = map f (pyslice lo hi l).
Proof. unfold pyslice. rewrite skipn_map, firstn_map. reflexivity. Qed.

Lemma known_list rs : forall cs lit, (length cs =? length lit)%nat = true ->
  forallb (fun '(c, x) => cell_known c x) (combine cs lit) = true -> map (denote rs) cs = lit.
Proof.
  induction cs as [|c cs IH]; intros [|x lit] Hl H; try reflexivity; try (cbn in Hl; discriminate).
  cbn in *. apply andb_prop in H. destruct H as [Hc H]. destruct c as [y|i k]; [|discriminate].
  apply N.eqb_eq in Hc. subst. cbn [denote]. f_equal. apply IH; assumption.
Qed.

Lemma known_at_sound rs cs off lit : known_at cs off lit = true ->
  pyslice off (off + length lit) (map (denote rs) cs) = lit.
Proof.
  unfold known_at. intros H. apply andb_prop in H. destruct H as [Hl H].
  rewrite pyslice_map. apply known_list; assumption.
Qed.

(* the boolean decision on the symbolic unsigned packet *)
Definition c01_cells_ok (cs : list cell) : bool :=
  let n := length cs in
  Nat.even n && (80 <=? n)%nat &&
  forallb (fun c => match c with K x => is_hexchar x | U _ _ => true end) cs &&
  known_at cs 0 (s2l "fef0") &&
  known_at cs 4 (hexlify (le16 (N.of_nat (n / 2 + 4)))) &&
  known_at cs 76 (s2l "f0fe").

Definition args_hex (rs : list bytes) : Prop := Forall (Forall (fun c => is_hexchar c = true)) rs.

Lemma denote_hex rs cs : args_hex rs ->
  forallb (fun c => match c with K x => is_hexchar x | U _ _ => true end) cs = true ->
  (forall i k, In (U i k) cs -> (k < length (nth i rs []))%nat) ->
  Forall (fun c => is_hexchar c = true) (map (denote rs) cs).
Proof.
  intros Hr Hk Hu. apply Forall_forall. intros x Hx. apply in_map_iff in Hx. destruct Hx as [c [Hc Hin]].
  rewrite forallb_forall in Hk. specialize (Hk c Hin). destruct c as [y|i k]; cbn [denote] in Hc; subst.
  - exact Hk.
  - specialize (Hu i k Hin). unfold args_hex in Hr. rewrite Forall_forall in Hr.
    destruct (nth_in_or_default i rs []) as [Hi|Hd].
    + specialize (Hr _ Hi). rewrite Forall_forall in Hr. apply Hr. apply nth_In. exact Hu.
    + rewrite Hd in Hu. cbn in Hu. lia.
Qed.

(* ---- slices of concatenations ---- *)
Lemma pyslice_app_l {A} lo hi (a b : list A) : (hi <= length a)%nat -> pyslice lo hi (a ++ b) = pyslice lo hi a.
Proof.
  intros H. unfold pyslice. destruct (Nat.le_gt_cases lo (length a)) as [Hlo|Hlo].
  - rewrite skipn_app. replace (lo - length a)%nat with 0%nat by lia. cbn [skipn].
    rewrite firstn_app. rewrite skipn_length. replace (hi - lo - (length a - lo))%nat with 0%nat by lia.
    cbn [firstn]. apply app_nil_r.
  - replace (hi - lo)%nat with 0%nat by lia. reflexivity.
Qed.
Lemma pyslice_app_r {A} (a b : list A) : pyslice (length a) (length a + length b) (a ++ b) = b.
Proof.
  unfold pyslice. rewrite skipn_app, skipn_all, Nat.sub_diag. cbn [skipn app].
  replace (length a + length b - length a)%nat with (length b) by lia. apply firstn_all.
Qed.
Lemma pyslice_app_whole_l {A} (a b : list A) : pyslice 0 (length a) (a ++ b) = a.
Proof. rewrite pyslice_app_l by lia. unfold pyslice. cbn [skipn]. rewrite Nat.sub_0_r. apply firstn_all. Qed.

Lemma sig_length bs : length (sig bs) = 4%nat. Proof. reflexivity. Qed.
Lemma sig_bytes bs : Forall (fun b => b < 256) (sig bs).
Proof. unfold sig. apply Forall_app. split; apply le16_bytes. Qed.

Lemma slice_known p b lit bl a : unhexlify p = Some b -> unhexlify lit = Some bl ->
  pyslice (2*a) (2*a + length lit) p = lit -> length lit = (2 * length bl)%nat ->
  pyslice a (a + length bl) b = bl.
Proof.
  intros Hp Hl Hs Hlen.
  pose proof (unhexlify_slice a (a + length bl) p b Hp) as H.
  replace (2 * (a + length bl))%nat with (2*a + length lit)%nat in H by lia.
  rewrite Hs, Hl in H. congruence.
Qed.

Theorem c01_sound cs rs : c01_cells_ok cs = true -> args_hex rs ->
  (forall i k, In (U i k) cs -> (k < length (nth i rs []))%nat) ->
  exists out bs, sign_packet_with_crc_key (map (denote rs) cs) = Ok out /\
                 unhexlify out = Some bs /\ frame_okb bs = true.
Proof.
  unfold c01_cells_ok. intros H Hr Hu.
  repeat (apply andb_prop in H; let H' := fresh "H" in destruct H as [H H']).
  rename H0 into Hk76, H1 into Hk4, H2 into Hk0, H3 into Hhex, H4 into Hlen80. rename H into Heven.
  set (p := map (denote rs) cs).
  assert (Hpl : length p = length cs) by apply map_length.
  destruct (unhexlify_total p) as [b Hb].
  { apply denote_hex; assumption. }
  { rewrite Hpl. exact Heven. }
  pose proof (unhexlify_length p b Hb) as Hlb. rewrite Hpl in Hlb.
  apply Nat.leb_le in Hlen80.
  exists (p ++ hexlify (sig b)), (b ++ sig b). split; [apply sign_spec; exact Hb|]. split.
  { apply unhexlify_app; [exact Hb|apply unhexlify_hexlify, sig_bytes]. }
  (* the four frame facts *)
  assert (S0 : pyslice 0 2 b = [254; 240]).
  { apply (slice_known p b (s2l "fef0") [254;240] 0 Hb); [reflexivity| |reflexivity].
    apply (known_at_sound rs cs 0 (s2l "fef0")). exact Hk0. }
  assert (S38 : pyslice 38 40 b = [240; 254]).
  { apply (slice_known p b (s2l "f0fe") [240;254] 38 Hb); [reflexivity| |reflexivity].
    apply (known_at_sound rs cs 76 (s2l "f0fe")). exact Hk76. }
  assert (S2 : pyslice 2 4 b = le16 (N.of_nat (length b + 4))).
  { replace (length cs / 2 + 4)%nat with (length b + 4)%nat in Hk4
      by (rewrite Hlb, Nat.mul_comm, Nat.div_mul; lia).
    apply (slice_known p b (hexlify (le16 (N.of_nat (length b + 4)))) (le16 (N.of_nat (length b + 4))) 2 Hb).
    - apply unhexlify_hexlify, le16_bytes.
    - apply (known_at_sound rs cs 4). exact Hk4.
    - apply hexlify_length. }
  unfold frame_okb. rewrite app_length, sig_length.
  replace (length b + 4 - 4)%nat with (length b) by lia.
  rewrite !pyslice_app_l by lia.
  rewrite S0, S2, S38.
  assert (S4 : pyslice (length b) (length b + 4) (b ++ sig b) = sig b) by exact (pyslice_app_r b (sig b)).
  rewrite S4, pyslice_app_whole_l.
  rewrite !bytes_eqb_refl.
  replace (44 <=? length b + 4)%nat with true by (symmetry; apply Nat.leb_le; lia).
  reflexivity.
Qed.
Print Assumptions c01_sound.
