Require Import AS.Base.Prelude AS.Base.Hex AS.Base.Crc AS.Model.DeviceTools AS.Spec.Sign.
Open Scope N_scope.

Lemma crc_slice_be32 c : c < 65536 -> crc_slice (hexlify (be32 c)) = hexlify (le16 c).
Proof.
  intros H. unfold crc_slice, be32, le16.
  change (pyslice 6 8 (hexlify ?l)) with (pyslice (2*3) (2*4) (hexlify l)).
  change (pyslice 4 6 (hexlify ?l)) with (pyslice (2*2) (2*3) (hexlify l)).
  rewrite !hexlify_slice. unfold pyslice. cbn [skipn firstn Nat.sub].
  rewrite <- hexlify_app. cbn [app]. reflexivity.
Qed.

Lemma le16_bytes c : Forall (fun b => b < 256) (le16 c).
Proof. unfold le16. repeat constructor; apply N.mod_lt; discriminate. Qed.

Lemma repeat_bytes n : Forall (fun b => b < 256) (repeat 48 n).
Proof. induction n; cbn; constructor; [lia|assumption]. Qed.

Lemma concat_repeat_30 : concat (repeat (s2l "30") 32) = hexlify (repeat 48 32).
Proof. vm_compute. reflexivity. Qed.

Theorem sign_spec p bs : unhexlify p = Some bs ->
  sign_packet_with_crc_key p = Ok (p ++ hexlify (sig bs)).
Proof.
  intros Hp. unfold sign_packet_with_crc_key, sig, crc16. rewrite Hp. cbn [of_option bind].
  pose proof (unhexlify_bytes _ _ Hp) as Hb.
  rewrite (crc_hqx_eq_spec bs 4129) by (try exact Hb; lia).
  set (c := crc_spec 4129 bs).
  assert (Hc : c < 65536) by (apply crc_spec_lt; lia).
  rewrite crc_slice_be32 by exact Hc.
  rewrite concat_repeat_30, <- hexlify_app.
  change (le16 c ++ repeat 48 32) with (key_block c).
  assert (Hk : Forall (fun b => b < 256) (key_block c)).
  { unfold key_block. apply Forall_app. split; [apply le16_bytes|apply repeat_bytes]. }
  rewrite unhexlify_hexlify by exact Hk. cbn [of_option bind].
  rewrite (crc_hqx_eq_spec _ 4129) by (try exact Hk; lia).
  rewrite crc_slice_be32 by (apply crc_spec_lt; lia).
  rewrite hexlify_app. reflexivity.
Qed.

Theorem sign_reject p : unhexlify p = None ->
  exists e, sign_packet_with_crc_key p = Exc e /\ is_value_error e = true.
Proof. intros H. unfold sign_packet_with_crc_key. rewrite H. exists BinasciiError. split; reflexivity. Qed.

Lemma list_eqb_refl a : list_eqb a a = true.
Proof.
  unfold list_eqb. rewrite Nat.eqb_refl. cbn. induction a as [|x a IH]; [reflexivity|].
  cbn. rewrite N.eqb_refl. exact IH.
Qed.

Theorem sign_checks p out : sign_packet_with_crc_key p = Ok out -> check_sign p out = true.
Proof.
  intros H. unfold check_sign. destruct (unhexlify p) as [bs|] eqn:E.
  - rewrite (sign_spec p bs E) in H. inversion H; subst. apply list_eqb_refl.
  - unfold sign_packet_with_crc_key in H. rewrite E in H. discriminate.
Qed.
