Require Import AS.Base.Prelude AS.Model.NextRun AS.Spec.NextRun.
Open Scope nat_scope.
Definition subl (v : N) : list nat := filter (fun d => N.testbit v (N.of_nat d)) (seq 0 7).
Definition nr_eqb (a b : next_run) : bool :=
  match a, b with Today, Today | Tomorrow, Tomorrow => true | NextDay x, NextDay y => x =? y | _, _ => false end.
Definition core_ok (legacy : bool) (x : N) : bool :=
  (* x encodes (subset v: 7 bits, weekday w: 3 bits, flag: 1 bit) *)
  let v := (x mod 128)%N in let w := N.to_nat ((x / 128) mod 8)%N in let f := N.odd (x / 1024)%N in
  if w <? 7 then nr_eqb (pretty_next_run_core legacy w f (subl v)) (next_run_spec w f (subl v)) else true.
Lemma fixed_core_all : sweep (core_ok false) 11 0 = true.
Proof. vm_compute. reflexivity. Qed.
(* the pre-repair code is refuted: Wednesday (2), start passed, {Wed, Fri} *)
Lemma legacy_refuted : exists w f ds, pretty_next_run_core true w f ds <> next_run_spec w f ds.
Proof. exists 2, false, [2; 4]. vm_compute. discriminate. Qed.
Eval vm_compute in (pretty_next_run_core true 2 false [2;4], next_run_spec 2 false [2;4], pretty_next_run_core false 2 false [2;4]).
