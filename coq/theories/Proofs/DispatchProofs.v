Require Import AS.Base.Prelude AS.Model.Bridge.

Definition expected (lm lt : bool) (events : list (nat * bytes)) : list (nat * device) :=
  flat_map (fun '(p, d) => match delivered lm lt d with Some x => [(p, x)] | None => [] end) events.

Lemma loop_calls lm lt raises events : forall s,
  calls (fold_left (loop_step lm lt raises) events s) = calls s ++ expected lm lt events.
Proof.
  induction events as [|[p d] events IH]; intros s; [cbn; rewrite app_nil_r; reflexivity|].
  cbn [fold_left expected flat_map]. rewrite IH. unfold loop_step, delivered.
  destruct (parse_datagram lm lt d); cbn [calls]; rewrite <- ?app_assoc; reflexivity.
Qed.

(* C07: whatever the callback does, the invocations are exactly the valid broadcasts, once each, in
   arrival order *)
Theorem C07_calls lm lt raises events : calls (loop_run lm lt raises events) = expected lm lt events.
Proof. unfold loop_run. rewrite loop_calls. reflexivity. Qed.

(* ... and per port: the calls of port p are the valid broadcasts that arrived on p, in order, regardless
   of what arrived on other ports *)
Definition on_port {A} (p : nat) (l : list (nat * A)) : list A :=
  flat_map (fun '(q, x) => if Nat.eqb q p then [x] else []) l.
Theorem C07_per_port lm lt raises events p :
  on_port p (calls (loop_run lm lt raises events)) =
  flat_map (fun d => match delivered lm lt d with Some x => [x] | None => [] end) (on_port p events).
Proof.
  rewrite C07_calls. unfold expected, on_port. induction events as [|[q d] events IH]; [reflexivity|].
  cbn [flat_map]. rewrite flat_map_app, IH. destruct (Nat.eqb q p) eqn:E.
  - cbn [flat_map app]. destruct (delivered lm lt d); cbn [flat_map app]; rewrite ?E, ?app_nil_r; reflexivity.
  - destruct (delivered lm lt d); cbn [flat_map app]; rewrite ?E; reflexivity.
Qed.
Print Assumptions C07_per_port.
