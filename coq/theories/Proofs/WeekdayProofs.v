Require Import AS.Base.Prelude AS.Base.Hex AS.Gen.Extracted AS.Model.ScheduleTools.
From Coq Require Import Permutation.
Open Scope N_scope.

(* canonical sublist of all_days selected by the bits of v *)
Definition sub (v : N) : list day := filter (fun d => N.testbit v (N.of_nat d)) all_days.
Definition memb (l : list day) (d : day) : bool := existsb (Nat.eqb d) l.
Definition vec (l : list day) : N := fold_left (fun a d => N.setbit a (N.of_nat d)) l 0.

Lemma memb_In l d : memb l d = true <-> In d l.
Proof.
  unfold memb. rewrite existsb_exists. split.
  - intros [x [Hx He]]. apply Nat.eqb_eq in He. subst. exact Hx.
  - intros H. exists d. split; [exact H|apply Nat.eqb_refl].
Qed.

Lemma sum_bits_perm l l' : Permutation l l' -> forall a,
  fold_left (fun a d => a + day_bit_rep d) l a = fold_left (fun a d => a + day_bit_rep d) l' a.
Proof.
  induction 1 as [|x l l' _ IH|x y l|l l' l'' _ IH1 _ IH2]; intros a; cbn [fold_left].
  - reflexivity.
  - apply IH.
  - f_equal. lia.
  - rewrite IH1. apply IH2.
Qed.

Lemma canon_perm l : NoDup l -> (forall d, In d l -> (d < n_days)%nat) ->
  Permutation l (filter (memb l) all_days).
Proof.
  intros Hn Hb. apply NoDup_Permutation; [exact Hn|apply NoDup_filter, seq_NoDup|].
  intros d. rewrite filter_In, memb_In. unfold all_days. rewrite in_seq. split.
  - intros H. split; [specialize (Hb d H); lia|exact H].
  - intros [_ H]. exact H.
Qed.

(* every membership filter is one of the 2^7 canonical sublists *)
Lemma testbit_vec l : forall a d, N.testbit (fold_left (fun a d => N.setbit a (N.of_nat d)) l a) (N.of_nat d)
  = N.testbit a (N.of_nat d) || memb l d.
Proof.
  induction l as [|x l IH]; intros a d; cbn [fold_left memb existsb].
  - rewrite orb_false_r. reflexivity.
  - rewrite IH. fold (memb l d). destruct (Nat.eqb_spec d x) as [->|Hne].
    + rewrite N.setbit_eq. rewrite orb_true_l, orb_true_r. reflexivity.
    + rewrite N.setbit_neq by lia. rewrite orb_false_l. reflexivity.
Qed.
Lemma canon_sub l : filter (memb l) all_days = sub (vec l).
Proof.
  unfold sub. apply filter_ext. intros d. unfold vec. rewrite testbit_vec. reflexivity.
Qed.
Lemma sub_mod v : sub v = sub (v mod 128).
Proof.
  unfold sub. apply filter_ext_in. intros d Hd. unfold all_days in Hd. apply in_seq in Hd.
  change 128 with (2^7). rewrite N.mod_pow2_bits_low; [reflexivity|].
  change n_days with 7%nat in Hd. lia.
Qed.

(* --- the finite core: 128 canonical subsets, by computation on the extracted table --- *)
Definition list_nat_eqb (a b : list day) : bool :=
  (length a =? length b)%nat && forallb (fun '(x, y) => Nat.eqb x y) (combine a b).
Definition bytes_eqb (a b : bytes) : bool :=
  (length a =? length b)%nat && forallb (fun '(x, y) => N.eqb x y) (combine a b).

Definition core_ok (v : N) : bool :=
  let l := sub v in
  let m := sum_bits l in
  match l with
  | [] => true
  | _ =>
    (* two hex digits, even, in range, decodes back to the same subset *)
    bytes_eqb (fmt_02x m) (hexbyte m) && (m <? 256) && N.even m && (2 <=? m) && (m <=? 254) &&
    forallb (fun d => Bool.eqb (N.testbit m (N.of_nat d + 1)) (N.testbit v (N.of_nat d))) all_days &&
    match bit_summary_to_days m with Ok l' => list_nat_eqb l' l | Exc _ => false end
  end.
Lemma core_all : sweep core_ok 7 0 = true.
Proof. vm_compute. reflexivity. Qed.

Lemma n_days_7 : n_days = 7%nat. Proof. reflexivity. Qed.

Lemma core v : core_ok (v mod 128) = true.
Proof. apply (sweep_all core_ok 7); [exact core_all|]. apply N.mod_lt. discriminate. Qed.

(* reduction of an arbitrary duplicate-free list to its canonical subset *)
Lemma sum_bits_canon l : NoDup l -> (forall d, In d l -> (d < n_days)%nat) ->
  sum_bits l = sum_bits (sub (vec l mod 128)).
Proof.
  intros Hn Hb. unfold sum_bits. rewrite (sum_bits_perm _ _ (canon_perm l Hn Hb)).
  rewrite canon_sub, sub_mod. reflexivity.
Qed.

(* ---- from the finite core to arbitrary duplicate-free inputs ---- *)
Lemma nodupb_NoDup l : nodupb l = true <-> NoDup l.
Proof.
  induction l as [|x l IH]; cbn [nodupb].
  - split; [constructor|reflexivity].
  - rewrite andb_true_iff, negb_true_iff, IH. split.
    + intros [Hn Hd]. constructor; [|exact Hd]. intros Hin.
      assert (existsb (Nat.eqb x) l = true) by (apply existsb_exists; exists x; split; [exact Hin|apply Nat.eqb_refl]).
      congruence.
    + intros H. inversion H as [|? ? Hn Hd]; subst. split; [|exact Hd].
      destruct (existsb (Nat.eqb x) l) eqn:E; [|reflexivity]. apply existsb_exists in E.
      destruct E as [y [Hy He]]. apply Nat.eqb_eq in He. subst. contradiction.
Qed.

Lemma filter_memb_nonempty l : l <> [] -> (forall d, In d l -> (d < n_days)%nat) -> filter (memb l) all_days <> [].
Proof.
  intros Hne Hb. destruct l as [|x l]; [contradiction|]. intros H.
  assert (Hin : In x (filter (memb (x :: l)) all_days)).
  { apply filter_In. split; [unfold all_days; apply in_seq; specialize (Hb x (or_introl eq_refl)); lia|].
    apply memb_In. left. reflexivity. }
  rewrite H in Hin. exact Hin.
Qed.

Section Lift.
Variable l : list day.
Hypothesis Hne : l <> [].
Hypothesis Hnd : NoDup l.
Hypothesis Hb : forall d, In d l -> (d < n_days)%nat.

Let v := vec l mod 128.
Lemma canon_eq : filter (memb l) all_days = sub v.
Proof. unfold v. rewrite canon_sub. apply sub_mod. Qed.
Lemma sub_v_nonempty : sub v <> [].
Proof. rewrite <- canon_eq. apply filter_memb_nonempty; assumption. Qed.
Lemma mask_eq : sum_bits l = sum_bits (sub v).
Proof. unfold v. apply sum_bits_canon; assumption. Qed.

Lemma core_facts :
  let m := sum_bits l in
  fmt_02x m = hexbyte m /\ m < 256 /\ N.even m = true /\ 2 <= m <= 254 /\
  (forall d, (d < n_days)%nat -> N.testbit m (N.of_nat d + 1) = memb l d) /\
  bit_summary_to_days m = Ok (filter (memb l) all_days).
Proof.
  cbv zeta. rewrite mask_eq, canon_eq. pose proof (core v) as H. unfold v in H.
  rewrite N.mod_mod in H by discriminate. fold v in H. unfold core_ok in H.
  destruct (sub v) as [|x r] eqn:E; [exfalso; apply sub_v_nonempty; exact E|]. rewrite <- E in *.
  apply andb_prop in H; destruct H as [H Hdec]. apply andb_prop in H; destruct H as [H Hbits].
  apply andb_prop in H; destruct H as [H Hle]. apply andb_prop in H; destruct H as [H Hge].
  apply andb_prop in H; destruct H as [H Hev]. apply andb_prop in H; destruct H as [Hfmt Hlt].
  assert (Beq : forall a b, bytes_eqb a b = true -> a = b).
  { unfold bytes_eqb. induction a as [|y a IH]; intros [|z b] Hab; try reflexivity; try (cbn in Hab; discriminate).
    cbn in Hab. apply andb_prop in Hab. destruct Hab as [Hl Hab]. apply andb_prop in Hab. destruct Hab as [Hy Hab].
    apply N.eqb_eq in Hy. subst. f_equal. apply IH. rewrite Hl. exact Hab. }
  assert (Leq : forall a b, list_nat_eqb a b = true -> a = b).
  { unfold list_nat_eqb. induction a as [|y a IH]; intros [|z b] Hab; try reflexivity; try (cbn in Hab; discriminate).
    cbn in Hab. apply andb_prop in Hab. destruct Hab as [Hl Hab]. apply andb_prop in Hab. destruct Hab as [Hy Hab].
    apply Nat.eqb_eq in Hy. subst. f_equal. apply IH. rewrite Hl. exact Hab. }
  split; [apply Beq, Hfmt|]. split; [apply N.ltb_lt, Hlt|]. split; [exact Hev|].
  split; [split; [apply N.leb_le, Hge|apply N.leb_le, Hle]|]. split.
  - intros d Hd. rewrite forallb_forall in Hbits.
    assert (Hin : In d all_days) by (unfold all_days; apply in_seq; lia).
    specialize (Hbits d Hin). apply eqb_prop in Hbits. rewrite Hbits.
    (* testbit v d = memb l d *)
    unfold v. change 128 with (2^7). rewrite N.mod_pow2_bits_low by (change n_days with 7%nat in Hd; lia).
    unfold vec. rewrite testbit_vec. rewrite N.bits_0. reflexivity.
  - destruct (bit_summary_to_days (sum_bits (sub v))) as [l'|] eqn:Ed; [|discriminate].
    f_equal. apply Leq, Hdec.
Qed.
End Lift.

Lemma seq_unfold l : l <> [] ->
  weekdays_to_hexadecimal (ASeq l) = if nodupb l then Ok (fmt_02x (sum_bits l)) else Exc ValueError.
Proof. destruct l; [contradiction|reflexivity]. Qed.
Lemma set_unfold l : l <> [] -> weekdays_to_hexadecimal (ASet l) = Ok (fmt_02x (sum_bits l)).
Proof. destruct l; [contradiction|reflexivity]. Qed.

Theorem weekdays_encode_seq l : l <> [] -> NoDup l -> (forall d, In d l -> (d < n_days)%nat) ->
  weekdays_to_hexadecimal (ASeq l) = Ok (hexbyte (sum_bits l)).
Proof.
  intros Hne Hnd Hb. rewrite seq_unfold by exact Hne.
  replace (nodupb l) with true by (symmetry; apply nodupb_NoDup; exact Hnd).
  destruct (core_facts l Hne Hnd Hb) as [Hf _]. rewrite Hf. reflexivity.
Qed.
Theorem weekdays_encode_set l : l <> [] -> NoDup l -> (forall d, In d l -> (d < n_days)%nat) ->
  weekdays_to_hexadecimal (ASet l) = Ok (hexbyte (sum_bits l)).
Proof.
  intros Hne Hnd Hb. rewrite set_unfold by exact Hne.
  destruct (core_facts l Hne Hnd Hb) as [Hf _]. rewrite Hf. reflexivity.
Qed.
Theorem weekdays_reject_dup l : l <> [] -> ~ NoDup l -> weekdays_to_hexadecimal (ASeq l) = Exc ValueError.
Proof.
  intros Hne Hd. rewrite seq_unfold by exact Hne.
  destruct (nodupb l) eqn:En; [apply nodupb_NoDup in En; contradiction|reflexivity].
Qed.
Theorem weekdays_reject_empty : weekdays_to_hexadecimal (ASeq []) = Exc ValueError /\ weekdays_to_hexadecimal (ASet []) = Exc ValueError.
Proof. split; reflexivity. Qed.
Theorem mask_reject m : m < 2 \/ 254 < m -> bit_summary_to_days m = Exc ValueError.
Proof.
  intros H. unfold bit_summary_to_days.
  destruct (N.ltb_spec 1 m), (N.ltb_spec m 255); cbn [andb]; try reflexivity. lia.
Qed.
