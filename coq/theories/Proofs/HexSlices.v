Require Import AS.Base.Prelude AS.Base.Hex.
Open Scope N_scope.

Lemma unhexlify_skipn n : forall s bs, unhexlify s = Some bs ->
  unhexlify (skipn (2*n) s) = Some (skipn n bs).
Proof.
  induction n as [|n IH]; intros s bs H; [exact H|].
  replace (2 * S n)%nat with (S (S (2*n))) by lia.
  destruct s as [|c [|d r]].
  - inversion H; subst. reflexivity.
  - discriminate.
  - cbn [unhexlify] in H. destruct (nib_of_char c), (nib_of_char d); try discriminate.
    destruct (unhexlify r) as [b|] eqn:E; [|discriminate].
    replace bs with (16 * n0 + n1 :: b) by congruence. cbn [skipn]. apply IH. exact E.
Qed.

Lemma unhexlify_firstn n : forall s bs, unhexlify s = Some bs ->
  unhexlify (firstn (2*n) s) = Some (firstn n bs).
Proof.
  induction n as [|n IH]; intros s bs H; [reflexivity|].
  replace (2 * S n)%nat with (S (S (2*n))) by lia.
  destruct s as [|c [|d r]].
  - inversion H; subst. reflexivity.
  - discriminate.
  - cbn [unhexlify] in H. destruct (nib_of_char c) eqn:Ec, (nib_of_char d) eqn:Ed; try discriminate.
    destruct (unhexlify r) as [b|] eqn:E; [|discriminate].
    replace bs with (16 * n0 + n1 :: b) by congruence.
    cbn [firstn unhexlify]. rewrite Ec, Ed, (IH r b E). reflexivity.
Qed.

Lemma unhexlify_slice a b s bs : unhexlify s = Some bs ->
  unhexlify (pyslice (2*a) (2*b) s) = Some (pyslice a b bs).
Proof.
  intros H. unfold pyslice. replace (2*b - 2*a)%nat with (2*(b-a))%nat by lia.
  apply unhexlify_firstn, unhexlify_skipn, H.
Qed.

Lemma unhexlify_length s : forall bs, unhexlify s = Some bs -> length s = (2 * length bs)%nat.
Proof.
  assert (H : forall n s bs, (length s <= n)%nat -> unhexlify s = Some bs -> length s = (2 * length bs)%nat).
  { induction n as [|n IH]; intros s' bs Hl H.
    - destruct s'; [|cbn in Hl; lia]. inversion H. reflexivity.
    - destruct s' as [|c [|d r]]; [inversion H; reflexivity|discriminate|].
      cbn [unhexlify] in H. destruct (nib_of_char c), (nib_of_char d); try discriminate.
      destruct (unhexlify r) as [b|] eqn:E; [|discriminate].
      replace bs with (16 * n0 + n1 :: b) by congruence. cbn [length].
      rewrite (IH r b ltac:(cbn in Hl; lia) E). lia. }
  intros bs. apply (H (length s)). lia.
Qed.

Lemma unhexlify_total s : Forall (fun c => is_hexchar c = true) s -> Nat.even (length s) = true ->
  exists bs, unhexlify s = Some bs.
Proof.
  assert (H : forall n s, (length s <= n)%nat -> Forall (fun c => is_hexchar c = true) s ->
              Nat.even (length s) = true -> exists bs, unhexlify s = Some bs).
  { induction n as [|n IH]; intros s' Hl Hh He.
    - destruct s'; [exists []; reflexivity|cbn in Hl; lia].
    - destruct s' as [|c [|d r]]; [exists []; reflexivity|discriminate|].
      inversion Hh as [|? ? Hc Hh']; subst. inversion Hh' as [|? ? Hd Hr]; subst.
      unfold is_hexchar in Hc, Hd. cbn [unhexlify].
      destruct (nib_of_char c); [|discriminate]. destruct (nib_of_char d); [|discriminate].
      destruct (IH r ltac:(cbn in Hl; lia) Hr He) as [b Hb]. rewrite Hb. eexists. reflexivity. }
  apply (H (length s)). lia.
Qed.
